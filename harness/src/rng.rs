//! splitmix64: every random choice of a run derives from one state.

#[derive(Clone)]
pub struct Rng(pub u64);

impl Rng {
  pub fn new(seed: u64) -> Rng {
    Rng(seed.wrapping_mul(0x9E3779B97F4A7C15).wrapping_add(0x1234_5678_9ABC_DEF1))
  }
  pub fn next(&mut self) -> u64 {
    self.0 = self.0.wrapping_add(0x9E3779B97F4A7C15);
    let mut z = self.0;
    z = (z ^ (z >> 30)).wrapping_mul(0xBF58476D1CE4E5B9);
    z = (z ^ (z >> 27)).wrapping_mul(0x94D049BB133111EB);
    z ^ (z >> 31)
  }
  /// Uniform in `0..n` (n > 0).
  pub fn below(&mut self, n: u64) -> u64 {
    self.next() % n
  }
  pub fn range(&mut self, lo: i64, hi: i64) -> i64 {
    lo + (self.below((hi - lo + 1) as u64) as i64)
  }
  pub fn chance(&mut self, num: u64, den: u64) -> bool {
    self.below(den) < num
  }
  pub fn pick<'a, T>(&mut self, xs: &'a [T]) -> &'a T {
    &xs[self.below(xs.len() as u64) as usize]
  }
  pub fn fork(&mut self) -> Rng {
    Rng(self.next())
  }
}
