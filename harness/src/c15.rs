//! C15 — dates, date-times and durations follow the calendar and the UTC time line.
//!
//! Implementation: the FEEL evaluator over temporal values (`date(y,m,d)`, `.weekday`, `<`,
//! `=`, `in (< …)`, `-`, `years and months duration`, property access, duration arithmetic),
//! driven through FEEL text. Model: `Dmn.Temporal` (mirrors the code); specification:
//! `Dmn.Cal` (independent calendar), both through the driver.

use crate::c14::{feel, feel_list};
use crate::model::Model;
use crate::report::{Kind, Report};
use crate::rng::Rng;
use crate::sexp::Sexp;
use crate::Cfg;
use serde_json::json;

/// (zone, y, m, d, h, mi, s, offset seconds) computed with CPython zoneinfo from the system tzdata
/// (independent of chrono-tz) when this check was written; unambiguous local times only.
pub const ZONE_TABLE: [(&str, i32, u8, u8, u8, u8, u8, i32); 240] = [
  ("Europe/Warsaw", 2014, 5, 24, 16, 50, 44, 7200),
  ("Europe/Warsaw", 2022, 11, 17, 5, 53, 29, 3600),
  ("Europe/Warsaw", 1990, 11, 2, 10, 7, 23, 3600),
  ("Europe/Warsaw", 2005, 4, 13, 22, 6, 36, 7200),
  ("Europe/Warsaw", 1990, 1, 24, 11, 26, 17, 3600),
  ("Europe/Warsaw", 1986, 7, 6, 7, 8, 39, 7200),
  ("Europe/Warsaw", 2014, 8, 5, 9, 0, 55, 7200),
  ("Europe/Warsaw", 1975, 4, 25, 11, 10, 55, 3600),
  ("Europe/Warsaw", 1985, 5, 11, 11, 34, 56, 7200),
  ("Europe/Warsaw", 2018, 11, 7, 10, 44, 12, 3600),
  ("Europe/Warsaw", 1999, 5, 1, 16, 26, 10, 7200),
  ("Europe/Warsaw", 1984, 5, 3, 15, 19, 52, 7200),
  ("Europe/London", 2013, 10, 1, 15, 4, 19, 3600),
  ("Europe/London", 1997, 5, 16, 15, 11, 30, 3600),
  ("Europe/London", 2005, 12, 6, 6, 16, 1, 0),
  ("Europe/London", 2022, 6, 28, 17, 1, 35, 3600),
  ("Europe/London", 2001, 6, 13, 23, 53, 0, 3600),
  ("Europe/London", 2003, 1, 23, 10, 39, 12, 0),
  ("Europe/London", 1982, 4, 27, 19, 22, 32, 3600),
  ("Europe/London", 1997, 9, 9, 19, 6, 37, 3600),
  ("Europe/London", 2022, 6, 28, 14, 2, 27, 3600),
  ("Europe/London", 1980, 4, 11, 21, 39, 23, 3600),
  ("Europe/London", 1984, 6, 9, 22, 5, 19, 3600),
  ("Europe/London", 2018, 6, 10, 10, 51, 5, 3600),
  ("America/New_York", 2015, 3, 24, 14, 30, 10, -14400),
  ("America/New_York", 2021, 1, 3, 22, 59, 25, -18000),
  ("America/New_York", 1977, 4, 24, 16, 52, 16, -14400),
  ("America/New_York", 2004, 11, 14, 9, 3, 58, -18000),
  ("America/New_York", 2015, 1, 26, 20, 21, 53, -18000),
  ("America/New_York", 1988, 3, 24, 23, 8, 40, -18000),
  ("America/New_York", 2001, 2, 6, 18, 23, 9, -18000),
  ("America/New_York", 1978, 7, 10, 9, 29, 59, -14400),
  ("America/New_York", 2014, 3, 17, 19, 31, 44, -14400),
  ("America/New_York", 2021, 6, 16, 13, 18, 30, -14400),
  ("America/New_York", 2000, 3, 4, 17, 52, 34, -18000),
  ("America/New_York", 1986, 11, 16, 15, 11, 5, -18000),
  ("America/Vancouver", 2006, 5, 17, 22, 55, 32, -25200),
  ("America/Vancouver", 1998, 2, 26, 16, 44, 37, -28800),
  ("America/Vancouver", 2017, 1, 25, 14, 23, 35, -28800),
  ("America/Vancouver", 2020, 11, 9, 20, 16, 49, -28800),
  ("America/Vancouver", 2019, 12, 10, 15, 41, 11, -28800),
  ("America/Vancouver", 2012, 1, 16, 22, 49, 16, -28800),
  ("America/Vancouver", 1995, 11, 9, 19, 18, 52, -28800),
  ("America/Vancouver", 2007, 11, 22, 16, 22, 17, -28800),
  ("America/Vancouver", 2016, 6, 24, 18, 22, 59, -25200),
  ("America/Vancouver", 1986, 12, 15, 16, 21, 33, -28800),
  ("America/Vancouver", 1984, 9, 6, 11, 53, 23, -25200),
  ("America/Vancouver", 2005, 5, 23, 7, 46, 42, -25200),
  ("Asia/Kolkata", 2021, 7, 6, 23, 33, 42, 19800),
  ("Asia/Kolkata", 2001, 5, 20, 22, 49, 55, 19800),
  ("Asia/Kolkata", 2015, 5, 24, 5, 12, 10, 19800),
  ("Asia/Kolkata", 2012, 8, 20, 10, 14, 48, 19800),
  ("Asia/Kolkata", 2018, 3, 21, 6, 30, 14, 19800),
  ("Asia/Kolkata", 1985, 1, 5, 8, 20, 11, 19800),
  ("Asia/Kolkata", 2005, 4, 18, 6, 26, 29, 19800),
  ("Asia/Kolkata", 1997, 7, 22, 7, 37, 13, 19800),
  ("Asia/Kolkata", 1990, 12, 12, 5, 22, 25, 19800),
  ("Asia/Kolkata", 1992, 7, 28, 8, 44, 53, 19800),
  ("Asia/Kolkata", 2010, 6, 2, 22, 39, 19, 19800),
  ("Asia/Kolkata", 1981, 5, 18, 21, 21, 37, 19800),
  ("Asia/Tokyo", 1993, 6, 27, 9, 26, 26, 32400),
  ("Asia/Tokyo", 2011, 11, 18, 16, 29, 9, 32400),
  ("Asia/Tokyo", 1985, 10, 13, 23, 30, 12, 32400),
  ("Asia/Tokyo", 1983, 10, 3, 16, 52, 57, 32400),
  ("Asia/Tokyo", 2017, 1, 13, 8, 20, 36, 32400),
  ("Asia/Tokyo", 2014, 9, 5, 15, 40, 56, 32400),
  ("Asia/Tokyo", 2011, 7, 14, 18, 14, 31, 32400),
  ("Asia/Tokyo", 1993, 8, 23, 17, 24, 54, 32400),
  ("Asia/Tokyo", 1985, 10, 20, 13, 47, 19, 32400),
  ("Asia/Tokyo", 2006, 5, 14, 5, 20, 19, 32400),
  ("Asia/Tokyo", 2006, 5, 5, 20, 1, 7, 32400),
  ("Asia/Tokyo", 2017, 10, 15, 12, 18, 2, 32400),
  ("Australia/Sydney", 1983, 7, 1, 20, 34, 35, 36000),
  ("Australia/Sydney", 1992, 4, 16, 6, 15, 31, 36000),
  ("Australia/Sydney", 1992, 3, 24, 14, 18, 31, 36000),
  ("Australia/Sydney", 2013, 8, 17, 8, 1, 48, 36000),
  ("Australia/Sydney", 1983, 5, 10, 22, 45, 21, 36000),
  ("Australia/Sydney", 2014, 5, 24, 21, 1, 29, 36000),
  ("Australia/Sydney", 1997, 6, 22, 23, 8, 2, 36000),
  ("Australia/Sydney", 1975, 5, 18, 19, 43, 58, 36000),
  ("Australia/Sydney", 1981, 11, 18, 11, 0, 27, 39600),
  ("Australia/Sydney", 2002, 10, 19, 20, 54, 58, 36000),
  ("Australia/Sydney", 1999, 8, 13, 11, 57, 18, 36000),
  ("Australia/Sydney", 2004, 2, 10, 5, 44, 49, 39600),
  ("Pacific/Honolulu", 2002, 10, 10, 20, 58, 19, -36000),
  ("Pacific/Honolulu", 1984, 3, 16, 22, 56, 31, -36000),
  ("Pacific/Honolulu", 1996, 9, 5, 18, 37, 34, -36000),
  ("Pacific/Honolulu", 1978, 2, 24, 12, 17, 52, -36000),
  ("Pacific/Honolulu", 1980, 2, 22, 5, 21, 46, -36000),
  ("Pacific/Honolulu", 2002, 2, 13, 20, 3, 7, -36000),
  ("Pacific/Honolulu", 1982, 4, 20, 8, 45, 57, -36000),
  ("Pacific/Honolulu", 1983, 5, 23, 19, 9, 11, -36000),
  ("Pacific/Honolulu", 2014, 3, 14, 10, 4, 39, -36000),
  ("Pacific/Honolulu", 1988, 1, 18, 8, 42, 24, -36000),
  ("Pacific/Honolulu", 2022, 2, 9, 6, 36, 36, -36000),
  ("Pacific/Honolulu", 1982, 12, 13, 9, 0, 27, -36000),
  ("Africa/Johannesburg", 1980, 6, 22, 20, 31, 22, 7200),
  ("Africa/Johannesburg", 2016, 6, 2, 9, 44, 18, 7200),
  ("Africa/Johannesburg", 1984, 10, 21, 21, 18, 58, 7200),
  ("Africa/Johannesburg", 2010, 9, 20, 12, 16, 4, 7200),
  ("Africa/Johannesburg", 2010, 4, 9, 14, 33, 8, 7200),
  ("Africa/Johannesburg", 1990, 6, 15, 17, 11, 8, 7200),
  ("Africa/Johannesburg", 2020, 1, 21, 15, 5, 36, 7200),
  ("Africa/Johannesburg", 2017, 1, 3, 8, 32, 38, 7200),
  ("Africa/Johannesburg", 2004, 4, 13, 19, 30, 20, 7200),
  ("Africa/Johannesburg", 1981, 9, 1, 22, 46, 24, 7200),
  ("Africa/Johannesburg", 1978, 3, 14, 12, 47, 7, 7200),
  ("Africa/Johannesburg", 1980, 11, 16, 11, 8, 44, 7200),
  ("America/Sao_Paulo", 2014, 7, 12, 12, 18, 21, -10800),
  ("America/Sao_Paulo", 2014, 12, 12, 17, 24, 8, -7200),
  ("America/Sao_Paulo", 2021, 6, 21, 14, 51, 40, -10800),
  ("America/Sao_Paulo", 2002, 6, 17, 6, 37, 36, -10800),
  ("America/Sao_Paulo", 1988, 12, 6, 17, 4, 6, -7200),
  ("America/Sao_Paulo", 1977, 1, 6, 11, 12, 2, -10800),
  ("America/Sao_Paulo", 2006, 8, 22, 16, 0, 27, -10800),
  ("America/Sao_Paulo", 2005, 5, 20, 18, 20, 29, -10800),
  ("America/Sao_Paulo", 2004, 2, 7, 9, 41, 10, -7200),
  ("America/Sao_Paulo", 1979, 6, 28, 17, 55, 56, -10800),
  ("America/Sao_Paulo", 2005, 3, 18, 13, 7, 17, -10800),
  ("America/Sao_Paulo", 1985, 5, 22, 12, 2, 30, -10800),
  ("Asia/Kathmandu", 1977, 6, 25, 16, 20, 3, 19800),
  ("Asia/Kathmandu", 2019, 1, 22, 19, 30, 54, 20700),
  ("Asia/Kathmandu", 1984, 2, 26, 15, 18, 29, 19800),
  ("Asia/Kathmandu", 2018, 4, 24, 10, 2, 12, 20700),
  ("Asia/Kathmandu", 2020, 1, 19, 12, 42, 5, 20700),
  ("Asia/Kathmandu", 2014, 7, 23, 16, 43, 19, 20700),
  ("Asia/Kathmandu", 1986, 8, 12, 14, 4, 46, 20700),
  ("Asia/Kathmandu", 2020, 8, 6, 12, 11, 43, 20700),
  ("Asia/Kathmandu", 1988, 1, 21, 18, 46, 17, 20700),
  ("Asia/Kathmandu", 1975, 8, 2, 19, 49, 43, 19800),
  ("Asia/Kathmandu", 2001, 3, 2, 6, 35, 53, 20700),
  ("Asia/Kathmandu", 2008, 10, 12, 8, 45, 4, 20700),
  ("Europe/Moscow", 1990, 8, 3, 20, 3, 43, 14400),
  ("Europe/Moscow", 1990, 11, 2, 20, 25, 50, 10800),
  ("Europe/Moscow", 1978, 1, 9, 18, 28, 19, 10800),
  ("Europe/Moscow", 2015, 1, 2, 11, 11, 44, 10800),
  ("Europe/Moscow", 2007, 11, 13, 11, 34, 14, 10800),
  ("Europe/Moscow", 1980, 6, 26, 8, 5, 34, 10800),
  ("Europe/Moscow", 1985, 10, 3, 11, 39, 1, 10800),
  ("Europe/Moscow", 2003, 9, 12, 20, 27, 36, 14400),
  ("Europe/Moscow", 1999, 9, 21, 9, 46, 0, 14400),
  ("Europe/Moscow", 1994, 12, 15, 12, 35, 7, 10800),
  ("Europe/Moscow", 1983, 5, 16, 7, 49, 49, 14400),
  ("Europe/Moscow", 1991, 7, 11, 9, 8, 34, 10800),
  ("Pacific/Auckland", 1980, 8, 8, 7, 51, 27, 43200),
  ("Pacific/Auckland", 2011, 11, 8, 13, 3, 31, 46800),
  ("Pacific/Auckland", 2019, 4, 2, 11, 50, 18, 46800),
  ("Pacific/Auckland", 1998, 2, 3, 18, 49, 20, 46800),
  ("Pacific/Auckland", 1999, 9, 1, 14, 41, 48, 43200),
  ("Pacific/Auckland", 1983, 10, 1, 19, 9, 52, 43200),
  ("Pacific/Auckland", 2019, 11, 26, 5, 46, 3, 46800),
  ("Pacific/Auckland", 2019, 7, 9, 8, 51, 51, 43200),
  ("Pacific/Auckland", 1999, 9, 5, 15, 4, 19, 43200),
  ("Pacific/Auckland", 1985, 3, 9, 20, 43, 20, 43200),
  ("Pacific/Auckland", 1993, 1, 3, 22, 48, 47, 46800),
  ("Pacific/Auckland", 2010, 1, 1, 8, 3, 8, 46800),
  ("America/St_Johns", 1997, 7, 28, 13, 39, 1, -9000),
  ("America/St_Johns", 1989, 9, 14, 9, 23, 12, -9000),
  ("America/St_Johns", 1996, 6, 1, 10, 37, 39, -9000),
  ("America/St_Johns", 1985, 12, 4, 13, 33, 38, -12600),
  ("America/St_Johns", 1985, 11, 23, 9, 28, 48, -12600),
  ("America/St_Johns", 2002, 7, 4, 15, 20, 28, -9000),
  ("America/St_Johns", 1989, 8, 20, 18, 10, 28, -9000),
  ("America/St_Johns", 1978, 11, 6, 22, 30, 31, -12600),
  ("America/St_Johns", 2013, 1, 4, 9, 52, 54, -12600),
  ("America/St_Johns", 2001, 11, 2, 11, 0, 2, -12600),
  ("America/St_Johns", 2011, 4, 16, 16, 25, 29, -9000),
  ("America/St_Johns", 1988, 4, 9, 11, 19, 35, -5400),
  ("Etc/UTC", 2008, 6, 25, 12, 23, 22, 0),
  ("Etc/UTC", 1990, 11, 27, 6, 39, 31, 0),
  ("Etc/UTC", 2000, 6, 5, 9, 53, 15, 0),
  ("Etc/UTC", 2006, 7, 2, 8, 10, 25, 0),
  ("Etc/UTC", 1981, 12, 10, 11, 50, 51, 0),
  ("Etc/UTC", 1995, 8, 22, 20, 55, 34, 0),
  ("Etc/UTC", 2014, 2, 26, 11, 24, 44, 0),
  ("Etc/UTC", 1975, 2, 17, 23, 39, 11, 0),
  ("Etc/UTC", 1999, 1, 11, 5, 39, 19, 0),
  ("Etc/UTC", 2007, 7, 17, 20, 34, 45, 0),
  ("Etc/UTC", 2019, 7, 15, 23, 59, 59, 0),
  ("Etc/UTC", 2019, 9, 22, 6, 34, 9, 0),
  ("Asia/Tehran", 2001, 6, 19, 5, 43, 49, 16200),
  ("Asia/Tehran", 2008, 4, 10, 14, 4, 1, 16200),
  ("Asia/Tehran", 1980, 6, 20, 23, 55, 48, 16200),
  ("Asia/Tehran", 2020, 7, 10, 5, 17, 59, 16200),
  ("Asia/Tehran", 2020, 4, 3, 6, 48, 5, 16200),
  ("Asia/Tehran", 2017, 5, 12, 22, 13, 30, 16200),
  ("Asia/Tehran", 2008, 2, 4, 12, 21, 50, 12600),
  ("Asia/Tehran", 2009, 7, 13, 5, 42, 24, 16200),
  ("Asia/Tehran", 1999, 3, 25, 21, 57, 13, 16200),
  ("Asia/Tehran", 2018, 10, 11, 17, 20, 6, 12600),
  ("Asia/Tehran", 2019, 9, 23, 16, 15, 56, 12600),
  ("Asia/Tehran", 1981, 4, 10, 14, 51, 17, 12600),
  ("Australia/Lord_Howe", 2014, 2, 6, 7, 40, 26, 39600),
  ("Australia/Lord_Howe", 1986, 4, 21, 7, 36, 36, 37800),
  ("Australia/Lord_Howe", 2015, 11, 18, 18, 26, 14, 39600),
  ("Australia/Lord_Howe", 2002, 8, 17, 12, 19, 26, 37800),
  ("Australia/Lord_Howe", 1992, 2, 20, 15, 11, 26, 39600),
  ("Australia/Lord_Howe", 1976, 3, 4, 14, 36, 35, 36000),
  ("Australia/Lord_Howe", 2013, 10, 6, 18, 12, 20, 39600),
  ("Australia/Lord_Howe", 2013, 2, 21, 15, 46, 4, 39600),
  ("Australia/Lord_Howe", 1978, 8, 5, 21, 4, 20, 36000),
  ("Australia/Lord_Howe", 1987, 8, 21, 17, 59, 57, 37800),
  ("Australia/Lord_Howe", 1989, 12, 20, 20, 53, 6, 39600),
  ("Australia/Lord_Howe", 1975, 4, 22, 10, 7, 5, 36000),
  ("Pacific/Chatham", 1996, 3, 12, 8, 36, 48, 49500),
  ("Pacific/Chatham", 2003, 12, 11, 10, 45, 57, 49500),
  ("Pacific/Chatham", 2010, 10, 21, 8, 23, 6, 49500),
  ("Pacific/Chatham", 1979, 4, 7, 15, 23, 11, 45900),
  ("Pacific/Chatham", 2004, 11, 24, 7, 15, 25, 49500),
  ("Pacific/Chatham", 2009, 8, 13, 5, 7, 38, 45900),
  ("Pacific/Chatham", 1998, 3, 22, 5, 31, 24, 45900),
  ("Pacific/Chatham", 1996, 12, 3, 20, 48, 46, 49500),
  ("Pacific/Chatham", 2020, 5, 1, 8, 51, 30, 45900),
  ("Pacific/Chatham", 1997, 12, 7, 15, 24, 9, 49500),
  ("Pacific/Chatham", 1993, 8, 21, 7, 36, 7, 45900),
  ("Pacific/Chatham", 1993, 7, 11, 7, 33, 27, 45900),
  ("America/Caracas", 1978, 4, 14, 12, 17, 42, -14400),
  ("America/Caracas", 2021, 2, 5, 13, 6, 35, -14400),
  ("America/Caracas", 2005, 7, 6, 22, 54, 24, -14400),
  ("America/Caracas", 1990, 2, 15, 16, 8, 51, -14400),
  ("America/Caracas", 1980, 1, 27, 9, 23, 51, -14400),
  ("America/Caracas", 1976, 1, 9, 22, 29, 24, -14400),
  ("America/Caracas", 2008, 2, 2, 11, 12, 51, -16200),
  ("America/Caracas", 2003, 1, 16, 21, 5, 17, -14400),
  ("America/Caracas", 2013, 11, 16, 21, 1, 3, -16200),
  ("America/Caracas", 1985, 7, 25, 21, 27, 55, -14400),
  ("America/Caracas", 2012, 11, 21, 23, 2, 13, -16200),
  ("America/Caracas", 1976, 7, 25, 18, 51, 55, -14400),
  ("Europe/Lisbon", 2002, 7, 1, 10, 57, 21, 3600),
  ("Europe/Lisbon", 1984, 5, 25, 11, 27, 53, 3600),
  ("Europe/Lisbon", 1979, 6, 7, 17, 26, 12, 3600),
  ("Europe/Lisbon", 1992, 3, 16, 16, 18, 0, 0),
  ("Europe/Lisbon", 2017, 11, 4, 10, 48, 29, 0),
  ("Europe/Lisbon", 1979, 2, 22, 17, 2, 57, 0),
  ("Europe/Lisbon", 2001, 3, 7, 5, 47, 53, 0),
  ("Europe/Lisbon", 2006, 6, 20, 19, 8, 29, 3600),
  ("Europe/Lisbon", 1990, 2, 12, 5, 0, 11, 0),
  ("Europe/Lisbon", 2002, 2, 9, 9, 48, 41, 0),
  ("Europe/Lisbon", 1998, 6, 25, 11, 9, 18, 3600),
  ("Europe/Lisbon", 2008, 12, 18, 7, 18, 7, 0),
];


fn is_leap(y: i64) -> bool {
  y.rem_euclid(4) == 0 && (y.rem_euclid(100) != 0 || y.rem_euclid(400) == 0)
}

fn dim(y: i64, m: i64) -> i64 {
  match m {
    1 | 3 | 5 | 7 | 8 | 10 | 12 => 31,
    4 | 6 | 9 | 11 => 30,
    2 => {
      if is_leap(y) {
        29
      } else {
        28
      }
    }
    _ => 0,
  }
}

fn num(n: i64) -> String {
  // FEEL has no negative literals: `-5` is the negation of `5`
  format!("{}", n)
}

fn date_expr(y: i64, m: i64, d: i64) -> String {
  format!("date({},{},{})", num(y), num(m), num(d))
}

#[derive(Clone, Debug, PartialEq)]
enum Zone {
  Utc,
  Local,
  Offset(i64),
  Named(String),
}

#[derive(Clone, Debug)]
struct Dt {
  y: i64,
  m: i64,
  d: i64,
  h: i64,
  mi: i64,
  s: i64,
  ns: i64,
  z: Zone,
}

impl Zone {
  fn text(&self) -> String {
    match self {
      Zone::Utc => "Z".into(),
      Zone::Local => "".into(),
      Zone::Offset(o) => {
        let a = o.abs();
        let sign = if *o < 0 { '-' } else { '+' };
        if a % 60 != 0 {
          format!("{}{:02}:{:02}:{:02}", sign, a / 3600, a % 3600 / 60, a % 60)
        } else {
          format!("{}{:02}:{:02}", sign, a / 3600, a % 3600 / 60)
        }
      }
      Zone::Named(n) => format!("@{}", n),
    }
  }
  fn sexp(&self) -> String {
    match self {
      Zone::Utc => "utc".into(),
      Zone::Local => "local".into(),
      Zone::Offset(o) => format!("(offset {})", o),
      Zone::Named(n) => format!("(zone {})", Sexp::str(n)),
    }
  }
}

impl Dt {
  fn time_text(&self) -> String {
    let frac = if self.ns > 0 {
      let s = format!("{:09}", self.ns);
      format!(".{}", s.trim_end_matches('0'))
    } else {
      String::new()
    };
    format!("{:02}:{:02}:{:02}{}{}", self.h, self.mi, self.s, frac, self.z.text())
  }
  /// Built from a date made of numbers (any year) and a time literal.
  fn expr(&self) -> String {
    format!("date and time({}, time(\"{}\"))", date_expr(self.y, self.m, self.d), self.time_text())
  }
  fn fields(&self) -> String {
    format!("{} {} {} {} {} {} {} {}", self.y, self.m, self.d, self.h, self.mi, self.s, self.ns, self.z.sexp())
  }
  fn obs(&self) -> String {
    format!("(dt {})", self.fields())
  }
}

fn classify_year(y: i64) -> &'static str {
  if y.abs() > 262_143 {
    "year:beyond-chrono"
  } else if y < 0 {
    "year:negative"
  } else if y < 1000 {
    "year:0..999"
  } else if y <= 2400 {
    "year:1000..2400"
  } else {
    "year:2401..262142"
  }
}

/// Decimal `c · 10^e` as FEEL text.
pub fn dec_text(c: i128, e: i32) -> String {
  let neg = c < 0;
  let digits = c.abs().to_string();
  let body = if e >= 0 {
    format!("{}{}", digits, "0".repeat(e as usize))
  } else {
    let k = (-e) as usize;
    if digits.len() > k {
      format!("{}.{}", &digits[..digits.len() - k], &digits[digits.len() - k..])
    } else {
      format!("0.{}{}", "0".repeat(k - digits.len()), digits)
    }
  };
  if neg {
    format!("-{}", body)
  } else {
    body
  }
}

fn parse_pair(ans: &str) -> Option<(Sexp, Sexp)> {
  match Sexp::parse(ans)?.as_list()? {
    [a, b] => Some((a.clone(), b.clone())),
    _ => None,
  }
}

fn field(s: &Sexp, tag: &str) -> Option<String> {
  for p in s.as_list()? {
    if let Some(l) = p.as_list() {
      if l.first().and_then(|x| x.as_atom()) == Some(tag) {
        return Some(l[1..].iter().map(|x| x.to_string()).collect::<Vec<_>>().join(" "));
      }
    }
  }
  None
}

fn norm_panic(s: &str) -> String {
  if s.starts_with("(panic") {
    "panic".to_string()
  } else {
    s.to_string()
  }
}

struct Ctx<'a> {
  rep: &'a mut Report,
  model: &'a mut Model,
}

// ---------------------------------------------------------------------------------------------
// family 1: validity, weekday, day number (dates from numbers, any year)

fn run_dates(cx: &mut Ctx, dates: &[(i64, i64, i64)]) {
  let reqs: Vec<String> = dates.iter().map(|(y, m, d)| format!("(c15 date {} {} {})", y, m, d)).collect();
  let answers = cx.model.ask_batch(&reqs);
  for (((y, m, d), req), ans) in dates.iter().zip(reqs.iter()).zip(answers.iter()) {
    let (y, m, d) = (*y, *m, *d);
    let e = date_expr(y, m, d);
    let obs = feel_list(&format!("{{x: {}, r: [x, x.weekday, x.year, x.month, x.day]}}.r", e));
    let valid_impl = obs.first().map(|s| s.starts_with("(date")).unwrap_or(false);
    let weekday_impl = match obs.get(1).map(|s| s.as_str()) {
      Some(s) if s.starts_with("(n ") => s[3..s.len() - 1].to_string(),
      _ => "none".to_string(),
    };
    // the literal route (`is_valid_date` alone), where the literal grammar can write the date
    let lit_obs = if (1000..=999_999_999).contains(&y.abs()) && (0..100).contains(&m) && (0..100).contains(&d) {
      let t = format!("date(\"{}{}-{:02}-{:02}\")", if y < 0 { "-" } else { "" }, y.abs(), m, d);
      Some((feel(&t).starts_with("(date"), t))
    } else {
      None
    };
    let nontrivial = m >= 1 && m <= 12 && d >= 28 || d == 1 || d == 0;
    cx.rep.case(req, nontrivial);
    cx.rep.hit(classify_year(y));
    cx.rep.hit(if valid_impl { "date:accepted" } else { "date:rejected" });
    let (mo, sp) = match parse_pair(ans) {
      Some(p) => p,
      None => {
        cx.rep.disagree(Kind::ImplVsModel, "date", "driver-error", req, &obs.join(" "), ans);
        continue;
      }
    };
    let m_valid = field(&mo, "valid").unwrap_or_default() == "true";
    let m_weekday = field(&mo, "weekday").unwrap_or_default();
    let s_valid = field(&sp, "valid").unwrap_or_default() == "true";
    let s_weekday = field(&sp, "weekday").unwrap_or_default();
    let s_back = field(&sp, "back").unwrap_or_default();
    if valid_impl != m_valid {
      cx.rep.disagree(Kind::ImplVsModel, "valid_iff", "date validity differs from the model", &e, &valid_impl.to_string(), &m_valid.to_string());
    }
    if let Some((lv, t)) = &lit_obs {
      let m_lit = field(&mo, "lit").unwrap_or_default() == "true";
      if *lv != m_lit {
        cx.rep.disagree(Kind::ImplVsModel, "valid_iff", "date literal validity differs from the model", t, &lv.to_string(), &m_lit.to_string());
      }
      if *lv != s_valid {
        let sig = if d == 0 && *lv { "C15 date validity: day 0 is accepted" } else { "C15 date validity differs from the calendar" };
        cx.rep.disagree(Kind::ImplVsSpec, "valid_iff", sig, t, &lv.to_string(), &s_valid.to_string());
      }
    }
    if valid_impl && weekday_impl != m_weekday {
      cx.rep.disagree(Kind::ImplVsModel, "weekday_eq", "weekday differs from the model", &e, &weekday_impl, &m_weekday);
    }
    // the property itself: validity and weekday as the calendar says
    if valid_impl != s_valid {
      let sig = if d == 0 && valid_impl { "C15 date validity: day 0 is accepted" } else { "C15 date validity differs from the calendar" };
      cx.rep.disagree(Kind::ImplVsSpec, "valid_iff", sig, &e, &valid_impl.to_string(), &s_valid.to_string());
    }
    if valid_impl && s_valid {
      if weekday_impl != s_weekday {
        let sig = if y.abs() > 262_142 { "C15 weekday of a date beyond chrono's year range is null" } else { "C15 weekday differs from the calendar" };
        cx.rep.disagree(Kind::ImplVsSpec, "weekday_eq", sig, &format!("{}.weekday", e), &weekday_impl, &s_weekday);
      }
      // the calendar's own round trip, on the running driver
      if s_back != format!("{} {} {}", y, m, d) {
        cx.rep.disagree(Kind::ImplVsModel, "civil_roundtrip", "driver: civilFromDays(daysFromCivil) differs", req, &s_back, "");
      }
      // property access on dates
      let props = format!("{} {} {}", obs.get(2).cloned().unwrap_or_default(), obs.get(3).cloned().unwrap_or_default(), obs.get(4).cloned().unwrap_or_default());
      let want = format!("(n {}) (n {}) (n {})", y, m, d);
      if props != want {
        cx.rep.disagree(Kind::ImplVsSpec, "property_access", "C15 year/month/day of a date differ from its components", &e, &props, &want);
      }
    }
    if nontrivial && valid_impl && cx.rep.samples.len() < 3 {
      cx.rep.sample(json!({"expression": e, "implementation": obs, "model_and_spec": ans}));
    }
  }
}

// ---------------------------------------------------------------------------------------------
// family 2: date(y, m, d) with narrowing conversions

fn run_fromnum(cx: &mut Ctx, rng: &mut Rng, n: usize) {
  let mut cases: Vec<[(i128, i32); 3]> = vec![];
  // corpus: the pre-observed ones
  cases.push([(2021, 0), (15, -1), (5, -1)]);
  cases.push([(2021, 0), (257, 0), (1, 0)]);
  cases.push([(2021, 0), (1, 0), (257, 0)]);
  cases.push([(3_000_000_000, 0), (1, 0), (1, 0)]);
  cases.push([(2021, 0), (2, 0), (29, 0)]);
  cases.push([(2020, 0), (2, 0), (29, 0)]);
  cases.push([(2021, 0), (0, 0), (1, 0)]);
  cases.push([(2021, 0), (-1, 0), (1, 0)]);
  cases.push([(2021, 0), (13, 0), (1, 0)]);
  cases.push([(2021, 0), (4, 0), (31, 0)]);
  cases.push([(20215, -1), (4, 0), (3, 0)]);
  cases.push([(1_000_000_000, 0), (1, 0), (1, 0)]);
  cases.push([(-1_000_000_000, 0), (1, 0), (1, 0)]);
  cases.push([(999_999_999, 0), (12, 0), (31, 0)]);
  cases.push([(2021, 0), (4294967297, 0), (1, 0)]);
  cases.push([(2021, 0), (1, 0), (4294967297, 0)]);
  cases.push([(2, 3), (1, 0), (1, 0)]);
  for _ in 0..n {
    let mut comp = |rng: &mut Rng, kind: usize| -> (i128, i32) {
      let base: i128 = match kind {
        0 => match rng.below(8) {
          0 => rng.range(-3, 3) as i128,
          1 => rng.range(1900, 2100) as i128,
          2 => rng.range(-262_200, 262_200) as i128,
          3 => rng.range(-1_000_000_100, 1_000_000_100) as i128,
          4 => (rng.range(-3, 3) as i128) + 2_147_483_648,
          5 => (rng.range(-3, 3) as i128) - 2_147_483_648,
          6 => rng.range(2_147_483_000, 9_999_999_999) as i128,
          _ => rng.range(1000, 9999) as i128,
        },
        _ => match rng.below(7) {
          0 => rng.range(-2, 2) as i128,
          1 | 2 => rng.range(1, if kind == 1 { 13 } else { 32 }) as i128,
          3 => rng.range(250, 290) as i128,
          4 => 256 * rng.range(1, 5) as i128 + rng.range(0, 31) as i128,
          5 => 4_294_967_296i128 + rng.range(-2, 31) as i128,
          _ => rng.range(1, 31) as i128,
        },
      };
      match rng.below(6) {
        0 => (base * 10 + 5, -1),               // x.5
        1 => (base * 100 + rng.range(1, 99) as i128, -2),
        2 => (base * 10, -1),                   // integral with a fraction digit
        _ => (base, 0),
      }
    };
    cases.push([comp(rng, 0), comp(rng, 1), comp(rng, 2)]);
  }
  let reqs: Vec<String> = cases
    .iter()
    .map(|c| format!("(c15 fromnum ({} {}) ({} {}) ({} {}))", c[0].0, c[0].1, c[1].0, c[1].1, c[2].0, c[2].1))
    .collect();
  let answers = cx.model.ask_batch(&reqs);
  for ((c, req), ans) in cases.iter().zip(reqs.iter()).zip(answers.iter()) {
    let e = format!("date({},{},{})", dec_text(c[0].0, c[0].1), dec_text(c[1].0, c[1].1), dec_text(c[2].0, c[2].1));
    let obs = norm_panic(&feel(&e));
    cx.rep.case(req, true);
    cx.rep.hit(if obs == "null" { "fromnum:null" } else { "fromnum:date" });
    let (mo, sp) = match parse_pair(ans) {
      Some(p) => (p.0.to_string(), p.1.to_string()),
      None => {
        cx.rep.disagree(Kind::ImplVsModel, "fromnum", "driver-error", req, &obs, ans);
        continue;
      }
    };
    if obs != mo {
      cx.rep.disagree(Kind::ImplVsModel, "date_from_numbers", "date(y,m,d) differs from the model", &e, &obs, &mo);
    }
    if obs != sp {
      let integral = |x: &(i128, i32)| x.1 >= 0 || x.0 % 10i128.pow((-x.1) as u32) == 0;
      let val = |x: &(i128, i32)| if x.1 >= 0 { x.0 * 10i128.pow(x.1 as u32) } else { x.0 / 10i128.pow((-x.1) as u32) };
      let sig = if !(integral(&c[0]) && integral(&c[1]) && integral(&c[2])) {
        "C15 date(y,m,d): a fractional component is rounded half-even instead of rejected"
      } else if val(&c[1]) > 255 || val(&c[2]) > 255 {
        "C15 date(y,m,d): month or day above 255 is narrowed modulo 256 (as u8)"
      } else if val(&c[0]) > 2_147_483_647 || val(&c[0]) < -2_147_483_648 {
        "C15 date(y,m,d): a year outside i32 becomes year 0"
      } else {
        "C15 date(y,m,d) differs from the calendar"
      };
      cx.rep.disagree(Kind::ImplVsSpec, "date_from_numbers_rejects", sig, &e, &obs, &sp);
    }
    if cx.rep.samples.len() < 5 && obs != "null" {
      cx.rep.sample(json!({"expression": e, "implementation": obs, "model_and_spec": ans}));
    }
  }
}

// ---------------------------------------------------------------------------------------------
// family 3: order of dates

fn run_dcmp(cx: &mut Ctx, pairs: &[((i64, i64, i64), (i64, i64, i64))]) {
  let reqs: Vec<String> = pairs.iter().map(|(a, b)| format!("(c15 dcmp {} {} {} {} {} {})", a.0, a.1, a.2, b.0, b.1, b.2)).collect();
  let answers = cx.model.ask_batch(&reqs);
  for (((a, b), req), ans) in pairs.iter().zip(reqs.iter()).zip(answers.iter()) {
    let (ea, eb) = (date_expr(a.0, a.1, a.2), date_expr(b.0, b.1, b.2));
    let e = format!("{{a: {}, b: {}, r: [a < b, a <= b, a > b, a >= b, a = b, a in (< b), a between a and b, a in [a..b]]}}.r", ea, eb);
    let obs = feel_list(&e);
    cx.rep.case(req, a != b);
    cx.rep.hit(classify_year(a.0));
    if obs.len() != 8 {
      // one of the two is not a date for the implementation (day out of range): nothing to compare
      cx.rep.hit("dcmp:not-a-date");
      continue;
    }
    let parsed = Sexp::parse(ans);
    let l = match parsed.as_ref().and_then(|s| s.as_list()) {
      Some([m, s, _]) => (m.to_string(), s.to_string()),
      _ => {
        cx.rep.disagree(Kind::ImplVsModel, "dcmp", "driver-error", req, &obs.join(" "), ans);
        continue;
      }
    };
    let five = format!("({})", obs[..5].join(" "));
    if five != l.0 {
      cx.rep.disagree(Kind::ImplVsModel, "date_order_iff", "date comparison differs from the model", &e, &five, &l.0);
    }
    if five != l.1 {
      let sig = if a.0.abs() > 262_142 || b.0.abs() > 262_142 { "C15 date order beyond chrono's year range" } else { "C15 date order differs from the calendar" };
      cx.rep.disagree(Kind::ImplVsSpec, "date_order_iff", sig, &e, &five, &l.1);
    }
    // the other routes to the same order must agree with `<` and `<=`
    if obs[5] != obs[0] || obs[6] != obs[1] || obs[7] != obs[1] {
      cx.rep.disagree(Kind::ImplVsSpec, "date_order_iff", "C15 date order: `in (< b)`, `between`, `in [a..b]` disagree with `<`/`<=`", &e, &obs.join(" "), "");
    }
  }
}

// ---------------------------------------------------------------------------------------------
// family 4: date-times: comparison, subtraction, property access

/// Evaluates the date-time and checks that the value is the intended one (a time literal with a
/// fraction goes through f64 in the code: C14's concern; such cases are skipped here).
fn constructed_ok(cx: &mut Ctx, x: &Dt) -> bool {
  let o = feel(&x.expr());
  if o == x.obs() {
    true
  } else {
    // the literal does not denote the date and time that was written (since the repair of the fraction
    // conversion, ade63ff in /repo, no construction differs on the pinned tree): the case cannot be used for the
    // calendar laws, and the difference itself is reported
    cx.rep.hit("skipped:construction-differs");
    cx.rep.disagree(
      Kind::ImplVsSpec,
      "construction",
      "C15 a date and time literal does not denote the written date, time and offset",
      &x.expr(),
      &o,
      &x.obs(),
    );
    false
  }
}

/// The oracle offset of a named zone at this local time, as the implementation reports it
/// (`.time offset`); `none` for fixed zones.
fn oracle_of(x: &Dt) -> String {
  match &x.z {
    Zone::Named(_) => match norm_panic(&feel(&format!("({}).time offset", x.expr()))).as_str() {
      s if s.starts_with("(dtd ") => {
        let n: i128 = s[5..s.len() - 1].parse().unwrap_or(0);
        format!("{}", n / 1_000_000_000)
      }
      _ => "none".to_string(),
    },
    _ => "none".to_string(),
  }
}

fn run_dt_pairs(cx: &mut Ctx, pairs: &[(Dt, Dt)]) {
  let mut live: Vec<(&Dt, &Dt, String, String)> = vec![];
  for (a, b) in pairs {
    if constructed_ok(cx, a) && constructed_ok(cx, b) {
      live.push((a, b, oracle_of(a), oracle_of(b)));
    }
  }
  let mut reqs = vec![];
  for (a, b, oa, ob) in &live {
    reqs.push(format!("(c15 cmp ({}) {} ({}) {})", a.fields(), oa, b.fields(), ob));
    reqs.push(format!("(c15 sub ({}) {} ({}) {})", a.fields(), oa, b.fields(), ob));
  }
  let answers = cx.model.ask_batch(&reqs);
  for (i, (a, b, _, _)) in live.iter().enumerate() {
    let (req_c, req_s) = (&reqs[2 * i], &reqs[2 * i + 1]);
    let (ans_c, ans_s) = (&answers[2 * i], &answers[2 * i + 1]);
    let e = format!("{{a: {}, b: {}, r: [a = b, a in (< b), a in (> b), a - b, a < b, a between a and b]}}.r", a.expr(), b.expr());
    let obs = feel_list(&e);
    let beyond = a.y.abs() >= 262_142 || b.y.abs() >= 262_142;
    cx.rep.case(req_c, true);
    cx.rep.hit(match (&a.z, &b.z) {
      (Zone::Named(_), _) | (_, Zone::Named(_)) => "dt:named-zone",
      (Zone::Utc, Zone::Utc) => "dt:utc-utc",
      _ => "dt:offsets",
    });
    let (icmp, isub, ilt_op, ile) = if obs.len() == 6 {
      let c = match (obs[0].as_str(), obs[1].as_str(), obs[2].as_str()) {
        ("true", "false", "false") => "eq",
        ("false", "true", "false") => "lt",
        ("false", "false", "true") => "gt",
        ("null", "null", "null") => "none",
        _ => "inconsistent",
      };
      let s = if obs[3].starts_with("(dtd ") { obs[3][5..obs[3].len() - 1].to_string() } else { "none".to_string() };
      (c.to_string(), s, obs[4].clone(), obs[5].clone())
    } else {
      ("panic".to_string(), "panic".to_string(), "panic".into(), "panic".into())
    };
    let (mc, sc) = match parse_pair(ans_c) {
      Some(p) => (p.0.to_string(), p.1.to_string()),
      None => {
        cx.rep.disagree(Kind::ImplVsModel, "cmp", "driver-error", req_c, &obs.join(" "), ans_c);
        continue;
      }
    };
    let (ms, ss) = match parse_pair(ans_s) {
      Some(p) => (p.0.to_string(), p.1.to_string()),
      None => {
        cx.rep.disagree(Kind::ImplVsModel, "sub", "driver-error", req_s, &obs.join(" "), ans_s);
        continue;
      }
    };
    if icmp != mc {
      cx.rep.disagree(Kind::ImplVsModel, "datetime_compare_instant", "date-time comparison differs from the model", &e, &icmp, &mc);
    }
    if isub != ms {
      cx.rep.disagree(Kind::ImplVsModel, "datetime_sub_exact", "date-time subtraction differs from the model", &e, &isub, &ms);
    }
    if sc != "none" {
      if icmp != sc {
        let sig = if icmp == "panic" {
          "C15 date-time comparison panics"
        } else if beyond {
          "C15 date-time comparison beyond chrono's year range is null"
        } else {
          "C15 date-time comparison differs from the order of instants"
        };
        cx.rep.disagree(Kind::ImplVsSpec, "datetime_compare_instant", sig, &e, &icmp, &sc);
      }
      if isub != ss {
        let big = ss.parse::<i128>().map(|n| n > i64::MAX as i128 || n < i64::MIN as i128).unwrap_or(false);
        let sig = if isub == "panic" {
          "C15 date-time subtraction panics"
        } else if beyond {
          "C15 date-time subtraction beyond chrono's year range is null"
        } else if big {
          "C15 date-time subtraction of more than i64 nanoseconds (about 292 years) is null"
        } else {
          "C15 date-time subtraction differs from the difference of instants"
        };
        cx.rep.disagree(Kind::ImplVsSpec, "datetime_sub_exact", sig, &e, &isub, &ss);
      }
      // the operator `<` and `between` on date-times
      let want_lt = if sc == "lt" { "true" } else { "false" };
      if ilt_op != want_lt && !beyond && icmp != "panic" {
        cx.rep.disagree(Kind::ImplVsSpec, "datetime_compare_instant", "C15 operator < on two date-times is null", &format!("{} < {}", a.expr(), b.expr()), &ilt_op, want_lt);
      }
      let want_le = if sc == "lt" || sc == "eq" { "true" } else { "false" };
      if ile != want_le && !beyond && icmp != "panic" {
        cx.rep.disagree(Kind::ImplVsSpec, "datetime_compare_instant", "C15 between on date-times differs from the order of instants", &e, &ile, want_le);
      }
    }
    if cx.rep.samples.len() < 8 && icmp != "none" {
      cx.rep.sample(json!({"expression": e, "implementation": obs, "cmp model/spec": ans_c, "sub model/spec": ans_s}));
    }
  }
}

/// Local times that do not exist or exist twice in a named zone (outside the property's
/// quantifier, but the offset lookup panics instead of answering null: finding F6).
fn run_zone_gaps(cx: &mut Ctx) {
  let cases = [
    ("2021-03-28T02:30:00@Europe/Warsaw", "nonexistent"),
    ("2021-10-31T02:30:00@Europe/Warsaw", "ambiguous"),
    ("2021-03-14T02:30:00@America/New_York", "nonexistent"),
    ("2021-11-07T01:30:00@America/New_York", "ambiguous"),
  ];
  for (t, kind) in cases {
    let e = format!("date and time(\"{}\") = date and time(\"{}\")", t, t);
    let o = norm_panic(&feel(&e));
    cx.rep.case(&e, true);
    cx.rep.hit(&format!("zone-gap:{}", kind));
    if o == "panic" {
      cx.rep.disagree(Kind::ImplVsSpec, "datetime_compare_instant", "C15 named zone: a nonexistent or ambiguous local time panics in get_zone_offset", &e, "panic", "null or a boolean");
    }
  }
}

fn run_zone_gap_rows(cx: &mut Ctx, rows: &[(String, String)]) {
  for (t, kind) in rows {
    let e = format!("[date and time(\"{}\") = date and time(\"{}\"), date and time(\"{}\").time offset]", t, t, t);
    let o = norm_panic(&feel(&e));
    cx.rep.case(&e, true);
    cx.rep.hit(&format!("zone-gap-table:{}", kind));
    if o == "panic" {
      cx.rep.disagree(Kind::ImplVsSpec, "datetime_compare_instant", "C15 named zone: a nonexistent or ambiguous local time panics in get_zone_offset", &e, "panic", "null or a value");
    }
  }
}

fn run_props(cx: &mut Ctx, dts: &[Dt], table_offset: &[Option<i64>]) {
  let mut live: Vec<(&Dt, String, Option<i64>)> = vec![];
  for (x, t) in dts.iter().zip(table_offset.iter()) {
    if constructed_ok(cx, x) {
      live.push((x, oracle_of(x), *t));
    }
  }
  let reqs: Vec<String> = live.iter().map(|(x, o, _)| format!("(c15 prop ({}) {})", x.fields(), o)).collect();
  let answers = cx.model.ask_batch(&reqs);
  for (((x, o, t), req), ans) in live.iter().zip(reqs.iter()).zip(answers.iter()) {
    let e = format!("{{a: {}, r: [a.year, a.month, a.day, a.hour, a.minute, a.second, a.time offset, a.timezone]}}.r", x.expr());
    let obs = feel_list(&e);
    cx.rep.case(req, true);
    cx.rep.hit("prop");
    let render = |s: &str| -> String {
      if s.starts_with("(n ") {
        s[3..s.len() - 1].to_string()
      } else if s.starts_with("(dtd ") {
        let n: i128 = s[5..s.len() - 1].parse().unwrap_or(0);
        format!("{}", n / 1_000_000_000)
      } else if s == "null" {
        "none".to_string()
      } else {
        s.to_string()
      }
    };
    let got = format!("({})", obs.iter().map(|s| render(s)).collect::<Vec<_>>().join(" "));
    if &got != ans {
      cx.rep.disagree(Kind::ImplVsModel, "property_access", "date-time property access differs from the model", &e, &got, ans);
    }
    // against the written components (the property), and the zone offset against zoneinfo
    let want_off = match &x.z {
      Zone::Utc => "0".to_string(),
      Zone::Local => "none".to_string(),
      Zone::Offset(n) => n.to_string(),
      Zone::Named(_) => t.map(|v| v.to_string()).unwrap_or_else(|| o.clone()),
    };
    let want_tz = match &x.z {
      Zone::Named(n) => Sexp::str(n).to_string(),
      _ => "none".to_string(),
    };
    let want = format!("({} {} {} {} {} {} {} {})", x.y, x.m, x.d, x.h, x.mi, x.s, want_off, want_tz);
    if got != want {
      let sig = if let (Zone::Named(_), Some(_)) = (&x.z, t) {
        if o != &want_off { "C15 named-zone offset differs from zoneinfo" } else { "C15 date-time properties differ from the components" }
      } else {
        "C15 date-time properties differ from the components"
      };
      cx.rep.disagree(Kind::ImplVsSpec, "property_access", sig, &e, &got, &want);
    }
  }
}

// ---------------------------------------------------------------------------------------------
// family 5: whole months between two dates

fn run_ym(cx: &mut Ctx, pairs: &[((i64, i64, i64), (i64, i64, i64))]) {
  let reqs: Vec<String> = pairs.iter().map(|(a, b)| format!("(c15 ym {} {} {} {} {} {})", a.0, a.1, a.2, b.0, b.1, b.2)).collect();
  let answers = cx.model.ask_batch(&reqs);
  for (((a, b), req), ans) in pairs.iter().zip(reqs.iter()).zip(answers.iter()) {
    let e = format!("years and months duration({}, {})", date_expr(a.0, a.1, a.2), date_expr(b.0, b.1, b.2));
    let obs = norm_panic(&feel(&e));
    cx.rep.case(req, a != b);
    cx.rep.hit(if a.0 == b.0 { "ym:same-year" } else { "ym:different-years" });
    let got = if obs.starts_with("(ymd ") { obs[5..obs.len() - 1].to_string() } else { obs.clone() };
    let (mo, sp) = match parse_pair(ans) {
      Some(p) => (p.0.to_string(), p.1.to_string()),
      None => {
        cx.rep.disagree(Kind::ImplVsModel, "ym", "driver-error", req, &obs, ans);
        continue;
      }
    };
    if got != mo {
      cx.rep.disagree(Kind::ImplVsModel, "ym_whole_months", "years and months duration differs from the model", &e, &got, &mo);
    }
    if got != sp {
      let sig = if a.0 == b.0 && b < a {
        "C15 years and months duration: same year, `to` before `from`"
      } else {
        "C15 years and months duration is not the number of whole months"
      };
      cx.rep.disagree(Kind::ImplVsSpec, "ym_whole_months", sig, &e, &got, &sp);
    }
    if cx.rep.samples.len() < 10 && a.0 != b.0 {
      cx.rep.sample(json!({"expression": e, "implementation": obs, "model_and_spec": ans}));
    }
  }
}

// ---------------------------------------------------------------------------------------------
// family 6: durations: components and arithmetic

fn dtd_text(n: i128) -> String {
  let a = n.abs();
  let (secs, ns) = (a / 1_000_000_000, a % 1_000_000_000);
  let frac = if ns > 0 { format!(".{}", format!("{:09}", ns).trim_end_matches('0')) } else { String::new() };
  format!("duration(\"{}PT{}{}S\")", if n < 0 { "-" } else { "" }, secs, frac)
}

fn ymd_text(n: i64) -> String {
  format!("duration(\"{}P{}M\")", if n < 0 { "-" } else { "" }, n.abs())
}

fn dtd_ok(cx: &mut Ctx, n: i128) -> bool {
  if feel(&dtd_text(n)) == format!("(dtd {})", n) {
    true
  } else {
    cx.rep.hit("skipped:construction-differs");
    cx.rep.disagree(
      Kind::ImplVsSpec,
      "construction",
      "C15 a days and time duration literal does not denote the written length",
      &dtd_text(n),
      &feel(&dtd_text(n)),
      &format!("(dtd {})", n),
    );
    false
  }
}

fn num_of(s: &str) -> String {
  if s.starts_with("(n ") {
    s[3..s.len() - 1].to_string()
  } else if s.starts_with("(dtd ") {
    s[5..s.len() - 1].to_string()
  } else if s.starts_with("(ymd ") {
    s[5..s.len() - 1].to_string()
  } else if s == "null" {
    "none".to_string()
  } else {
    s.to_string()
  }
}

fn run_durations(cx: &mut Ctx, dtds: &[i128], ymds: &[i64], dtd_pairs: &[(i128, i128)], ymd_pairs: &[(i64, i64)]) {
  // components
  let dtds: Vec<i128> = dtds.iter().cloned().filter(|n| dtd_ok(cx, *n)).collect();
  let reqs: Vec<String> = dtds.iter().map(|n| format!("(c15 dtd {})", n)).collect();
  let answers = cx.model.ask_batch(&reqs);
  for ((n, req), ans) in dtds.iter().zip(reqs.iter()).zip(answers.iter()) {
    let e = format!("{{a: {}, r: [a.days, a.hours, a.minutes, a.seconds]}}.r", dtd_text(*n));
    let obs = feel_list(&e);
    cx.rep.case(req, *n != 0);
    cx.rep.hit(if *n < 0 { "dtd:negative" } else { "dtd:non-negative" });
    let got = format!("({})", obs.iter().map(|s| num_of(s)).collect::<Vec<_>>().join(" "));
    let (mo, _sp) = match parse_pair(ans) {
      Some(p) => (p.0.to_string(), p.1.to_string()),
      None => {
        cx.rep.disagree(Kind::ImplVsModel, "dtd", "driver-error", req, &got, ans);
        continue;
      }
    };
    if got != mo {
      cx.rep.disagree(Kind::ImplVsModel, "dur_components_sum", "duration components differ from the model", &e, &got, &mo);
    }
    // the law, on the implementation's own answers: in range, and they add up to |n| (whole seconds)
    let v: Vec<i128> = obs.iter().map(|s| num_of(s).parse::<i128>().unwrap_or(-1)).collect();
    let ok = v.len() == 4
      && v[1] >= 0 && v[1] < 24 && v[2] >= 0 && v[2] < 60 && v[3] >= 0 && v[3] < 60 && v[0] >= 0
      && ((v[0] * 24 + v[1]) * 60 + v[2]) * 60 + v[3] == n.abs() / 1_000_000_000;
    if !ok {
      cx.rep.disagree(Kind::ImplVsSpec, "dur_components_sum", "C15 days/hours/minutes/seconds do not add up to the duration", &e, &got, &format!("|{}| ns", n));
    }
    if cx.rep.samples.len() < 11 && *n < 0 {
      cx.rep.sample(json!({"expression": e, "implementation": obs, "model_and_spec": ans}));
    }
  }
  // durations of 2^64 days and more: no `PT…S` literal reaches them (a component is at most u64::MAX), a
  // literal with the greatest day component and a time part does
  {
    let day: i128 = 86_400_000_000_000;
    let huge: Vec<(String, i128)> = vec![
      ("P18446744073709551615DT24H".to_string(), 18_446_744_073_709_551_616i128 * day),
      ("P18446744073709551615DT49H30M15S".to_string(), 18_446_744_073_709_551_617i128 * day + 5_415_000_000_000),
      ("-P18446744073709551615DT36H".to_string(), -(18_446_744_073_709_551_616i128 * day + 43_200_000_000_000)),
      ("P18446744073709551615DT23H59M59S".to_string(), 18_446_744_073_709_551_615i128 * day + 86_399_000_000_000),
      ("P18446744073709551615DT18446744073709551615H".to_string(), 18_446_744_073_709_551_615i128 * day + 18_446_744_073_709_551_615i128 * 3_600_000_000_000),
    ];
    let reqs: Vec<String> = huge.iter().map(|(_, n)| format!("(c15 dtd {})", n)).collect();
    let answers = cx.model.ask_batch(&reqs);
    for (((t, n), req), ans) in huge.iter().zip(reqs.iter()).zip(answers.iter()) {
      let lit = format!("duration(\"{}\")", t);
      if feel(&lit) != format!("(dtd {})", n) {
        cx.rep.disagree(Kind::ImplVsSpec, "construction", "C15 a days and time duration literal does not denote the written length", &lit, &feel(&lit), &format!("(dtd {})", n));
        continue;
      }
      let e = format!("{{a: {}, r: [a.days, a.hours, a.minutes, a.seconds]}}.r", lit);
      let obs = feel_list(&e);
      cx.rep.case(req, true);
      cx.rep.hit("dtd:2^64 days and more");
      let got = format!("({})", obs.iter().map(|s| num_of(s)).collect::<Vec<_>>().join(" "));
      if let Some((mo, _)) = parse_pair(ans) {
        if got != mo.to_string() {
          cx.rep.disagree(Kind::ImplVsModel, "dur_components_sum", "duration components differ from the model", &e, &got, &mo.to_string());
        }
      }
      let v: Vec<i128> = obs.iter().map(|s| num_of(s).parse::<i128>().unwrap_or(-1)).collect();
      let ok = v.len() == 4 && v[1] >= 0 && v[1] < 24 && v[2] >= 0 && v[2] < 60 && v[3] >= 0 && v[3] < 60 && v[0] >= 0 && ((v[0] * 24 + v[1]) * 60 + v[2]) * 60 + v[3] == n.abs() / 1_000_000_000;
      if !ok {
        let sig = if n.abs() / day > u64::MAX as i128 { "C15 days component of a duration of 2^64 days or more wraps around (get_days as usize)" } else { "C15 days/hours/minutes/seconds do not add up to the duration" };
        cx.rep.disagree(Kind::ImplVsSpec, "dur_components_sum", sig, &e, &got, &format!("|{}| ns", n));
      }
    }
  }
  let reqs: Vec<String> = ymds.iter().map(|n| format!("(c15 ymd {})", n)).collect();
  let answers = cx.model.ask_batch(&reqs);
  for ((n, req), ans) in ymds.iter().zip(reqs.iter()).zip(answers.iter()) {
    let e = format!("{{a: {}, r: [a.years, a.months]}}.r", ymd_text(*n));
    let obs = feel_list(&e);
    cx.rep.case(req, *n != 0);
    cx.rep.hit(if *n < 0 { "ymd:negative" } else { "ymd:non-negative" });
    let got = format!("({})", obs.iter().map(|s| num_of(s)).collect::<Vec<_>>().join(" "));
    let (mo, _sp) = match parse_pair(ans) {
      Some(p) => (p.0.to_string(), p.1.to_string()),
      None => {
        cx.rep.disagree(Kind::ImplVsModel, "ymd", "driver-error", req, &got, ans);
        continue;
      }
    };
    if got != mo {
      cx.rep.disagree(Kind::ImplVsModel, "dur_components_sum", "years/months components differ from the model", &e, &got, &mo);
    }
    let v: Vec<i128> = obs.iter().map(|s| num_of(s).parse::<i128>().unwrap_or(i128::MAX)).collect();
    let ok = v.len() == 2 && v[0] * 12 + v[1] == *n as i128 && v[1].abs() < 12 && (v[1] == 0 || (v[1] < 0) == (*n < 0));
    if !ok {
      cx.rep.disagree(Kind::ImplVsSpec, "dur_components_sum", "C15 years/months do not add up to the duration", &e, &got, &n.to_string());
    }
  }
  // arithmetic and comparison
  let dtd_pairs: Vec<(i128, i128)> = dtd_pairs.iter().cloned().filter(|(a, b)| dtd_ok(cx, *a) && dtd_ok(cx, *b)).collect();
  let mut all: Vec<(&str, i128, i128, String, String)> = vec![];
  for (a, b) in &dtd_pairs {
    all.push(("dtd", *a, *b, dtd_text(*a), dtd_text(*b)));
  }
  for (a, b) in ymd_pairs {
    all.push(("ymd", *a as i128, *b as i128, ymd_text(*a), ymd_text(*b)));
  }
  let reqs: Vec<String> = all.iter().map(|(k, a, b, _, _)| format!("(c15 durops {} {} {})", k, a, b)).collect();
  let answers = cx.model.ask_batch(&reqs);
  for (((k, a, b, ta, tb), req), ans) in all.iter().zip(reqs.iter()).zip(answers.iter()) {
    let e = format!("{{a: {}, b: {}, r: [a + b, -a, a - b, a = b, a in (< b), a < b]}}.r", ta, tb);
    let obs = feel_list(&e);
    cx.rep.case(req, a != b);
    cx.rep.hit(&format!("durops:{}", k));
    if obs.len() != 6 {
      cx.rep.disagree(Kind::ImplVsModel, "durops", "duration arithmetic: unexpected outcome", &e, &obs.join(" "), ans);
      continue;
    }
    let got = format!("({})", obs[..5].iter().map(|s| num_of(s)).collect::<Vec<_>>().join(" "));
    let (mo, sp) = match parse_pair(ans) {
      Some(p) => (p.0.to_string(), p.1),
      None => {
        cx.rep.disagree(Kind::ImplVsModel, "durops", "driver-error", req, &got, ans);
        continue;
      }
    };
    if got != mo {
      cx.rep.disagree(Kind::ImplVsModel, "dur_add_neg_cmp", "duration arithmetic differs from the model", &e, &got, &mo);
    }
    let spl: Vec<String> = sp.as_list().map(|l| l.iter().map(|x| x.to_string()).collect()).unwrap_or_default();
    let names = ["a + b", "-a", "a - b", "a = b", "a in (< b)"];
    for i in 0..5 {
      let g = num_of(&obs[i]);
      if spl.get(i) != Some(&g) {
        let sig = format!(
          "C15 {}: `{}` {}",
          if *k == "dtd" { "days-and-time durations" } else { "years-and-months durations" },
          names[i],
          if g == "none" { "is null" } else { "differs from the arithmetic on total lengths" }
        );
        cx.rep.disagree(Kind::ImplVsSpec, "dur_add_neg_cmp", &sig, &e, &g, spl.get(i).map(|s| s.as_str()).unwrap_or(""));
      }
    }
    let want_lt = if a < b { "true" } else { "false" };
    if obs[5] != want_lt {
      cx.rep.disagree(Kind::ImplVsSpec, "dur_add_neg_cmp", "C15 operator < on two durations is null", &format!("{} < {}", ta, tb), &obs[5], want_lt);
    }
  }
}

// ---------------------------------------------------------------------------------------------
// family 4b: pairs of date-times that straddle a wall-clock boundary
//
// Two instants within a few hours of a wall-clock boundary (turn of a year, of a month incl. the end of
// February in leap and common years, of a day, of an hour, and the daylight-saving switch of a named zone),
// each written with its own offset (-14:00 … +14:00) or named zone so that the two TEXTS lie on different
// sides of the boundary while the two INSTANTS are in the opposite order, equal, or (control) in the same
// order. Every comparison operator, both differences and the between / in forms are judged against the
// instant arithmetic of the Lean specification (`c15 cmp` / `c15 sub`, specification half); the offsets of
// named zones come from corpus/C15/zone_transitions.json (python zoneinfo), not from the implementation.

fn days_from_civil(y: i64, m: i64, d: i64) -> i64 {
  let y = if m <= 2 { y - 1 } else { y };
  let era = y.div_euclid(400);
  let yoe = y - era * 400;
  let mp = (m + 9) % 12;
  let doy = (153 * mp + 2) / 5 + d - 1;
  let doe = yoe * 365 + yoe / 4 - yoe / 100 + doy;
  era * 146_097 + doe - 719_468
}

fn civil_from_days(z: i64) -> (i64, i64, i64) {
  let z = z + 719_468;
  let era = z.div_euclid(146_097);
  let doe = z - era * 146_097;
  let yoe = (doe - doe / 1460 + doe / 36_524 - doe / 146_096) / 365;
  let y = yoe + era * 400;
  let doy = doe - (365 * yoe + yoe / 4 - yoe / 100);
  let mp = (5 * doy + 2) / 153;
  let d = doy - (153 * mp + 2) / 5 + 1;
  let m = if mp < 10 { mp + 3 } else { mp - 9 };
  (if m <= 2 { y + 1 } else { y }, m, d)
}

/// The rules of a named zone over the span of the table: offset at the start and the transitions
/// `(epoch seconds, offset from then on)`.
#[derive(Clone, Debug)]
struct ZoneRules {
  name: String,
  initial: i64,
  trs: Vec<(i64, i64)>,
  from: i64,
  to: i64,
}

impl ZoneRules {
  fn off_at(&self, t: i64) -> Option<i64> {
    if t < self.from || t >= self.to {
      return None;
    }
    let mut o = self.initial;
    for (s, n) in &self.trs {
      if *s <= t {
        o = *n;
      } else {
        break;
      }
    }
    Some(o)
  }
  fn offsets(&self) -> Vec<i64> {
    let mut v = vec![self.initial];
    for (_, n) in &self.trs {
      if !v.contains(n) {
        v.push(*n);
      }
    }
    v
  }
  /// The local time (seconds on the naive line) is the wall clock of exactly one instant, and no
  /// transition of the zone is nearer than a second (neither skipped nor repeated).
  fn plain(&self, local: i64) -> bool {
    let mut n = 0;
    for o in self.offsets() {
      if self.off_at(local - o) == Some(o) {
        n += 1;
      }
    }
    n == 1
  }
}

fn load_zone_rules(rep: &mut Report) -> Vec<ZoneRules> {
  let path = concat!(env!("CARGO_MANIFEST_DIR"), "/../corpus/C15/zone_transitions.json");
  let table: serde_json::Value = std::fs::read_to_string(path).ok().and_then(|t| serde_json::from_str(&t).ok()).unwrap_or(json!({}));
  let (from, to) = (table["from"].as_i64().unwrap_or(0), table["to"].as_i64().unwrap_or(0));
  let mut out = vec![];
  if let Some(zs) = table["zones"].as_object() {
    // serde_json's map is ordered by key: the order of the zones is the same on every run
    for (name, v) in zs {
      let trs: Vec<(i64, i64)> = v["transitions"].as_array().cloned().unwrap_or_default().iter().filter_map(|p| Some((p[0].as_i64()?, p[1].as_i64()?))).collect();
      if let Some(initial) = v["initial"].as_i64() {
        out.push(ZoneRules { name: name.clone(), initial, trs, from, to });
      }
    }
  }
  if out.is_empty() {
    rep.notes.push("corpus/C15/zone_transitions.json not found or empty: no named zones in the boundary family".into());
  }
  out
}

#[derive(Clone, Debug)]
enum Writer {
  Off(i64),
  Named(usize),
}

/// One side of a boundary pair: the instant (epoch seconds + nanoseconds), the text that writes it and,
/// for a named zone, the offset the zone table gives.
#[derive(Clone, Debug)]
struct Written {
  t: i64,
  dt: Dt,
  table_offset: Option<i64>,
}

fn write_instant(t: i64, ns: i64, w: &Writer, zones: &[ZoneRules]) -> Option<Written> {
  let (off, z, table_offset) = match w {
    Writer::Off(o) => (*o, fix_zero(Zone::Offset(*o)), None),
    Writer::Named(i) => {
      let r = &zones[*i];
      let o = r.off_at(t)?;
      // keep clear of skipped and repeated local times (and of the second next to them)
      if !(r.plain(t + o) && r.plain(t + o - 1) && r.plain(t + o + 1)) {
        return None;
      }
      (o, Zone::Named(r.name.clone()), Some(o))
    }
  };
  let local = t + off;
  let (y, m, d) = civil_from_days(local.div_euclid(86_400));
  let sod = local.rem_euclid(86_400);
  Some(Written { t, dt: Dt { y, m, d, h: sod / 3600, mi: sod % 3600 / 60, s: sod % 60, ns, z }, table_offset })
}

#[derive(Clone, Debug)]
struct BPair {
  kind: &'static str,
  mode: &'static str,
  a: Written,
  b: Written,
  /// 0: date(y,m,d) + time literal, 1: `date and time("…")`, 2: `@"…"`
  form: u8,
}

fn dt_literal_text(x: &Dt) -> String {
  format!("{}{:04}-{:02}-{:02}T{}", if x.y < 0 { "-" } else { "" }, x.y.abs(), x.m, x.d, x.time_text())
}

fn dt_form_expr(x: &Dt, form: u8) -> String {
  match form {
    1 => format!("date and time(\"{}\")", dt_literal_text(x)),
    2 => format!("@\"{}\"", dt_literal_text(x)),
    _ => x.expr(),
  }
}

fn boundary_offset(rng: &mut Rng) -> i64 {
  match rng.below(10) {
    0 => 3600 * rng.range(-14, 14),
    1 => *rng.pick(&[-50_400i64, 50_400, -43_200, 43_200, 46_800, 49_500, 0, 0]),
    2 => rng.range(-50_400, 50_400),
    3 => 1800 * rng.range(-28, 28),
    _ => 900 * rng.range(-56, 56),
  }
}

fn boundary_ns(rng: &mut Rng) -> i64 {
  match rng.below(10) {
    0 => 500_000_000,
    1 => rng.range(1, 999) * 1_000_000,
    2 => *rng.pick(&[1i64, 999_999_999, 100_000_000]),
    _ => 0,
  }
}

const H15: i64 = 15 * 3600;

/// A pair around the naive wall-clock moment `bnd` (seconds on the naive line): `a` is written at or
/// after it, `b` before it; the instants are equal (`eq`), in the opposite order (`opp`: a before b) or
/// in the same order (`same`).
fn straddle(rng: &mut Rng, bnd: i64, mode: &'static str, zones: &[ZoneRules], named: bool) -> Option<(Written, Written)> {
  let pick_writer = |rng: &mut Rng| -> Writer {
    if named && !zones.is_empty() && rng.chance(2, 5) {
      Writer::Named(rng.below(zones.len() as u64) as usize)
    } else {
      Writer::Off(boundary_offset(rng))
    }
  };
  let (wa, wb) = (pick_writer(rng), pick_writer(rng));
  // the offset a named zone has around the boundary (verified after the instant is fixed)
  let guess = |w: &Writer| -> Option<i64> {
    match w {
      Writer::Off(o) => Some(*o),
      Writer::Named(i) => {
        let r = &zones[*i];
        let o0 = r.off_at(bnd - r.initial)?;
        r.off_at(bnd - o0)
      }
    }
  };
  let (oa, ob) = (guess(&wa)?, guess(&wb)?);
  let dd = oa - ob;
  let total = match mode {
    "eq" => dd,
    "opp" => {
      if dd < 2 {
        return None;
      }
      let eps = match rng.below(5) {
        0 => 1,
        1 => 60,
        2 => 3600,
        3 => 1800,
        _ => rng.range(1, dd - 1),
      };
      dd - eps.min(dd - 1)
    }
    _ => {
      let eps = match rng.below(4) {
        0 => 1,
        1 => 60,
        2 => 3600,
        _ => rng.range(1, H15),
      };
      dd + eps
    }
  };
  // total = da + db with 0 <= da < 15 h (a at or after the boundary), 1 <= db <= 15 h (b before it)
  let lo = (total - (H15 - 1)).max(1);
  let hi = total.min(H15);
  if lo > hi {
    return None;
  }
  let db = match rng.below(6) {
    0 => lo,
    1 => hi,
    _ => rng.range(lo, hi),
  };
  let da = total - db;
  let (ta, tb) = (bnd + da - oa, bnd - db - ob);
  let (na, nb) = match (mode, rng.below(4)) {
    ("eq", 0) => {
      let n = boundary_ns(rng);
      (n, n)
    }
    ("eq", _) => (0, 0),
    _ => (boundary_ns(rng), boundary_ns(rng)),
  };
  let a = write_instant(ta, na, &wa, zones)?;
  let b = write_instant(tb, nb, &wb, zones)?;
  // the named zones must have had the guessed offsets, otherwise the texts are not where they should be
  let wall = |x: &Written| days_from_civil(x.dt.y, x.dt.m, x.dt.d) * 86_400 + x.dt.h * 3600 + x.dt.mi * 60 + x.dt.s;
  if wall(&a) < bnd || wall(&b) >= bnd {
    return None;
  }
  Some((a, b))
}

/// Pairs around the daylight-saving switch `k` of zone `zi`: at least one side is written in the zone.
fn around_switch(rng: &mut Rng, zi: usize, k: usize, zones: &[ZoneRules]) -> Option<(Written, Written, &'static str)> {
  let r = &zones[zi];
  let (s, o_new) = r.trs[k];
  let o_old = if k == 0 { r.initial } else { r.trs[k - 1].1 };
  let near = |rng: &mut Rng| -> i64 {
    match rng.below(4) {
      0 => rng.range(0, 3600),
      1 => rng.range(0, 4 * 3600),
      2 => 60 * rng.range(0, 180),
      _ => rng.range(0, H15),
    }
  };
  match rng.below(4) {
    0 => {
      // both in the zone, one on each side of the switch: the wall clocks jump, the instants do not
      let a = write_instant(s + near(rng), boundary_ns(rng), &Writer::Named(zi), zones)?;
      let b = write_instant(s - 1 - near(rng), boundary_ns(rng), &Writer::Named(zi), zones)?;
      Some((a, b, "same"))
    }
    1 | 2 => {
      // one in the zone right after (before) the switch, the other with the offset of the other side (or any
      // offset), a little later (earlier) on the time line but earlier (later) on the wall clock
      let after = rng.chance(1, 2);
      let ta = if after { s + near(rng) } else { s - 1 - near(rng) };
      let o_here = if after { o_new } else { o_old };
      let o_b = if rng.chance(1, 2) { if after { o_old } else { o_new } } else { boundary_offset(rng) };
      let dd = o_b - o_here;
      let (eps, mode) = if dd == 0 {
        (rng.range(-3600, 3600), "same")
      } else if rng.chance(1, 4) {
        (-dd, "eq-wall")
      } else if rng.chance(1, 5) {
        (0, "eq")
      } else {
        // wall_b - wall_a = eps + dd: opposite sign to eps
        let m = dd.abs() - 1;
        if m < 1 {
          return None;
        }
        let e = rng.range(1, m);
        (if dd < 0 { e } else { -e }, "opp")
      };
      let a = write_instant(ta, 0, &Writer::Named(zi), zones)?;
      let b = write_instant(ta + eps, if mode == "eq" { 0 } else { boundary_ns(rng) }, &Writer::Off(o_b), zones)?;
      Some((a, b, mode))
    }
    _ => {
      // the zone against another named zone, instants at most a few hours apart
      let zj = rng.below(zones.len() as u64) as usize;
      let ta = if rng.chance(1, 2) { s + near(rng) } else { s - 1 - near(rng) };
      let eps = match rng.below(3) {
        0 => 0,
        1 => rng.range(-3600, 3600),
        _ => rng.range(-H15, H15),
      };
      let a = write_instant(ta, 0, &Writer::Named(zi), zones)?;
      let b = write_instant(ta + eps, 0, &Writer::Named(zj), zones)?;
      Some((a, b, if eps == 0 { "eq" } else { "any" }))
    }
  }
}

fn boundary_pairs(rng: &mut Rng, thorough: bool, zones: &[ZoneRules]) -> Vec<BPair> {
  let scale = if thorough { 6 } else { 1 };
  // (kind, naive seconds of the boundary)
  let mut bnds: Vec<(&'static str, i64, i64)> = vec![]; // (kind, boundary, pairs wanted)
  let at = |y: i64, m: i64, d: i64, h: i64| days_from_civil(y, m, d) * 86_400 + h * 3600;
  // turns of the year
  let mut years: Vec<i64> = vec![-4, -1, 0, 1, 2, 100, 1000, 1583, 1600, 1900, 1970, 2000, 2001, 2012, 2013, 2016, 2017, 2019, 2020, 2021, 2022, 2024, 2025, 2100, 2400, 9999, 10_000, 99_999, -9999, 200_000, -200_000];
  for _ in 0..(30 * scale) {
    years.push(rng.range(-3000, 3000));
  }
  for _ in 0..(10 * scale) {
    years.push(rng.range(2013, 2020));
  }
  for y in &years {
    bnds.push(("year", at(*y, 1, 1, 0), 12));
  }
  // turns of the month: every month of a leap year, a common year, a common and a leap century year
  for y in [2023i64, 2024, 1900, 2000, 2016, 2019] {
    for m in 1..=12 {
      bnds.push(("month", at(y, m, 1, 0), if m == 3 || m == 2 { 8 } else { 4 }));
    }
  }
  for _ in 0..(40 * scale) {
    let ys = [rng.range(-3000, 3000), rng.range(1900, 2100), rng.range(2012, 2020), 4 * rng.range(400, 600), 100 * rng.range(10, 30)];
    let y = *rng.pick(&ys);
    let m = if rng.chance(1, 2) { 3 } else { rng.range(1, 12) };
    bnds.push(("month", at(y, m, 1, 0), 5));
  }
  // turns of the day
  for _ in 0..(60 * scale) {
    let ys = [rng.range(-3000, 3000), rng.range(1900, 2100), rng.range(2012, 2020)];
    let y = *rng.pick(&ys);
    let m = rng.range(1, 12);
    bnds.push(("day", at(y, m, rng.range(1, dim(y, m)), 0), 5));
  }
  // turns of the hour
  for _ in 0..(20 * scale) {
    let ys = [rng.range(-3000, 3000), rng.range(2012, 2020)];
    let y = *rng.pick(&ys);
    let m = rng.range(1, 12);
    bnds.push(("hour", at(y, m, rng.range(1, dim(y, m)), rng.range(1, 23)), 4));
  }
  let mut out: Vec<BPair> = vec![];
  let modes: [&'static str; 6] = ["opp", "eq", "opp", "same", "opp", "eq"];
  for (kind, bnd, want) in &bnds {
    let in_table = zones.first().map(|z| *bnd - 2 * 86_400 > z.from && *bnd + 2 * 86_400 < z.to).unwrap_or(false);
    let mut made = 0;
    let mut tries = 0;
    while made < *want && tries < 20 * *want {
      tries += 1;
      let mode = modes[(made as usize + tries as usize) % modes.len()];
      if let Some((a, b)) = straddle(rng, *bnd, mode, zones, in_table) {
        let lit_ok = |x: &Dt| (1000..=9999).contains(&x.y.abs());
        let form = if lit_ok(&a.dt) && lit_ok(&b.dt) { rng.below(3) as u8 } else { 0 };
        // both orders of the operands
        let (a, b) = if rng.chance(1, 2) { (a, b) } else { (b, a) };
        out.push(BPair { kind, mode, a, b, form });
        made += 1;
      }
    }
  }
  // the daylight-saving switches of the named zones
  for (zi, r) in zones.iter().enumerate() {
    for k in 0..r.trs.len() {
      let want = 4 * scale;
      let mut made = 0;
      let mut tries = 0;
      while made < want && tries < 20 * want {
        tries += 1;
        if let Some((a, b, mode)) = around_switch(rng, zi, k, zones) {
          let form = rng.below(3) as u8;
          let (a, b) = if rng.chance(1, 2) { (a, b) } else { (b, a) };
          out.push(BPair { kind: "dst-switch", mode, a, b, form });
          made += 1;
        }
      }
    }
  }
  out
}

/// `a ? b` for the twenty forms evaluated on a boundary pair, from the order and the difference of the instants.
fn boundary_expected(ord: &str, diff: i128) -> Vec<String> {
  let (lt, eq, gt) = (ord == "lt", ord == "eq", ord == "gt");
  let b = |x: bool| if x { "true".to_string() } else { "false".to_string() };
  vec![
    b(lt), b(lt || eq), b(eq), b(gt || eq), b(gt), b(!eq),
    format!("(dtd {})", diff), format!("(dtd {})", -diff),
    b(lt), b(lt || eq), b(gt), b(gt || eq),
    b(lt || eq), b(gt || eq), b(lt || eq), b(gt || eq), b(gt), b(lt), b(eq), b(eq),
  ]
}

const BOUNDARY_FORMS: [&str; 20] = [
  "a < b", "a <= b", "a = b", "a >= b", "a > b", "a != b", "a - b", "b - a", "a in (< b)", "a in (<= b)", "a in (> b)", "a in (>= b)",
  "a between a and b", "a between b and a", "a in [a..b]", "a in [b..a]", "a in (b..a]", "a in [a..b)", "b in [a..a]", "a between b and b",
];

fn run_dt_boundary(cx: &mut Ctx, pairs: &[BPair]) {
  let ok = |cx: &mut Ctx, x: &Dt, form: u8| -> bool {
    let e = dt_form_expr(x, form);
    let o = feel(&e);
    if o == x.obs() {
      true
    } else {
      cx.rep.hit("skipped:construction-differs");
      cx.rep.disagree(Kind::ImplVsSpec, "construction", "C15 a date and time literal does not denote the written date, time and offset", &e, &o, &x.obs());
      false
    }
  };
  let mut live: Vec<&BPair> = vec![];
  for p in pairs {
    if ok(cx, &p.a.dt, p.form) && ok(cx, &p.b.dt, p.form) {
      live.push(p);
    }
  }
  let orc = |w: &Written| w.table_offset.map(|o| o.to_string()).unwrap_or_else(|| "none".to_string());
  let mut reqs = vec![];
  for p in &live {
    reqs.push(format!("(c15 cmp ({}) {} ({}) {})", p.a.dt.fields(), orc(&p.a), p.b.dt.fields(), orc(&p.b)));
    reqs.push(format!("(c15 sub ({}) {} ({}) {})", p.a.dt.fields(), orc(&p.a), p.b.dt.fields(), orc(&p.b)));
  }
  let answers = cx.model.ask_batch(&reqs);
  for (i, p) in live.iter().enumerate() {
    let (req_c, ans_c, ans_s) = (&reqs[2 * i], &answers[2 * i], &answers[2 * i + 1]);
    let e = format!("{{a: {}, b: {}, r: [{}]}}.r", dt_form_expr(&p.a.dt, p.form), dt_form_expr(&p.b.dt, p.form), BOUNDARY_FORMS.join(", "));
    let obs: Vec<String> = feel_list(&e).iter().map(|s| norm_panic(s)).collect();
    cx.rep.case(&format!("boundary {}", req_c), true);
    cx.rep.hit(&format!("boundary:{}", p.kind));
    cx.rep.hit(&format!("boundary-mode:{}", p.mode));
    cx.rep.hit(match (&p.a.dt.z, &p.b.dt.z) {
      (Zone::Named(_), Zone::Named(_)) => "boundary-writers:zone+zone",
      (Zone::Named(_), _) | (_, Zone::Named(_)) => "boundary-writers:zone+offset",
      _ => "boundary-writers:offset+offset",
    });
    let wall = |x: &Dt| (x.y, x.m, x.d, x.h, x.mi, x.s, x.ns);
    let wall_ord = wall(&p.a.dt).cmp(&wall(&p.b.dt));
    let inst_ord = (p.a.t as i128 * 1_000_000_000 + p.a.dt.ns as i128).cmp(&(p.b.t as i128 * 1_000_000_000 + p.b.dt.ns as i128));
    cx.rep.hit(if inst_ord == std::cmp::Ordering::Equal {
      "boundary-order:same-instant"
    } else if wall_ord != inst_ord {
      "boundary-order:wall-clock-opposite-to-instants"
    } else {
      "boundary-order:wall-clock-like-instants"
    });
    if p.a.dt.y != p.b.dt.y {
      cx.rep.hit("boundary-texts:years-differ");
    } else if p.a.dt.m != p.b.dt.m {
      cx.rep.hit("boundary-texts:months-differ");
    } else if p.a.dt.d != p.b.dt.d {
      cx.rep.hit("boundary-texts:days-differ");
    }
    let ((mc, sc), (ms, ss)) = match (parse_pair(ans_c), parse_pair(ans_s)) {
      (Some(c), Some(s)) => ((c.0.to_string(), c.1.to_string()), (s.0.to_string(), s.1.to_string())),
      _ => {
        cx.rep.disagree(Kind::ImplVsModel, "boundary", "driver-error", req_c, &obs.join(" "), ans_c);
        continue;
      }
    };
    // the generator knows the instants it wrote: the specification must see the same order and difference
    let gen_ord = match inst_ord {
      std::cmp::Ordering::Less => "lt",
      std::cmp::Ordering::Equal => "eq",
      std::cmp::Ordering::Greater => "gt",
    };
    let gen_diff = (p.a.t as i128 - p.b.t as i128) * 1_000_000_000 + (p.a.dt.ns as i128 - p.b.dt.ns as i128);
    if sc != gen_ord || ss != gen_diff.to_string() {
      cx.rep.disagree(Kind::ImplVsModel, "boundary", "boundary: the specification's instants differ from the instants the generator wrote", req_c, &format!("{} {}", gen_ord, gen_diff), &format!("{} {}", sc, ss));
      continue;
    }
    if obs.len() != BOUNDARY_FORMS.len() {
      cx.rep.disagree(Kind::ImplVsSpec, "boundary", &format!("C15 boundary ({}): evaluating the comparisons of two date-times fails", p.kind), &e, &obs.join(" "), "a list of twenty values");
      continue;
    }
    let want = boundary_expected(&sc, gen_diff);
    // the mirror model of compare() / subtract()
    let icmp = match (obs[2].as_str(), obs[8].as_str(), obs[10].as_str()) {
      ("true", "false", "false") => "eq",
      ("false", "true", "false") => "lt",
      ("false", "false", "true") => "gt",
      ("null", "null", "null") => "none",
      _ => "inconsistent",
    };
    if icmp != mc && icmp != "inconsistent" {
      cx.rep.disagree(Kind::ImplVsModel, "datetime_compare_instant", "date-time comparison differs from the model", &e, icmp, &mc);
    }
    let isub = if obs[6].starts_with("(dtd ") { obs[6][5..obs[6].len() - 1].to_string() } else { "none".to_string() };
    if isub != ms {
      cx.rep.disagree(Kind::ImplVsModel, "datetime_sub_exact", "date-time subtraction differs from the model", &e, &isub, &ms);
    }
    // the property: every form as the instants say
    let mut bad: [Vec<usize>; 3] = [vec![], vec![], vec![]];
    for k in 0..BOUNDARY_FORMS.len() {
      if obs[k] != want[k] {
        bad[if k < 6 { 0 } else if k < 8 { 1 } else { 2 }].push(k);
      }
    }
    let groups = ["comparison (<, <=, =, >=, >, !=) differs from the order of the instants", "difference (a - b, b - a) differs from the difference of the instants", "between / in differs from the order of the instants"];
    for (g, ks) in bad.iter().enumerate() {
      if !ks.is_empty() {
        let sig = format!("C15 boundary ({}): {}", p.kind, groups[g]);
        let got = ks.iter().map(|k| format!("{} -> {}", BOUNDARY_FORMS[*k], obs[*k])).collect::<Vec<_>>().join("; ");
        let exp = ks.iter().map(|k| format!("{} -> {}", BOUNDARY_FORMS[*k], want[*k])).collect::<Vec<_>>().join("; ");
        cx.rep.disagree(Kind::ImplVsSpec, "boundary", &sig, &e, &got, &exp);
      }
    }
    if cx.rep.samples.len() < 9 && wall_ord != inst_ord && p.a.dt.y != p.b.dt.y {
      cx.rep.sample(json!({"expression": e, "implementation": obs, "cmp model/spec": ans_c, "sub model/spec": ans_s}));
    }
  }
}

// ---------------------------------------------------------------------------------------------
// family 4b' `extreme-offsets`: pairs whose LOCAL dates are 0, 1, 2 or 3 days apart (both directions) while
// their INSTANTS are within two hours of each other, in both orders or equal
//
// Two offsets can be 29:59:58 apart (-14:59:59 against +14:59:59), so two date-times whose written dates are
// TWO days apart can denote the same instant or lie in the order opposite to their dates; family 4b keeps both
// texts within 15 h of one boundary and never writes dates more than a day apart. Here, for EVERY ordered
// pair of writers from a grid with both ends of the map (every whole hour -14…+14, ±14:59:59, ±14:59,
// ±14:30, ±13:59:59, ±13:45, ±12:45, the named zones of the transition table that reach ±10 h or more:
// Pacific/Kiritimati, Pacific/Chatham, Pacific/Auckland, Pacific/Pago_Pago, Pacific/Honolulu, Australia/…, and
// UTC) and every gap of the local dates -3…+3 days: when some pair of times of day brings the instants within
// ±2 h, pairs with the instant of `b` later, earlier and equal (time of day of `a` at either end of what is
// possible or anywhere in it: the earlier-dated value late in its day, the later-dated one early); when none
// does (always for 3 days), the nearest possible pair (23:59:59… against 00:00:00…: mode `far`, a control).
// The dates lie around turns of the year, the end of February (leap, common, century years), turns of a
// month, or anywhere; years -200000…200000 for offsets, the span of the table for named zones.
// Oracle: the instant from the WRITTEN fields, days-from-civil × 86400 + seconds of the day − offset (here, in
// i128, checked against the instant the generator started from; and again by the Lean specification
// `c15 cmp` / `c15 sub`); the twenty forms of `run_dt_boundary` (<, <=, =, >=, >, !=, a - b, b - a, in,
// between) must all be what the order and the difference of the instants say.

fn extreme_writers(zones: &[ZoneRules], thorough: bool) -> Vec<Writer> {
  let mut ws: Vec<Writer> = vec![];
  for h in -14..=14i64 {
    // quick tier: the whole hours of both ends and of the middle (the thorough tier: every whole hour)
    if thorough || h.abs() >= 9 || h.abs() <= 1 || h.abs() == 5 {
      ws.push(Writer::Off(3600 * h));
    }
  }
  for o in [53_999i64, 53_940, 52_200, 50_399, 49_500, 45_900] {
    ws.push(Writer::Off(o));
    ws.push(Writer::Off(-o));
  }
  if thorough {
    for o in [1i64, -1, 1800, -1800, 34_200, -34_200, 20_700, 48_600, -48_600] {
      ws.push(Writer::Off(o));
    }
  }
  for (i, z) in zones.iter().enumerate() {
    if z.name == "Etc/UTC" || z.offsets().iter().any(|o| o.abs() >= 36_000) {
      ws.push(Writer::Named(i));
    }
  }
  ws
}

/// The first day (days since 1970-01-01) of a year, of March, of a month, or any day.
fn extreme_anchor(rng: &mut Rng, named: bool) -> (i64, &'static str) {
  let y = if named {
    *rng.pick(&[2012i64, 2013, 2015, 2016, 2017, 2019, 2020])
  } else {
    match rng.below(4) {
      0 => *rng.pick(&[-200_000i64, -9999, -4, -1, 0, 1, 4, 100, 999, 1000, 1583, 1600, 1900, 1970, 2000, 2016, 2020, 2021, 2024, 2100, 2400, 9999, 10_000, 99_999, 200_000]),
      1 => rng.range(-3000, 3000),
      2 => 4 * rng.range(475, 525),
      _ => rng.range(1990, 2030),
    }
  };
  match rng.below(5) {
    0 => (days_from_civil(y, 1, 1), "turn-of-year"),
    1 | 2 => (days_from_civil(y, 3, 1), if is_leap(y) { "end-of-february-leap" } else { "end-of-february-common" }),
    3 => (days_from_civil(y, rng.range(2, 12), 1), "turn-of-month"),
    _ => {
      let m = rng.range(1, 12);
      (days_from_civil(y, m, rng.range(1, dim(y, m))), "any-day")
    }
  }
}

fn extreme_pairs(rng: &mut Rng, thorough: bool, zones: &[ZoneRules], rep: &mut Report) -> Vec<BPair> {
  const NEAR: i64 = 7200;
  let ws = extreme_writers(zones, thorough);
  let mut out: Vec<BPair> = vec![];
  let guess = |w: &Writer, day: i64| -> Option<i64> {
    match w {
      Writer::Off(o) => Some(*o),
      Writer::Named(i) => {
        let r = &zones[*i];
        let o0 = r.off_at(day * 86_400 + 43_200 - r.initial)?;
        r.off_at(day * 86_400 + 43_200 - o0)
      }
    }
  };
  for wa in &ws {
    for wb in &ws {
      let named = matches!(wa, Writer::Named(_)) || matches!(wb, Writer::Named(_));
      for k in -3..=3i64 {
        // deltas (instant of b minus instant of a) wanted for this combination: `None` = the nearest possible
        let mut made_any = false;
        let mut tries = 0;
        let mut wanted: Vec<i8> = vec![1, -1, 0]; // sign of delta
        while !wanted.is_empty() && tries < 12 {
          tries += 1;
          let sign = wanted[0];
          let (anchor, place) = extreme_anchor(rng, named);
          let low = anchor - rng.range(0, k.abs().max(1));
          let day_a = if k >= 0 { low } else { low - k };
          let (oa, ob) = match (guess(wa, day_a), guess(wb, day_a + k)) {
            (Some(x), Some(y)) => (x, y),
            _ => continue,
          };
          let dd = ob - oa;
          // lb - la = delta + dd must lie in [k*86400 - sa, (k+1)*86400 - sa) for a time of day sa of `a`
          let dlo = (k * 86_400 - dd - 86_399).max(-NEAR);
          let dhi = ((k + 1) * 86_400 - dd - 1).min(NEAR);
          let (sa, delta, mode): (i64, i64, &'static str) = if dlo <= dhi {
            let (lo, hi) = match sign {
              1 => (dlo.max(1), dhi),
              -1 => (dlo, dhi.min(-1)),
              _ => (dlo.max(0), dhi.min(0)),
            };
            if lo > hi {
              // this order is not possible for this combination
              wanted.remove(0);
              continue;
            }
            let cands: Vec<i64> = [1i64, 60, 900, 1800, 3599, 3600, 3601, 7199, 7200].iter().map(|c| c * sign as i64).filter(|c| *c >= lo && *c <= hi).collect();
            let delta = match rng.below(4) {
              0 => lo,
              1 => hi,
              2 if !cands.is_empty() => *rng.pick(&cands),
              _ => rng.range(lo, hi),
            };
            let x = delta + dd;
            let (slo, shi) = ((k * 86_400 - x).max(0), ((k + 1) * 86_400 - x).min(86_400) - 1);
            if slo > shi {
              continue;
            }
            let sa = match rng.below(4) {
              0 => slo,
              1 => shi,
              2 => (slo + 60 * rng.range(0, 59)).min(shi),
              _ => rng.range(slo, shi),
            };
            let local_sign = if k != 0 { k.signum() } else { x.signum() };
            (sa, delta, if delta == 0 { "eq" } else if delta.signum() != local_sign { "opp" } else { "same" })
          } else {
            // no times of day bring the instants within two hours: the nearest ones
            wanted.clear();
            let small = |rng: &mut Rng| match rng.below(4) {
              0 => 0,
              1 => rng.range(0, 59),
              2 => 60 * rng.range(0, 59),
              _ => rng.range(0, 7199),
            };
            let (sa, sb) = if k * 86_400 > dd { (86_399 - small(rng), small(rng)) } else { (small(rng), 86_399 - small(rng)) };
            (sa, k * 86_400 + sb - sa - dd, "far")
          };
          if !thorough && mode == "far" && made_any {
            continue;
          }
          let ta = day_a * 86_400 + sa - oa;
          let (na, nb) = match (mode, rng.below(3)) {
            ("eq", 0) => {
              let n = boundary_ns(rng);
              (n, n)
            }
            ("eq", _) => (0, 0),
            _ => (boundary_ns(rng), boundary_ns(rng)),
          };
          let (a, b) = match (write_instant(ta, na, wa, zones), write_instant(ta + delta, nb, wb, zones)) {
            (Some(a), Some(b)) => (a, b),
            _ => continue,
          };
          // the instant from the written fields (independent of the way the texts were made), in i128
          let inst = |w: &Written, o: i64| -> i128 { days_from_civil(w.dt.y, w.dt.m, w.dt.d) as i128 * 86_400 + (w.dt.h * 3600 + w.dt.mi * 60 + w.dt.s) as i128 - o as i128 };
          let (fa, fb) = (inst(&a, a.table_offset.unwrap_or(oa)), inst(&b, b.table_offset.unwrap_or(ob)));
          if fa != a.t as i128 || fb != b.t as i128 {
            rep.notes.push(format!("extreme-offsets: the instant of the written fields is not the generator's: {:?} {:?}", a, b));
            continue;
          }
          // a named zone must have had the guessed offset: the dates are the wanted number of days apart
          let gap = days_from_civil(b.dt.y, b.dt.m, b.dt.d) - days_from_civil(a.dt.y, a.dt.m, a.dt.d);
          if gap != k || a.table_offset.unwrap_or(oa) != oa || b.table_offset.unwrap_or(ob) != ob {
            continue;
          }
          if mode != "far" {
            wanted.remove(0);
          }
          made_any = true;
          rep.hit(&format!("extreme-days-apart:{:+}:{}", k, mode));
          rep.hit(&format!("extreme-dates:{}", place));
          if a.dt.y != b.dt.y {
            rep.hit("extreme-texts:years-differ");
          } else if a.dt.m != b.dt.m {
            rep.hit("extreme-texts:months-differ");
          }
          if (a.dt.m, a.dt.d) == (2, 29) || (b.dt.m, b.dt.d) == (2, 29) {
            rep.hit("extreme-texts:leap-day");
          }
          let lit_ok = |x: &Dt| (1000..=9999).contains(&x.y.abs());
          let form = if lit_ok(&a.dt) && lit_ok(&b.dt) { rng.below(3) as u8 } else { 0 };
          out.push(BPair { kind: "extreme-offsets", mode, a, b, form });
        }
      }
    }
  }
  out
}

// ---------------------------------------------------------------------------------------------
// family 4c `local-props`: every property of a date-time whose LOCAL date is not its UTC date
//
// A date and time value has the year, month, day, weekday, hour, minute and second of the date and time that
// is WRITTEN (its local date and time), whatever its offset or zone; `time offset` is the written offset (for
// a named zone: the offset the zone has at that local time), `timezone` the written zone name. The cases are
// written with offsets -14:59:59 … +14:59:59 and named zones so that the local date and the date of the same
// instant in UTC differ by a day - across the turn of a month or a year too - or lie around a daylight-saving
// switch; controls have the same date on both lines.
//   (a) corpus/C15/dt_props.json (python3 datetime + zoneinfo; corpus/C15/dt_props.py): years 2…9999;
//   (b) generated here, years to ±999999999, judged against the Lean specification (`c15 dtprops`:
//       written components + Dmn.Cal.weekday of the local date).
// The calendar built-ins `day of year`, `week of year`, `day of week`, `month of year` are evaluated on the
// same values: the property does not name them and the code answers null for all four (not implemented) -
// that is counted, not reported; an answer that is not null must be the calendar's (python / Dmn.Cal).

const LOCAL_PROP_NAMES: [&str; 9] = ["year", "month", "day", "weekday", "hour", "minute", "second", "time offset", "timezone"];

fn render_prop(s: &str) -> String {
  if s.starts_with("(n ") {
    s[3..s.len() - 1].to_string()
  } else if s.starts_with("(dtd ") {
    let n: i128 = s[5..s.len() - 1].parse().unwrap_or(0);
    if n % 1_000_000_000 == 0 {
      format!("{}", n / 1_000_000_000)
    } else {
      s.to_string()
    }
  } else if s == "null" {
    "none".to_string()
  } else {
    s.to_string()
  }
}

struct LocalCase {
  x: Dt,
  form: u8,
  /// offset of a named zone from the zone table (python zoneinfo)
  table_offset: Option<i64>,
  /// what python says: (weekday, day of year, ISO week, weekday name, month name)
  py: Option<(i64, i64, i64, String, String)>,
  /// how the local date relates to the UTC date: same / day / month / year
  dates: String,
  class: String,
}

fn utc_relation(x: &Dt, off: i64) -> &'static str {
  let local = days_from_civil(x.y, x.m, x.d) * 86_400 + x.h * 3600 + x.mi * 60 + x.s;
  let (uy, um, ud) = civil_from_days((local - off).div_euclid(86_400));
  if uy != x.y {
    "year"
  } else if um != x.m {
    "month"
  } else if ud != x.d {
    "day"
  } else {
    "same"
  }
}

fn local_prop_cases(rng: &mut Rng, thorough: bool, rep: &mut Report) -> Vec<LocalCase> {
  let mut out: Vec<LocalCase> = vec![];
  // (a) the python table
  let path = concat!(env!("CARGO_MANIFEST_DIR"), "/../corpus/C15/dt_props.json");
  let table: serde_json::Value = std::fs::read_to_string(path).ok().and_then(|t| serde_json::from_str(&t).ok()).unwrap_or(json!({"rows": []}));
  let rows = table["rows"].as_array().cloned().unwrap_or_default();
  if rows.is_empty() {
    rep.notes.push("corpus/C15/dt_props.json not found or empty: family local-props runs without the python table".into());
  }
  for (i, r) in rows.iter().enumerate() {
    let g = |k: &str| r[k].as_i64().unwrap_or(0);
    let off = g("offset");
    let z = match r["zone"].as_str() {
      Some(n) => Zone::Named(n.to_string()),
      None => fix_zero(Zone::Offset(off)),
    };
    let named = matches!(z, Zone::Named(_));
    let x = Dt { y: g("y"), m: g("m"), d: g("d"), h: g("h"), mi: g("mi"), s: g("s"), ns: 0, z };
    out.push(LocalCase {
      x,
      form: (i % 3) as u8,
      table_offset: if named { Some(off) } else { None },
      py: Some((g("weekday"), g("yday"), g("week"), r["weekday_name"].as_str().unwrap_or("").to_string(), r["month_name"].as_str().unwrap_or("").to_string())),
      dates: r["dates"].as_str().unwrap_or("").to_string(),
      class: format!("python:{}", r["class"].as_str().unwrap_or("")),
    });
  }
  // (b) generated: any year, offsets with minutes and seconds
  let n = if thorough { 12_000 } else { 2500 };
  for k in 0..n {
    let y = match rng.below(8) {
      0 => rng.range(-3000, 3000),
      1 => rng.range(1900, 2100),
      2 => *rng.pick(&[-262_143i64, 262_142, -1, 0, 1, 999, 1000, 9999, 10_000, -9999, 1582, 1600, 1900, 2000, 2100]),
      3 => rng.range(-262_143, 262_142),
      4 => *rng.pick(&[999_999_999i64, -999_999_999, 262_143, -262_144, 300_000, -300_000, 999_999_996]),
      5 => rng.range(-999_999_999, 999_999_999),
      _ => rng.range(1, 9999),
    };
    // the turn of a year, of a month (the end of February too), or any day
    let (m, d) = match rng.below(6) {
      0 => (1, 1),
      1 => (12, 31),
      2 => {
        let m = rng.range(1, 12);
        (m, 1)
      }
      3 => {
        let m = rng.range(1, 12);
        (m, dim(y, m))
      }
      4 => *rng.pick(&[(2, 28), (3, 1), (2, dim(y, 2))]),
      _ => {
        let m = rng.range(1, 12);
        (m, rng.range(1, dim(y, m)))
      }
    };
    let off = match rng.below(6) {
      0 => 3600 * rng.range(-14, 14),
      1 => 60 * rng.range(-899, 899),
      2 => rng.range(-53_999, 53_999),
      3 => *rng.pick(&[-53_999i64, 53_999, -50_400, 50_400, -1, 1, -60, 60, 45_900, 20_700, -12_600]),
      4 => 1800 * rng.range(-29, 29),
      _ => 900 * rng.range(-59, 59),
    };
    let control = k % 6 == 5 || off == 0;
    // seconds of the local day: within |offset| of midnight on the side where UTC is on another day
    let sod = if control {
      rng.range(0, 86_399)
    } else if off > 0 {
      let r = rng.range(0, off - 1);
      *rng.pick(&[0, off - 1, r])
    } else {
      let r = rng.range(86_400 + off, 86_399);
      *rng.pick(&[86_399, 86_400 + off, r])
    };
    let z = if control && rng.chance(1, 4) { Zone::Local } else { fix_zero(Zone::Offset(off)) };
    let ns = if rng.chance(1, 5) { rng.range(1, 999) * 1_000_000 } else { 0 };
    let x = Dt { y, m, d, h: sod / 3600, mi: sod % 3600 / 60, s: sod % 60, ns, z };
    let dates = if x.z == Zone::Local { "same".to_string() } else { utc_relation(&x, off).to_string() };
    out.push(LocalCase { x, form: rng.below(3) as u8, table_offset: None, py: None, dates, class: "generated".into() });
  }
  out
}

fn run_local_props(cx: &mut Ctx, cases: &[LocalCase]) {
  let mut live: Vec<&LocalCase> = vec![];
  for c in cases {
    let e = dt_form_expr(&c.x, c.form);
    let o = feel(&e);
    if o == c.x.obs() {
      live.push(c);
    } else {
      cx.rep.hit("skipped:construction-differs");
      cx.rep.disagree(Kind::ImplVsSpec, "construction", "C15 a date and time literal does not denote the written date, time and offset", &e, &o, &c.x.obs());
    }
  }
  let orc = |c: &LocalCase| c.table_offset.map(|o| o.to_string()).unwrap_or_else(|| "none".to_string());
  let reqs: Vec<String> = live.iter().map(|c| format!("(c15 dtprops ({}) {})", c.x.fields(), orc(c))).collect();
  let answers = cx.model.ask_batch(&reqs);
  let mut builtin_null = 0usize;
  let mut builtin_value = 0usize;
  for ((c, req), ans) in live.iter().zip(reqs.iter()).zip(answers.iter()) {
    let xe = dt_form_expr(&c.x, c.form);
    let e = format!("{{a: {}, r: [{}]}}.r", xe, LOCAL_PROP_NAMES.iter().map(|p| format!("a.{}", p)).collect::<Vec<_>>().join(", "));
    let obs: Vec<String> = feel_list(&e).iter().map(|s| render_prop(&norm_panic(s))).collect();
    cx.rep.case(&format!("local-props {} {}", c.form, req), c.dates != "same");
    cx.rep.hit(&format!("local-props:{}", c.class));
    cx.rep.hit(&format!("local-props-utc-date:{}", if c.dates == "same" { "same as the local date" } else { "differs from the local date" }));
    if c.dates != "same" {
      cx.rep.hit(&format!("local-props-differs-in:{}", c.dates));
    }
    cx.rep.hit(match &c.x.z {
      Zone::Named(_) => "local-props-zone:named",
      Zone::Utc => "local-props-zone:utc",
      Zone::Local => "local-props-zone:local",
      Zone::Offset(o) if o % 3600 == 0 => "local-props-zone:offset of whole hours",
      Zone::Offset(o) if o % 60 == 0 => "local-props-zone:offset with minutes",
      Zone::Offset(_) => "local-props-zone:offset with seconds",
    });
    cx.rep.hit(classify_year(c.x.y));
    let parsed = Sexp::parse(ans);
    let (mo, sp, cal): (Vec<String>, Vec<String>, Vec<String>) = match parsed.as_ref().and_then(|s| s.as_list()) {
      Some([m, s, k]) => {
        let v = |x: &Sexp| x.as_list().map(|l| l.iter().map(|a| a.to_string()).collect::<Vec<_>>()).unwrap_or_default();
        (v(m), v(s), v(k))
      }
      _ => {
        cx.rep.disagree(Kind::ImplVsModel, "local-props", "driver-error", req, &obs.join(" "), ans);
        continue;
      }
    };
    if obs.len() != LOCAL_PROP_NAMES.len() || mo.len() != obs.len() || sp.len() != obs.len() || cal.len() != 4 {
      cx.rep.disagree(Kind::ImplVsSpec, "local-props", "C15 local-props: evaluating the properties of a date and time fails", &e, &obs.join(" "), &sp.join(" "));
      continue;
    }
    // the python table against the Lean specification (both are oracles: they must agree)
    if let Some((wd, yday, week, _, _)) = &c.py {
      if sp[3] != wd.to_string() || cal[0] != yday.to_string() || cal[1] != week.to_string() || cal[3] != wd.to_string() {
        cx.rep.disagree(Kind::ImplVsModel, "local-props", "local-props: the Lean calendar (weekday, day of year, ISO week, Zeller) differs from python datetime", req, &format!("{} {}", sp.join(" "), cal.join(" ")), &format!("weekday {} yday {} week {}", wd, yday, week));
        continue;
      }
    }
    // mirror model
    for k in 0..obs.len() {
      if obs[k] != mo[k] {
        cx.rep.disagree(Kind::ImplVsModel, "property_access", "date-time property access differs from the model", &format!("({}).{}", xe, LOCAL_PROP_NAMES[k]), &obs[k], &mo[k]);
      }
    }
    // the property: the written local components, the calendar's weekday of the local date
    for k in 0..obs.len() {
      if obs[k] != sp[k] {
        let sig = if k == 7 && matches!(c.x.z, Zone::Named(_)) {
          "C15 named-zone offset differs from zoneinfo".to_string()
        } else if k == 3 {
          "C15 local-props: the weekday of a date and time is not the weekday of its (local) date".to_string()
        } else {
          format!("C15 local-props: the property `{}` of a date and time is not that of the written (local) date and time", LOCAL_PROP_NAMES[k])
        };
        cx.rep.disagree(Kind::ImplVsSpec, "property_access", &sig, &format!("({}).{}", xe, LOCAL_PROP_NAMES[k]), &obs[k], &sp[k]);
      }
    }
    // the calendar built-ins, positional and named
    let be = format!("{{a: {}, r: [day of year(a), week of year(a), day of week(a), month of year(a), day of year(date: a), week of year(date: a)]}}.r", xe);
    let bo: Vec<String> = feel_list(&be).iter().map(|s| norm_panic(s)).collect();
    if bo.len() == 6 {
      let names = ["day of year", "week of year", "day of week", "month of year", "day of year (named parameter)", "week of year (named parameter)"];
      let wd_names = ["Monday", "Tuesday", "Wednesday", "Thursday", "Friday", "Saturday", "Sunday"];
      let mn_names = ["January", "February", "March", "April", "May", "June", "July", "August", "September", "October", "November", "December"];
      let wd: usize = sp[3].parse().unwrap_or(1);
      let want = [
        format!("(n {})", cal[0]),
        format!("(n {})", cal[1]),
        Sexp::str(wd_names[(wd + 6) % 7]).to_string(),
        Sexp::str(mn_names[((c.x.m - 1).rem_euclid(12)) as usize]).to_string(),
        format!("(n {})", cal[0]),
        format!("(n {})", cal[1]),
      ];
      for k in 0..6 {
        if bo[k] == "null" {
          builtin_null += 1;
        } else {
          builtin_value += 1;
          if bo[k] != want[k] {
            cx.rep.disagree(Kind::ImplVsSpec, "calendar_builtins", &format!("C15 local-props: the built-in `{}` of a date and time is not the calendar's for its (local) date", names[k]), &be, &bo[k], &want[k]);
          }
        }
      }
    } else {
      cx.rep.hit("local-props-builtins:not evaluated (parse error or panic)");
      if bo.iter().any(|s| s == "panic") {
        cx.rep.disagree(Kind::ImplVsSpec, "calendar_builtins", "C15 local-props: a calendar built-in panics", &be, &bo.join(" "), "values or null");
      }
    }
    if cx.rep.samples.len() < 14 && c.dates == "year" {
      cx.rep.sample(json!({"expression": e, "implementation": obs, "specification": sp, "calendar (day of year, ISO week, week year, Zeller)": cal, "local date vs UTC date": c.dates}));
    }
  }
  cx.rep.extra.insert("local_props_cases".into(), json!(live.len()));
  cx.rep.extra.insert("calendar_builtins".into(), json!({"answers null (not implemented)": builtin_null, "answers a value": builtin_value}));
  if builtin_value == 0 {
    cx.rep.hit("local-props-builtins:all null (not implemented; not named by the property)");
  }
}

/// Times with offsets: hour, minute, second are the written ones (not those of the same instant in UTC).
fn run_time_props(cx: &mut Ctx, rng: &mut Rng, n: usize) {
  for _ in 0..n {
    let x = random_dt(rng, 2000, 2000);
    let z = if rng.chance(1, 6) { Zone::Local } else { x.z.clone() };
    let t = Dt { z, ..x };
    let text = t.time_text();
    let e = format!("{{t: {}, r: [t.hour, t.minute, t.second, t.time offset, t.timezone]}}.r", if rng.chance(1, 2) { format!("time(\"{}\")", text) } else { format!("@\"{}\"", text) });
    let obs: Vec<String> = feel_list(&e).iter().map(|s| render_prop(&norm_panic(s))).collect();
    cx.rep.case(&format!("time-props {}", text), true);
    cx.rep.hit("time-props");
    let off = match &t.z {
      Zone::Utc => "0".to_string(),
      Zone::Offset(o) => o.to_string(),
      _ => "none".to_string(),
    };
    let want = vec![t.h.to_string(), t.mi.to_string(), t.s.to_string(), off, "none".to_string()];
    if obs != want {
      cx.rep.disagree(Kind::ImplVsSpec, "property_access", "C15 local-props: the properties of a time are not those of the written (local) time", &e, &obs.join(" "), &want.join(" "));
    }
  }
}

// ---------------------------------------------------------------------------------------------

fn random_valid_date(rng: &mut Rng, lo: i64, hi: i64) -> (i64, i64, i64) {
  let y = rng.range(lo, hi);
  let m = rng.range(1, 12);
  let d = rng.range(1, dim(y, m));
  (y, m, d)
}

fn random_offset(rng: &mut Rng) -> Zone {
  match rng.below(6) {
    0 => Zone::Utc,
    1 => Zone::Offset(60 * rng.range(-899, 899)).clone(),
    2 => Zone::Offset(rng.range(-53_999, 53_999)),
    3 => Zone::Offset(3600 * rng.range(-14, 14)),
    4 => Zone::Offset(-60 * rng.range(1, 59)),
    _ => Zone::Offset(900 * rng.range(-56, 56)),
  }
}

fn fix_zero(z: Zone) -> Zone {
  // an offset of zero is stored as UTC by the code (FeelZone::new)
  if z == Zone::Offset(0) {
    Zone::Utc
  } else {
    z
  }
}

fn random_dt(rng: &mut Rng, lo: i64, hi: i64) -> Dt {
  let (y, m, d) = random_valid_date(rng, lo, hi);
  // fractions of at most three digits survive the code's f64 conversion (longer ones are C14's
  // concern; a few are kept and skipped when the constructed value is not the intended one)
  let ns = match rng.below(8) {
    0 | 1 | 2 => 0,
    3 | 4 => rng.range(1, 999) * 1_000_000,
    5 | 6 => rng.range(1, 9) * 100_000_000,
    _ => rng.range(0, 999_999_999),
  };
  Dt { y, m, d, h: rng.range(0, 23), mi: rng.range(0, 59), s: rng.range(0, 59), ns, z: fix_zero(random_offset(rng)) }
}

// ---------------------------------------------------------------------------------------------
// family `process-zone`: zone-less date-times, resolved with the zone of the PROCESS (`TZ`)
//
// A date and time written without offset or zone is compared and subtracted through `get_local_offset`
// (`feel/src/temporal/mod.rs:595`): the offset of the zone of the process. The harness itself runs in UTC,
// where every such offset is 0; the family therefore starts child processes of itself with `TZ` set to a zone
// of corpus/C14/zone_transitions.json (python zoneinfo over the system database, which is also what chrono's
// `Local` reads) and, in each, evaluates zone-less literals at every hour and half hour within ±(|offset| +
// 2 h) of every transition (and the seconds next to both wall-clock edges):
//   `date and time("L") - date and time("LZ")`   — minus the offset the code resolved `L` with, or null;
//   `date and time("L") = date and time("UZ")`   — `U` = `L` minus the offset of the table, when `L` exists once.
// Expected (interval arithmetic over the table; second statement: the Lean `zoneOffsetByRules`): a wall-clock
// reading that exists once is resolved with the offset in force for it; a skipped one has no instant (null; the
// offsets next to the gap are tolerated — outside the property's quantifier); a repeated one: null or one of
// the two. No hook: the children are the harness binary with `VERIF_PROBE` (a list of expressions to evaluate).

const PZ_QUICK: [&str; 8] = ["Europe/Warsaw", "America/New_York", "Australia/Lord_Howe", "America/St_Johns", "Pacific/Apia", "Africa/Casablanca", "Asia/Kathmandu", "Etc/UTC"];

pub(crate) fn pz_child(tz: &str, lines: &[String]) -> Option<Vec<String>> {
  use std::process::{Command, Stdio};
  let exe = std::env::current_exe().ok()?;
  let path = std::env::temp_dir().join(format!("verif-c15-pz-{}-{}.txt", std::process::id(), tz.replace('/', "_")));
  std::fs::write(&path, lines.join("\n")).ok()?;
  let out = Command::new(exe).args(["C15", "--tier", "quick", "--seed", "1"]).env("TZ", tz).env("VERIF_PROBE", &path).stdin(Stdio::null()).stderr(Stdio::null()).output().ok();
  let _ = std::fs::remove_file(&path);
  let out = out?;
  let text = String::from_utf8_lossy(&out.stdout).to_string();
  let mut res = vec![];
  for l in text.lines() {
    if let Some(i) = l.rfind("  =>  ") {
      res.push(l[i + 6..].trim().to_string());
    }
  }
  if res.len() == lines.len() {
    Some(res)
  } else {
    None
  }
}

fn run_process_zone(cx: &mut Ctx, thorough: bool) {
  // the expectation (corpus/C14/zone_transitions.json) was computed by python zoneinfo from the system zone
  // database, release 2025b; chrono's `Local` in the children reads the same files. On a machine with another
  // release (or none: `Local` then falls back to UTC) the table is not the expectation: the family is skipped
  // with a note instead of raising alarms that say nothing about the code.
  let sys = std::fs::read_to_string("/usr/share/zoneinfo/tzdata.zi").ok().and_then(|t| t.lines().next().map(|l| l.trim_start_matches("# version").trim().to_string()));
  if sys.as_deref() != Some("2025b") {
    cx.rep.notes.push(format!("process-zone: NOT RUN - the system zone database is {:?}, corpus/C14/zone_transitions.json was made from 2025b", sys));
    cx.rep.hit("process-zone:not run (system zone database differs from the table's)");
    return;
  }
  let mut tables = crate::c14::load_zone_tables(cx.rep);
  tables.retain(|z| std::path::Path::new("/usr/share/zoneinfo").join(&z.name).exists());
  // Europe/Warsaw first: the first disagreement of a signature becomes the replay
  tables.sort_by_key(|z| (z.name != "Europe/Warsaw", z.name.clone()));
  let mut deferred: Vec<(Kind, String, String, String)> = vec![];
  let mut n_lit = 0usize;
  let mut n_zone = 0usize;
  for z in &tables {
    if !thorough && !PZ_QUICK.contains(&z.name.as_str()) {
      continue;
    }
    // wall-clock readings around the transitions from 1902 on (chrono reads the 64-bit block; earlier
    // transitions are local mean times, covered for named zones by C14)
    let mut locals: Vec<i64> = vec![];
    let mut prev = z.initial;
    for (k, (t, o)) in z.trs.iter().enumerate() {
      let (ob, oa) = (prev, *o);
      prev = *o;
      if *t < -2_140_000_000 || *t > 2_114_380_800 {
        continue;
      }
      if !thorough && *t < 0 && k % 3 != 0 {
        continue;
      }
      let w = ob.abs().max(oa.abs()) + 7200;
      let lo = (*t + ob.min(oa) - w).div_euclid(1800) * 1800;
      let hi = *t + ob.max(oa) + w;
      let mut l = lo;
      while l <= hi {
        locals.push(l);
        l += 1800;
      }
      for e in [*t + ob - 1, *t + ob, *t + oa - 1, *t + oa] {
        locals.push(e);
      }
    }
    // and plain days far from any transition
    for y in [1975i64, 1999, 2021, 2036] {
      for (m, d) in [(1i64, 15i64), (7, 15)] {
        locals.push(crate::c14::zi_days_from_civil_pub(y, m, d) * 86_400 + 43_200);
      }
    }
    locals.sort();
    locals.dedup();
    let mut lines: Vec<String> = vec![];
    let mut offs_all: Vec<Vec<i64>> = vec![];
    for l in &locals {
      let offs = z.offsets_for_local(*l);
      let lt = crate::c14::zi_local_text(*l, 0);
      lines.push(format!("date and time(\"{}\") - date and time(\"{}Z\")", lt, lt));
      let u = if offs.len() == 1 { *l - offs[0] } else { *l };
      lines.push(format!("date and time(\"{}\") = date and time(\"{}Z\")", lt, crate::c14::zi_local_text(u, 0)));
      offs_all.push(offs);
    }
    let Some(res) = pz_child(&z.name, &lines) else {
      cx.rep.disagree(Kind::ImplVsModel, "process-zone", "process-zone: the child process with TZ set gave no answers", &z.name, "", "one answer per expression");
      continue;
    };
    n_zone += 1;
    // the Lean statement of the same question
    let mut spec: Vec<String> = vec![];
    for chunk in locals.chunks(150) {
      let dts: Vec<String> = chunk
        .iter()
        .map(|l| {
          let (y, m, d) = civil_from_days(l.div_euclid(86_400));
          let sod = l.rem_euclid(86_400);
          format!("({} {} {} {} {} {} 0 local)", y, m, d, sod / 3600, sod % 3600 / 60, sod % 60)
        })
        .collect();
      let req = format!("(c15 localoff {} ({}) ({}))", z.initial, z.trs.iter().map(|(t, o)| format!("{} {}", t, o)).collect::<Vec<_>>().join(" "), dts.join(" "));
      let ans = cx.model.ask(&req);
      match Sexp::parse(&ans).and_then(|s| s.as_list().map(|l| l.to_vec())) {
        Some(items) if items.len() == chunk.len() => {
          for it in items {
            spec.push(it.as_list().and_then(|l| l.first().map(|x| x.to_string())).unwrap_or_default());
          }
        }
        _ => {
          cx.rep.disagree(Kind::ImplVsModel, "process-zone", "driver-error (c15 localoff)", &z.name, &ans.chars().take(80).collect::<String>(), "one pair of offsets per date and time");
          for _ in chunk {
            spec.push(String::new());
          }
        }
      }
    }
    for (i, l) in locals.iter().enumerate() {
      let offs = &offs_all[i];
      let (sub, eq) = (norm_panic(&res[2 * i]), norm_panic(&res[2 * i + 1]));
      let e = format!("TZ={} {}", z.name, lines[2 * i]);
      n_lit += 1;
      cx.rep.case(&e, true);
      cx.rep.hit(&format!("family:process-zone:{}", match offs.len() { 0 => "skipped", 1 => "exists once", _ => "repeated" }));
      // the offset the code resolved the zone-less value with
      let got: Option<i64> = if sub.starts_with("(dtd ") { sub[5..sub.len() - 1].parse::<i128>().ok().map(|n| (-n / 1_000_000_000) as i64) } else { None };
      let got_text = got.map(|o| o.to_string()).unwrap_or_else(|| sub.clone());
      // harness oracle against the Lean statement
      let want_spec = if offs.len() == 1 { offs[0].to_string() } else { "none".to_string() };
      if !spec[i].is_empty() && spec[i] != want_spec {
        cx.rep.disagree(Kind::ImplVsModel, "process-zone", "harness: the interval oracle and the Lean zoneOffsetByRules differ", &format!("{} local {}", z.name, l), &want_spec, &spec[i]);
      }
      // the first second of a gap and the second after a repeated hour: chrono's `Local` (0.4.45) counts the
      // edge itself to the other side for some transitions (a convention of one second inside the library the
      // code asks, not of the code): at an edge the answers of both neighbouring seconds are accepted
      let edge = z.trs.iter().enumerate().any(|(k, (t, o))| {
        let ob = if k == 0 { z.initial } else { z.trs[k - 1].1 };
        *l == *t + ob || *l == *t + *o
      });
      if edge {
        let (before, after) = (z.offsets_for_local(*l - 1), z.offsets_for_local(*l + 1));
        let ok = if sub == "null" { before.len() != 1 || after.len() != 1 || offs.len() != 1 } else { got.map(|o| before.contains(&o) || after.contains(&o) || offs.contains(&o)).unwrap_or(false) };
        cx.rep.hit("process-zone:edge second (both neighbours accepted)");
        if !ok {
          deferred.push((Kind::ImplVsSpec, e.clone(), got_text.clone(), format!("one of {:?} {:?} {:?}", before, offs, after)));
        }
        continue;
      }
      match offs.len() {
        1 => {
          if got != Some(offs[0]) || eq != "true" {
            cx.rep.disagree(
              Kind::ImplVsSpec,
              "process-zone",
              "C15 process-zone: a zone-less date and time is not resolved with the offset in force at the written local time",
              &e,
              &format!("offset {} ; {} => {}", got_text, lines[2 * i + 1], eq),
              &format!("offset {} ; true", offs[0]),
            );
          }
        }
        0 => {
          let around: Vec<i64> = {
            let mut v = vec![z.initial];
            v.extend(z.trs.iter().map(|p| p.1));
            v
          };
          if sub == "null" {
            cx.rep.hit("process-zone:skipped:null");
          } else if got.map(|o| around.contains(&o)).unwrap_or(false) {
            cx.rep.hit("process-zone:skipped:resolved with an offset of the zone");
          } else {
            cx.rep.disagree(Kind::ImplVsSpec, "process-zone", "C15 process-zone: a skipped local time is resolved with an offset the zone never had", &e, &got_text, "null");
          }
        }
        _ => {
          if sub == "null" {
            cx.rep.hit("process-zone:repeated:null");
          } else if got.map(|o| offs.contains(&o)).unwrap_or(false) {
            cx.rep.hit("process-zone:repeated:one of the two");
          } else {
            cx.rep.disagree(Kind::ImplVsSpec, "process-zone", "C15 process-zone: a repeated local time is resolved with neither of its two offsets", &e, &got_text, &format!("null or one of {:?}", offs));
          }
        }
      }
      // the tie: the model of the repaired code (`zoneOffsetByRules`) answers none for skipped and repeated readings
      if !spec[i].is_empty() && offs.len() != 1 && sub != "null" {
        cx.rep.hit("process-zone:model-none-but-value");
        deferred.push((Kind::ImplVsModel, e.clone(), got_text.clone(), "none (the model of the repaired code: a skipped or repeated local time has no offset)".to_string()));
      }
      if i % 997 == 0 {
        cx.rep.sample(json!({"family": "process-zone", "TZ": z.name, "expression": lines[2 * i], "implementation": sub, "offsets in force (zoneinfo)": offs, "Lean": spec[i]}));
      }
    }
  }
  for (k, e, got, want) in deferred {
    cx.rep.disagree(k, "process-zone", "C15 process-zone: a zone-less date and time is not resolved with the offset in force at the written local time", &e, &got, &want);
  }
  cx.rep.notes.push(format!("process-zone: {} zone-less literals in child processes with TZ set to {} zones", n_lit, n_zone));
  cx.rep.extra.insert("process_zone_cases".into(), json!(n_lit));
}

// ---------------------------------------------------------------------------------------------
// family `sub-laws`: the arithmetic that exists on date-times — differences, order, sums of differences —
// judged on the implementation's own answers (no oracle): (a − b) + (b − c) = a − c; b − a = −(a − b);
// a − a = PT0S; a < b ⟺ a − c < b − c; a = b ⟺ a − c = b − c; a < b ⟺ a − b < PT0S
// (theorems datetime_sub_chasles, datetime_sub_antisymm, datetime_sub_sign, datetime_order_sub_compat).

fn run_sub_laws(cx: &mut Ctx, triples: &[(Dt, Dt, Dt)]) {
  for (a, b, c) in triples {
    let e = format!(
      "{{a: {}, b: {}, c: {}, z: duration(\"PT0S\"), r: [a - b, b - c, a - c, (a - b) + (b - c), b - a, -(a - b), a < b, (a - c) < (b - c), a = b, (a - c) = (b - c), a - a, (a - b) < z, a > b, (a - c) > (b - c)]}}.r",
      a.expr(),
      b.expr(),
      c.expr()
    );
    let r: Vec<String> = feel_list(&e).iter().map(|s| norm_panic(s)).collect();
    cx.rep.case(&e, true);
    if r.len() != 14 {
      cx.rep.hit("sub-laws:not-evaluated");
      if r.iter().any(|s| s == "panic") {
        cx.rep.disagree(Kind::ImplVsSpec, "sub-laws", "C15 sub-laws: date-time arithmetic panics", &e, &r.join(" "), "values or null");
      }
      continue;
    }
    let val = |s: &String| s.starts_with("(dtd ");
    let mut law = |name: &str, applies: bool, holds: bool, got: String, want: String| {
      if !applies {
        cx.rep.hit(&format!("sub-laws:{}:not applicable (a difference is null)", name));
      } else if holds {
        cx.rep.hit(&format!("sub-laws:{}:holds", name));
      } else {
        cx.rep.disagree(Kind::ImplVsSpec, "sub-laws", &format!("C15 sub-laws: {} fails", name), &e, &got, &want);
      }
    };
    law("(a - b) + (b - c) = a - c", val(&r[0]) && val(&r[1]) && val(&r[2]), r[3] == r[2], r[3].clone(), r[2].clone());
    law("b - a = -(a - b)", val(&r[0]) && val(&r[4]), r[4] == r[5], r[4].clone(), r[5].clone());
    law("a < b iff a - c < b - c", val(&r[1]) && val(&r[2]), r[6] == r[7] && r[12] == r[13], format!("{} {}", r[7], r[13]), format!("{} {}", r[6], r[12]));
    law("a = b iff a - c = b - c", val(&r[1]) && val(&r[2]), r[8] == r[9], r[9].clone(), r[8].clone());
    law("a - a = PT0S", val(&r[0]), r[10] == "(dtd 0)", r[10].clone(), "(dtd 0)".into());
    law("a < b iff a - b < PT0S", val(&r[0]), r[6] == r[11], r[11].clone(), r[6].clone());
  }
  cx.rep.extra.insert("sub_laws_triples".into(), json!(triples.len()));
}

// ---------------------------------------------------------------------------------------------
// family `temporal-arith`: `+` and binary `-` on every pair of kinds of temporal values, against the model of
// `build_add` / `build_sub` (`feelAdd`, `feelSub`; theorem temporal_add_sub_domain). Sums and differences of a
// date, a time or a date and time with a duration are null in the code (not implemented, not named by the
// property): counted; the model says so too, so an implementation that starts to answer breaks the tie and the
// model has to follow.

fn run_temporal_arith(cx: &mut Ctx, operands: &[String]) {
  let obs: Vec<String> = operands.iter().map(|t| norm_panic(&feel(t))).collect();
  let mut reqs = vec![];
  let mut exprs = vec![];
  for (i, v) in operands.iter().enumerate() {
    for (j, w) in operands.iter().enumerate() {
      if obs[i] == "null" || obs[j] == "null" || obs[i] == "panic" || obs[j] == "panic" {
        continue;
      }
      reqs.push(format!("(c15 arith {} {} none none)", obs[i], obs[j]));
      exprs.push((i, j, format!("{{v: {}, w: {}, r: [v + w, w + v, v - w, w - v]}}.r", v, w)));
    }
  }
  let answers = cx.model.ask_batch(&reqs);
  let kind = |o: &str| -> &'static str {
    if o.starts_with("(dtd") {
      "days and time duration"
    } else if o.starts_with("(ymd") {
      "years and months duration"
    } else if o.starts_with("(dt ") {
      "date and time"
    } else if o.starts_with("(date") {
      "date"
    } else if o.starts_with("(time") {
      "time"
    } else {
      "other"
    }
  };
  for ((i, j, e), ans) in exprs.iter().zip(answers.iter()) {
    let r: Vec<String> = feel_list(e).iter().map(|s| norm_panic(s)).collect();
    cx.rep.case(e, i != j);
    let got = format!("({})", r.join(" "));
    if &got != ans {
      cx.rep.disagree(Kind::ImplVsModel, "temporal-arith", "temporal-arith: + or - on temporal values differs from the model of build_add / build_sub", e, &got, ans);
    }
    if r.len() == 4 {
      for (k, op) in ["+", "+ (swapped)", "-", "- (swapped)"].iter().enumerate() {
        let (l, rr) = if k % 2 == 0 { (kind(&obs[*i]), kind(&obs[*j])) } else { (kind(&obs[*j]), kind(&obs[*i])) };
        cx.rep.hit(&format!("temporal-arith:{} {} {}:{}", l, op.chars().next().unwrap(), rr, if r[k] == "null" { "null" } else { "value" }));
      }
    }
  }
  cx.rep.extra.insert("temporal_arith_pairs".into(), json!(exprs.len()));
}

// ---------------------------------------------------------------------------------------------
// family `conversions`: `date(v)`, `time(v)`, `date and time(v, w)`, `years and months duration(v, w)` on every
// pair of kinds of temporal values, against the model of the built-ins (bifDateOf, bifTimeOf, bifDateTimeOf,
// bifYmDuration; theorems datetime_decompose_recompose, ym_whole_months_datetimes) and — whole months — against
// the calendar specification on the WRITTEN dates; `date and time(date(v), time(v)) = v` on every date and time.

fn run_conversions(cx: &mut Ctx, operands: &[String]) {
  let obs: Vec<String> = operands.iter().map(|t| norm_panic(&feel(t))).collect();
  let mut reqs = vec![];
  let mut exprs = vec![];
  for (i, v) in operands.iter().enumerate() {
    for (j, w) in operands.iter().enumerate() {
      if obs[i] == "null" || obs[j] == "null" || obs[i] == "panic" || obs[j] == "panic" {
        continue;
      }
      reqs.push(format!("(c15 conv {} {})", obs[i], obs[j]));
      exprs.push((i, j, format!("{{v: {}, w: {}, r: [date(v), time(v), date and time(v, w), years and months duration(v, w), date and time(date(v), time(v))]}}.r", v, w)));
    }
  }
  let answers = cx.model.ask_batch(&reqs);
  for ((i, j, e), ans) in exprs.iter().zip(answers.iter()) {
    let r: Vec<String> = feel_list(e).iter().map(|s| norm_panic(s)).collect();
    cx.rep.case(e, true);
    let Some((m, sp)) = parse_pair(ans) else {
      cx.rep.disagree(Kind::ImplVsModel, "conversions", "driver-error (c15 conv)", e, &r.join(" "), ans);
      continue;
    };
    if r.len() != 5 {
      cx.rep.disagree(Kind::ImplVsSpec, "conversions", "C15 conversions: a conversion between temporal values fails", e, &r.join(" "), &m.to_string());
      continue;
    }
    let got = format!("({})", r[..4].join(" "));
    if got != m.to_string() {
      cx.rep.disagree(Kind::ImplVsModel, "conversions", "conversions: date(v) / time(v) / date and time(v, w) / years and months duration(v, w) differ from the model", e, &got, &m.to_string());
    }
    // written-out expectations: the date part of v, the time part of v, the date of v with the time w
    {
      let toks = |o: &str| -> Vec<String> { Sexp::parse(o).and_then(|x| x.as_list().map(|l| l.iter().map(|t| t.to_string()).collect())).unwrap_or_default() };
      let (tv, tw) = (toks(&obs[*i]), toks(&obs[*j]));
      let date_of: Option<String> = match tv.first().map(|s| s.as_str()) {
        Some("date") | Some("dt") if tv.len() >= 4 => Some(tv[1..4].join(" ")),
        _ => None,
      };
      let time_of: Option<String> = match tv.first().map(|s| s.as_str()) {
        Some("date") => Some("0 0 0 0 utc".to_string()),
        Some("dt") if tv.len() == 9 => Some(tv[4..9].join(" ")),
        Some("time") if tv.len() == 6 => Some(tv[1..6].join(" ")),
        _ => None,
      };
      let want_date = date_of.clone().map(|d| format!("(date {})", d)).unwrap_or_else(|| "null".into());
      let want_time = time_of.map(|t| format!("(time {})", t)).unwrap_or_else(|| "null".into());
      let want_dt = match (&date_of, tw.first().map(|s| s.as_str())) {
        (Some(d), Some("time")) if tw.len() == 6 => format!("(dt {} {})", d, tw[1..6].join(" ")),
        _ => "null".to_string(),
      };
      let want = [want_date, want_time, want_dt];
      for (k, name) in ["date(v)", "time(v)", "date and time(v, w)"].iter().enumerate() {
        if r[k] != want[k] {
          cx.rep.disagree(Kind::ImplVsSpec, "conversions", &format!("C15 conversions: {} is not the written part(s) of its argument(s)", name), e, &r[k], &want[k]);
        }
      }
    }
    let spt = sp.to_string();
    if r[3] != spt {
      cx.rep.disagree(Kind::ImplVsSpec, "conversions", "C15 conversions: years and months duration of dates / date-times is not the whole months between the written dates", e, &r[3], &spt);
    }
    cx.rep.hit(&format!("conversions:ym:{}", if spt == "null" { "not both with a date" } else { "whole months of the written dates" }));
    if obs[*i].starts_with("(dt ") {
      if r[4] != obs[*i] {
        cx.rep.disagree(Kind::ImplVsSpec, "conversions", "C15 conversions: date and time(date(v), time(v)) is not v", e, &r[4], &obs[*i]);
      } else {
        cx.rep.hit("conversions:date and time(date(v), time(v)) = v");
      }
    }
  }
  cx.rep.extra.insert("conversion_pairs".into(), json!(exprs.len()));
}

pub fn run(cfg: &Cfg) -> Report {
  match crate::util::guarded(|| run_inner(cfg)) {
    Ok(r) => r,
    Err(m) => {
      eprintln!("C15 harness failed: {}", m);
      std::process::exit(3);
    }
  }
}

fn run_inner(cfg: &Cfg) -> Report {
  let mut rep = Report::new(
    "C15",
    "dates (validity, weekday, properties) from date(y,m,d) with month ends, leap days, day 0 and last+1 of years -1..2400 (every day in the thorough tier) and sampled years to ±999999999; date(y,m,d) with fractional, wrapping and out-of-range numbers; pairs of dates (order, whole months); pairs of date-times with offsets and named zones (comparison, subtraction, properties); pairs of date-times within 15 h of a wall-clock boundary (turn of the year, month incl. the end of February in leap and common years, day, hour, daylight-saving switches of named zones) written with offsets -14:00…+14:00 and named zones so that the texts lie on different sides of the boundary while the instants are equal, in the opposite or in the same order (twenty forms: <, <=, =, >=, >, !=, both differences, between and in); durations (components, +, -, =, <); zone-less date-times in child processes with TZ set to zones of the transition table (every hour and half hour around every transition since 1902, the offset they are resolved with against the table and the Lean rules); triples of date-times (six laws of differences and order on the implementation's answers); every pair of kinds of temporal values under + and binary - (against the model) and under date(v), time(v), date and time(v, w), years and months duration(v, w) (against the model, whole months against the calendar on the written dates). Non-trivial: month-end/first/zero days for single dates, distinct operands for pairs; distinct by request line.",
  );
  if crate::c14::probe_if_requested() {
    return rep;
  }
  crate::c14::note_replay(cfg, &mut rep);
  let thorough = cfg.tier == "thorough";
  let mut rng = Rng::new(cfg.seed);
  let mut model = Model::start(&cfg.driver);
  let mut cx = Ctx { rep: &mut rep, model: &mut model };

  // ---- dates
  let mut dates: Vec<(i64, i64, i64)> = vec![];
  if thorough {
    for y in -1..=2400 {
      for m in 1..=12 {
        for d in 0..=(dim(y, m) + 1) {
          dates.push((y, m, d));
        }
        if dim(y, m) < 30 {
          dates.push((y, m, 31));
        }
      }
      dates.push((y, 0, 1));
      dates.push((y, 13, 1));
    }
  } else {
    for y in -1..=2400i64 {
      // the end of February and the turn of the year, every year
      for d in [28, 29, 30] {
        dates.push((y, 2, d));
      }
      dates.push((y, 12, 31));
      dates.push((y, 1, 1));
      // every month end (and day 0, last+1) around century and leap boundaries
      let r = y.rem_euclid(100);
      if r <= 1 || r >= 99 || y.rem_euclid(400) == 4 || y <= 1 {
        for m in 1..=12 {
          for d in [0, 1, dim(y, m), dim(y, m) + 1] {
            dates.push((y, m, d));
          }
        }
        dates.push((y, 0, 1));
        dates.push((y, 13, 1));
      }
    }
    for _ in 0..3000 {
      dates.push(random_valid_date(&mut rng, -1, 2400));
    }
  }
  // beyond: chrono's limits and the library's own limits
  for y in [-999_999_999i64, -262_145, -262_144, -262_143, -262_142, -10_000, -1000, -1, 0, 1, 999, 1000, 9999, 10_000, 262_141, 262_142, 262_143, 262_144, 999_999_999] {
    for (m, d) in [(1, 1), (2, 28), (2, 29), (2, 30), (12, 31), (6, 0), (4, 31)] {
      dates.push((y, m, d));
    }
  }
  // leap and non-leap (century) years beyond chrono: only the library's own leap rule decides
  for y in [300_100i64, 300_004, 300_000, 400_000, 999_999_600, 999_999_900, 999_999_996, 999_999_998, -300_100, -300_004, -400_000, -999_999_600, -999_999_900, -999_999_996] {
    for (m, d) in [(2, 28), (2, 29), (2, 30), (3, 1), (12, 31), (11, 31)] {
      dates.push((y, m, d));
    }
  }
  for _ in 0..(if thorough { 20_000 } else { 2000 }) {
    let span = *rng.pick(&[3000i64, 262_200, 999_999_999]);
    dates.push(random_valid_date(&mut rng, -span, span));
    // the end of February of a random year, valid or not
    let y = rng.range(-span, span);
    dates.push((y, 2, rng.range(28, 30)));
  }
  cx.rep.extra.insert("dates_checked".into(), json!(dates.len()));
  run_dates(&mut cx, &dates);

  // ---- date(y, m, d) from numbers
  run_fromnum(&mut cx, &mut rng, if thorough { 20_000 } else { 3000 });

  // ---- order and whole months on pairs
  let mut pairs: Vec<((i64, i64, i64), (i64, i64, i64))> = vec![];
  pairs.push(((999_999, 1, 1), (999_999, 1, 2)));
  pairs.push(((2021, 3, 10), (2021, 1, 15)));
  pairs.push(((2021, 3, 15), (2021, 1, 10)));
  pairs.push(((2021, 3, 15), (2021, 3, 10)));
  pairs.push(((2021, 1, 15), (2021, 3, 10)));
  pairs.push(((2020, 3, 15), (2021, 3, 10)));
  pairs.push(((2021, 3, 10), (2020, 3, 15)));
  pairs.push(((2011, 12, 22), (2013, 8, 24)));
  pairs.push(((2013, 8, 24), (2011, 12, 22)));
  for _ in 0..(if thorough { 40_000 } else { 5000 }) {
    let span = *rng.pick(&[2i64, 50, 3000, 262_200, 999_999_999]);
    let a = random_valid_date(&mut rng, -span.min(999_999_999), span);
    let b = match rng.below(5) {
      0 => a,
      1 => {
        let m = rng.range(1, 12);
        (a.0, m, rng.range(1, dim(a.0, m)))
      }
      2 => {
        let y = a.0 + rng.range(-1, 1);
        let m = rng.range(1, 12);
        (y, m, rng.range(1, dim(y, m)))
      }
      3 => (a.0, a.1, rng.range(1, dim(a.0, a.1))),
      _ => random_valid_date(&mut rng, -span, span),
    };
    if b.0.abs() <= 999_999_999 {
      pairs.push((a, b));
    }
  }
  run_dcmp(&mut cx, &pairs);
  run_ym(&mut cx, &pairs);

  // ---- date-times
  let mut dtp: Vec<(Dt, Dt)> = vec![];
  let mk = |y, m, d, h, mi, s, ns, z| Dt { y, m, d, h, mi, s, ns, z };
  dtp.push((mk(2021, 1, 1, 0, 0, 0, 0, Zone::Utc), mk(2020, 1, 1, 0, 0, 0, 0, Zone::Offset(3600))));
  dtp.push((mk(2021, 1, 1, 1, 0, 0, 0, Zone::Offset(3600)), mk(2021, 1, 1, 0, 0, 0, 0, Zone::Utc)));
  dtp.push((mk(2300, 1, 1, 0, 0, 0, 0, Zone::Utc), mk(2000, 1, 1, 0, 0, 0, 0, Zone::Utc)));
  dtp.push((mk(999_999, 1, 1, 0, 0, 0, 0, Zone::Utc), mk(999_999, 1, 2, 0, 0, 0, 0, Zone::Utc)));
  dtp.push((mk(262_142, 12, 31, 23, 30, 0, 0, Zone::Offset(-3600)), mk(262_142, 12, 31, 23, 30, 0, 0, Zone::Utc)));
  dtp.push((mk(-262_143, 1, 1, 0, 30, 0, 0, Zone::Offset(3600)), mk(-262_143, 1, 1, 0, 30, 0, 0, Zone::Utc)));
  dtp.push((mk(2021, 6, 1, 12, 0, 0, 0, Zone::Named("Europe/Warsaw".into())), mk(2021, 6, 1, 10, 0, 0, 0, Zone::Utc)));
  dtp.push((mk(2021, 1, 1, 0, 0, 0, 0, Zone::Offset(-1800)), mk(2021, 1, 1, 0, 30, 0, 0, Zone::Utc)));
  // wall-clock years differ, the instants are equal or in the opposite order (corpus; the class is family 4b)
  dtp.push((mk(2021, 1, 1, 0, 30, 0, 0, Zone::Offset(7200)), mk(2020, 12, 31, 23, 0, 0, 0, Zone::Utc)));
  dtp.push((mk(2021, 1, 1, 0, 0, 0, 0, Zone::Offset(3600)), mk(2020, 12, 31, 23, 0, 0, 0, Zone::Utc)));
  dtp.push((mk(2021, 12, 31, 19, 0, 0, 0, Zone::Named("America/New_York".into())), mk(2022, 1, 1, 0, 0, 0, 0, Zone::Utc)));
  let n_dt = if thorough { 30_000 } else { 4000 };
  for _ in 0..n_dt {
    let span = *rng.pick(&[1i64, 100, 300, 3000, 262_143]);
    let base = rng.range(-1, 2400);
    let lo = (base - span).max(-262_150);
    let hi = (base + span).min(262_150);
    let a = random_dt(&mut rng, lo, hi);
    let b = match rng.below(4) {
      0 => {
        // the same instant written with another offset, or nearly
        let mut b = random_dt(&mut rng, a.y, a.y);
        b.m = a.m;
        b.d = a.d;
        b.h = a.h;
        b.mi = a.mi;
        b.s = a.s;
        b.ns = a.ns;
        b
      }
      1 => {
        let mut b = a.clone();
        b.z = fix_zero(random_offset(&mut rng));
        b.s = rng.range(0, 59);
        b
      }
      _ => random_dt(&mut rng, lo, hi),
    };
    dtp.push((a, b));
  }
  // named zones (offsets from the independent table)
  for _ in 0..(if thorough { 3000 } else { 400 }) {
    let r = rng.pick(&ZONE_TABLE).clone();
    let a = mk(r.1 as i64, r.2 as i64, r.3 as i64, r.4 as i64, r.5 as i64, r.6 as i64, 0, Zone::Named(r.0.to_string()));
    let b = if rng.chance(1, 2) {
      let q = rng.pick(&ZONE_TABLE).clone();
      mk(q.1 as i64, q.2 as i64, q.3 as i64, q.4 as i64, q.5 as i64, q.6 as i64, 0, Zone::Named(q.0.to_string()))
    } else {
      // the same instant in UTC, according to the table
      let secs = (a.h * 3600 + a.mi * 60 + a.s) - r.7 as i64;
      if secs < 0 || secs >= 86_400 {
        random_dt(&mut rng, a.y, a.y)
      } else {
        mk(a.y, a.m, a.d, secs / 3600, secs % 3600 / 60, secs % 60, 0, Zone::Utc)
      }
    };
    dtp.push((a, b));
  }
  run_dt_pairs(&mut cx, &dtp);
  run_zone_gaps(&mut cx);

  // ---- pairs that straddle a wall-clock boundary (own random stream: the families above and below keep theirs)
  {
    let zones = load_zone_rules(cx.rep);
    let mut brng = Rng::new(cfg.seed ^ 0x0B0D_A15E);
    let bp = boundary_pairs(&mut brng, thorough, &zones);
    cx.rep.extra.insert("boundary_pairs".into(), json!(bp.len()));
    run_dt_boundary(&mut cx, &bp);
    // ---- local dates 0…3 days apart, instants within two hours: every pair of extreme offsets (own random stream)
    let mut xrng = Rng::new(cfg.seed ^ 0x0E87_0FF5);
    let xp = extreme_pairs(&mut xrng, thorough, &zones, cx.rep);
    cx.rep.extra.insert("extreme_offset_pairs".into(), json!(xp.len()));
    run_dt_boundary(&mut cx, &xp);
  }

  // ---- every property of date-times whose local date is not their UTC date (own random stream)
  {
    let mut prng = Rng::new(cfg.seed ^ 0x10CA_1DA7);
    let lc = local_prop_cases(&mut prng, thorough, cx.rep);
    run_local_props(&mut cx, &lc);
    run_time_props(&mut cx, &mut prng, if thorough { 2000 } else { 400 });
  }

  // properties: every table row (zone offset against zoneinfo) and random date-times
  let mut pd: Vec<Dt> = vec![];
  let mut pt: Vec<Option<i64>> = vec![];
  for r in ZONE_TABLE.iter() {
    pd.push(mk(r.1 as i64, r.2 as i64, r.3 as i64, r.4 as i64, r.5 as i64, r.6 as i64, 0, Zone::Named(r.0.to_string())));
    pt.push(Some(r.7 as i64));
  }
  // local times around the daylight-saving transitions of ten zones, 2012-2020 (corpus/C15/zone_offsets.json,
  // generated by lib/zone_oracle.py from the system zone database): the offset of a named zone depends on the
  // local time itself, also within a few hours of a transition
  let mut gap_rows: Vec<(String, String)> = vec![];
  {
    let path = concat!(env!("CARGO_MANIFEST_DIR"), "/../corpus/C15/zone_offsets.json");
    let table: serde_json::Value = std::fs::read_to_string(path).ok().and_then(|t| serde_json::from_str(&t).ok()).unwrap_or(json!({"rows": []}));
    let rows = table["rows"].as_array().cloned().unwrap_or_default();
    if rows.is_empty() {
      cx.rep.notes.push("corpus/C15/zone_offsets.json not found or empty".into());
    }
    for (i, r) in rows.iter().enumerate() {
      let (zone, local, kind) = (r["zone"].as_str().unwrap_or(""), r["local"].as_str().unwrap_or(""), r["kind"].as_str().unwrap_or(""));
      if kind != "plain" {
        gap_rows.push((format!("{}@{}", local, zone), kind.to_string()));
        continue;
      }
      if !thorough && i % 3 != (cfg.seed % 3) as usize {
        continue;
      }
      let f: Vec<i64> = local.split(|c| c == '-' || c == 'T' || c == ':').filter_map(|x| x.parse().ok()).collect();
      if f.len() == 6 {
        pd.push(mk(f[0], f[1], f[2], f[3], f[4], f[5], 0, Zone::Named(zone.to_string())));
        pt.push(r["offset"].as_i64());
      }
    }
  }
  run_zone_gap_rows(&mut cx, &gap_rows);
  for _ in 0..(if thorough { 5000 } else { 1000 }) {
    let mut x = random_dt(&mut rng, -3000, 3000);
    if rng.chance(1, 8) {
      x.z = Zone::Local;
    }
    pd.push(x);
    pt.push(None);
  }
  run_props(&mut cx, &pd, &pt);


  // ---- zone-less date-times in child processes with TZ set; laws of differences; + and - on all kinds
  {
    run_process_zone(&mut cx, thorough);
    let mut lrng = Rng::new(cfg.seed ^ 0x5b1a35);
    let mut triples: Vec<(Dt, Dt, Dt)> = vec![];
    let named = |rng: &mut Rng| -> Dt {
      let r = rng.pick(&ZONE_TABLE).clone();
      Dt { y: r.1 as i64, m: r.2 as i64, d: r.3 as i64, h: r.4 as i64, mi: r.5 as i64, s: r.6 as i64, ns: 0, z: Zone::Named(r.0.to_string()) }
    };
    for k in 0..(if thorough { 6000 } else { 1200 }) {
      let mut pick = |rng: &mut Rng| -> Dt {
        match rng.below(8) {
          0 => named(rng),
          1 => random_dt(rng, -262_000, 262_000),
          2 => random_dt(rng, 1600, 2400),
          _ => random_dt(rng, 1950, 2100),
        }
      };
      let a = pick(&mut lrng);
      let mut b = pick(&mut lrng);
      let mut c = pick(&mut lrng);
      if k % 5 == 0 {
        // the same instant written at another offset; neighbours a second and a nanosecond apart
        b = a.clone();
        if let Zone::Offset(_) | Zone::Utc = a.z {
          b.z = fix_zero(Zone::Offset(match a.z { Zone::Offset(o) => o, _ => 0 } + 3600 * lrng.range(-2, 2)));
          if let (Zone::Offset(ob), oa) = (&b.z, match a.z { Zone::Offset(o) => o, _ => 0 }) {
            let sh = (ob - oa) / 3600;
            if b.h + sh >= 0 && b.h + sh <= 23 && ob.abs() < 54_000 {
              b.h += sh;
            } else {
              b.z = a.z.clone();
            }
          }
        }
        if k % 10 == 0 {
          c = b.clone();
          c.ns = if c.ns == 0 { 1_000_000 } else { 0 };
        }
      }
      triples.push((a, b, c));
    }
    run_sub_laws(&mut cx, &triples);
    let mut ops: Vec<String> = vec![
      "date(\"2021-01-31\")", "date(\"2020-02-29\")", "date(\"-0001-12-31\")", "date(999999999,12,31)",
      "time(\"23:59:59Z\")", "time(\"00:00:00+14:00\")", "time(\"12:00:00.5-00:30\")",
      "date and time(\"2021-01-31T00:00:00Z\")", "date and time(\"2020-02-29T23:59:59.999+14:00\")", "date and time(\"1970-01-01T00:00:00-05:00\")",
      "date and time(\"2262-04-12T00:00:00Z\")", "date and time(\"1677-09-21T00:00:00Z\")", "date and time(\"262142-12-31T23:59:59Z\")",
      "duration(\"P1D\")", "duration(\"-PT0.000000001S\")", "duration(\"PT0S\")", "duration(\"P106751DT23H47M16.854775807S\")", "duration(\"-P999999999D\")",
      "duration(\"P1M\")", "duration(\"-P11M\")", "duration(\"P0M\")", "duration(\"P1Y2M\")", "duration(\"P768614336404564650Y7M\")", "duration(\"-P768614336404564650Y7M\")",
    ].iter().map(|s| s.to_string()).collect();
    for _ in 0..(if thorough { 40 } else { 14 }) {
      let x = random_dt(&mut lrng, 1900, 2100);
      ops.push(match lrng.below(5) {
        0 => format!("date(\"{:04}-{:02}-{:02}\")", x.y, x.m, x.d),
        1 => format!("time(\"{}\")", x.time_text()),
        2 => format!("date and time(\"{:04}-{:02}-{:02}T{}\")", x.y, x.m, x.d, x.time_text()),
        3 => format!("duration(\"{}P{}DT{}H{}M{}S\")", if lrng.chance(1, 2) { "-" } else { "" }, lrng.range(0, 40_000), x.h, x.mi, x.s),
        _ => format!("duration(\"{}P{}Y{}M\")", if lrng.chance(1, 2) { "-" } else { "" }, lrng.range(0, 3000), lrng.range(0, 40)),
      });
    }
    run_temporal_arith(&mut cx, &ops);
    // conversions: dates and date-times (local date next to the end of a month, offsets both ways, named zones), a few others
    let mut cops: Vec<String> = vec![
      "date(\"2021-01-31\")", "date(\"2020-02-29\")", "date(\"2021-03-01\")", "date(\"-0001-12-31\")", "date(999999999,12,31)",
      "time(\"23:59:59Z\")", "time(\"12:00:00.5-00:30\")", "time(\"01:02:03@Europe/Warsaw\")", "time(\"12:00:00\")",
      "date and time(\"2021-01-31T23:00:00Z\")", "date and time(\"2021-03-01T00:00:00+02:00\")", "date and time(\"2020-02-29T23:59:59.999-14:00\")",
      "date and time(\"2021-12-31T23:30:00@America/New_York\")", "date and time(\"2022-01-01T00:30:00@Pacific/Kiritimati\")", "date and time(\"2021-06-30T12:00:00\")",
      "duration(\"P1D\")", "duration(\"P1M\")",
    ].iter().map(|s| s.to_string()).collect();
    for _ in 0..(if thorough { 60 } else { 24 }) {
      let x = random_dt(&mut lrng, 1900, 2100);
      let day = if lrng.chance(1, 2) { x.d } else if lrng.chance(1, 2) { 1 } else { dim(x.y, x.m) };
      cops.push(match lrng.below(3) {
        0 => format!("date(\"{:04}-{:02}-{:02}\")", x.y, x.m, day),
        _ => format!("date and time(\"{:04}-{:02}-{:02}T{}\")", x.y, x.m, day, x.time_text()),
      });
    }
    run_conversions(&mut cx, &cops);
  }

  // ---- durations
  let mut dtds: Vec<i128> = vec![0, 1, -1, 86_400_000_000_000, -93_600_000_000_000, 129_600_000_000_000, 999_999_999, 59_999_999_999, 18_446_744_073_709_551_615i128 * 1_000_000_000];
  let mut ymds: Vec<i64> = vec![0, 1, -1, 11, 12, 13, -11, -12, -13, 14, -14, 999_999_999 * 12, -999_999_999 * 12];
  let mut dtd_pairs: Vec<(i128, i128)> = vec![(86_400_000_000_000, 3_600_000_000_000), (0, 0), (1_000_000_000, -1_000_000_000)];
  let mut ymd_pairs: Vec<(i64, i64)> = vec![(12, 1), (0, 0), (-14, 14)];
  let rd = |rng: &mut Rng| -> i128 {
    let mag: i128 = match rng.below(6) {
      0 => rng.range(0, 120) as i128,
      1 => rng.range(0, 200_000) as i128,
      2 => rng.range(0, 40_000_000_000) as i128,
      3 => rng.range(0, i64::MAX - 1) as i128,
      4 => (rng.range(0, 1000) as i128) * 86_400 + (rng.range(0, 3) as i128) * 3600,
      _ => (rng.range(0, i64::MAX - 1) as i128) * 2,
    };
    let ns: i128 = match rng.below(6) {
      0 | 1 => 0,
      2 | 3 | 4 => (rng.range(0, 999) as i128) * 1_000_000,
      _ => rng.range(0, 999_999_999) as i128,
    };
    let v = mag * 1_000_000_000 + ns;
    if rng.chance(1, 2) {
      -v
    } else {
      v
    }
  };
  let n_dur = if thorough { 20_000 } else { 3000 };
  for _ in 0..n_dur {
    dtds.push(rd(&mut rng));
    let m = match rng.below(3) {
      0 => rng.range(-40, 40),
      1 => rng.range(-100_000, 100_000),
      _ => rng.range(-11_999_999_988, 11_999_999_988),
    };
    ymds.push(m);
    let a = rd(&mut rng);
    let b = if rng.chance(1, 5) { a } else { rd(&mut rng) };
    dtd_pairs.push((a, b));
    let c = rng.range(-100_000, 100_000);
    let d = if rng.chance(1, 5) { c } else { rng.range(-100_000, 100_000) };
    ymd_pairs.push((c, d));
  }
  run_durations(&mut cx, &dtds, &ymds, &dtd_pairs, &ymd_pairs);

  drop(cx);
  rep.exhaustive = thorough;
  rep.model_requests = model.requests;
  rep
}
