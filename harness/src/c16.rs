//! C16 — type conformance is a preorder; coercion yields a conforming value or null.
//!
//! Implementation under test: `FeelType::{is_equivalent, is_conformant, coerced}` and
//! `Value::type_of` (public API of dmntk-feel, linked from /repo's working tree).
//! Model: `Dmn.FType.{equiv, conf}`, `Dmn.TV.typeOf`, `Dmn.ValOps.coerced` through the driver.
//! The laws of the property are additionally evaluated on the implementation's own answers.

use crate::model::Model;
use crate::report::{Kind, Report};
use crate::rng::Rng;
use crate::sexp::Sexp;
use crate::Cfg;
use dmntk_feel::context::FeelContext;
use dmntk_feel::values::{Value, Values};
use dmntk_feel::{FeelNumber, FeelType, FunctionBody, Name, Scope};
use serde_json::json;
use std::sync::Arc;

pub fn type_sexp(t: &FeelType) -> Sexp {
  match t {
    FeelType::Any => Sexp::atom("any"),
    FeelType::Boolean => Sexp::atom("boolean"),
    FeelType::Date => Sexp::atom("date"),
    FeelType::DateTime => Sexp::atom("dateTime"),
    FeelType::DaysAndTimeDuration => Sexp::atom("dtDur"),
    FeelType::Null => Sexp::atom("null"),
    FeelType::Number => Sexp::atom("number"),
    FeelType::String => Sexp::atom("string"),
    FeelType::Time => Sexp::atom("time"),
    FeelType::YearsAndMonthsDuration => Sexp::atom("ymDur"),
    FeelType::List(t) => Sexp::tagged("list", vec![type_sexp(t)]),
    FeelType::Range(t) => Sexp::tagged("range", vec![type_sexp(t)]),
    FeelType::Context(es) => Sexp::tagged(
      "ctx",
      es.iter().map(|(k, t)| Sexp::list(vec![Sexp::str(&k.to_string()), type_sexp(t)])).collect(),
    ),
    FeelType::Function(ps, r) => Sexp::tagged("fn", vec![Sexp::list(ps.iter().map(type_sexp).collect()), type_sexp(r)]),
  }
}

/// The skeleton of a value that `type_of` and `coerced` look at.
pub fn value_skeleton(v: &Value) -> Option<Sexp> {
  Some(match v {
    Value::Null(_) => Sexp::tagged("atom", vec![Sexp::atom("null")]),
    Value::Boolean(_) => Sexp::tagged("atom", vec![Sexp::atom("boolean")]),
    Value::Number(_) => Sexp::tagged("atom", vec![Sexp::atom("number")]),
    Value::String(_) => Sexp::tagged("atom", vec![Sexp::atom("string")]),
    Value::Date(_) => Sexp::tagged("atom", vec![Sexp::atom("date")]),
    Value::Time(_) => Sexp::tagged("atom", vec![Sexp::atom("time")]),
    Value::DateTime(_) => Sexp::tagged("atom", vec![Sexp::atom("dateTime")]),
    Value::DaysAndTimeDuration(_) => Sexp::tagged("atom", vec![Sexp::atom("dtDur")]),
    Value::YearsAndMonthsDuration(_) => Sexp::tagged("atom", vec![Sexp::atom("ymDur")]),
    Value::List(vs) => {
      let mut xs = vec![];
      for x in vs.as_vec() {
        xs.push(value_skeleton(x)?);
      }
      Sexp::tagged("list", xs)
    }
    Value::Context(ctx) => {
      let mut xs = vec![];
      for (k, x) in ctx.get_entries() {
        xs.push(Sexp::list(vec![Sexp::str(&k.to_string()), value_skeleton(x)?]));
      }
      Sexp::tagged("ctx", xs)
    }
    Value::Range(lo, _, hi, _) => Sexp::tagged("range", vec![value_skeleton(lo)?, value_skeleton(hi)?]),
    Value::FunctionDefinition(ps, _, r) => Sexp::tagged("fn", vec![Sexp::list(ps.iter().map(|(_, t)| type_sexp(t)).collect()), type_sexp(r)]),
    _ => return None,
  })
}

fn name(s: &str) -> Name {
  Name::from(s)
}

fn ctx_type(es: &[(&str, FeelType)]) -> FeelType {
  FeelType::Context(es.iter().map(|(k, t)| (name(k), t.clone())).collect())
}

const SIMPLE: [FeelType; 10] = [
  FeelType::Any,
  FeelType::Boolean,
  FeelType::Date,
  FeelType::DateTime,
  FeelType::DaysAndTimeDuration,
  FeelType::Null,
  FeelType::Number,
  FeelType::String,
  FeelType::Time,
  FeelType::YearsAndMonthsDuration,
];

/// One constructor layer over `inner` (component types) — list, range, context with 0..2
/// entries, function with 0..2 parameters.
fn layer(components: &[FeelType], out: &mut Vec<FeelType>) {
  for t in components {
    out.push(FeelType::List(Box::new(t.clone())));
    out.push(FeelType::Range(Box::new(t.clone())));
    out.push(ctx_type(&[("a", t.clone())]));
    out.push(ctx_type(&[("b", t.clone())]));
    out.push(FeelType::Function(vec![], Box::new(t.clone())));
  }
  out.push(ctx_type(&[]));
  // entry names that differ in letter case only are different names
  for t in [FeelType::Number, FeelType::String] {
    out.push(ctx_type(&[("Age", t.clone())]));
    out.push(ctx_type(&[("age", t.clone())]));
    for u in [FeelType::Number, FeelType::String] {
      out.push(ctx_type(&[("Age", t.clone()), ("age", u.clone())]));
    }
  }
  for t in components {
    for u in components {
      out.push(ctx_type(&[("a", t.clone()), ("b", u.clone())]));
      out.push(FeelType::Function(vec![t.clone()], Box::new(u.clone())));
    }
  }
}

fn random_type(rng: &mut Rng, depth: u32) -> FeelType {
  if depth == 0 || rng.chance(1, 4) {
    return rng.pick(&SIMPLE).clone();
  }
  match rng.below(4) {
    0 => FeelType::List(Box::new(random_type(rng, depth - 1))),
    1 => FeelType::Range(Box::new(random_type(rng, depth - 1))),
    2 => {
      let keys = ["a", "b", "c"];
      let n = rng.below(4) as usize;
      let mut es = vec![];
      for k in keys.iter().take(n) {
        if rng.chance(3, 4) {
          es.push((*k, random_type(rng, depth - 1)));
        }
      }
      ctx_type(&es)
    }
    _ => {
      let n = rng.below(3) as usize;
      let ps = (0..n).map(|_| random_type(rng, depth - 1)).collect();
      FeelType::Function(ps, Box::new(random_type(rng, depth - 1)))
    }
  }
}

/// A type close to `t`: the generator for pairs that are *nearly* related, so that the
/// interesting `true` answers are not drowned in unrelated pairs.
fn perturb(rng: &mut Rng, t: &FeelType) -> FeelType {
  match rng.below(6) {
    0 => t.clone(),
    1 => FeelType::Any,
    2 => FeelType::Null,
    _ => match t {
      FeelType::List(x) => FeelType::List(Box::new(perturb(rng, x))),
      FeelType::Range(x) => FeelType::Range(Box::new(perturb(rng, x))),
      FeelType::Context(es) => {
        let mut out = std::collections::BTreeMap::new();
        for (k, x) in es {
          match rng.below(5) {
            0 => {}
            1 => {
              out.insert(k.clone(), x.clone());
              out.insert(name("z"), FeelType::Number);
            }
            _ => {
              out.insert(k.clone(), perturb(rng, x));
            }
          }
        }
        FeelType::Context(out)
      }
      FeelType::Function(ps, r) => {
        let mut qs: Vec<FeelType> = ps.iter().map(|p| perturb(rng, p)).collect();
        if rng.chance(1, 6) {
          qs.pop();
        }
        FeelType::Function(qs, Box::new(perturb(rng, r)))
      }
      _ => rng.pick(&SIMPLE).clone(),
    },
  }
}

fn sample_values() -> Vec<Value> {
  let num = |n: i128| Value::Number(FeelNumber::new(n, 0));
  let s = |x: &str| Value::String(x.to_string());
  let list = |xs: Vec<Value>| Value::List(Values::new(xs));
  let ctx = |es: Vec<(&str, Value)>| {
    let mut c = FeelContext::default();
    for (k, v) in es {
      c.set_entry(&name(k), v);
    }
    Value::Context(c)
  };
  let body = || FunctionBody::LiteralExpression(Arc::new(Box::new(|_: &Scope| Value::Null(None))));
  let scope = Scope::default();
  let ev = |t: &str| dmntk_feel_evaluator::evaluate(&scope, &dmntk_feel_parser::parse_expression(&scope, t, false).unwrap());
  let mut vs = vec![
    Value::Null(None),
    Value::Boolean(true),
    num(1),
    num(10),
    s("a"),
    s(""),
    list(vec![]),
    list(vec![num(1)]),
    list(vec![num(1), num(2)]),
    list(vec![num(1), s("a")]),
    list(vec![s("a")]),
    list(vec![Value::Null(None)]),
    list(vec![Value::Null(None), num(1)]),
    list(vec![num(1), Value::Null(None)]),
    list(vec![list(vec![num(1)])]),
    list(vec![list(vec![num(1), num(2)])]),
    list(vec![list(vec![list(vec![num(1)])])]),
    list(vec![list(vec![])]),
    list(vec![list(vec![num(1)]), list(vec![s("a")])]),
    list(vec![list(vec![num(1)]), list(vec![num(2), num(3)])]),
    ctx(vec![]),
    ctx(vec![("a", num(1))]),
    ctx(vec![("a", num(1)), ("b", s("x"))]),
    ctx(vec![("a", list(vec![num(1)]))]),
    // entries whose value is null; entry names differing in letter case only
    ctx(vec![("a", Value::Null(None))]),
    ctx(vec![("a", Value::Null(None)), ("b", num(1))]),
    ctx(vec![("a", num(1)), ("b", Value::Null(None))]),
    ctx(vec![("age", s("x"))]),
    ctx(vec![("Age", s("x"))]),
    ctx(vec![("Age", num(1)), ("age", s("x"))]),
    list(vec![ctx(vec![("a", Value::Null(None)), ("b", num(1))])]),
    list(vec![ctx(vec![("a", num(1))])]),
    list(vec![ctx(vec![("a", num(1))]), ctx(vec![("a", num(2))])]),
    list(vec![ctx(vec![("a", num(1))]), ctx(vec![("a", s("x"))])]),
    Value::Range(Box::new(num(1)), true, Box::new(num(5)), false),
    Value::Range(Box::new(num(1)), true, Box::new(s("z")), true),
    Value::Range(Box::new(Value::Null(None)), false, Box::new(num(5)), true),
    list(vec![Value::Range(Box::new(num(1)), true, Box::new(num(5)), false)]),
    Value::FunctionDefinition(vec![], body(), FeelType::Number),
    Value::FunctionDefinition(vec![], body(), FeelType::String),
    Value::FunctionDefinition(vec![(name("x"), FeelType::Number)], body(), FeelType::Any),
    Value::FunctionDefinition(vec![(name("x"), FeelType::Any), (name("y"), FeelType::String)], body(), FeelType::Boolean),
    list(vec![Value::FunctionDefinition(vec![], body(), FeelType::Number)]),
  ];
  for t in [
    r#"date("2021-02-03")"#,
    r#"time("10:11:12")"#,
    r#"date and time("2021-02-03T10:11:12")"#,
    r#"duration("P1D")"#,
    r#"duration("P1Y")"#,
    r#"[date("2021-02-03")]"#,
    r#"[duration("P1D"), duration("P1Y")]"#,
  ] {
    vs.push(ev(t).unwrap());
  }
  vs
}


/// The value as FEEL text (literals and constructor calls), when it can be written.
fn value_text(v: &Value) -> Option<String> {
  Some(match v {
    Value::Null(_) => "null".to_string(),
    Value::Boolean(b) => b.to_string(),
    Value::Number(n) => n.to_string(),
    Value::String(s) if !s.contains('"') && !s.contains('\\') => format!("\"{}\"", s),
    Value::Date(_) => format!("date(\"{}\")", v),
    Value::Time(_) => format!("time(\"{}\")", v),
    Value::DateTime(_) => format!("date and time(\"{}\")", v),
    Value::DaysAndTimeDuration(_) | Value::YearsAndMonthsDuration(_) => format!("duration(\"{}\")", v),
    Value::List(xs) => {
      let mut items = vec![];
      for x in xs.as_vec() {
        items.push(value_text(x)?);
      }
      format!("[{}]", items.join(", "))
    }
    Value::Context(ctx) => {
      let mut items = vec![];
      for (k, x) in ctx.get_entries() {
        items.push(format!("{}: {}", k, value_text(x)?));
      }
      format!("{{{}}}", items.join(", "))
    }
    Value::Range(lo, lc, hi, hc) => {
      if matches!(**lo, Value::Null(_)) || matches!(**hi, Value::Null(_)) {
        return None;
      }
      format!("{}{}..{}{}", if *lc { "[" } else { "(" }, value_text(lo)?, value_text(hi)?, if *hc { "]" } else { ")" })
    }
    _ => return None,
  })
}

fn same_value(x: &Value, y: &Value) -> bool {
  match (x, y) {
    (Value::Null(_), Value::Null(_)) => true,
    (Value::List(a), Value::List(b)) => a.as_vec().len() == b.as_vec().len() && a.as_vec().iter().zip(b.as_vec().iter()).all(|(p, q)| same_value(p, q)),
    (Value::Context(a), Value::Context(b)) => {
      let (ea, eb) = (a.get_entries(), b.get_entries());
      ea.len() == eb.len() && ea.iter().zip(eb.iter()).all(|((k, p), (l, q))| k == l && same_value(p, q))
    }
    (p, q) => p == q,
  }
}

/// `evaluate(parse_expression(text))` in a scope that binds nothing; a panic or an error is `None`.
fn eval_feel(text: &str) -> Option<Value> {
  crate::util::note_case(text);
  crate::util::guarded(|| {
    let scope = Scope::default();
    let node = dmntk_feel_parser::parse_expression(&scope, text, false).ok()?;
    dmntk_feel_evaluator::evaluate(&scope, &node).ok()
  })
  .ok()
  .flatten()
}

/// A value with lists whose items are of different types / depths (what `list<T>` parameters are fed with).
fn random_value(rng: &mut Rng, depth: u32) -> Value {
  let num = |n: i128| Value::Number(FeelNumber::new(n, 0));
  if depth == 0 || rng.chance(1, 3) {
    return match rng.below(6) {
      0 => Value::Null(None),
      1 => Value::Boolean(rng.chance(1, 2)),
      2 | 3 => num(rng.range(0, 9) as i128),
      _ => Value::String(rng.pick(&["a", "b", ""]).to_string()),
    };
  }
  match rng.below(6) {
    0 => {
      let mut c = FeelContext::default();
      for k in ["a", "b"] {
        if rng.chance(2, 3) {
          c.set_entry(&name(k), random_value(rng, depth - 1));
        }
      }
      Value::Context(c)
    }
    1 => {
      // a list of items of one shape
      let x = random_value(rng, depth - 1);
      let n = rng.below(4) as usize;
      Value::List(Values::new((0..n).map(|_| x.clone()).collect()))
    }
    _ => {
      let n = rng.below(4) as usize;
      Value::List(Values::new((0..n).map(|_| random_value(rng, depth - 1)).collect()))
    }
  }
}

fn bool_of(s: &Sexp) -> Option<bool> {
  match s.as_atom()? {
    "true" => Some(true),
    "false" => Some(false),
    _ => None,
  }
}

pub fn run(cfg: &Cfg) -> Report {
  let mut rep = Report::new(
    "C16",
    "pairs (a, b) of FEEL types: exhaustive over the one-constructor-layer universe (list, range, context 0..2 entries, function 0..2 parameters over the component types), plus random and perturbed types to depth 4; triples for transitivity; (target type, value) pairs for coercion; function values with two and three typed parameters of different types (invocation positional / named / through a bound name, wrong numbers of arguments), sort with an ordering function whose two parameters have different types, instance of function and other types. A case is non-trivial when at least one of the two types is compound (pairs) or the value's type does not simply equal the target (coercion); distinct by rendered text.",
  );
  let mut model = Model::start(&cfg.driver);
  let mut rng = Rng::new(cfg.seed);
  let thorough = cfg.tier == "thorough";

  // ---------------------------------------------------------------- the universe
  let components: Vec<FeelType> = if thorough {
    SIMPLE.to_vec()
  } else {
    vec![FeelType::Any, FeelType::Null, FeelType::Number, FeelType::String]
  };
  let mut universe: Vec<FeelType> = SIMPLE.to_vec();
  layer(&components, &mut universe);
  // a slice of the second layer: compound components
  let second: Vec<FeelType> = vec![
    FeelType::List(Box::new(FeelType::Number)),
    FeelType::List(Box::new(FeelType::Any)),
    ctx_type(&[("a", FeelType::Number)]),
    FeelType::Function(vec![], Box::new(FeelType::Number)),
    FeelType::Function(vec![FeelType::Number], Box::new(FeelType::String)),
    FeelType::Range(Box::new(FeelType::Number)),
  ];
  layer(&second, &mut universe);
  // three-parameter-free but two-parameter functions over a small set
  for a in [FeelType::Any, FeelType::Number, FeelType::Null] {
    for b in [FeelType::Any, FeelType::String] {
      for r in [FeelType::Number, FeelType::String] {
        universe.push(FeelType::Function(vec![a.clone(), b.clone()], Box::new(r.clone())));
      }
    }
  }
  rep.extra.insert("universe_size".into(), json!(universe.len()));

  // ---------------------------------------------------------------- pairs
  let mut pairs: Vec<(FeelType, FeelType)> = vec![];
  // regression corpus first
  let f0n = FeelType::Function(vec![], Box::new(FeelType::Number));
  let f0s = FeelType::Function(vec![], Box::new(FeelType::String));
  pairs.push((f0n.clone(), f0s.clone()));
  pairs.push((f0s, f0n));
  for a in &universe {
    for b in &universe {
      pairs.push((a.clone(), b.clone()));
    }
  }
  let n_random = if thorough { 300_000 } else { 20_000 };
  for _ in 0..n_random {
    let a = random_type(&mut rng, 4);
    let b = if rng.chance(3, 4) { perturb(&mut rng, &a) } else { random_type(&mut rng, 4) };
    pairs.push((a, b));
  }
  rep.exhaustive = false;

  let reqs: Vec<String> = pairs.iter().map(|(a, b)| format!("(c16 rel {} {})", type_sexp(a), type_sexp(b))).collect();
  let answers = model.ask_batch(&reqs);
  let simple = |t: &FeelType| t.is_simple_built_in_type();
  for (((a, b), req), ans) in pairs.iter().zip(reqs.iter()).zip(answers.iter()) {
    let ie = a.is_equivalent(b);
    let ic = a.is_conformant(b);
    rep.case(req, !(simple(a) && simple(b)));
    rep.hit(&format!("rel:equiv={} conf={}", ie, ic));
    let parsed = Sexp::parse(ans);
    let (me, mc) = match parsed.as_ref().and_then(|s| s.as_list()).map(|l| (l.get(0).and_then(bool_of), l.get(1).and_then(bool_of))) {
      Some((Some(e), Some(c))) => (e, c),
      _ => {
        rep.disagree(Kind::ImplVsModel, "rel", "driver-error", req, &format!("{} {}", ie, ic), ans);
        continue;
      }
    };
    if ie != me {
      rep.disagree(Kind::ImplVsModel, "is_equivalent", "is_equivalent differs from model", &format!("{} ~ {}", a, b), &ie.to_string(), &me.to_string());
    }
    if ic != mc {
      rep.disagree(Kind::ImplVsModel, "is_conformant", "is_conformant differs from model", &format!("{} <: {}", a, b), &ic.to_string(), &mc.to_string());
    }
    if rep.samples.len() < 4 && !(simple(a) && simple(b)) && ic {
      rep.sample(json!({"request": req, "implementation": format!("{} {}", ie, ic), "model": ans}));
    }
    // ---- the laws of the property, on the implementation alone
    let txt = format!("a = {}, b = {}", a, b);
    if ie != b.is_equivalent(a) {
      rep.disagree(Kind::ImplVsSpec, "equiv_symm", "equivalence not symmetric", &txt, &format!("a~b={} b~a={}", ie, !ie), "equal");
    }
    if ie && !(ic && b.is_conformant(a)) {
      rep.disagree(Kind::ImplVsSpec, "equiv_conf", "equivalent types do not conform to each other", &txt, "false", "true");
    }
    let la = FeelType::List(Box::new(a.clone()));
    let lb = FeelType::List(Box::new(b.clone()));
    if la.is_conformant(&lb) != ic {
      rep.disagree(Kind::ImplVsSpec, "list_covariant", "list conformance is not conformance of the item types", &txt, &(!ic).to_string(), &ic.to_string());
    }
    let ra = FeelType::Range(Box::new(a.clone()));
    let rb = FeelType::Range(Box::new(b.clone()));
    if ra.is_conformant(&rb) != ic {
      rep.disagree(Kind::ImplVsSpec, "range_covariant", "range conformance is not conformance of the element types", &txt, &(!ic).to_string(), &ic.to_string());
    }
    let ca = ctx_type(&[("k", a.clone())]);
    let cb = ctx_type(&[("k", b.clone())]);
    if ca.is_conformant(&cb) != ic {
      rep.disagree(Kind::ImplVsSpec, "context_covariant", "context conformance is not conformance of the entry types", &txt, &(!ic).to_string(), &ic.to_string());
    }
    for ps in [vec![], vec![FeelType::Number], vec![FeelType::Any, FeelType::String]] {
      let fa = FeelType::Function(ps.clone(), Box::new(a.clone()));
      let fb = FeelType::Function(ps.clone(), Box::new(b.clone()));
      if fa.is_conformant(&fb) != ic {
        rep.disagree(
          Kind::ImplVsSpec,
          "fn_result_covariant",
          &format!("function conformance is not covariant in the result type ({} parameters)", ps.len()),
          &txt,
          &(!ic).to_string(),
          &ic.to_string(),
        );
      }
      if !ie && fa.is_equivalent(&fb) {
        rep.disagree(
          Kind::ImplVsSpec,
          "fn_result_distinguishes",
          &format!("function types with different result types are equivalent ({} parameters)", ps.len()),
          &txt,
          "true",
          "false",
        );
      }
    }
    let pa = FeelType::Function(vec![a.clone()], Box::new(FeelType::Number));
    let pb = FeelType::Function(vec![b.clone()], Box::new(FeelType::Number));
    if pb.is_conformant(&pa) != ic {
      rep.disagree(Kind::ImplVsSpec, "fn_param_contravariant", "function conformance is not contravariant in the parameter type", &txt, &(!ic).to_string(), &ic.to_string());
    }
  }
  // reflexivity, Any, Null on every type seen
  for (a, _) in pairs.iter() {
    if !a.is_equivalent(a) || !a.is_conformant(a) {
      rep.disagree(Kind::ImplVsSpec, "refl", "a type is not equivalent/conformant to itself", &a.to_string(), "false", "true");
    }
    if !a.is_conformant(&FeelType::Any) {
      rep.disagree(Kind::ImplVsSpec, "conf_any", "a type does not conform to Any", &a.to_string(), "false", "true");
    }
    if !FeelType::Null.is_conformant(a) {
      rep.disagree(Kind::ImplVsSpec, "null_conf", "Null does not conform to a type", &a.to_string(), "false", "true");
    }
  }

  // ---------------------------------------------------------------- triples (transitivity)
  let n_triples = if thorough { 3_000_000 } else { 200_000 };
  let mut chains = 0u64;
  for i in 0..n_triples {
    let (a, b, c);
    if i % 2 == 0 {
      a = rng.pick(&universe).clone();
      b = rng.pick(&universe).clone();
      c = rng.pick(&universe).clone();
    } else {
      // a chain built by perturbation: far more likely to satisfy both premises
      b = random_type(&mut rng, 3);
      a = perturb(&mut rng, &b);
      c = perturb(&mut rng, &b);
    }
    rep.evaluations += 1;
    if a.is_conformant(&b) && b.is_conformant(&c) {
      chains += 1;
      if !a.is_conformant(&c) {
        rep.disagree(Kind::ImplVsSpec, "conf_trans", "conformance is not transitive", &format!("a = {}, b = {}, c = {}", a, b, c), "false", "true");
      }
    }
    if a.is_equivalent(&b) && b.is_equivalent(&c) && !a.is_equivalent(&c) {
      rep.disagree(Kind::ImplVsSpec, "equiv_trans", "equivalence is not transitive", &format!("a = {}, b = {}, c = {}", a, b, c), "false", "true");
    }
  }
  rep.extra.insert("triples".into(), json!(n_triples));
  rep.extra.insert("triples_with_both_premises".into(), json!(chains));

  // ---------------------------------------------------------------- coercion
  let mut values = sample_values();
  let n_fixed_values = values.len();
  for _ in 0..(if thorough { 600 } else { 60 }) {
    values.push(random_value(&mut rng, 3));
  }
  let mut targets: Vec<FeelType> = universe.clone();
  for _ in 0..(if thorough { 5000 } else { 500 }) {
    targets.push(random_type(&mut rng, 3));
  }
  let mut creqs = vec![];
  let mut cases = vec![];
  // (target, value, the target was derived from the value)
  for (vi, v) in values.iter().enumerate() {
    let sk = match value_skeleton(v) {
      Some(s) => s,
      None => continue,
    };
    // targets derived from the value's own type, so that every branch of `coerced` is taken
    let tv = v.type_of();
    // the generated values meet the derived targets and a sample of the others
    let mut ts: Vec<(FeelType, bool)> = if vi < n_fixed_values { targets.iter().map(|t| (t.clone(), false)).collect() } else { (0..40).map(|_| (rng.pick(&targets).clone(), false)).collect() };
    ts.push((tv.clone(), true));
    ts.push((FeelType::List(Box::new(tv.clone())), true));
    ts.push((FeelType::List(Box::new(FeelType::List(Box::new(tv.clone())))), true));
    if let FeelType::List(inner) = &tv {
      ts.push(((**inner).clone(), true));
      if let FeelType::List(inner2) = &**inner {
        ts.push(((**inner2).clone(), true));
      }
    }
    if let Value::List(items) = v {
      // the types of the items: lists whose items do not all conform to the item type of the target
      for x in items.as_vec() {
        let tx = x.type_of();
        ts.push((FeelType::List(Box::new(tx.clone())), true));
        ts.push((FeelType::List(Box::new(FeelType::List(Box::new(tx.clone())))), true));
        if let FeelType::List(inner) = &tx {
          ts.push((FeelType::List(inner.clone()), true));
        }
      }
    }
    for (t, derived) in ts {
      creqs.push(format!("(c16 coerce {} {})", type_sexp(&t), sk));
      cases.push((t, v.clone(), derived));
    }
  }
  let mut writable_types: std::collections::HashMap<String, bool> = std::collections::HashMap::new();
  let canswers = model.ask_batch(&creqs);
  for (((t, v, derived), req), ans) in cases.iter().zip(creqs.iter()).zip(canswers.iter()) {
    let r = t.coerced(v);
    let tv = v.type_of();
    rep.case(req, tv != *t);
    // model: (typeOf-of-value tag)
    let parsed = Sexp::parse(ans);
    let l = parsed.as_ref().and_then(|s| s.as_list());
    let (mty, tag) = match l.map(|l| (l.get(0).cloned(), l.get(1).and_then(|x| x.as_atom()).map(|x| x.to_string()))) {
      Some((Some(t), Some(tag))) => (t, tag),
      _ => {
        rep.disagree(Kind::ImplVsModel, "coerce", "driver-error", req, "", ans);
        continue;
      }
    };
    if mty != type_sexp(&tv) {
      rep.disagree(Kind::ImplVsModel, "type_of", "type_of differs from model", &format!("{}", v), &tv.to_string(), &mty.to_string());
    }
    let expected = match tag.as_str() {
      "same" => v.clone(),
      "wrap" => Value::List(Values::new(vec![v.clone()])),
      "unwrap" => match v {
        Value::List(xs) if xs.len() == 1 => xs.as_vec()[0].clone(),
        _ => Value::Irrelevant,
      },
      _ => Value::Null(None),
    };
    rep.hit(&format!("coerce:{}", tag));
    let same = match (&r, &expected) {
      (Value::Null(_), Value::Null(_)) => true,
      (x, y) => x == y,
    };
    if !same {
      rep.disagree(
        Kind::ImplVsModel,
        "coerced",
        "coerced differs from model",
        &format!("({}).coerced({})", t, v),
        &r.to_string(),
        &format!("{} ({})", expected, tag),
      );
    }
    // ---- the same coercion where FEEL applies it: an argument bound to a typed formal parameter, positionally
    // and by name, through the parser and the evaluator (types and values that can be written as FEEL text)
    if *derived || rng.chance(1, 6) {
      let t_text = t.to_string();
      let t_writable = *writable_types.entry(t_text.clone()).or_insert_with(|| match eval_feel(&format!("function (x: {}) x", t_text)) {
        Some(Value::FunctionDefinition(ps, _, _)) => ps.len() == 1 && ps[0].1 == *t,
        _ => false,
      });
      let v_text = value_text(v).filter(|vt| eval_feel(vt).map_or(false, |w| same_value(&w, v)));
      match (t_writable, v_text) {
        (true, Some(v_text)) => {
          for (form, text) in [
            ("positional", format!("(function (x: {}) x)({})", t_text, v_text)),
            ("named", format!("(function (x: {}) x)(x: {})", t_text, v_text)),
            ("positional, second parameter", format!("(function (w, x: {}) x)(0, {})", t_text, v_text)),
          ] {
            if form.ends_with("second parameter") && !rng.chance(1, 4) {
              continue;
            }
            rep.case(&format!("invocation|{}", text), tv != *t);
            rep.hit(&format!("invocation:{}:{}", form, tag));
            let got = eval_feel(&text);
            let txt = format!("{} (the specification: coerce {} {} = {} ({}))", text, t_text, v_text, expected, tag);
            match got {
              None => rep.disagree(Kind::ImplVsSpec, "invocation_coerces", &format!("invocation with a typed parameter fails to evaluate ({})", form), &txt, "error or panic", &expected.to_string()),
              Some(g) => {
                if !matches!(g, Value::Null(_)) && !g.type_of().is_conformant(t) {
                  rep.disagree(
                    Kind::ImplVsSpec,
                    "invocation_conforms_or_null",
                    &format!("a typed parameter receives a value that neither conforms to its type nor is null ({})", form),
                    &txt,
                    &g.to_string(),
                    "conforming or null",
                  );
                }
                if !same_value(&g, &expected) {
                  rep.disagree(
                    Kind::ImplVsSpec,
                    "invocation_coerces",
                    &format!("a typed parameter does not receive the coercion of the argument to its type ({}, the specification says {})", form, tag),
                    &txt,
                    &g.to_string(),
                    &expected.to_string(),
                  );
                }
              }
            }
          }
        }
        (false, _) => rep.hit("invocation:type cannot be written"),
        (_, None) => rep.hit("invocation:value cannot be written"),
      }
    }
    if rep.samples.len() < 8 && (tag == "wrap" || tag == "unwrap") {
      rep.sample(json!({"request": req, "implementation": r.to_string(), "model": ans}));
    }
    // the property on the implementation alone
    let txt = format!("({}).coerced({})", t, v);
    if !matches!(r, Value::Null(_)) && !r.type_of().is_conformant(t) {
      rep.disagree(Kind::ImplVsSpec, "coerced_conforms_or_null", "coerced value neither conforms nor is null", &txt, &r.to_string(), "conforming or null");
    }
    let rr = t.coerced(&r);
    let idem = match (&rr, &r) {
      (Value::Null(_), Value::Null(_)) => true,
      (x, y) => x == y,
    };
    if !idem {
      rep.disagree(Kind::ImplVsSpec, "coerced_idem", "coercing twice changes the value", &txt, &rr.to_string(), &r.to_string());
    }
    // wrap / unwrap must happen when they conform
    if !tv.is_conformant(t) {
      let wrap_ok = FeelType::List(Box::new(tv.clone())).is_conformant(t);
      let unwrap = match v {
        Value::List(xs) if xs.len() == 1 && xs.as_vec()[0].type_of().is_conformant(t) => Some(xs.as_vec()[0].clone()),
        _ => None,
      };
      if matches!(r, Value::Null(_)) {
        if wrap_ok {
          rep.disagree(Kind::ImplVsSpec, "coerced_wraps", "singleton wrap conforms but the result is null", &txt, "null", "[v]");
        } else if let Some(u) = unwrap {
          if !matches!(u, Value::Null(_)) {
            rep.disagree(Kind::ImplVsSpec, "coerced_unwraps", "singleton unwrap conforms but the result is null", &txt, "null", &u.to_string());
          }
        }
      }
    }
  }
  // ---------------------------------------------------------------- function values with typed parameters
  typed_functions(&mut rep, &mut model, &mut rng, thorough);
  sequences(&mut rep, &mut model, &mut rng, thorough);
  rep.model_requests = model.requests;
  rep
}

// ------------------------------------------------------------------------------------------------
// Function values whose parameters have declared types that differ from each other and from the types of
// the arguments: where coercion is applied (`eval_function_positional` / `eval_function_named`, the comparator of
// `sort`) every argument is coerced to the type of ITS OWN parameter.  The expectation is the specification's
// `coerce T v` (Lean `ValOps.coerced`, requests `(c16 bind …)` / `(c16 coerce …)`), never the implementation's.

/// type texts of parameters (kept when `function (x: T) x` parses to a parameter of that type)
const PARAM_TYPES: &[&str] = &[
  "number",
  "string",
  "boolean",
  "Any",
  "Null",
  "date",
  "list<number>",
  "list<Any>",
  "list<string>",
  "list<list<number>>",
  "context<a: number>",
  "range<number>",
  "function<number>->number",
  "list<context<a: number>>",
];

/// argument texts
const ARG_VALUES: &[&str] = &[
  "1", "\"a\"", "true", "null", "[1]", "[[1]]", "[[[1]]]", "[\"a\"]", "[1, 2]", "[]", "[[]]", "[null]", "{a: 1}", "[{a: 1}]", "{a: \"x\"}", "[1..2]", "[[1..2]]", "[1, \"a\"]", "[[1], [2]]", "date(\"2021-02-03\")",
  "[date(\"2021-02-03\")]", "[true]",
];

/// the value the specification's tag stands for
fn by_tag(tag: &str, v: &Value) -> Value {
  match tag {
    "same" => v.clone(),
    "wrap" => Value::List(Values::new(vec![v.clone()])),
    "unwrap" => match v {
      Value::List(xs) if xs.len() == 1 => xs.as_vec()[0].clone(),
      _ => Value::Irrelevant,
    },
    _ => Value::Null(None),
  }
}

/// the expression that reads a number out of a parameter of the given type (for ordering functions)
fn key_of(ty: &str, var: &str) -> String {
  match ty {
    "list<number>" | "list<Any>" => format!("{}[1]", var),
    "list<list<number>>" => format!("{}[1][1]", var),
    "string" | "list<string>" => format!("string length(string({}))", var),
    "context<a: number>" => format!("{}.a", var),
    "list<context<a: number>>" => format!("{}[1].a", var),
    _ => var.to_string(),
  }
}

fn typed_functions(rep: &mut Report, model: &mut Model, rng: &mut Rng, thorough: bool) {
  // the types as the parser reads them
  let mut types: Vec<(&'static str, FeelType)> = vec![];
  for t in PARAM_TYPES {
    match eval_feel(&format!("function (x: {}) x", t)) {
      Some(Value::FunctionDefinition(ps, _, _)) if ps.len() == 1 => types.push((*t, ps[0].1.clone())),
      _ => rep.hit("typed-functions:type cannot be written"),
    }
  }
  let mut args: Vec<(&'static str, Value, Sexp)> = vec![];
  for a in ARG_VALUES {
    if let Some(v) = eval_feel(a) {
      if let Some(sk) = value_skeleton(&v) {
        args.push((*a, v, sk));
      }
    }
  }
  rep.extra.insert("typed_function_parameter_types".into(), json!(types.len()));

  // ---------------------------------------------------------------- (a) invocation: two (and three) typed parameters
  struct Inv {
    texts: Vec<(&'static str, String)>,
    tys: Vec<usize>,
    vals: Vec<usize>,
  }
  let mut invs: Vec<Inv> = vec![];
  let mut reqs: Vec<String> = vec![];
  for (i1, (t1, _)) in types.iter().enumerate() {
    for (i2, (t2, _)) in types.iter().enumerate() {
      let n = if thorough { 40 } else { 10 };
      for k in 0..n {
        // the first pairs give each parameter an argument the OTHER parameter's type would treat differently
        let (a1, a2) = (rng.below(args.len() as u64) as usize, rng.below(args.len() as u64) as usize);
        let (a1, a2) = if k == 0 { (a1, a1) } else { (a1, a2) };
        let f = format!("function(x: {}, y: {}) [x, y]", t1, t2);
        let texts = vec![
          ("positional", format!("({})({}, {})", f, args[a1].0, args[a2].0)),
          ("named, in the other order", format!("({})(y: {}, x: {})", f, args[a2].0, args[a1].0)),
          ("bound to a name", format!("{{f: {}, r: f({}, {})}}.r", f, args[a1].0, args[a2].0)),
        ];
        reqs.push(format!("(c16 bind ({} {}) ({} {}))", type_sexp(&types[i1].1), type_sexp(&types[i2].1), args[a1].2, args[a2].2));
        invs.push(Inv { texts, tys: vec![i1, i2], vals: vec![a1, a2] });
      }
      // the wrong number of arguments: null whatever the types are
      if i1 <= i2 && rng.chance(1, 3) {
        let a1 = rng.below(args.len() as u64) as usize;
        let f = format!("function(x: {}, y: {}) [x, y]", t1, t2);
        reqs.push(format!("(c16 bind ({} {}) ({}))", type_sexp(&types[i1].1), type_sexp(&types[i2].1), args[a1].2));
        invs.push(Inv { texts: vec![("positional, one argument for two parameters", format!("({})({})", f, args[a1].0))], tys: vec![i1, i2], vals: vec![a1] });
        reqs.push(format!("(c16 bind ({} {}) ({} {} {}))", type_sexp(&types[i1].1), type_sexp(&types[i2].1), args[a1].2, args[a1].2, args[a1].2));
        invs.push(Inv { texts: vec![("positional, three arguments for two parameters", format!("({})({}, {}, {})", f, args[a1].0, args[a1].0, args[a1].0))], tys: vec![i1, i2], vals: vec![a1, a1, a1] });
      }
    }
  }
  // three parameters of three types
  for _ in 0..(if thorough { 2000 } else { 300 }) {
    let ts: Vec<usize> = (0..3).map(|_| rng.below(types.len() as u64) as usize).collect();
    let vs: Vec<usize> = (0..3).map(|_| rng.below(args.len() as u64) as usize).collect();
    let f = format!("function(x: {}, y: {}, z: {}) [x, y, z]", types[ts[0]].0, types[ts[1]].0, types[ts[2]].0);
    let texts = vec![
      ("positional, three parameters", format!("({})({}, {}, {})", f, args[vs[0]].0, args[vs[1]].0, args[vs[2]].0)),
      ("named, three parameters", format!("({})(z: {}, x: {}, y: {})", f, args[vs[2]].0, args[vs[0]].0, args[vs[1]].0)),
    ];
    reqs.push(format!(
      "(c16 bind ({}) ({}))",
      ts.iter().map(|i| type_sexp(&types[*i].1).to_string()).collect::<Vec<_>>().join(" "),
      vs.iter().map(|i| args[*i].2.to_string()).collect::<Vec<_>>().join(" ")
    ));
    invs.push(Inv { texts, tys: ts, vals: vs });
  }
  let answers = model.ask_batch(&reqs);
  for (inv, ans) in invs.iter().zip(answers.iter()) {
    let parsed = Sexp::parse(ans);
    let l = parsed.as_ref().and_then(|s| s.as_list());
    let expected: Value = match l.and_then(|l| l.first()).and_then(|h| h.as_atom()) {
      Some("none") => Value::Null(None),
      Some("some") => {
        let tags: Vec<String> = l.unwrap().iter().skip(1).filter_map(|x| x.as_atom().map(|a| a.to_string())).collect();
        if tags.len() != inv.vals.len() {
          rep.disagree(Kind::ImplVsModel, "typed-functions", "driver-error", &inv.texts[0].1, "", ans);
          continue;
        }
        Value::List(Values::new(tags.iter().zip(inv.vals.iter()).map(|(t, v)| by_tag(t, &args[*v].1)).collect()))
      }
      _ => {
        rep.disagree(Kind::ImplVsModel, "typed-functions", "driver-error", &inv.texts[0].1, "", ans);
        continue;
      }
    };
    let different_types = inv.tys.windows(2).any(|w| w[0] != w[1]);
    for (form, text) in &inv.texts {
      rep.case(&format!("typed-function|{}", text), different_types);
      rep.hit(&format!("typed-function:{}", form));
      let spec_txt = format!("{} (the specification binds every parameter to the coercion of its own argument to its own type: {})", text, expected);
      match eval_feel(text) {
        None => rep.disagree(Kind::ImplVsSpec, "typed_function_invocation", &format!("invocation of a function with several typed parameters fails to evaluate ({})", form), &spec_txt, "error or panic", &expected.to_string()),
        Some(g) => {
          if let Value::List(items) = &g {
            for (item, ti) in items.as_vec().iter().zip(inv.tys.iter()) {
              if !matches!(item, Value::Null(_)) && !item.type_of().is_conformant(&types[*ti].1) {
                rep.disagree(
                  Kind::ImplVsSpec,
                  "typed_function_invocation",
                  &format!("a typed parameter of a function with several parameters receives a value that neither conforms to its type nor is null ({})", form),
                  &spec_txt,
                  &g.to_string(),
                  "conforming or null",
                );
              }
            }
          }
          if !same_value(&g, &expected) {
            rep.disagree(
              Kind::ImplVsSpec,
              "typed_function_invocation",
              &format!("a parameter does not receive the coercion of its argument to its own type (function with several typed parameters; {})", form),
              &spec_txt,
              &g.to_string(),
              &expected.to_string(),
            );
          }
        }
      }
    }
  }

  // ---------------------------------------------------------------- (a') named arguments: names no parameter has, parameters
  // without an argument, one name written twice (the model: `bindNamed`; theorems `bindNamed_spec`,
  // `bindNamed_unknown_name`, `bindNamed_missing`, `bindNamed_eq_bindPositional`)
  {
    struct Named {
      text: String,
      shape: &'static str,
      tys: Vec<usize>,
      // (name, argument) as written
      written: Vec<(&'static str, usize)>,
    }
    let mut cases: Vec<Named> = vec![];
    let mut nreqs: Vec<String> = vec![];
    let shapes: &[(&'static str, &[(&'static str, usize)])] = &[
      ("in the order of the declaration", &[("x", 0), ("y", 1)]),
      ("in the other order", &[("y", 1), ("x", 0)]),
      ("a parameter without an argument", &[("x", 0)]),
      ("a parameter without an argument", &[("y", 1)]),
      ("no arguments", &[]),
      ("a name no parameter has", &[("x", 0), ("y", 1), ("z", 2)]),
      ("a name no parameter has", &[("z", 2), ("x", 0), ("y", 1)]),
      ("a name no parameter has", &[("x", 0), ("z", 1)]),
      ("a name no parameter has", &[("X", 0), ("y", 1)]),
      ("one name written twice", &[("x", 0), ("x", 2), ("y", 1)]),
      ("one name written twice", &[("y", 1), ("x", 2), ("x", 0)]),
      ("one name written twice", &[("x", 0), ("y", 1), ("y", 2)]),
    ];
    for (i1, (t1, _)) in types.iter().enumerate() {
      for (i2, (t2, _)) in types.iter().enumerate() {
        if !thorough && !rng.chance(1, 2) {
          continue;
        }
        let a: Vec<usize> = (0..3).map(|_| rng.below(args.len() as u64) as usize).collect();
        let f = format!("function(x: {}, y: {}) [x, y]", t1, t2);
        for (shape, written) in shapes {
          let actual: Vec<String> = written.iter().map(|(n, k)| format!("{}: {}", n, args[a[*k]].0)).collect();
          let text = if written.is_empty() { format!("({})()", f) } else { format!("({})({})", f, actual.join(", ")) };
          nreqs.push(format!(
            "(c16 bindnamed (({} {}) ({} {})) ({}))",
            Sexp::str("x"),
            type_sexp(&types[i1].1),
            Sexp::str("y"),
            type_sexp(&types[i2].1),
            written.iter().map(|(n, k)| format!("({} {})", Sexp::str(n), args[a[*k]].2)).collect::<Vec<_>>().join(" ")
          ));
          cases.push(Named { text, shape, tys: vec![i1, i2], written: written.iter().map(|(n, k)| (*n, a[*k])).collect() });
        }
      }
    }
    let nanswers = model.ask_batch(&nreqs);
    for (c, ans) in cases.iter().zip(nanswers.iter()) {
      rep.case(&format!("named-arguments|{}", c.text), c.tys[0] != c.tys[1]);
      rep.hit(&format!("named-arguments:{}", c.shape));
      let parsed = Sexp::parse(ans);
      let l = parsed.as_ref().and_then(|s| s.as_list());
      let expected: Value = match l.and_then(|l| l.first()).and_then(|h| h.as_atom()) {
        Some("none") => Value::Null(None),
        Some("some") => {
          let tags: Vec<String> = l.unwrap().iter().skip(1).filter_map(|x| x.as_atom().map(|a| a.to_string())).collect();
          if tags.len() != 2 {
            rep.disagree(Kind::ImplVsModel, "named-arguments", "driver-error", &c.text, "", ans);
            continue;
          }
          // the argument of each parameter: the last one written with its name
          let arg_of = |n: &str| c.written.iter().rev().find(|(m, _)| *m == n).map(|(_, k)| *k);
          match (arg_of("x"), arg_of("y")) {
            (Some(kx), Some(ky)) => Value::List(Values::new(vec![by_tag(&tags[0], &args[kx].1), by_tag(&tags[1], &args[ky].1)])),
            _ => {
              rep.disagree(Kind::ImplVsModel, "named-arguments", "driver-error", &c.text, "", ans);
              continue;
            }
          }
        }
        _ => {
          rep.disagree(Kind::ImplVsModel, "named-arguments", "driver-error", &c.text, "", ans);
          continue;
        }
      };
      // the empty list of named arguments is not a named invocation for the parser: left to C01
      if c.written.is_empty() {
        continue;
      }
      match eval_feel(&c.text) {
        Some(g) if same_value(&g, &expected) => {}
        other => {
          let spec = c.shape == "in the order of the declaration" || c.shape == "in the other order";
          rep.disagree(
            if spec { Kind::ImplVsSpec } else { Kind::ImplVsModel },
            "named-arguments",
            &format!("invocation with named arguments ({}) differs from the binding of every parameter to the coercion of the argument of its name", c.shape),
            &c.text,
            &format!("{:?}", other.map(|x| x.to_string())),
            &expected.to_string(),
          );
        }
      }
    }
  }

  // ---------------------------------------------------------------- (b) sort: the ordering function's two parameters
  let item_lists = [
    "[3, 1, 2]",
    "[[3], [1], [2]]",
    "[[[3]], [[1]], [[2]]]",
    "[3, [1], [[2]]]",
    "[[2], 1, [3], 1]",
    "[\"ccc\", \"a\", \"bb\"]",
    "[[\"ccc\"], \"a\", [\"bb\"]]",
    "[2, \"a\", 1]",
    "[]",
    "[[5]]",
    "[null, 2, 1]",
    "[[1, 2], [0]]",
    "[{a: 2}, {a: 1}]",
    "[[{a: 2}], {a: 1}, [{a: 0}]]",
    "[2, 1]",
  ];
  let scope_xy = {
    let mut ctx = FeelContext::default();
    ctx.set_entry(&name("x"), Value::Null(None));
    ctx.set_entry(&name("y"), Value::Null(None));
    let s: Scope = ctx.into();
    s
  };
  struct SortCase {
    text: String,
    body: String,
    tys: (usize, usize),
    items: Vec<Value>,
    first_req: usize,
  }
  let mut sorts: Vec<SortCase> = vec![];
  let mut sreqs: Vec<String> = vec![];
  for (i1, (t1, ty1)) in types.iter().enumerate() {
    for (i2, (t2, ty2)) in types.iter().enumerate() {
      for l in item_lists {
        if !thorough && i1 == i2 && !rng.chance(1, 3) {
          continue;
        }
        let items = match eval_feel(l) {
          Some(Value::List(xs)) => xs.as_vec().clone(),
          _ => continue,
        };
        let sks: Option<Vec<Sexp>> = items.iter().map(value_skeleton).collect();
        let sks = match sks {
          Some(s) => s,
          None => continue,
        };
        // ascending and descending by the number each parameter carries; now and then a body that only asks
        // which of the two is null
        let mut bodies = vec![format!("{} < {}", key_of(t1, "x"), key_of(t2, "y")), format!("{} > {}", key_of(t1, "x"), key_of(t2, "y"))];
        if rng.chance(1, 3) {
          bodies.push((*rng.pick(&["x != null and y = null", "y != null and x = null"])).to_string());
        }
        let first_req = sreqs.len();
        for sk in &sks {
          sreqs.push(format!("(c16 coerce {} {})", type_sexp(ty1), sk));
          sreqs.push(format!("(c16 coerce {} {})", type_sexp(ty2), sk));
        }
        for body in bodies {
          sorts.push(SortCase { text: format!("sort({}, function(x: {}, y: {}) {})", l, t1, t2, body), body, tys: (i1, i2), items: items.clone(), first_req });
        }
      }
    }
  }
  let sanswers = model.ask_batch(&sreqs);
  let tag_of = |ans: &String| -> String { Sexp::parse(ans).as_ref().and_then(|s| s.as_list()).and_then(|l| l.get(1).and_then(|x| x.as_atom()).map(|x| x.to_string())).unwrap_or_default() };
  let mut prepared: std::collections::HashMap<String, Option<dmntk_feel::Evaluator>> = std::collections::HashMap::new();
  for sc in &sorts {
    let n = sc.items.len();
    let xs: Vec<Value> = (0..n).map(|i| by_tag(&tag_of(&sanswers[sc.first_req + 2 * i]), &sc.items[i])).collect();
    let ys: Vec<Value> = (0..n).map(|i| by_tag(&tag_of(&sanswers[sc.first_req + 2 * i + 1]), &sc.items[i])).collect();
    let ev = prepared.entry(sc.body.clone()).or_insert_with(|| {
      dmntk_feel_parser::parse_expression(&scope_xy, &sc.body, false).ok().and_then(|node| dmntk_feel_evaluator::prepare(&node).ok())
    });
    let ev = match ev {
      Some(e) => e,
      None => {
        rep.hit("typed-sort:body does not build");
        continue;
      }
    };
    // the relation of the specification: the body over (item i coerced to the type of x, item j coerced to the type of y)
    let mut r = vec![vec![false; n]; n];
    let mut failed = false;
    for i in 0..n {
      for j in 0..n {
        let mut ctx = FeelContext::default();
        ctx.set_entry(&name("x"), xs[i].clone());
        ctx.set_entry(&name("y"), ys[j].clone());
        let s: Scope = ctx.into();
        match crate::util::guarded(|| ev(&s)) {
          Ok(v) => r[i][j] = matches!(v, Value::Boolean(true)),
          Err(_) => failed = true,
        }
      }
    }
    if failed {
      continue;
    }
    // a strict weak order on the items? (then there is exactly one stable arrangement: C08 `stable_sort_unique`)
    let inc = |i: usize, j: usize| !r[i][j] && !r[j][i];
    let mut swo = true;
    for i in 0..n {
      if r[i][i] {
        swo = false;
      }
      for j in 0..n {
        if r[i][j] && r[j][i] {
          swo = false;
        }
        for k in 0..n {
          if (r[i][j] && r[j][k] && !r[i][k]) || (inc(i, j) && inc(j, k) && !inc(i, k)) {
            swo = false;
          }
        }
      }
    }
    let different_types = sc.tys.0 != sc.tys.1;
    rep.case(&format!("typed-sort|{}", sc.text), different_types);
    if !swo {
      rep.hit("typed-sort:not a strict weak order");
      continue;
    }
    let mut order: Vec<usize> = vec![];
    for i in 0..n {
      let mut k = order.len();
      while k > 0 && r[i][order[k - 1]] {
        k -= 1;
      }
      order.insert(k, i);
    }
    let moved = order.iter().enumerate().any(|(a, b)| a != *b);
    rep.hit(if moved { "typed-sort:judged, order changes" } else { "typed-sort:judged, order stays" });
    let expected = Value::List(Values::new(order.iter().map(|i| sc.items[*i].clone()).collect()));
    match eval_feel(&sc.text) {
      None => rep.disagree(Kind::ImplVsSpec, "typed_sort", "sort with a typed ordering function fails to evaluate", &sc.text, "error or panic", &expected.to_string()),
      Some(g) => {
        if !same_value(&g, &expected) {
          rep.disagree(
            Kind::ImplVsSpec,
            "typed_sort",
            "sort does not order the items by the ordering function applied to each item coerced to the type of its own parameter",
            &format!("{} (x of item i: {}; y of item j: {})", sc.text, Value::List(Values::new(xs.clone())), Value::List(Values::new(ys.clone()))),
            &g.to_string(),
            &expected.to_string(),
          );
        }
      }
    }
  }

  // ---------------------------------------------------------------- (c) `instance of` a function type
  let mut ireqs: Vec<String> = vec![];
  let mut icases: Vec<(String, Value, FeelType)> = vec![];
  let result_types = ["Any", "number"];
  for (t1, _) in &types {
    for (t2, _) in &types {
      let f = format!("function(x: {}, y: {}) x", t1, t2);
      let fv = match eval_feel(&f) {
        Some(v @ Value::FunctionDefinition(..)) => v,
        _ => continue,
      };
      let mut targets: Vec<String> = vec![
        format!("function<{}, {}> -> Any", t1, t2),
        format!("function<{}, {}> -> Any", t2, t1),
        format!("function<Any, Any> -> Any"),
        format!("function<{}> -> Any", t1),
        format!("function<{}, {}, {}> -> Any", t1, t2, t1),
        "Any".to_string(),
      ];
      for _ in 0..(if thorough { 8 } else { 2 }) {
        targets.push(format!("function<{}, {}> -> {}", rng.pick(&types).0, rng.pick(&types).0, rng.pick(&result_types)));
      }
      for target in targets {
        // the type as the parser reads it: through a parameter declaration
        let ty = match eval_feel(&format!("function (p: {}) p", target)) {
          Some(Value::FunctionDefinition(ps, _, _)) if ps.len() == 1 => ps[0].1.clone(),
          _ => {
            rep.hit("instance-of:type cannot be written");
            continue;
          }
        };
        if let Some(sk) = value_skeleton(&fv) {
          ireqs.push(format!("(c16 instanceof {} {})", sk, type_sexp(&ty)));
          icases.push((format!("({}) instance of {}", f, target), fv.clone(), ty));
        }
      }
    }
  }
  // other values against the types (lists, contexts, ranges, simple values, null)
  for (a, v, sk) in &args {
    for (t, ty) in &types {
      ireqs.push(format!("(c16 instanceof {} {})", sk, type_sexp(ty)));
      icases.push((format!("{} instance of {}", a, t), v.clone(), ty.clone()));
    }
  }
  let ianswers = model.ask_batch(&ireqs);
  for ((text, v, ty), ans) in icases.iter().zip(ianswers.iter()) {
    rep.case(&format!("instance-of|{}", text), true);
    let got = eval_feel(text);
    let parsed = Sexp::parse(ans);
    let l = parsed.as_ref().and_then(|s| s.as_list());
    let (m_inst, _m_conf) = match l.map(|l| (l.first().and_then(bool_of), l.get(1).and_then(bool_of))) {
      Some((Some(a), Some(b))) => (a, b),
      _ => {
        rep.disagree(Kind::ImplVsModel, "instance_of", "driver-error", text, "", ans);
        continue;
      }
    };
    let g = match got {
      Some(Value::Boolean(b)) => b,
      other => {
        rep.disagree(Kind::ImplVsModel, "instance_of", "instance of does not give a boolean", text, &format!("{:?}", other.map(|x| x.to_string())), &m_inst.to_string());
        continue;
      }
    };
    rep.hit(&format!("instance-of:{}", g));
    if g != m_inst {
      rep.disagree(Kind::ImplVsModel, "instance_of", "instance of differs from the model", text, &g.to_string(), &m_inst.to_string());
    }
    // on the implementation alone: a value is never an instance of a type its own type does not conform to
    if g && !v.type_of().is_conformant(ty) {
      rep.disagree(Kind::ImplVsSpec, "instance_of_conforms", "a value is an instance of a type to which its type does not conform", text, "true", "false");
    }
  }
}

// ------------------------------------------------------------------------------------------------
// Sequences: a value whose type was asked for, then transformed, then typed again.  The type of a value and the
// coercion of a value depend on the value alone (`typeOf`, `coerce` of the specification are functions of the
// value): whatever was asked of the value - or of the value it was made from - before must not show.
//
// (a) through FEEL, in ONE expression, so that the same `Value` (or its clone) flows through all three stages:
//       typed once   `(function(x: T1) x)(V)`, a context entry read after `instance of`, a `for` variable, nothing
//       transformed  every list built-in that makes a list from a list (`remove`, `append`, `insert before`,
//                    `sublist`, `reverse`, `distinct values`, `flatten`, `union`, `concatenate`, `sort`), a filter,
//                    a `for`, the same applied to an ITEM of the typed list (typing a list types its items)
//       typed again  `(function(y: T2) y)(…)`, `… instance of T2`, the result type of an ordering function's argument
//     expected: the specification's `coerce T2 R` / `instanceOf R T2` (Lean, requests `(c16 coerce …)`,
//     `(c16 instanceof …)`) of the value R that the transformation gives by a reference implementation written
//     here from the DMN text, built fresh.
// (b) through the public API of `Values`: histories of `new`, `add`, `insert`, `remove`, `reverse`, `clone` with
//     `type_of` / `coerced` asked at arbitrary points; after every step the type of the list is the specification's
//     type of a freshly built list of the same items.

fn fresh(v: &Value) -> Value {
  match v {
    Value::List(xs) => Value::List(Values::new(xs.as_vec().iter().map(fresh).collect())),
    Value::Context(c) => {
      let mut out = FeelContext::default();
      for (k, x) in c.get_entries() {
        out.set_entry(k, fresh(x));
      }
      Value::Context(out)
    }
    other => other.clone(),
  }
}

/// reference implementations (DMN 1.3, 10.3.4.4) on in-domain arguments; `None` = not in the domain used here
fn ref_transform(name: &str, l: &[Value], extra: &[Value]) -> Option<Vec<Value>> {
  let n = l.len() as i64;
  let int = |v: &Value| -> Option<i64> {
    match v {
      Value::Number(x) => x.to_string().parse::<i64>().ok(),
      _ => None,
    }
  };
  // a position 1..n, or -n..-1 counted from the end, as a 0-based index
  let index = |p: i64| -> Option<usize> {
    if p >= 1 && p <= n {
      Some((p - 1) as usize)
    } else if p <= -1 && p >= -n {
      Some((n + p) as usize)
    } else {
      None
    }
  };
  let dedup = |xs: Vec<Value>| -> Vec<Value> {
    let mut out: Vec<Value> = vec![];
    for x in xs {
      if !out.iter().any(|y| same_value(y, &x)) {
        out.push(x);
      }
    }
    out
  };
  fn flat(xs: &[Value], out: &mut Vec<Value>) {
    for x in xs {
      match x {
        Value::List(ys) => flat(ys.as_vec(), out),
        other => out.push(other.clone()),
      }
    }
  }
  Some(match name {
    "remove" => {
      let i = index(int(&extra[0])?)?;
      let mut v = l.to_vec();
      v.remove(i);
      v
    }
    "append" => {
      let mut v = l.to_vec();
      v.extend(extra.iter().cloned());
      v
    }
    "insert before" => {
      let i = index(int(&extra[0])?)?;
      let mut v = l.to_vec();
      v.insert(i, extra[1].clone());
      v
    }
    "sublist" => {
      let i = index(int(&extra[0])?)?;
      match extra.get(1) {
        None => l[i..].to_vec(),
        Some(len) => {
          let len = int(len)?;
          if len < 0 || i as i64 + len > n {
            return None;
          }
          l[i..i + len as usize].to_vec()
        }
      }
    }
    "reverse" => l.iter().rev().cloned().collect(),
    "distinct values" => dedup(l.to_vec()),
    "flatten" => {
      let mut out = vec![];
      flat(l, &mut out);
      out
    }
    "concatenate" | "union" => {
      let mut v = l.to_vec();
      for e in extra {
        match e {
          Value::List(ys) => v.extend(ys.as_vec().iter().cloned()),
          _ => return None,
        }
      }
      if name == "union" {
        dedup(v)
      } else {
        v
      }
    }
    // an ordering function that puts nothing before anything: the arrangement stays (sort is stable)
    "sort-none" | "for" => l.to_vec(),
    "filter-number" => l.iter().filter(|x| matches!(x, Value::Number(_))).cloned().collect(),
    "filter-not-null" => l.iter().filter(|x| !matches!(x, Value::Null(_))).cloned().collect(),
    "filter-list" => l.iter().filter(|x| matches!(x, Value::List(_))).cloned().collect(),
    _ => return None,
  })
}

fn sequences(rep: &mut Report, model: &mut Model, rng: &mut Rng, thorough: bool) {
  // ---------------------------------------------------------------- (a) through FEEL
  let sources: &[&str] = &[
    "[1, \"a\"]", "[\"a\", 1]", "[1, 2]", "[1]", "[\"a\"]", "[]", "[1, null]", "[null, 1]", "[null]", "[1, \"a\", 2]", "[1, 2, \"a\"]", "[true, 1]", "[[1], \"a\"]", "[[1], [2]]",
    "[[1], [\"a\"]]", "[[1, \"a\"]]", "[[1, \"a\"], [2]]", "[[1, \"a\"], 2]", "[[], 1]", "[[]]", "[{a: 1}, {a: \"x\"}]", "[{a: 1}, {b: 1}]", "[{a: 1}, 1]", "[1, 1]", "[1, \"a\", 1]", "[[1], [1]]",
    "[[[1]], [1]]", "[date(\"2021-02-03\"), 1]",
  ];
  // how the value is typed the first time: {} stands for the value
  let typings: &[(&str, &str, &str)] = &[
    ("parameter of type Any", "Any", "(function(x: Any) x)({})"),
    ("parameter of type list<Any>", "list<Any>", "(function(x: list<Any>) x)({})"),
    ("parameter of type list<number>", "list<number>", "(function(x: list<number>) x)({})"),
    ("parameter of type list<list<Any>>", "list<list<Any>>", "(function(x: list<list<Any>>) x)({})"),
    ("parameter without a type", "Any", "(function(x) x)({})"),
    ("named argument", "list<Any>", "(function(x: list<Any>) x)(x: {})"),
    ("not typed before", "", "{}"),
  ];
  // transformations: (name for the reference, extra arguments as text, the expression over L)
  let mut transforms: Vec<(&str, Vec<&str>, String)> = vec![];
  for p in ["1", "2", "3", "-1", "-2"] {
    transforms.push(("remove", vec![p], format!("remove(L, {})", p)));
  }
  for item in ["1", "\"a\"", "null", "[1]"] {
    transforms.push(("append", vec![item], format!("append(L, {})", item)));
    transforms.push(("insert before", vec!["1", item], format!("insert before(L, 1, {})", item)));
    transforms.push(("insert before", vec!["-1", item], format!("insert before(L, -1, {})", item)));
    transforms.push(("concatenate", vec![match item { "1" => "[1]", "\"a\"" => "[\"a\"]", "null" => "[null]", _ => "[[1]]" }], format!("concatenate(L, [{}])", item)));
    transforms.push(("union", vec![match item { "1" => "[1]", "\"a\"" => "[\"a\"]", "null" => "[null]", _ => "[[1]]" }], format!("union(L, [{}])", item)));
  }
  for (a, b) in [("1", None), ("2", None), ("-1", None), ("1", Some("1")), ("2", Some("1")), ("1", Some("0")), ("1", Some("2")), ("-2", Some("1"))] {
    match b {
      None => transforms.push(("sublist", vec![a], format!("sublist(L, {})", a))),
      Some(b) => transforms.push(("sublist", vec![a, b], format!("sublist(L, {}, {})", a, b))),
    }
  }
  transforms.push(("reverse", vec![], "reverse(L)".into()));
  transforms.push(("distinct values", vec![], "distinct values(L)".into()));
  transforms.push(("flatten", vec![], "flatten(L)".into()));
  transforms.push(("concatenate", vec!["[]"], "concatenate(L, [])".into()));
  transforms.push(("union", vec!["[]"], "union(L, [])".into()));
  transforms.push(("sort-none", vec![], "sort(L, function(p, q) false)".into()));
  transforms.push(("for", vec![], "for i in L return i".into()));
  transforms.push(("filter-number", vec![], "L[item instance of number]".into()));
  transforms.push(("filter-not-null", vec![], "L[item != null]".into()));
  transforms.push(("filter-list", vec![], "L[item instance of list<Any>]".into()));
  // how the result is typed again
  let targets: &[&str] = &[
    "number", "string", "boolean", "Null", "Any", "list<number>", "list<string>", "list<Any>", "list<Null>", "list<list<number>>", "list<list<Any>>", "list<list<Null>>", "context<a: number>",
    "list<context<a: number>>", "list<boolean>", "list<date>", "date",
  ];
  let mut target_types: Vec<(&str, FeelType)> = vec![];
  for t in targets {
    match eval_feel(&format!("function (x: {}) x", t)) {
      Some(Value::FunctionDefinition(ps, _, _)) if ps.len() == 1 => target_types.push((*t, ps[0].1.clone())),
      _ => rep.hit("sequences:type cannot be written"),
    }
  }
  struct SeqCase {
    text: String,
    how: &'static str,
    target: usize,
    result: Value,
    instance: bool,
  }
  let mut cases: Vec<SeqCase> = vec![];
  let mut reqs: Vec<String> = vec![];
  let mut plain_checked: std::collections::HashMap<String, bool> = std::collections::HashMap::new();
  // the value that leaves the first typing: the specification's coercion of the source to the parameter's type
  let mut typed_sources: Vec<(&str, &'static str, String, Vec<Value>, String)> = vec![];
  {
    let mut treqs: Vec<String> = vec![];
    let mut tmeta: Vec<(&str, usize, Value)> = vec![];
    for src in sources {
      let v = match eval_feel(src) {
        Some(v @ Value::List(_)) => v,
        _ => {
          rep.hit("sequences:source does not evaluate");
          continue;
        }
      };
      let sk = match value_skeleton(&v) {
        Some(s) => s,
        None => continue,
      };
      for (k, (_, t1, _)) in typings.iter().enumerate() {
        let ty = if t1.is_empty() {
          FeelType::Any
        } else {
          match eval_feel(&format!("function (x: {}) x", t1)) {
            Some(Value::FunctionDefinition(ps, _, _)) if ps.len() == 1 => ps[0].1.clone(),
            _ => continue,
          }
        };
        treqs.push(format!("(c16 coerce {} {})", type_sexp(&ty), sk));
        tmeta.push((*src, k, v.clone()));
      }
    }
    let tanswers = model.ask_batch(&treqs);
    for ((src, k, v), ans) in tmeta.iter().zip(tanswers.iter()) {
      let tag = Sexp::parse(ans).as_ref().and_then(|s| s.as_list()).and_then(|l| l.get(1).and_then(|x| x.as_atom()).map(|x| x.to_string())).unwrap_or_default();
      match fresh(&by_tag(&tag, v)) {
        Value::List(xs) => {
          let w = Value::List(xs.clone());
          if let Some(w_text) = value_text(&w) {
            typed_sources.push((*src, typings[*k].0, typings[*k].2.replace("{}", src), xs.as_vec().clone(), w_text));
          }
        }
        _ => rep.hit("sequences:the first typing gives null"),
      }
    }
  }
  for (_src, how, typed, v, w_text) in &typed_sources {
    {
      let v: &Vec<Value> = v;
      let how: &'static str = how;
    for (tname, extra_txt, expr) in &transforms {
      let extra: Option<Vec<Value>> = extra_txt.iter().map(|t| eval_feel(t)).collect();
      let extra = match extra {
        Some(e) => e,
        None => continue,
      };
      // the transformation of the list itself, and of its first item when that is a list (typing a list asks for
      // the types of its items)
      let mut shapes: Vec<(String, Option<Vec<Value>>)> = vec![(expr.replace('L', "(V)"), ref_transform(tname, v, &extra))];
      if let Some(Value::List(inner)) = v.first() {
        shapes.push((expr.replace('L', "(V)[1]"), ref_transform(tname, inner.as_vec(), &extra)));
      }
      for (shape, reference) in shapes {
        let reference = match reference {
          Some(r) => Value::List(Values::new(r.iter().map(fresh).collect())),
          None => {
            rep.hit("sequences:outside the domain of the reference");
            continue;
          }
        };
        // the transformation on the value written out, untyped: it must give the reference's value (what the
        // built-ins return is C08's matter; a difference here only removes the case)
        let plain = shape.replace('V', w_text);
        let ok = *plain_checked.entry(plain.clone()).or_insert_with(|| eval_feel(&plain).map_or(false, |g| same_value(&g, &reference)));
        if !ok {
          rep.hit("sequences:transformation differs from the reference (left to C08)");
          continue;
        }
        let sk = match value_skeleton(&reference) {
          Some(s) => s,
          None => continue,
        };
        let e = shape.replace('V', typed);
        for (ti, (tt, ty)) in target_types.iter().enumerate() {
          if !thorough && !rng.chance(1, 3) {
            continue;
          }
          reqs.push(format!("(c16 coerce {} {})", type_sexp(ty), sk));
          cases.push(SeqCase { text: format!("(function(y: {}) y)({})", tt, e), how, target: ti, result: reference.clone(), instance: false });
          reqs.push(format!("(c16 instanceof {} {})", sk, type_sexp(ty)));
          cases.push(SeqCase { text: format!("({}) instance of {}", e, tt), how, target: ti, result: reference.clone(), instance: true });
        }
      }
    }
    }
  }
  let answers = model.ask_batch(&reqs);
  for (c, ans) in cases.iter().zip(answers.iter()) {
    let parsed = Sexp::parse(ans);
    let l = parsed.as_ref().and_then(|s| s.as_list());
    let typed_before = c.how != "not typed before";
    rep.case(&format!("sequence|{}", c.text), typed_before);
    let got = eval_feel(&c.text);
    let (tt, _ty) = &target_types[c.target];
    if c.instance {
      let want = match l.and_then(|l| l.first()).and_then(bool_of) {
        Some(b) => b,
        None => {
          rep.disagree(Kind::ImplVsModel, "sequences", "driver-error", &c.text, "", ans);
          continue;
        }
      };
      rep.hit(&format!("sequence:instance of:{}", want));
      match got {
        Some(Value::Boolean(g)) if g == want => {}
        other => rep.disagree(
          Kind::ImplVsSpec,
          "sequences",
          &format!("instance of, asked of a list made from a list that was typed before ({}), differs from the specification's answer for the resulting value", c.how),
          &format!("{} (the resulting value is {}; the specification: {} instance of {} = {})", c.text, c.result, c.result, tt, want),
          &format!("{:?}", other.map(|x| x.to_string())),
          &want.to_string(),
        ),
      }
    } else {
      let tag = match l.and_then(|l| l.get(1)).and_then(|x| x.as_atom()) {
        Some(t) => t.to_string(),
        None => {
          rep.disagree(Kind::ImplVsModel, "sequences", "driver-error", &c.text, "", ans);
          continue;
        }
      };
      let expected = by_tag(&tag, &c.result);
      rep.hit(&format!("sequence:coerced:{}", tag));
      match got {
        Some(g) if same_value(&g, &expected) => {}
        other => rep.disagree(
          Kind::ImplVsSpec,
          "sequences",
          &format!("coercion of a list made from a list that was typed before ({}) differs from the specification's coercion of the resulting value ({})", c.how, tag),
          &format!("{} (the resulting value is {}; the specification: coerce {} {} = {})", c.text, c.result, tt, c.result, expected),
          &format!("{:?}", other.map(|x| x.to_string())),
          &expected.to_string(),
        ),
      }
    }
  }

  // ---------------------------------------------------------------- (b) histories of the public API of `Values`
  let num = |n: i128| Value::Number(FeelNumber::new(n, 0));
  let items: Vec<Value> = vec![
    num(1),
    num(2),
    Value::String("a".into()),
    Value::Null(None),
    Value::Boolean(true),
    Value::List(Values::new(vec![])),
    Value::List(Values::new(vec![num(1)])),
    Value::List(Values::new(vec![num(1), Value::String("a".into())])),
    Value::List(Values::new(vec![Value::String("a".into())])),
  ];
  let probe_types: Vec<FeelType> = vec![
    FeelType::Number,
    FeelType::String,
    FeelType::Any,
    FeelType::List(Box::new(FeelType::Number)),
    FeelType::List(Box::new(FeelType::String)),
    FeelType::List(Box::new(FeelType::Any)),
    FeelType::List(Box::new(FeelType::Null)),
    FeelType::List(Box::new(FeelType::List(Box::new(FeelType::Number)))),
    FeelType::List(Box::new(FeelType::List(Box::new(FeelType::Any)))),
  ];
  struct Step {
    history: String,
    list: Value,
    probe: usize,
  }
  let mut steps: Vec<Step> = vec![];
  let mut hreqs: Vec<String> = vec![];
  let mut impl_answers: Vec<(Result<FeelType, String>, Result<Value, String>)> = vec![];
  let n_hist = if thorough { 20_000 } else { 2_500 };
  for h in 0..n_hist {
    let n0 = rng.below(4) as usize;
    let start: Vec<Value> = (0..n0).map(|_| rng.pick(&items).clone()).collect();
    let mut history = format!("new({})", Value::List(Values::new(start.clone())));
    let mut cur = Values::new(start);
    let mut parked: Option<Values> = None;
    let len = 2 + rng.below(7);
    for _ in 0..len {
      // the first histories ask for the type after every step, the others now and then
      let ask_always = h % 3 == 0;
      match rng.below(7) {
        0 => {
          let x = rng.pick(&items).clone();
          history.push_str(&format!("; add({})", x));
          cur.add(x);
        }
        1 => {
          let x = rng.pick(&items).clone();
          let i = rng.below(cur.len() as u64 + 1) as usize;
          history.push_str(&format!("; insert({}, {})", i, x));
          cur.insert(i, x);
        }
        2 | 3 => {
          if cur.len() > 0 {
            let i = rng.below(cur.len() as u64) as usize;
            history.push_str(&format!("; remove({})", i));
            cur.remove(i);
          }
        }
        4 => {
          history.push_str("; reverse()");
          cur.reverse();
        }
        5 => {
          history.push_str("; clone(), continue with the clone");
          let c = cur.clone();
          parked = Some(std::mem::replace(&mut cur, c));
        }
        _ => {
          if let Some(p) = parked.take() {
            history.push_str("; back to the value the clone was made of");
            parked = Some(std::mem::replace(&mut cur, p));
          }
        }
      }
      if ask_always || rng.chance(1, 2) {
        let probe = rng.below(probe_types.len() as u64) as usize;
        // the implementation is asked on the value of the history itself (a borrow, no copy)
        let lv = Value::List(cur);
        let tv = crate::util::guarded(|| lv.type_of());
        let cv = crate::util::guarded(|| probe_types[probe].coerced(&lv));
        // the history continues with the value that was asked, or - when coercion returned the list itself -
        // now and then with what coercion returned (a clone made by `coerced`)
        cur = match (&cv, lv) {
          (Ok(Value::List(returned)), Value::List(back)) if returned.as_vec().len() == back.as_vec().len() && *returned == back && rng.chance(1, 3) => returned.clone(),
          (_, Value::List(back)) => back,
          _ => unreachable!(),
        };
        history.push_str(&format!("; type_of, coerced to {}", probe_types[probe]));
        let now = Value::List(Values::new(cur.as_vec().iter().map(fresh).collect()));
        if let Some(sk) = value_skeleton(&now) {
          hreqs.push(format!("(c16 coerce {} {})", type_sexp(&probe_types[probe]), sk));
          steps.push(Step { history: history.clone(), list: now, probe });
          impl_answers.push((tv, cv));
        }
      }
    }
  }
  let hanswers = model.ask_batch(&hreqs);
  for ((st, ans), (tv, cv)) in steps.iter().zip(hanswers.iter()).zip(impl_answers.iter()) {
    rep.case(&format!("values-history|{}", st.history), true);
    let parsed = Sexp::parse(ans);
    let l = parsed.as_ref().and_then(|s| s.as_list());
    let (mty, tag) = match l.map(|l| (l.first().cloned(), l.get(1).and_then(|x| x.as_atom()).map(|x| x.to_string()))) {
      Some((Some(t), Some(tag))) => (t, tag),
      _ => {
        rep.disagree(Kind::ImplVsModel, "values-history", "driver-error", &st.history, "", ans);
        continue;
      }
    };
    rep.hit(&format!("values-history:{}", tag));
    let input = format!("{} (the list is now {})", st.history, st.list);
    match tv {
      Ok(t) if type_sexp(t) == mty => {}
      other => rep.disagree(
        Kind::ImplVsSpec,
        "values-history",
        "the type of a list after a history of add / insert / remove / reverse / clone differs from the specification's type of a list of the same items",
        &input,
        &format!("{:?}", other.as_ref().map(|t| t.to_string())),
        &mty.to_string(),
      ),
    }
    let expected = by_tag(&tag, &st.list);
    match cv {
      Ok(g) if same_value(g, &expected) => {}
      other => rep.disagree(
        Kind::ImplVsSpec,
        "values-history",
        &format!("the coercion of a list after a history of add / insert / remove / reverse / clone differs from the specification's coercion of a list of the same items ({})", tag),
        &format!("{} coerced to {}", input, probe_types[st.probe]),
        &format!("{:?}", other.as_ref().map(|t| t.to_string())),
        &expected.to_string(),
      ),
    }
  }
}
