//! C19 — a decision table drawn as Unicode box-drawing text is recognised exactly as drawn.
//!
//! Implementation: `dmntk_recognizer::{scan, Recognizer::recognize, build}` and
//! `dmntk_model_evaluator::build_decision_table_evaluator`.
//! Model: `Dmn.Recog` (lean/Dmn/Model/Plane.lean) through the driver:
//!   `(c19 layout …)` pads the texts of a generated table into the cells of a layout,
//!   `(c19 table …)`  returns `draw t`, `planeOf t` and `recognizePlane (planeOf t)`,
//!   `(c19 plane …)`  returns `recognizePlane` of an arbitrary plane.
//!
//! Families:
//!   (a) plane      the plane the real scanner yields for `draw t` = `planeOf t` (tie of the
//!                  unmodelled scanner; ImplVsModel), before and after `recognize`;
//!   (b) build      `build(draw t)` = `t` field by field (ImplVsSpec: recognised exactly as
//!                  drawn) and = `recognizePlane (planeOf t)` (ImplVsModel);
//!   (c) evaluate   the recognised table evaluates like the same table loaded from DMN XML (the evaluated tables have
//!                  output component names, input expressions, output labels and information item names of several
//!                  words drawn in one line, with a run of blanks, or over several lines);
//!   (d) total      single-character corruptions, line-level corruptions and arbitrary text are
//!                  recognised or rejected with an error, never a panic (ImplVsSpec, signature =
//!                  panic site); when the scanner still yields a plane, the implementation's
//!                  outcome is compared with `recognizePlane` of that plane (ImplVsModel).
//!   (e) scanner    on EVERY text given to the recogniser (drawings, corpus, corruptions, arbitrary
//!                  text, degenerate geometry, probes): the real scanner (`scan` + `Canvas::plane`)
//!                  against the scanner model `scanText` (Dmn/Model/Canvas.lean, `(c19 scan <text>)`):
//!                  the plane cell by cell with region numbers, region rectangles, region texts and
//!                  the information item name, or the error with its payload (ImplVsModel); and
//!                  `build` against the composed `recognizeText`.  For every generated table the
//!                  driver also evaluates `scanInvertsDraw` (scanner model ∘ draw = planeOf).
//!   (f) merged     entry cells merged over 2, 3, … up to all adjacent rules, systematically: input,
//!                  output and annotation entries; first / middle / last column of the part; from the
//!                  first rule / in the middle / to the last rule; several merged cells in one table;
//!                  both orientations; with and without information item name, allowed values,
//!                  annotations.  Drawn by the harness (`mix_drawing_merged`, the merged cell is ONE
//!                  box), expectation written out (every covered rule has the text of the box);
//!                  ImplVsSpec against `build`, evaluation against the XML twin, and every text goes
//!                  to the scanner model.  Merged INPUT cells of every length 3..=r are also forced
//!                  into the tables the Lean `draw` draws (`merge: true`), families (a)-(e).

use crate::model::Model;
use crate::report::{Kind, Report};
use crate::rng::Rng;
use crate::sexp::Sexp;
use crate::util::guarded;
use crate::Cfg;
use dmntk_feel::context::FeelContext;
use dmntk_feel::values::Value;
use dmntk_feel::Scope;
use dmntk_model::model::{BuiltinAggregator, DecisionTable, DecisionTableOrientation, HitPolicy};
use dmntk_model_evaluator::ModelEvaluator;
use serde_json::json;
use std::sync::Mutex;

// ------------------------------------------------------------------------------------------------
// panic sites

static LAST_PANIC: Mutex<String> = Mutex::new(String::new());

fn install_panic_recorder() {
  std::panic::set_hook(Box::new(|info| {
    let loc = info.location().map(|l| format!("{}:{}", l.file().trim_start_matches("/repo/"), l.line())).unwrap_or_else(|| "?".into());
    if let Ok(mut g) = LAST_PANIC.lock() {
      *g = loc;
    }
  }));
}

fn last_panic() -> String {
  LAST_PANIC.lock().map(|g| g.clone()).unwrap_or_default()
}

/// Panic message without varying data.
fn stable_msg(m: &str) -> String {
  let mut out = String::new();
  let mut in_num = false;
  for c in m.chars() {
    if c.is_ascii_digit() {
      if !in_num {
        out.push('#');
      }
      in_num = true;
    } else {
      in_num = false;
      out.push(c);
    }
  }
  out.chars().take(90).collect()
}

/// The signature of a panic: file and normalised message, independent of line numbers (the
/// full location goes into the observed text).
fn panic_signature(site: &str, msg: &str) -> String {
  let file = site.rsplit_once(':').map(|x| x.0).unwrap_or(site);
  format!("panic {}: {}", file, stable_msg(msg))
}

// ------------------------------------------------------------------------------------------------
// the logical table

#[derive(Clone, Copy, PartialEq, Debug)]
enum Ty {
  Num,
  Str,
}

#[derive(Clone, Debug)]
struct Tbl {
  orient: &'static str,
  hp: &'static str,
  name: Option<String>,
  inputs: Vec<(String, Option<String>)>,
  outputs: Vec<(Option<String>, Option<String>)>,
  label: Option<String>,
  anns: Vec<String>,
  rules: Vec<(Vec<String>, Vec<String>, Vec<String>)>,
  split: bool,
  /// cell texts are FEEL: the table can be evaluated
  semantic: bool,
  in_names: Vec<String>,
  in_types: Vec<Ty>,
  merge: bool,
}

const MARKERS: [&str; 11] = ["U", "A", "P", "F", "R", "O", "C", "C+", "C<", "C>", "C#"];

fn opt_sexp(o: &Option<String>) -> Sexp {
  match o {
    None => Sexp::list(vec![Sexp::atom("none")]),
    Some(s) => Sexp::list(vec![Sexp::atom("some"), Sexp::str(s)]),
  }
}

fn spec_sexp(
  orient: &str,
  hp: &str,
  name: &Option<String>,
  inputs: &[(String, Option<String>)],
  outputs: &[(Option<String>, Option<String>)],
  label: &Option<String>,
  anns: &[String],
  rules: &[(Vec<String>, Vec<String>, Vec<String>)],
) -> Sexp {
  let strs = |v: &Vec<String>| Sexp::list(v.iter().map(|s| Sexp::str(s)).collect());
  Sexp::list(vec![
    Sexp::atom("spec"),
    Sexp::atom(orient),
    Sexp::atom(hp),
    opt_sexp(name),
    Sexp::list(inputs.iter().map(|(e, v)| Sexp::list(vec![Sexp::atom("in"), Sexp::str(e), opt_sexp(v)])).collect()),
    Sexp::list(outputs.iter().map(|(n, v)| Sexp::list(vec![Sexp::atom("out"), opt_sexp(n), opt_sexp(v)])).collect()),
    opt_sexp(label),
    Sexp::list(anns.iter().map(|s| Sexp::str(s)).collect()),
    Sexp::list(rules.iter().map(|(a, b, c)| Sexp::list(vec![Sexp::atom("rule"), strs(a), strs(b), strs(c)])).collect()),
  ])
}

impl Tbl {
  fn spec(&self) -> Sexp {
    spec_sexp(self.orient, self.hp, &self.name, &self.inputs, &self.outputs, &self.label, &self.anns, &self.rules)
  }
  fn decor(&self, hp_text: &str) -> Sexp {
    Sexp::list(vec![
      Sexp::atom("decor"),
      Sexp::str(hp_text),
      Sexp::list((1..=self.rules.len()).map(|i| Sexp::str(&i.to_string())).collect()),
      Sexp::bool(self.split),
      Sexp::str(""),
      Sexp::list(self.anns.iter().map(|_| Sexp::str("")).collect()),
      Sexp::bool(self.merge),
      Sexp::list(self.inputs.iter().map(|_| Sexp::str("")).collect()),
      Sexp::list(self.outputs.iter().map(|_| Sexp::str("")).collect()),
    ])
  }
  fn has_values(&self) -> bool {
    self.inputs.iter().any(|i| i.1.is_some()) || self.outputs.iter().any(|o| o.1.is_some())
  }
  fn header_lanes(&self) -> usize {
    1 + (self.outputs.len() > 1 && self.label.is_some()) as usize + self.has_values() as usize
  }
  /// number of columns / rows of the drawing grid
  fn grid(&self) -> (usize, usize) {
    let a = 1 + self.inputs.len() + self.outputs.len() + self.anns.len();
    let b = self.header_lanes() + self.rules.len();
    if self.orient == "rows" {
      (a, b)
    } else {
      (b, a)
    }
  }
  fn shape_key(&self) -> String {
    format!(
      "{} n{} m{} k{} r{} {} name{} values{} label{} split{}",
      self.orient,
      self.inputs.len(),
      self.outputs.len(),
      self.anns.len(),
      self.rules.len(),
      self.hp,
      self.name.is_some() as u8,
      self.has_values() as u8,
      self.label.is_some() as u8,
      self.split as u8
    )
  }
}

// ------------------------------------------------------------------------------------------------
// generators

const WORDS: [&str; 14] = ["Customer", "Order", "size", "age", "risk", "Rate", "déjà", "Größe", "日本", "x", "N°", "total", "flag", "level"];
const PUNCT: [&str; 12] = ["!", "?", "%", "&", "<", ">", "'", "\"", "/", "\\", "…", "#"];

fn free_line(rng: &mut Rng) -> String {
  let n = rng.below(4);
  let mut parts: Vec<String> = vec![];
  for _ in 0..n {
    if rng.chance(1, 5) {
      parts.push(rng.pick(&PUNCT).to_string());
    } else {
      parts.push(rng.pick(&WORDS).to_string());
    }
  }
  parts.join(" ")
}

/// Free text: 1..3 non-empty lines (or one possibly empty line); no box-drawing characters.
fn free_text(rng: &mut Rng, multi: bool) -> String {
  let lines = if multi && rng.chance(1, 3) { 2 + rng.below(2) as usize } else { 1 };
  if lines == 1 {
    return free_line(rng);
  }
  let mut v = vec![];
  for _ in 0..lines {
    let mut l = free_line(rng);
    if l.is_empty() {
      l = "w".into();
    }
    v.push(l);
  }
  v.join("\n")
}

/// Allowed values are never blank (a blank cell means: no allowed values).
fn non_blank_text(s: String) -> String {
  if s.trim().is_empty() {
    "v".to_string()
  } else {
    s
  }
}

/// Breaks a comma separated FEEL text after a comma.
fn wrap_at_comma(rng: &mut Rng, s: String, multi: bool) -> String {
  if !multi || !rng.chance(1, 2) {
    return s;
  }
  let cs: Vec<usize> = s.match_indices(',').map(|(i, _)| i).collect();
  if cs.is_empty() {
    return s;
  }
  let i = *rng.pick(&cs);
  let rest = s[i + 1..].trim_start();
  if rest.is_empty() {
    return s;
  }
  format!("{}\n{}", &s[..=i], rest)
}

/// A name of several words as it may be drawn in a cell: in one line, with a run of blanks between two words,
/// broken after the first word, or one word per line.
fn draw_name(rng: &mut Rng, name: &str) -> String {
  if !name.contains(' ') {
    return name.to_string();
  }
  match rng.below(5) {
    0 => name.to_string(),
    1 => name.replacen(' ', "  ", 1),
    2 | 3 => name.replacen(' ', "\n", 1),
    _ => name.replace(' ', "\n"),
  }
}

const STRS: [&str; 4] = ["a", "b", "c", "d"];

fn num_entry(rng: &mut Rng) -> String {
  match rng.below(8) {
    0 | 1 => "-".into(),
    2 => format!("<{}", rng.below(10)),
    3 => format!(">={}", rng.below(10)),
    4 => {
      let a = rng.below(8);
      format!("[{}..{}]", a, a + 1 + rng.below(4))
    }
    5 => format!("{}", rng.below(10)),
    6 => format!("not({})", rng.below(10)),
    _ => format!("{},{}", rng.below(5), 5 + rng.below(5)),
  }
}

fn str_entry(rng: &mut Rng) -> String {
  match rng.below(5) {
    0 | 1 => "-".into(),
    2 => format!("\"{}\"", rng.pick(&STRS)),
    3 => format!("\"{}\",\"{}\"", rng.pick(&STRS), rng.pick(&STRS)),
    _ => format!("not(\"{}\")", rng.pick(&STRS)),
  }
}

struct Shape {
  orient: &'static str,
  n: usize,
  m: usize,
  k: usize,
  r: usize,
  hp: &'static str,
  name: bool,
  values: bool,
  label: bool,
  split: bool,
  /// allow texts that collide with the recogniser's placement heuristics
  quirks: bool,
  /// 1: no allowed output values (blank cells), 2: no allowed input values, 3: a random subset
  blank_values: u8,
  /// draw equal input entries of consecutive rules as one merged cell
  merge: bool,
}

fn gen_table(rng: &mut Rng, sh: &Shape, semantic: bool, multi: bool) -> Tbl {
  let mut in_names = vec![];
  let mut in_types = vec![];
  let mut inputs = vec![];
  for j in 0..sh.n {
    let ty = if rng.chance(2, 3) { Ty::Num } else { Ty::Str };
    // names: plain, multi-word (may wrap over lines), or a hit policy letter
    let nm = match rng.below(14) {
      0 => format!("Applicant age {}", j + 1),
      1 => format!("Order size{}", j + 1),
      4 | 5 if semantic && multi => format!("Monthly net income {}", j + 1),
      2 if j > 0 => ["A", "P", "C"][j % 3].to_string() + &format!("{}", j),
      // an input called like a hit policy marker (regression of F19a when it is the first one of a rules-as-columns table)
      3 if sh.quirks => ["A", "P", "C", "U", "F", "R", "O"][(j + sh.r) % 7].to_string(),
      _ => format!("in{}", j + 1),
    };
    let expr = if semantic {
      if multi && nm.contains(' ') {
        draw_name(rng, &nm)
      } else {
        nm.clone()
      }
    } else {
      free_text(rng, multi)
    };
    let vals = if sh.values && sh.blank_values != 2 && !(sh.blank_values == 3 && rng.chance(1, 2)) {
      Some(if semantic {
        match ty {
          Ty::Num => wrap_at_comma(rng, "<5,[5..10],>10".to_string(), multi),
          Ty::Str => wrap_at_comma(rng, "\"a\",\"b\",\"c\",\"d\"".to_string(), multi),
        }
      } else {
        non_blank_text(free_text(rng, multi))
      })
    } else {
      None
    };
    in_names.push(nm);
    in_types.push(ty);
    inputs.push((expr, vals));
  }
  let numeric_out = matches!(sh.hp, "C+" | "C<" | "C>") || rng.chance(1, 2);
  let mut outputs = vec![];
  for j in 0..sh.m {
    let name = if sh.m > 1 {
      Some(if semantic {
        // component names of one or of several words; the ones of several words are drawn in one line, with a run
        // of blanks between two words, or over two or more lines (the name is the same name however it is drawn)
        let base = match rng.below(5) {
          0 | 1 => format!("out{}", j + 1),
          2 => format!("Discount rate {}", j + 1),
          3 => format!("out put{}", j + 1),
          _ => format!("Risk level é {}", j + 1),
        };
        if multi {
          draw_name(rng, &base)
        } else {
          base
        }
      } else {
        free_text(rng, multi)
      })
    } else {
      None
    };
    let vals = if sh.values && sh.blank_values != 1 && !(sh.blank_values == 3 && rng.chance(1, 2)) {
      Some(if semantic {
        if numeric_out {
          wrap_at_comma(rng, "1,2,3,4,5,6,7,8,9".to_string(), multi)
        } else {
          wrap_at_comma(rng, "\"x\",\"y\",\"z\"".to_string(), multi)
        }
      } else {
        non_blank_text(free_text(rng, multi))
      })
    } else {
      None
    };
    outputs.push((name, vals));
  }
  let label = if sh.m == 1 || sh.label {
    // a label that reads as a number (regression of F19b in a rules-as-columns table)
    Some(if sh.quirks && rng.chance(1, 4) {
      format!("{}", 1 + rng.below(3))
    } else if semantic && multi && rng.chance(1, 2) {
      draw_name(rng, "Discount and risk")
    } else {
      free_text(rng, multi)
    })
  } else {
    None
  };
  let anns: Vec<String> = (0..sh.k).map(|_| free_text(rng, multi)).collect();
  let mut rules: Vec<(Vec<String>, Vec<String>, Vec<String>)> = vec![];
  for _ in 0..sh.r {
    let ins: Vec<String> = (0..sh.n)
      .map(|j| {
        if sh.merge && !rules.is_empty() && rng.chance(1, 2) {
          // the same entry as in the rule before: drawn as one merged cell
          rules.last().unwrap().0[j].clone()
        } else if semantic {
          let e = match in_types[j] {
            Ty::Num => num_entry(rng),
            Ty::Str => str_entry(rng),
          };
          wrap_at_comma(rng, e, multi)
        } else {
          free_text(rng, multi)
        }
      })
      .collect();
    let outs: Vec<String> = (0..sh.m)
      .map(|_| {
        if semantic {
          if numeric_out {
            format!("{}", 1 + rng.below(9))
          } else {
            format!("\"{}\"", rng.pick(&["x", "y", "z"]))
          }
        } else {
          free_text(rng, multi)
        }
      })
      .collect();
    let an: Vec<String> = (0..sh.k).map(|_| free_text(rng, multi)).collect();
    rules.push((ins, outs, an));
  }
  Tbl {
    orient: sh.orient,
    hp: sh.hp,
    name: if sh.name {
      Some(if semantic && multi && rng.chance(1, 2) { draw_name(rng, "Discount and risk level") } else { free_text(rng, multi) })
    } else {
      None
    },
    inputs,
    outputs,
    label,
    anns,
    rules,
    split: sh.split,
    semantic,
    in_names,
    in_types,
    merge: sh.merge,
  }
}

fn random_shape(rng: &mut Rng) -> Shape {
  let m = 1 + rng.below(3) as usize;
  Shape {
    orient: if rng.chance(1, 2) { "rows" } else { "cols" },
    n: 1 + rng.below(5) as usize,
    m,
    k: rng.below(3) as usize,
    r: 1 + rng.below(8) as usize,
    hp: *rng.pick(&MARKERS),
    name: rng.chance(1, 2),
    values: rng.chance(1, 2),
    label: rng.chance(1, 2),
    split: rng.chance(1, 2),
    quirks: rng.chance(1, 6),
    blank_values: if rng.chance(1, 3) { 1 + rng.below(3) as u8 } else { 0 },
    merge: rng.chance(1, 3),
  }
}

// ------------------------------------------------------------------------------------------------
// implementation side

fn hp_atom(h: &HitPolicy) -> &'static str {
  match h {
    HitPolicy::Unique => "U",
    HitPolicy::Any => "A",
    HitPolicy::Priority => "P",
    HitPolicy::First => "F",
    HitPolicy::RuleOrder => "R",
    HitPolicy::OutputOrder => "O",
    HitPolicy::Collect(BuiltinAggregator::List) => "C",
    HitPolicy::Collect(BuiltinAggregator::Sum) => "C+",
    HitPolicy::Collect(BuiltinAggregator::Count) => "C#",
    HitPolicy::Collect(BuiltinAggregator::Min) => "C<",
    HitPolicy::Collect(BuiltinAggregator::Max) => "C>",
  }
}

fn table_sexp(dt: &DecisionTable) -> Sexp {
  let orient = match dt.preferred_orientation {
    DecisionTableOrientation::RuleAsRow => "rows",
    DecisionTableOrientation::RuleAsColumn => "cols",
    DecisionTableOrientation::CrossTable => "cross",
  };
  let inputs: Vec<(String, Option<String>)> = dt.input_clauses.iter().map(|c| (c.input_expression.clone(), c.input_values.clone())).collect();
  let outputs: Vec<(Option<String>, Option<String>)> = dt.output_clauses.iter().map(|c| (c.name.clone(), c.output_values.clone())).collect();
  let anns: Vec<String> = dt.annotations.iter().map(|a| a.name.clone()).collect();
  let rules: Vec<(Vec<String>, Vec<String>, Vec<String>)> = dt
    .rules
    .iter()
    .map(|r| {
      (
        r.input_entries.iter().map(|e| e.text.clone()).collect(),
        r.output_entries.iter().map(|e| e.text.clone()).collect(),
        r.annotation_entries.iter().map(|e| e.text.clone()).collect(),
      )
    })
    .collect();
  spec_sexp(orient, hp_atom(&dt.hit_policy), &dt.information_item_name, &inputs, &outputs, &dt.output_label, &anns, &rules)
}

/// `Err(..)` of the recogniser → the model's error name.
fn err_name(msg: &str) -> String {
  let m = msg;
  let has = |s: &str| m.contains(s);
  if has("invalid size:") {
    let k = if has("minimum one input clause") {
      1
    } else if has("number of input expressions") {
      2
    } else if has("number of input values") {
      3
    } else if has("minimum one output clause") {
      4
    } else if has("number of output components (") {
      5
    } else if has("output components must be zero") {
      6
    } else if has("number of output values") {
      7
    } else if has("minimum one rule") {
      8
    } else if has("number of input entries") && has("number of rules") {
      9
    } else if has("number of input entries") {
      10
    } else if has("number of output entries") && has("number of rules") {
      11
    } else if has("number of output entries") {
      12
    } else if has("number of annotation entries") && has("number of rules") {
      13
    } else if has("number of annotation entries") {
      14
    } else {
      0
    };
    return format!("invalidSize:{}", k);
  }
  if has("plane invalid rule number:") {
    let n = m.rsplit(':').next().unwrap_or("").trim();
    return format!("invalidRuleNumber:{}", n);
  }
  let table = [
    ("plane is empty", "planeIsEmpty"),
    ("plane row is out of range", "rowOutOfRange"),
    ("plane column is out of range", "colOutOfRange"),
    ("plane no main double crossing", "noMainDoubleCrossing"),
    ("plane invalid output clause", "invalidOutputClause"),
    ("not a region cell in plane", "cellIsNotRegion"),
    ("invalid input expressions", "invalidInputExpressions"),
    ("too many rows in output clause", "tooManyRows"),
    ("no output clause", "noOutputClause"),
    ("expected left-below rule numbers placement", "expectedLeftBelow"),
    ("expected right-after rule numbers placement", "expectedRightAfter"),
    ("expected top-left hit policy placement", "expectedTopLeft"),
    ("expected bottom-left hit policy placement", "expectedBottomLeft"),
    ("expected no rule numbers present", "expectedNoRuleNumbers"),
    ("cross-tab decision tables is not yet implemented", "crossTabNotSupported"),
  ];
  for (k, v) in table {
    if has(k) {
      return v.to_string();
    }
  }
  format!("scanner:{}", stable_msg(m))
}

/// The file a model panic site lives in (`builderIndex` is the only site left).
fn site_file(_site: &str) -> &'static str {
  "recognizer/src/builder.rs"
}

struct PlaneObs {
  display: String,
  texts: Sexp,
  cells: Sexp,
  /// the cells with the regions' rectangles: `(r id left top right bottom (s text))`
  scells: Sexp,
}

/// The rectangle `(left,top;right,bottom)` in the `Debug` text of a region cell
/// (`Region(7, (4,2;26,5), "…")`).
fn rect_of_debug(dbg: &str) -> Vec<Sexp> {
  let inner = dbg.split_once(", (").and_then(|x| x.1.split_once(')')).map(|x| x.0).unwrap_or("");
  inner.split(|c| c == ',' || c == ';').map(|n| Sexp::atom(n.trim())).collect()
}

/// Observes a plane through its public methods (`Display`, `height`, `row_len`,
/// `region_text`, `region_number`, and the `Debug` name of a non-region cell).
macro_rules! observe_plane {
  ($plane:expr) => {{
    let plane = $plane;
    let display = format!("{}", plane);
    let mut rows = vec![Sexp::atom("texts")];
    let mut cells = vec![];
    let mut scells = vec![];
    for r in 0..plane.height() {
      let mut row = vec![];
      let mut crow = vec![];
      let mut srow = vec![];
      for c in 0..plane.row_len(r) {
        match (plane.region_number(r, c), plane.region_text(r, c)) {
          (Ok(n), Ok(t)) => {
            row.push(Sexp::str(&t));
            crow.push(Sexp::list(vec![Sexp::atom("r"), Sexp::int(n), Sexp::str(&t)]));
            let dbg = plane.cell(r, c).map(|x| format!("{:?}", x)).unwrap_or_default();
            let mut sc = vec![Sexp::atom("r"), Sexp::int(n)];
            sc.extend(rect_of_debug(&dbg));
            sc.push(Sexp::str(&t));
            srow.push(Sexp::list(sc));
          }
          _ => {
            row.push(Sexp::atom("-"));
            let dbg = plane.cell(r, c).map(|x| format!("{:?}", x)).unwrap_or_default();
            crow.push(Sexp::atom(match dbg.as_str() {
              "VerticalOutputDoubleLine" => "vo",
              "VerticalAnnotationDoubleLine" => "va",
              "HorizontalOutputDoubleLine" => "ho",
              "HorizontalAnnotationsDoubleLine" => "ha",
              "MainDoubleCrossing" => "mx",
              "HorizontalDoubleCrossing" => "hx",
              "VerticalDoubleCrossing" => "vx",
              _ => "??",
            }));
            srow.push(crow.last().cloned().unwrap());
          }
        }
      }
      rows.push(Sexp::list(row));
      cells.push(Sexp::list(crow));
      scells.push(Sexp::list(srow));
    }
    PlaneObs { display, texts: Sexp::list(rows), cells: Sexp::list(cells), scells: Sexp::list(scells) }
  }};
}

struct ImplObs {
  /// the scanner's plane and information item name, or the scanner's error
  scanned: Result<(PlaneObs, Option<String>), String>,
  /// the plane left in `Recognizer::plane`
  post: Option<PlaneObs>,
  /// `build`: the table / the error message
  built: Result<DecisionTable, String>,
  /// a panic of `scan`, `recognize` or `build`: (site, message)
  panic: Option<(String, String)>,
}

const PANIC_MARK: &str = "\u{1}panic ";

fn run_impl(text: &str) -> ImplObs {
  crate::util::note_case(text);
  let mut panic = None;
  let scanned = match guarded(|| match dmntk_recognizer::scan(text) {
    Err(e) => Err(e.to_string()),
    Ok(mut canvas) => {
      let name = canvas.information_item_name.clone();
      match canvas.plane() {
        Err(e) => Err(e.to_string()),
        Ok(p) => Ok((observe_plane!(&p), name)),
      }
    }
  }) {
    Ok(r) => r,
    Err(m) => {
      panic = Some((last_panic(), m.clone()));
      Err(format!("{}{}", PANIC_MARK, last_panic()))
    }
  };
  let post = match guarded(|| match dmntk_recognizer::Recognizer::recognize(text) {
    Ok(rec) => Some(observe_plane!(&rec.plane)),
    Err(_) => None,
  }) {
    Ok(r) => r,
    Err(m) => {
      panic = Some((last_panic(), m));
      None
    }
  };
  let built = match guarded(|| dmntk_recognizer::build(text).map_err(|e| e.to_string())) {
    Ok(r) => r,
    Err(m) => {
      panic = Some((last_panic(), m));
      Err(format!("{}{}", PANIC_MARK, last_panic()))
    }
  };
  ImplObs { scanned, post, built, panic }
}

/// The file of a panic site `file:line`.
fn file_of(site: &str) -> &str {
  site.rsplit_once(':').map(|x| x.0).unwrap_or(site)
}

fn impl_outcome(o: &ImplObs) -> String {
  match &o.built {
    Ok(dt) => Sexp::list(vec![Sexp::atom("ok"), table_sexp(dt)]).to_string(),
    Err(m) if m.starts_with(PANIC_MARK) => format!("(panic {})", file_of(&m[PANIC_MARK.len()..])),
    Err(m) => format!("(error {})", err_name(m)),
  }
}

/// The model's outcome with a panic site replaced by the file it lives in.
fn normalise_model_outcome(m: &str) -> String {
  if let Some(rest) = m.strip_prefix("(panic ") {
    let site = rest.trim_end_matches(')');
    return format!("(panic {})", site_file(site));
  }
  m.to_string()
}


// ------------------------------------------------------------------------------------------------
// the scanner (canvas.rs) against its model (Dmn/Model/Canvas.lean, `(c19 scan <text>)`)

/// What the real scanner (`scan` + `Canvas::plane`) did with a text.
enum ScanObs {
  /// `(ok <opt name> (<scell>…)…)`, the form of the model's answer
  Plane(String),
  /// the message of the `Err(..)`
  Error(String),
  /// the panic site
  Panic(String),
}

fn scan_obs(o: &ImplObs) -> ScanObs {
  match &o.scanned {
    Ok((p, name)) => {
      let mut v = vec![Sexp::atom("ok"), opt_sexp(name)];
      v.extend(p.scells.as_list().unwrap_or(&[]).iter().cloned());
      ScanObs::Plane(Sexp::list(v).to_string())
    }
    Err(m) if m.starts_with(PANIC_MARK) => ScanObs::Panic(m[PANIC_MARK.len()..].to_string()),
    Err(m) => ScanObs::Error(m.clone()),
  }
}

fn scan_error_kind(msg: &str) -> &'static str {
  if msg.contains("expected characters not found") {
    "notFound"
  } else if msg.contains("is not allowed in") {
    "notAllowed"
  } else if msg.contains("rectangle is not closed") {
    "notClosed"
  } else if msg.contains("region not found") {
    "regionNotFound"
  } else {
    "other"
  }
}

fn chars_of(s: &Sexp) -> Vec<char> {
  str_of(s).chars().collect()
}

/// The message of the `Err(..)` a scanner error of the model stands for (errors.rs:69-83):
/// `e` = `(error <kind> <payload>…)`.
fn scan_error_message(e: &[Sexp]) -> Option<String> {
  let num = |i: usize| e.get(i).and_then(|x| x.as_atom()).and_then(|a| a.parse::<u64>().ok());
  match e.get(1)?.as_atom()? {
    "notFound" => Some(format!("RecognizerError: expected characters not found: {:?}", chars_of(e.get(2)?))),
    "notAllowed" => {
      let ch = char::from_u32(num(2)? as u32)?;
      Some(format!("RecognizerError: character '{}' is not allowed in {:?}", ch, chars_of(e.get(3)?)))
    }
    "notClosed" => Some(format!("RecognizerError: rectangle is not closed, start point: ({},{}), end point: ({},{})", num(2)?, num(3)?, num(4)?, num(5)?)),
    "regionNotFound" => Some(format!("RecognizerError: region not found, rect: ({},{};{},{})", num(2)?, num(3)?, num(4)?, num(5)?)),
    _ => None,
  }
}

/// Compares the real scanner's result and the outcome of `build` with the answer of
/// `(c19 scan <text>)`: `((scanned <scan>) (recognized <outcome>))`.
fn compare_scan(rep: &mut Report, text: &str, obs: &ScanObs, built: &str, ans: &str) {
  let parts = match split_top(ans) {
    Some(p) if p.len() == 2 => p,
    _ => {
      rep.disagree(Kind::ImplVsModel, "scanner", "driver-error (scan)", text, "", &ans.chars().take(200).collect::<String>());
      return;
    }
  };
  let scanned = parts[0].as_list().and_then(|l| l.get(1).cloned()).unwrap_or_else(|| Sexp::atom("?"));
  let sl = scanned.as_list().map(|l| l.to_vec()).unwrap_or_default();
  let model_kind = match sl.first().and_then(|x| x.as_atom()) {
    Some("ok") => "plane".to_string(),
    Some("error") => format!("error {}", sl.get(1).and_then(|x| x.as_atom()).unwrap_or("?")),
    Some("panic") => "panic".to_string(),
    _ => "?".to_string(),
  };
  rep.hit(&format!("scanner-model:{}", model_kind));
  let impl_kind = match obs {
    ScanObs::Plane(_) => "plane".to_string(),
    ScanObs::Error(m) => format!("error {}", scan_error_kind(m)),
    ScanObs::Panic(_) => "panic".to_string(),
  };
  let short = |s: &str| s.chars().take(4000).collect::<String>();
  if impl_kind != model_kind {
    let seen = match obs {
      ScanObs::Plane(p) => short(p),
      ScanObs::Error(m) => m.clone(),
      ScanObs::Panic(site) => format!("panic at {}", site),
    };
    rep.disagree(Kind::ImplVsModel, "scanner", &format!("scanner differs from its model: impl {} / model {}", impl_kind, model_kind), text, &seen, &short(&scanned.to_string()));
  } else {
    match obs {
      ScanObs::Plane(p) => {
        if *p != scanned.to_string() {
          rep.disagree(Kind::ImplVsModel, "scanner", "scanned plane (cells, region numbers, rectangles, texts, information item name) differs from the scanner model", text, &short(p), &short(&scanned.to_string()));
        }
      }
      ScanObs::Error(m) => {
        let want = scan_error_message(&sl).unwrap_or_default();
        if *m != want {
          rep.disagree(Kind::ImplVsModel, "scanner", &format!("scanner error differs from the scanner model in its payload ({})", model_kind), text, m, &want);
        }
      }
      ScanObs::Panic(_) => {}
    }
  }
  // the composed pipeline text -> table (`recognizeText`) against `build`
  let rec = parts[1].as_list().and_then(|l| l.get(1).cloned()).unwrap_or_else(|| Sexp::atom("?"));
  let rl = rec.as_list().map(|l| l.to_vec()).unwrap_or_default();
  let want = match rl.first().and_then(|x| x.as_atom()) {
    Some("scan-error") => {
      let msg = rl.get(1).and_then(|e| e.as_list()).and_then(scan_error_message).unwrap_or_default();
      format!("(error {})", err_name(&msg))
    }
    Some("scan-panic") => "(panic recognizer/src/canvas.rs)".to_string(),
    _ => normalise_model_outcome(&rec.to_string()),
  };
  let want = if want.starts_with("(panic recognizer/src/canvas.rs") && built.starts_with("(panic recognizer/src/plane.rs") { built.to_string() } else { want };
  if want != built {
    let head = |s: &str| s.chars().take(40).collect::<String>().split(' ').take(2).collect::<Vec<_>>().join(" ");
    rep.disagree(Kind::ImplVsModel, "scanner", &format!("build differs from recognizeText: impl {} / model {}", head(built), head(&want)), text, &short(built), &short(&want));
  }
}

// ------------------------------------------------------------------------------------------------
// evaluation: recognised table vs the same table loaded from DMN XML

fn xml_escape(s: &str) -> String {
  s.replace('&', "&amp;").replace('<', "&lt;").replace('>', "&gt;").replace('"', "&quot;")
}

fn table_xml(t: &Tbl) -> String {
  let (hp, agg) = match t.hp {
    "U" => ("UNIQUE", None),
    "A" => ("ANY", None),
    "P" => ("PRIORITY", None),
    "F" => ("FIRST", None),
    "R" => ("RULE ORDER", None),
    "O" => ("OUTPUT ORDER", None),
    "C" => ("COLLECT", None),
    "C+" => ("COLLECT", Some("SUM")),
    "C#" => ("COLLECT", Some("COUNT")),
    "C<" => ("COLLECT", Some("MIN")),
    _ => ("COLLECT", Some("MAX")),
  };
  let one_line = |s: &str| xml_escape(&s.replace('\n', " "));
  let mut x = String::new();
  x.push_str("<?xml version=\"1.0\" encoding=\"UTF-8\"?>\n<definitions namespace=\"https://verif/c19\" name=\"c19\" id=\"_defs\" xmlns=\"https://www.omg.org/spec/DMN/20191111/MODEL/\">\n");
  for (j, n) in t.in_names.iter().enumerate() {
    let ty = if t.in_types[j] == Ty::Num { "number" } else { "string" };
    x.push_str(&format!("<inputData name=\"{}\" id=\"_i{}\"><variable name=\"{}\" typeRef=\"{}\"/></inputData>\n", xml_escape(n), j, xml_escape(n), ty));
  }
  x.push_str("<decision name=\"D\" id=\"_d\"><variable name=\"D\"/>\n");
  for j in 0..t.in_names.len() {
    x.push_str(&format!("<informationRequirement id=\"_r{}\"><requiredInput href=\"#_i{}\"/></informationRequirement>\n", j, j));
  }
  x.push_str(&format!("<decisionTable hitPolicy=\"{}\"{}>\n", hp, agg.map(|a| format!(" aggregation=\"{}\"", a)).unwrap_or_default()));
  for (e, v) in &t.inputs {
    x.push_str(&format!("<input><inputExpression><text>{}</text></inputExpression>", one_line(e)));
    if let Some(v) = v.as_ref().filter(|v| !v.trim().is_empty()) {
      x.push_str(&format!("<inputValues><text>{}</text></inputValues>", one_line(v)));
    }
    x.push_str("</input>\n");
  }
  for (n, v) in &t.outputs {
    match n {
      Some(n) => x.push_str(&format!("<output name=\"{}\">", one_line(n))),
      None => x.push_str("<output>"),
    }
    if let Some(v) = v.as_ref().filter(|v| !v.trim().is_empty()) {
      x.push_str(&format!("<outputValues><text>{}</text></outputValues>", one_line(v)));
    }
    x.push_str("</output>\n");
  }
  for (ins, outs, _) in &t.rules {
    x.push_str("<rule>");
    for e in ins {
      x.push_str(&format!("<inputEntry><text>{}</text></inputEntry>", one_line(e)));
    }
    for e in outs {
      x.push_str(&format!("<outputEntry><text>{}</text></outputEntry>", one_line(e)));
    }
    x.push_str("</rule>\n");
  }
  x.push_str("</decisionTable></decision></definitions>\n");
  x
}

fn canon(v: &Value) -> String {
  match v {
    Value::Null(_) => "null".into(),
    Value::List(vs) => format!("[{}]", vs.as_vec().iter().map(canon).collect::<Vec<_>>().join(", ")),
    Value::Context(c) => format!("{{{}}}", c.get_entries().iter().map(|(k, v)| format!("{}: {}", k, canon(v))).collect::<Vec<_>>().join(", ")),
    other => format!("{}", other),
  }
}

/// The names of the entries of all contexts in a value, in order.
fn entry_names(v: &Value) -> Vec<String> {
  match v {
    Value::List(vs) => vs.as_vec().iter().flat_map(entry_names).collect(),
    Value::Context(c) => c.get_entries().iter().flat_map(|(k, v)| std::iter::once(k.to_string()).chain(entry_names(v))).collect(),
    _ => vec![],
  }
}

fn input_context(rng: &mut Rng, t: &Tbl) -> String {
  let mut es = vec![];
  for (n, ty) in t.in_names.iter().zip(t.in_types.iter()) {
    let v = match ty {
      Ty::Num => format!("{}", rng.below(13)),
      Ty::Str => format!("\"{}\"", rng.pick(&["a", "b", "c", "d", "e"])),
    };
    es.push(format!("{}: {}", n, v));
  }
  format!("{{{}}}", es.join(", "))
}

// ------------------------------------------------------------------------------------------------
// corruptions

const BOX: [char; 31] = [
  '┌', '┐', '└', '┘', '├', '┤', '┬', '┴', '┼', '─', '│', '═', '║', '╞', '╡', '╥', '╨', '╪', '╫', '╬', '╟', '╢', '╤', '╧', ' ', 'x', '1', 'U', '░', '╔', '\t',
];

fn corrupt(rng: &mut Rng, text: &str) -> (String, String) {
  let mut lines: Vec<Vec<char>> = text.lines().map(|l| l.chars().collect()).collect();
  if lines.is_empty() {
    return ("empty".into(), String::new());
  }
  let kind = rng.below(18);
  let li = rng.below(lines.len() as u64) as usize;
  let what;
  match kind {
    14..=17 => {
      // replace a junction character by another junction character
      const JUNCTIONS: [char; 24] = ['┌', '┐', '└', '┘', '├', '┤', '┬', '┴', '┼', '╞', '╡', '╥', '╨', '╪', '╫', '╬', '╟', '╢', '╤', '╧', '│', '─', '║', '═'];
      let mut pos = vec![];
      for (y, l) in lines.iter().enumerate() {
        for (x, c) in l.iter().enumerate() {
          if JUNCTIONS[..20].contains(c) {
            pos.push((y, x));
          }
        }
      }
      if !pos.is_empty() {
        let (y, x) = *rng.pick(&pos);
        lines[y][x] = *rng.pick(&JUNCTIONS);
      }
      what = "junction";
    }
    10 => {
      // delete one column of the drawing
      let w = lines.iter().map(|l| l.len()).max().unwrap_or(0);
      let x = rng.below(w.max(1) as u64) as usize;
      for l in lines.iter_mut() {
        if x < l.len() {
          l.remove(x);
        }
      }
      what = "delete-column";
    }
    11 => {
      let w = lines.iter().map(|l| l.len()).max().unwrap_or(0);
      let x = rng.below(w.max(1) as u64) as usize;
      for l in lines.iter_mut() {
        if x < l.len() {
          let c = l[x];
          l.insert(x, c);
        }
      }
      what = "duplicate-column";
    }
    12 => {
      let lj = rng.below(lines.len() as u64) as usize;
      lines.swap(li, lj);
      what = "swap-lines";
    }
    13 => {
      // turn a whole single line into a double line or back
      for c in lines[li].iter_mut() {
        *c = match *c {
          '─' => '═',
          '├' => '╞',
          '┤' => '╡',
          '┼' => '╪',
          '╫' => '╬',
          '═' => '─',
          '╞' => '├',
          '╡' => '┤',
          '╪' => '┼',
          '╬' => '╫',
          other => other,
        };
      }
      what = "toggle-double-line";
    }
    0..=4 => {
      // single character substitution, preferring line characters
      let cand: Vec<usize> = (0..lines[li].len()).filter(|&i| lines[li][i] != ' ' || rng.chance(1, 8)).collect();
      if let Some(&ci) = cand.get(rng.below(cand.len().max(1) as u64) as usize) {
        lines[li][ci] = *rng.pick(&BOX);
      }
      what = "substitute";
    }
    5 => {
      if !lines[li].is_empty() {
        let ci = rng.below(lines[li].len() as u64) as usize;
        lines[li].remove(ci);
      }
      what = "delete-char";
    }
    6 => {
      let ci = rng.below(lines[li].len() as u64 + 1) as usize;
      lines[li].insert(ci, *rng.pick(&BOX));
      what = "insert-char";
    }
    7 => {
      lines.remove(li);
      what = "delete-line";
    }
    8 => {
      let l = lines[li].clone();
      lines.insert(li, l);
      what = "duplicate-line";
    }
    _ => {
      let keep = rng.below(lines[li].len() as u64 + 1) as usize;
      lines[li].truncate(keep);
      what = "truncate-line";
    }
  }
  (what.to_string(), lines.iter().map(|l| l.iter().collect::<String>()).collect::<Vec<_>>().join("\n"))
}

fn arbitrary_text(rng: &mut Rng) -> String {
  let nl = rng.below(7);
  let mut s = String::new();
  for _ in 0..nl {
    let w = rng.below(12);
    for _ in 0..w {
      s.push(*rng.pick(&BOX));
    }
    s.push('\n');
  }
  s
}

// ------------------------------------------------------------------------------------------------

fn split_top(ans: &str) -> Option<Vec<Sexp>> {
  Sexp::parse(ans)?.as_list().map(|l| l.to_vec())
}

fn lines_of(s: &Sexp) -> Vec<String> {
  s.as_list()
    .map(|l| {
      l[1..]
        .iter()
        .map(|x| x.as_list().map(|cs| cs[1..].iter().filter_map(|c| c.as_atom().and_then(|a| a.parse::<u32>().ok()).and_then(char::from_u32)).collect::<String>()).unwrap_or_default())
        .collect()
    })
    .unwrap_or_default()
}

fn str_of(s: &Sexp) -> String {
  s.as_list().map(|cs| cs[1..].iter().filter_map(|c| c.as_atom().and_then(|a| a.parse::<u32>().ok()).and_then(char::from_u32)).collect::<String>()).unwrap_or_default()
}

struct Case {
  tbl: Tbl,
  slack: Sexp,
  hp_text: String,
}

pub fn run(cfg: &Cfg) -> Report {
  let mut rep = Report::new(
    "C19",
    "generated tables (1..5 inputs, 1..3 outputs, 0..2 annotations, 1..8 rules, 11 hit policy markers, both orientations, information item name / allowed values / output label / split header lane on and off, random cell widths, heights and text positions, multi-line cells), drawn by the Lean `draw`, recognised by the real recogniser; drawings with mixed header shapes and with entry cells merged over 2..all adjacent rules (input, output, annotation entries) drawn by the harness with a written-out expectation; plus corruptions of the drawings and arbitrary text. Non-trivial: a drawing of a table (any shape) or a corrupted drawing that differs from its original; distinct by the text given to the recogniser.",
  );
  install_panic_recorder();
  let thorough = cfg.tier == "thorough";
  let mut rng = Rng::new(cfg.seed);
  let mut model = Model::start(&cfg.driver);

  // ---- the tables ------------------------------------------------------------------------------
  let mut cases: Vec<Case> = vec![];
  let mk_case = |rng: &mut Rng, sh: &Shape, semantic: bool, multi: bool| -> Case {
    let tbl = gen_table(rng, sh, semantic, multi);
    let (gc, gr) = tbl.grid();
    let slack = Sexp::list(vec![
      Sexp::atom("slack"),
      Sexp::list((0..gc).map(|_| Sexp::int(if rng.chance(1, 2) { 0 } else { rng.below(5) })).collect()),
      Sexp::list((0..gr).map(|_| Sexp::int(if rng.chance(3, 4) { 0 } else { rng.below(3) })).collect()),
      Sexp::int(rng.below(6)),
      Sexp::int(rng.below(1_000_000)),
    ]);
    Case { tbl, slack, hp_text: sh.hp.to_string() }
  };
  // systematic part: every marker × orientation × optional parts, small sizes
  for orient in ["rows", "cols"] {
    for (mi, hp) in MARKERS.iter().enumerate() {
      for bits in 0..16u32 {
        for m in [1usize, 2, 3] {
          let sh = Shape {
            orient,
            n: 1 + ((mi + bits as usize) % 3),
            m,
            k: (bits as usize + m) % 3,
            r: 1 + ((mi * 3 + bits as usize) % 4),
            hp,
            name: bits & 1 != 0,
            values: bits & 2 != 0,
            label: bits & 4 != 0,
            split: bits & 8 != 0,
            quirks: false,
            blank_values: 0,
            merge: (bits as usize + mi) % 5 == 0,
          };
          if !thorough && (mi + bits as usize + m) % 3 != 0 && *hp != "U" {
            continue;
          }
          cases.push(mk_case(&mut rng, &sh, true, bits & 1 == 0));
        }
      }
    }
  }
  // allowed values lane with blank output (or input) values
  for (i, hp) in MARKERS.iter().enumerate() {
    for bv in [1u8, 2, 3] {
      let sh = Shape { orient: if i % 2 == 0 { "rows" } else { "cols" }, n: 1 + i % 3, m: 1 + i % 2, k: i % 2, r: 2 + i % 3, hp, name: false, values: true, label: i % 3 == 0, split: i % 2 == 1, quirks: false, blank_values: bv, merge: false };
      cases.push(mk_case(&mut rng, &sh, true, false));
    }
  }
  let n_random = if thorough { 12_000 } else { 3_000 };
  for i in 0..n_random {
    let sh = random_shape(&mut rng);
    let multi = rng.chance(1, 2);
    cases.push(mk_case(&mut rng, &sh, i % 3 != 0, multi));
  }

  // input entry cells merged over 3, 4, … r adjacent rules (r = 3..8), forced (family `merged`, the part
  // drawn by the Lean `draw`): the run starts at the first rule / in the middle / ends at the last rule,
  // in the first / a middle / the last input column; appended last and generated from a random state
  // of their own, so that the cases above are what they were
  {
    let mut rng_m = Rng::new(cfg.seed ^ 0x6d65_7267_6564);
    let mut idx = 0usize;
    for orient in ["rows", "cols"] {
      for r in 3..=8usize {
        for len in 3..=r {
          for _ in 0..(if thorough { 9 } else { 2 }) {
            idx += 1;
            let (n, j) = match idx % 3 {
              0 => (1 + rng_m.below(5) as usize, 0),
              1 => {
                let n = 3 + rng_m.below(3) as usize;
                (n, 1 + rng_m.below(n as u64 - 2) as usize)
              }
              _ => {
                let n = 1 + rng_m.below(5) as usize;
                (n, n - 1)
              }
            };
            let s = match (idx / 3) % 3 {
              0 => 0,
              1 => (r - len) / 2,
              _ => r - len,
            };
            let sh = Shape {
              orient,
              n,
              m: 1 + rng_m.below(3) as usize,
              k: rng_m.below(3) as usize,
              r,
              hp: MARKERS[idx % MARKERS.len()],
              name: rng_m.chance(1, 2),
              values: rng_m.chance(1, 2),
              label: rng_m.chance(1, 2),
              split: rng_m.chance(1, 2),
              quirks: false,
              blank_values: 0,
              merge: true,
            };
            let multi = rng_m.chance(1, 2);
            let mut case = mk_case(&mut rng_m, &sh, idx % 4 != 0, multi);
            equalise_entries(&mut case.tbl, 0, j, s, len);
            cases.push(case);
          }
        }
      }
    }
  }

  // ---- layout, drawing ---------------------------------------------------------------------------
  let reqs1: Vec<String> = cases.iter().map(|c| format!("(c19 layout {} {} {})", c.tbl.spec(), c.tbl.decor(&c.hp_text), c.slack)).collect();
  let ans1 = model.ask_batch(&reqs1);
  let mut reqs2 = vec![];
  let mut laid: Vec<Option<Vec<Sexp>>> = vec![];
  for a in &ans1 {
    match split_top(a) {
      Some(parts) if parts.len() == 3 => {
        reqs2.push(format!("(c19 table {} {} {})", parts[0], parts[1], parts[2]));
        laid.push(Some(parts));
      }
      _ => {
        reqs2.push("(c19 bad)".to_string());
        laid.push(None);
      }
    }
  }
  let ans2 = model.ask_batch(&reqs2);
  // degenerate geometry: some columns / rows of width / height zero (texts no longer fit)
  let mut degenerate_reqs = vec![];
  for (ci, l) in laid.iter().enumerate() {
    if ci % 7 != 0 {
      continue;
    }
    if let Some(parts) = l {
      if let Some(lay) = parts[2].as_list() {
        let zero = |xs: &Sexp, rng: &mut Rng| Sexp::list(xs.as_list().unwrap_or(&[]).iter().map(|x| if rng.chance(1, 3) { Sexp::int(0) } else { x.clone() }).collect());
        let lay2 = Sexp::list(vec![lay[0].clone(), zero(&lay[1], &mut rng), zero(&lay[2], &mut rng), lay[3].clone()]);
        degenerate_reqs.push(format!("(c19 table {} {} {})", parts[0], parts[1], lay2));
      }
    }
  }
  let degenerate_texts: Vec<String> = model
    .ask_batch(&degenerate_reqs)
    .iter()
    .filter_map(|a| split_top(a))
    .map(|a| lines_of(&a[0]).join("\n"))
    .collect();

  let mut drawings: Vec<(usize, String)> = vec![];
  let mut plane_reqs: Vec<(String, String, String)> = vec![]; // (request, text, implementation outcome)
  let mut scan_cases: Vec<(String, ScanObs, String)> = vec![]; // (text, the scanner's result, outcome of build)

  for (ci, case) in cases.iter().enumerate() {
    let t = &case.tbl;
    let req = &reqs2[ci];
    let (parts, ans) = match (&laid[ci], split_top(&ans2[ci])) {
      (Some(p), Some(a)) if a.len() == 7 || a.len() == 8 => (p, a),
      _ => {
        rep.disagree(Kind::ImplVsModel, "driver", "driver-error", &reqs1[ci], "", &format!("{} / {}", ans1[ci], ans2[ci]));
        continue;
      }
    };
    let expected_spec = parts[0].to_string();
    let lines = lines_of(&ans[0]);
    // sanity of the layout: every logical line survives padding
    let indent = " ".repeat(rng.below(4) as usize);
    let mut text = String::new();
    if rng.chance(1, 2) {
      text.push('\n');
    }
    for l in &lines {
      text.push_str(&indent);
      text.push_str(l);
      text.push('\n');
    }
    rep.case(&text, true);
    rep.hit(&format!("orientation:{}", t.orient));
    rep.hit(&format!("marker:{}", t.hp));
    rep.hit(&format!("inputs:{}", t.inputs.len()));
    rep.hit(&format!("outputs:{}", t.outputs.len()));
    rep.hit(&format!("annotations:{}", t.anns.len()));
    rep.hit(&format!("rules:{}", t.rules.len()));
    rep.hit(&format!("header-lanes:{}", t.header_lanes()));
    if t.merge && (1..t.rules.len()).any(|i| (0..t.inputs.len()).any(|j| t.rules[i].0[j] == t.rules[i - 1].0[j])) {
      rep.hit("merged-input-entry-cells");
    }
    if t.merge && longest_input_run(t) >= 2 {
      rep.hit(&format!("merged-input-{}:lean-draw:{}", if longest_input_run(t) >= 3 { "3+" } else { "2" }, t.orient));
      rep.hit(&format!("merged-input:lean-draw:longest-run:{}", longest_input_run(t)));
    }
    rep.hit(&format!("parts:name{}-values{}-label{}-split{}", t.name.is_some() as u8, t.has_values() as u8, t.label.is_some() as u8, t.split as u8));
    let wf = ans[5].to_string() == "(wf true)";
    if !wf {
      rep.disagree(Kind::ImplVsModel, "driver", "generated table is not well-formed", req, "", &ans[5].to_string());
    }
    // the scanner model reads the model's drawing back as the plane the drawing denotes (the
    // hypothesis of recognize_text_roundtrip_partial, evaluated for every generated table)
    if ans[6].to_string() != "(scan-inverts-draw true)" {
      rep.disagree(Kind::ImplVsModel, "scanner", &format!("the scanner model does not read draw t back as planeOf t ({})", t.orient), &text, "", &ans[6].to_string());
    } else {
      rep.hit("scan-inverts-draw:true");
    }
    // the generated drawing is a legal one (fitsB: the decidable form of the hypothesis Fits of
    // scan_marks_of_drawing and recognize_text_roundtrip_stages)
    if let Some(f) = ans.get(7) {
      if f.to_string() == "(fits true)" {
        rep.hit("fits:true");
      } else {
        rep.disagree(Kind::ImplVsModel, "scanner", &format!("a generated drawing is not a legal one (fitsB false) ({})", t.orient), &text, "", &f.to_string());
      }
    }
    let model_plane = str_of(&ans[1].as_list().unwrap()[1]);
    let model_texts = ans[2].to_string();
    let model_recognized = ans[4].as_list().map(|l| l[1].to_string()).unwrap_or_default();
    let expected_outcome = format!("(ok {})", expected_spec);

    let obs = run_impl(&text);
    scan_cases.push((text.clone(), scan_obs(&obs), impl_outcome(&obs)));
    if let Some((site, msg)) = &obs.panic {
      rep.disagree(Kind::ImplVsSpec, "total", &panic_signature(site, msg), &text, &format!("panic at {}: {}", site, msg), "Ok or Err");
      continue;
    }
    // (a) the scanner's plane
    match &obs.scanned {
      Ok((p, name)) => {
        if p.display != model_plane {
          rep.disagree(Kind::ImplVsModel, "plane", &format!("scanned plane differs from planeOf ({})", t.orient), &text, &p.display, &model_plane);
        } else if p.texts.to_string() != model_texts {
          rep.disagree(Kind::ImplVsModel, "plane", &format!("region texts of the scanned plane differ from planeOf ({})", t.orient), &text, &p.texts.to_string(), &model_texts);
        }
        let exp_name = parts[0].as_list().map(|l| l[3].to_string()).unwrap_or_default();
        if opt_sexp(name).to_string() != exp_name {
          rep.disagree(Kind::ImplVsSpec, "build", "information item name differs from the drawn one", &text, &opt_sexp(name).to_string(), &exp_name);
        }
      }
      Err(e) => {
        rep.hit("scanner-rejects-drawing");
        rep.disagree(Kind::ImplVsSpec, "build", &format!("drawing rejected by the scanner: {}", stable_msg(e)), &text, e, &expected_outcome);
        continue;
      }
    }
    // the plane left behind by recognize
    match (&obs.post, ans[3].as_list()) {
      (Some(p), Some(l)) if l.len() == 3 => {
        if p.display != str_of(&l[1]) || p.texts.to_string() != l[2].to_string() {
          rep.disagree(Kind::ImplVsModel, "plane", &format!("plane after recognize differs from the model ({})", t.orient), &text, &p.display, &str_of(&l[1]));
        }
      }
      (None, Some(l)) if l.len() == 2 => {}
      _ => {
        rep.disagree(Kind::ImplVsModel, "plane", &format!("recognize succeeds/fails unlike the model ({})", t.orient), &text, &format!("{}", obs.post.is_some()), &ans[3].to_string().chars().take(60).collect::<String>());
      }
    }
    // (b) the built table
    let got = impl_outcome(&obs);
    if got != expected_outcome {
      let sig = match &obs.built {
        Err(m) => format!("drawing of a well-formed table rejected: {} ({})", err_name(m), t.orient),
        Ok(dt) => {
          let g = table_sexp(dt);
          let gl = g.as_list().unwrap();
          let el = parts[0].as_list().unwrap();
          let names = ["", "orientation", "hit policy", "information item name", "input clauses", "output clauses", "output label", "annotations", "rules"];
          let mut which = "table".to_string();
          for i in 1..9 {
            if gl[i] != el[i] {
              which = names[i].to_string();
              break;
            }
          }
          format!("recognised {} differ from the drawn ones ({})", which, t.orient)
        }
      };
      rep.disagree(Kind::ImplVsSpec, "build", &sig, &text, &got, &expected_outcome);
    }
    if let Ok(dt) = &obs.built {
      let agg_ok = match dt.hit_policy {
        HitPolicy::Collect(a) => dt.aggregation == Some(a),
        _ => dt.aggregation.is_none(),
      };
      if !agg_ok {
        rep.disagree(Kind::ImplVsSpec, "build", "aggregation field inconsistent with the hit policy", &text, &format!("{:?}", dt.aggregation), hp_atom(&dt.hit_policy));
      }
    }
    if got != model_recognized {
      rep.disagree(Kind::ImplVsModel, "build", "build differs from recognizePlane (planeOf t)", &text, &got, &model_recognized);
    }
    if model_recognized != expected_outcome {
      rep.hit("model-roundtrip-fails");
    }
    if rep.samples.len() < 4 && ci % 97 == 0 {
      rep.sample(json!({"drawing": text, "recognised": got.chars().take(300).collect::<String>(), "plane": model_plane}));
    }
    // (c) evaluation against the XML table
    if t.semantic {
      if let Ok(dt) = &obs.built {
        evaluate_family(&mut rep, &mut rng, t, dt, &text);
      }
    }
    if ci % 3 == 0 || thorough {
      drawings.push((ci, text));
    }
  }

  // ---- (d) corruptions and arbitrary text --------------------------------------------------------
  let per_drawing = if thorough { 12 } else { 6 };
  let mut texts: Vec<(String, String)> = vec![];
  for (_, text) in &drawings {
    for i in 0..per_drawing {
      let (mut what, mut c) = corrupt(&mut rng, text);
      if i % 4 == 3 {
        let (w2, c2) = corrupt(&mut rng, &c);
        what = format!("{}+{}", what, w2);
        c = c2;
      }
      if &c != text {
        texts.push((what, c));
      }
    }
  }
  // the corpus: the repository's own gallery and the witnesses of the findings
  let mut corpus: Vec<(String, String, String, Vec<(String, String)>)> = vec![];
  if let Ok(rd) = std::fs::read_dir("corpus/C19") {
    let mut files: Vec<_> = rd.filter_map(|e| e.ok()).map(|e| e.path()).filter(|p| p.extension().map(|x| x == "dtb").unwrap_or(false)).collect();
    files.sort();
    for f in files {
      if let Ok(content) = std::fs::read_to_string(&f) {
        let mut expect = String::new();
        let mut body = String::new();
        let mut evals: Vec<(String, String)> = vec![];
        for l in content.lines() {
          if let Some(rest) = l.strip_prefix("% expect:") {
            expect = rest.trim().to_string();
          } else if let Some(rest) = l.strip_prefix("% context:") {
            evals.push((rest.trim().to_string(), String::new()));
          } else if let Some(rest) = l.strip_prefix("% result:") {
            if let Some(last) = evals.last_mut() {
              last.1 = rest.trim().to_string();
            }
          } else if !l.starts_with('%') {
            body.push_str(l);
            body.push('\n');
          }
        }
        corpus.push((f.file_name().unwrap().to_string_lossy().to_string(), expect, body, evals));
      }
    }
  }
  rep.extra.insert("corpus_drawings".into(), json!(corpus.len()));
  for (name, expect, body, evals) in &corpus {
    rep.case(body, true);
    rep.hit("corpus");
    {
      let obs = run_impl(body);
      scan_cases.push((body.clone(), scan_obs(&obs), impl_outcome(&obs)));
      if let Some((site, msg)) = &obs.panic {
        rep.disagree(Kind::ImplVsSpec, "total", &panic_signature(site, msg), body, &format!("panic at {}: {}", site, msg), "Ok or Err");
      }
      {
        let got = impl_outcome(&obs);
        let ok = match expect.as_str() {
          "ok" => obs.built.is_ok(),
          "error" => obs.built.is_err(),
          e => got == e,
        };
        if !ok {
          rep.disagree(Kind::ImplVsSpec, "corpus", &format!("corpus drawing {}: outcome differs from the recorded one", name), body, &got.chars().take(200).collect::<String>(), expect);
        }
        // recorded evaluations of the recognised table: `% context: {…}` / `% result: …`
        for (ctx_text, want) in evals {
          let r = guarded(|| {
            let dt = obs.built.as_ref().map_err(|e| e.clone())?;
            let ctx: FeelContext = dmntk_feel_evaluator::evaluate_context(&Scope::default(), ctx_text).map_err(|e| e.to_string())?;
            let scope: Scope = ctx.into();
            let ev = dmntk_model_evaluator::build_decision_table_evaluator(&scope, dt).map_err(|e| format!("build error: {}", stable_msg(&e.to_string())))?;
            Ok::<String, String>(canon(&ev(&scope)))
          });
          let gotv = match r {
            Ok(Ok(v)) => v,
            Ok(Err(e)) => e,
            Err(m) => format!("panic: {}", m),
          };
          if &gotv != want {
            rep.disagree(Kind::ImplVsSpec, "corpus", &format!("corpus drawing {}: evaluation differs from the recorded one", name), &format!("{}\n% {}", body, ctx_text), &gotv, want);
          }
        }
        if let Ok((p, nm)) = &obs.scanned {
          let mut v = vec![Sexp::atom("plane"), opt_sexp(nm)];
          v.extend(p.cells.as_list().unwrap().iter().cloned());
          plane_reqs.push((format!("(c19 plane {})", Sexp::list(v)), body.clone(), got));
        }
      }
    }
    let n = if thorough { 400 } else { 150 };
    for i in 0..n {
      let (mut what, mut c) = corrupt(&mut rng, body);
      if i % 4 == 3 {
        let (w2, c2) = corrupt(&mut rng, &c);
        what = format!("{}+{}", what, w2);
        c = c2;
      }
      if &c != body {
        texts.push((what, c));
      }
    }
  }
  if let Some(path) = &cfg.replay {
    if let Ok(txt) = std::fs::read_to_string(path) {
      if let Ok(j) = serde_json::from_str::<serde_json::Value>(&txt) {
        if let Some(input) = j.get("input").and_then(|x| x.as_str()) {
          texts.push(("replay".into(), input.to_string()));
        }
      }
    }
  }
  for _ in 0..(if thorough { 20_000 } else { 3_000 }) {
    texts.push(("arbitrary".into(), arbitrary_text(&mut rng)));
  }
  for t in degenerate_texts {
    texts.push(("degenerate-geometry".into(), t));
  }
  for probe in ["", "\n", "┌", "┌┘", "┌╥┐\n╞╬╡\n└╨┘", "┌─╥─┐\n│ ║ │\n╞═╬═╡\n│ ║ │\n└─╨─┘", "┌╥\n╬", "╬", "┌\n╥\n╬\n╨"] {
    texts.push(("probe".into(), probe.to_string()));
  }
  for (what, text) in &texts {
    rep.case(text, what != "arbitrary" && what != "probe");
    rep.hit(&format!("corruption:{}", what.split('+').next().unwrap_or("")));
    {
      let obs = run_impl(text);
      scan_cases.push((text.clone(), scan_obs(&obs), impl_outcome(&obs)));
      if let Some((site, msg)) = &obs.panic {
        rep.hit("outcome:panic");
        rep.disagree(Kind::ImplVsSpec, "total", &panic_signature(site, msg), text, &format!("panic at {}: {}", site, msg), "Ok or Err");
      }
      {
        let got = impl_outcome(&obs);
        if obs.panic.is_none() {
          rep.hit(if obs.built.is_ok() { "outcome:recognised" } else { "outcome:error" });
        }
        if let Ok((p, name)) = &obs.scanned {
          let mut v = vec![Sexp::atom("plane"), opt_sexp(name)];
          v.extend(p.cells.as_list().unwrap().iter().cloned());
          plane_reqs.push((format!("(c19 plane {})", Sexp::list(v)), text.clone(), got));
        } else if let Err(m) = &obs.built {
          rep.hit(&format!("error:{}", err_name(m).chars().take(40).collect::<String>()));
        }
      }
    }
  }
  // the plane logic on the planes of corrupted drawings: implementation vs model
  let preqs: Vec<String> = plane_reqs.iter().map(|x| x.0.clone()).collect();
  let pans = model.ask_batch(&preqs);
  for ((_req, text, got), ans) in plane_reqs.iter().zip(pans.iter()) {
    let parsed = Sexp::parse(ans);
    let m = parsed.as_ref().and_then(|s| s.as_list().map(|l| l.get(1).map(|x| x.to_string()).unwrap_or_default())).unwrap_or_else(|| ans.clone());
    let m = normalise_model_outcome(&m);
    let shape = parsed.as_ref().and_then(|s| s.as_list().and_then(|l| l.get(2).map(|x| x.to_string()))).unwrap_or_default();
    rep.hit(&format!("scanned-plane:{}", shape));
    if shape != "(scanner-shape true)" {
      rep.hit(&format!("shape-failure:{}", shape.trim_start_matches("(scanner-shape false").trim_end_matches(')').trim()));
      // the hypothesis of plane_no_panic_partial does not hold for this plane the scanner produced
      rep.hit("scanner-shape-violated");
      if !got.starts_with("(panic") {
        rep.hit("scanner-shape-violated-without-panic");
      }
      if got.starts_with("(panic") && !shape.contains("ragged") {
        rep.disagree(Kind::ImplVsSpec, "total", "panic on a rectangular scanned plane (not explained by finding F19e)", text, got, &shape);
      }
    } else if got.starts_with("(panic") {
      rep.disagree(Kind::ImplVsModel, "plane-logic", "panic on a plane of the scanner shape (contradicts plane_no_panic_partial)", text, got, &m);
    }
    rep.hit(&format!("plane-outcome:{}", m.chars().take(28).collect::<String>().split(' ').take(2).collect::<Vec<_>>().join(" ")));
    if &m != got {
      let short = |s: &str| s.chars().take(40).collect::<String>();
      rep.disagree(
        Kind::ImplVsModel,
        "plane-logic",
        &format!("outcome on a scanned plane differs: impl {} / model {}", short(got).split(' ').take(2).collect::<Vec<_>>().join(" "), short(&m).split(' ').take(2).collect::<Vec<_>>().join(" ")),
        text,
        got,
        &m,
      );
    }
  }
  mixed_family(&mut rep, cfg.seed, thorough, &mut scan_cases); // c19fix: mixed header shapes, box-drawing characters in cell texts
  merged_family(&mut rep, cfg.seed, thorough, &mut scan_cases); // entry cells merged over 2, 3, … adjacent rules
  // the scanner and the whole pipeline against the scanner model, on every text given to the recogniser
  let sreqs: Vec<String> = scan_cases.iter().map(|x| format!("(c19 scan {})", Sexp::str(&x.0))).collect();
  let sans = model.ask_batch(&sreqs);
  for ((text, obs, built), ans) in scan_cases.iter().zip(sans.iter()) {
    compare_scan(&mut rep, text, obs, built, ans);
  }
  rep.extra.insert("texts_scanned_by_the_scanner_model".into(), json!(scan_cases.len()));
  rep.model_requests = model.requests;
  rep.notes.push("partial: the scanner (recognizer/src/canvas.rs) is modelled (Dmn/Model/Canvas.lean) and proved panic-free for every text; it is tied to the code by the 'scanner' family (real scanner = scanText on every text: cells, region numbers, rectangles, texts, name, error payloads) and to planeOf / draw by the 'plane' family and by scanInvertsDraw on every generated table; that the scanner inverts draw for ALL tables is checked, not proved".into());
  rep.extra.insert("drawings".into(), json!(cases.len()));
  rep.extra.insert("corrupted_or_arbitrary_texts".into(), json!(texts.len()));
  rep.extra.insert("scanned_planes_checked_against_model".into(), json!(plane_reqs.len()));
  rep
}

fn evaluate_family(rep: &mut Report, rng: &mut Rng, t: &Tbl, dt: &DecisionTable, text: &str) {
  let xml = table_xml(t);
  let me = match guarded(|| dmntk_model::parse(&xml).and_then(|d| ModelEvaluator::new(&d))) {
    Ok(Ok(me)) => me,
    Ok(Err(e)) => {
      rep.hit("xml-table-does-not-build");
      // the XML table does not build: the drawn one must not evaluate either
      let ctx = input_context(rng, t);
      let r = guarded(|| {
        let c = dmntk_feel_evaluator::evaluate_context(&Scope::default(), &ctx).ok()?;
        let scope: Scope = c.into();
        dmntk_model_evaluator::build_decision_table_evaluator(&scope, dt).ok().map(|_| ())
      });
      if let Ok(Some(())) = r {
        rep.disagree(Kind::ImplVsSpec, "evaluate", "drawn table builds an evaluator but the XML table does not", text, "evaluator built", &e.to_string());
      }
      return;
    }
    Err(_) => {
      rep.hit("xml-table-panics");
      return;
    }
  };
  for _ in 0..3 {
    let ctx_text = input_context(rng, t);
    let r = guarded(|| {
      let ctx: FeelContext = dmntk_feel_evaluator::evaluate_context(&Scope::default(), &ctx_text).map_err(|e| e.to_string())?;
      let vx = me.evaluate_invocable("D", &ctx);
      let from_xml = canon(&vx);
      let scope: Scope = ctx.into();
      let mut same_names = true;
      let from_drawing = match dmntk_model_evaluator::build_decision_table_evaluator(&scope, dt) {
        Ok(ev) => {
          let vd = ev(&scope);
          same_names = entry_names(&vd) == entry_names(&vx);
          canon(&vd)
        }
        Err(e) => format!("build error: {}", stable_msg(&e.to_string())),
      };
      Ok::<(String, String, bool), String>((from_xml, from_drawing, same_names))
    });
    match r {
      Ok(Ok((x, d, same_names))) => {
        rep.evaluations += 1;
        rep.hit(if x == "null" { "evaluate:null" } else { "evaluate:value" });
        if t.outputs.iter().any(|(n, _)| n.as_ref().map(|n| n.contains('\n') || n.contains("  ")).unwrap_or(false)) {
          rep.hit(if x.starts_with('{') || x.starts_with("[{") { "evaluate:component-name-drawn-over-lines:context-result" } else { "evaluate:component-name-drawn-over-lines:other-result" });
        }
        if t.inputs.iter().any(|(e, _)| e.contains('\n') || e.contains("  ")) {
          rep.hit("evaluate:input-expression-drawn-over-lines");
        }
        if x != d {
          let wrapped = t.inputs.iter().any(|(e, _)| e.contains('\n'));
          let sig = if d.starts_with("build error") {
            format!("recognised table does not build an evaluator{}", if wrapped { " (input expression wrapped over lines)" } else { "" })
          } else if !same_names {
            "recognised table evaluates to a context whose entry names differ from the component names of the XML table".to_string()
          } else if wrapped {
            "recognised table evaluates differently from the XML table (input expression wrapped over lines)".to_string()
          } else {
            "recognised table evaluates differently from the XML table".to_string()
          };
          rep.disagree(Kind::ImplVsSpec, "evaluate", &sig, &format!("{}\n% {}", text, ctx_text), &d, &x);
        }
      }
      Ok(Err(_)) => rep.hit("evaluate:context-error"),
      Err(m) => {
        rep.disagree(Kind::ImplVsSpec, "evaluate", &panic_signature(&last_panic(), &m), &format!("{}\n% {}", text, ctx_text), &format!("panic at {}: {}", last_panic(), m), "a value");
      }
    }
  }
}

// ================================================================================================
// c19fix BEGIN — mixed header shapes and box-drawing characters inside cell texts
//
// Family `mixed`: allowed values drawn for the inputs only, for the outputs only, or for some
// clauses, where the header cells WITHOUT allowed values SPAN the allowed-values lane (instead of
// being continued by a blank cell, which is what the Lean `draw` produces).  The drawings are made
// by the small grid drawer below (same junction table as `Dmn.Recog.junction`); the expectation —
// the table that was drawn, with the raw padded texts of its cells — is written out here, not
// taken from the model.  ImplVsSpec: `build(text)` = the drawn table, field by field, and the
// recognised table evaluates like its XML twin.  Every text also goes to the scanner model.
//
// Family `boxchar`: a box-drawing character inside a cell text.  Outside the property (such a text
// is not a drawing of the table: C19.json, assumptions); only totality (no panic) and the agreement
// with the model are checked, the outcome classes are counted.

struct MixGrid {
  /// `[grid row][grid column]` → region id
  key: Vec<Vec<usize>>,
  /// logical text of every region
  texts: Vec<String>,
  /// boundaries drawn with double lines
  vdbl: Vec<usize>,
  hdbl: Vec<usize>,
}

fn mix_junction(up: bool, down: bool, left: bool, right: bool, vd: bool, hd: bool) -> Option<char> {
  let pick = |both: char, v: char, h: char, none: char| if vd && hd { both } else if vd { v } else if hd { h } else { none };
  Some(match (up, down, left, right) {
    (false, false, false, false) => return None,
    (true, true, false, false) | (true, false, false, false) | (false, true, false, false) => {
      if vd {
        '║'
      } else {
        '│'
      }
    }
    (false, false, true, true) | (false, false, true, false) | (false, false, false, true) => {
      if hd {
        '═'
      } else {
        '─'
      }
    }
    (false, true, false, true) => '┌',
    (false, true, true, false) => '┐',
    (true, false, false, true) => '└',
    (true, false, true, false) => '┘',
    (true, true, false, true) => pick('╠', '╟', '╞', '├'),
    (true, true, true, false) => pick('╣', '╢', '╡', '┤'),
    (false, true, true, true) => pick('╦', '╥', '╤', '┬'),
    (true, false, true, true) => pick('╩', '╨', '╧', '┴'),
    (true, true, true, true) => pick('╬', '╫', '╪', '┼'),
  })
}

/// Draws the grid; returns the lines of the drawing and the raw (padded) text of every region, as
/// `text_from_rect` cuts it out: the interior lines of the region joined with line breaks.
fn mix_draw(rng: &mut Rng, g: &MixGrid, roomy: bool) -> (Vec<String>, Vec<String>) {
  let (lines, raw, _) = mix_draw_named(rng, g, roomy, None);
  (lines, raw)
}

/// `mix_draw` with an optional information item name: the box is drawn above the body, its right
/// edge ends inside a cell (`┴`), on a single vertical line (`┼`) or at the right edge of the body
/// (`┤`), never over a double line and never beyond the body (the body is widened when the name
/// needs it).  The third component is the raw text of the box (its interior lines).
fn mix_draw_named(rng: &mut Rng, g: &MixGrid, roomy: bool, name: Option<&str>) -> (Vec<String>, Vec<String>, Option<String>) {
  let nrows = g.key.len();
  let ncols = g.key[0].len();
  let nreg = g.texts.len();
  // bounding boxes
  let mut bb: Vec<Option<(usize, usize, usize, usize)>> = vec![None; nreg];
  for r in 0..nrows {
    for c in 0..ncols {
      let k = g.key[r][c];
      bb[k] = Some(match bb[k] {
        None => (r, c, r, c),
        Some((r0, c0, r1, c1)) => (r0.min(r), c0.min(c), r1.max(r), c1.max(c)),
      });
    }
  }
  let lines_of = |s: &str| -> Vec<Vec<char>> { s.split('\n').map(|l| l.chars().collect()).collect() };
  let mut w = vec![1usize; ncols];
  let mut h = vec![1usize; nrows];
  for k in 0..nreg {
    if let Some((r0, c0, r1, c1)) = bb[k] {
      let ls = lines_of(&g.texts[k]);
      let need_w = ls.iter().map(|l| l.len()).max().unwrap_or(0) + if roomy { rng.below(4) as usize } else { 0 };
      let have_w: usize = (c0..=c1).map(|c| w[c]).sum::<usize>() + (c1 - c0);
      if need_w > have_w {
        w[c1] += need_w - have_w;
      }
      let need_h = ls.len() + if roomy && rng.chance(1, 4) { 1 } else { 0 };
      let have_h: usize = (r0..=r1).map(|r| h[r]).sum::<usize>() + (r1 - r0);
      if need_h > have_h {
        h[r1] += need_h - have_h;
      }
    }
  }
  let mut xb = vec![0usize; ncols + 1];
  for c in 0..ncols {
    xb[c + 1] = xb[c] + w[c] + 1;
  }
  // the information item box: x position of its right edge
  let name_lines: Option<Vec<Vec<char>>> = name.map(lines_of);
  let mut box_right = 0usize;
  if let Some(ls) = &name_lines {
    let mut xr = ls.iter().map(|l| l.len()).max().unwrap_or(0).max(1) + 1 + if roomy { rng.below(6) as usize } else { 0 };
    if xr > xb[ncols] {
      w[ncols - 1] += xr - xb[ncols];
      xb[ncols] = xr;
    } else {
      match rng.below(4) {
        0 => xr = xb[ncols],
        1 => {
          if let Some(b) = (1..=ncols).find(|b| xb[*b] >= xr) {
            xr = xb[b];
          }
        }
        _ => {}
      }
    }
    if g.vdbl.iter().any(|b| xb[*b] == xr) {
      xr += 1;
    }
    box_right = xr;
  }
  let mut yb = vec![0usize; nrows + 1];
  for r in 0..nrows {
    yb[r + 1] = yb[r] + h[r] + 1;
  }
  let mut canvas = vec![vec![' '; xb[ncols] + 1]; yb[nrows] + 1];
  let vseg = |r: usize, bc: usize| bc == 0 || bc == ncols || g.key[r][bc - 1] != g.key[r][bc];
  let hseg = |br: usize, c: usize| br == 0 || br == nrows || g.key[br - 1][c] != g.key[br][c];
  for r in 0..nrows {
    for bc in 0..=ncols {
      if vseg(r, bc) {
        for row in canvas.iter_mut().take(yb[r + 1]).skip(yb[r] + 1) {
          row[xb[bc]] = if g.vdbl.contains(&bc) { '║' } else { '│' };
        }
      }
    }
  }
  for br in 0..=nrows {
    for c in 0..ncols {
      if hseg(br, c) {
        for x in xb[c] + 1..xb[c + 1] {
          canvas[yb[br]][x] = if g.hdbl.contains(&br) { '═' } else { '─' };
        }
      }
    }
  }
  for br in 0..=nrows {
    for bc in 0..=ncols {
      let up = br > 0 && vseg(br - 1, bc);
      let down = br < nrows && vseg(br, bc);
      let left = bc > 0 && hseg(br, bc - 1);
      let right = bc < ncols && hseg(br, bc);
      if let Some(ch) = mix_junction(up, down, left, right, g.vdbl.contains(&bc), g.hdbl.contains(&br)) {
        canvas[yb[br]][xb[bc]] = ch;
      }
    }
  }
  let mut raw = vec![String::new(); nreg];
  for k in 0..nreg {
    if let Some((r0, c0, r1, c1)) = bb[k] {
      let (x0, x1, y0, y1) = (xb[c0] + 1, xb[c1 + 1], yb[r0] + 1, yb[r1 + 1]);
      let ls = lines_of(&g.texts[k]);
      let top = rng.below((y1 - y0 - ls.len() + 1) as u64) as usize;
      for (i, l) in ls.iter().enumerate() {
        let left = rng.below((x1 - x0 - l.len() + 1) as u64) as usize;
        for (j, ch) in l.iter().enumerate() {
          canvas[y0 + top + i][x0 + left + j] = *ch;
        }
      }
      raw[k] = (y0..y1).map(|y| canvas[y][x0..x1].iter().collect::<String>()).collect::<Vec<_>>().join("\n");
    }
  }
  let mut lines: Vec<String> = vec![];
  let mut raw_name = None;
  if let Some(ls) = &name_lines {
    let wbox = box_right - 1;
    let hbox = ls.len() + if roomy && rng.chance(1, 4) { 1 } else { 0 };
    let mut interior = vec![vec![' '; wbox]; hbox];
    let top = rng.below((hbox - ls.len() + 1) as u64) as usize;
    for (i, l) in ls.iter().enumerate() {
      let left = rng.below((wbox - l.len() + 1) as u64) as usize;
      for (j, ch) in l.iter().enumerate() {
        interior[top + i][left + j] = *ch;
      }
    }
    lines.push(format!("┌{}┐", "─".repeat(wbox)));
    for l in &interior {
      lines.push(format!("│{}│", l.iter().collect::<String>()));
    }
    raw_name = Some(interior.iter().map(|l| l.iter().collect::<String>()).collect::<Vec<_>>().join("\n"));
    canvas[0][0] = '├';
    canvas[0][box_right] = match canvas[0][box_right] {
      '─' => '┴',
      '┬' => '┼',
      '┐' => '┤',
      other => other,
    };
  }
  lines.extend(canvas.iter().map(|l| l.iter().collect::<String>()));
  (lines, raw, raw_name)
}

/// The header shapes of the family `mixed`: (name, several outputs, label lane, header lanes).
const MIX_KINDS: [(&str, bool, bool, usize); 9] = [
  ("input values beside the label over the component names", true, true, 2),
  ("spanning inputs beside component names over output values", true, false, 2),
  ("input values beside a spanning single output", false, false, 2),
  ("spanning inputs beside a single output over its values", false, false, 2),
  ("input values beside label and component names spanning the values lane", true, true, 3),
  ("spanning inputs beside label, component names and output values", true, true, 3),
  ("some clauses spanning the values lane (two lanes)", true, false, 2),
  ("some clauses spanning the values lane (three lanes)", true, true, 3),
  ("some inputs spanning the values lane, single output with values", false, false, 2),
];

struct MixRegs {
  names: Vec<String>,
  texts: Vec<String>,
}

impl MixRegs {
  fn id(&mut self, name: String, text: &str) -> usize {
    if let Some(i) = self.names.iter().position(|n| *n == name) {
      return i;
    }
    self.names.push(name);
    self.texts.push(text.to_string());
    self.names.len() - 1
  }
}

/// Draws `t` (logical texts; the clauses with `values == None` span the allowed-values lane) with
/// `lanes` header lanes; returns the text of the drawing and the expected outcome of `build`.
fn mix_drawing(rng: &mut Rng, t: &Tbl, lanes: usize, roomy: bool) -> (String, String) {
  mix_drawing_merged(rng, t, lanes, roomy, None)
}

/// `own[part][i][j]` (part 0 inputs, 1 outputs, 2 annotations): the rule whose entry cell at
/// position `j` of the part also covers rule `i` — the first rule of the run of adjacent rules the
/// cell is merged over (`i` itself for a cell of its own).
type Owners = [Vec<Vec<usize>>; 3];

/// `mix_drawing` with entry cells merged over adjacent rules (`own`) and with the information item
/// name of `t`, when it has one.  A merged cell is ONE box: no separators inside, its text (the text
/// of the owning rule) written once, anywhere in the box.  Expectation: every rule the cell covers
/// has the raw text of the whole box.
fn mix_drawing_merged(rng: &mut Rng, t: &Tbl, lanes: usize, roomy: bool, own: Option<&Owners>) -> (String, String) {
  let (n, m, k, r) = (t.inputs.len(), t.outputs.len(), t.anns.len(), t.rules.len());
  let owner = |part: usize, i: usize, j: usize| -> usize { own.map(|o| o[part][i][j]).unwrap_or(i) };
  let label_lane = m > 1 && t.label.is_some();
  let mut regs = MixRegs { names: vec![], texts: vec![] };
  let npos = 1 + n + m + k;
  let mut lane_keys: Vec<Vec<usize>> = vec![vec![0; npos]; lanes + r];
  for (i, lane) in lane_keys.iter_mut().enumerate().take(lanes) {
    let last = i + 1 == lanes;
    lane[0] = regs.id("hp".into(), t.hp);
    for j in 0..n {
      lane[1 + j] = match (&t.inputs[j].1, last && lanes > 1) {
        (Some(v), true) => regs.id(format!("inval{}", j), v),
        _ => regs.id(format!("expr{}", j), &t.inputs[j].0),
      };
    }
    for j in 0..m {
      let vals = &t.outputs[j].1;
      let has_values_lane = lanes == 2 + label_lane as usize;
      lane[1 + n + j] = if m == 1 {
        match (vals, last && has_values_lane) {
          (Some(v), true) => regs.id("outval0".into(), v),
          _ => regs.id("label".into(), t.label.as_deref().unwrap_or("")),
        }
      } else if label_lane && i == 0 {
        regs.id("label".into(), t.label.as_deref().unwrap_or(""))
      } else {
        match (vals, last && has_values_lane) {
          (Some(v), true) => regs.id(format!("outval{}", j), v),
          _ => regs.id(format!("comp{}", j), t.outputs[j].0.as_deref().unwrap_or("")),
        }
      };
    }
    for j in 0..k {
      lane[1 + n + m + j] = regs.id(format!("ann{}", j), &t.anns[j]);
    }
  }
  for i in 0..r {
    let lane = &mut lane_keys[lanes + i];
    lane[0] = regs.id(format!("rule{}", i), &(i + 1).to_string());
    for j in 0..n {
      let o = owner(0, i, j);
      lane[1 + j] = regs.id(format!("ine{}_{}", o, j), &t.rules[o].0[j]);
    }
    for j in 0..m {
      let o = owner(1, i, j);
      lane[1 + n + j] = regs.id(format!("oute{}_{}", o, j), &t.rules[o].1[j]);
    }
    for j in 0..k {
      let o = owner(2, i, j);
      lane[1 + n + m + j] = regs.id(format!("anne{}_{}", o, j), &t.rules[o].2[j]);
    }
  }
  let grid = if t.orient == "rows" {
    let mut vdbl = vec![1 + n];
    if k > 0 {
      vdbl.push(1 + n + m);
    }
    MixGrid { key: lane_keys, texts: regs.texts.clone(), vdbl, hdbl: vec![lanes] }
  } else {
    // rules as columns: positions become grid rows (the hit policy / rule number position last)
    let key: Vec<Vec<usize>> = (0..npos).map(|row| (0..lanes + r).map(|col| lane_keys[col][if row == npos - 1 { 0 } else { row + 1 }]).collect()).collect();
    let mut hdbl = vec![n];
    if k > 0 {
      hdbl.push(n + m);
    }
    MixGrid { key, texts: regs.texts.clone(), vdbl: vec![lanes], hdbl }
  };
  let (lines, raw, raw_name) = mix_draw_named(rng, &grid, roomy, t.name.as_deref());
  let get = |regs: &MixRegs, name: String| -> String { regs.names.iter().position(|x| *x == name).map(|i| raw[i].clone()).unwrap_or_default() };
  let inputs: Vec<(String, Option<String>)> = (0..n).map(|j| (get(&regs, format!("expr{}", j)), t.inputs[j].1.as_ref().map(|_| get(&regs, format!("inval{}", j))))).collect();
  let outputs: Vec<(Option<String>, Option<String>)> =
    (0..m).map(|j| (if m > 1 { Some(get(&regs, format!("comp{}", j))) } else { None }, t.outputs[j].1.as_ref().map(|_| get(&regs, format!("outval{}", j))))).collect();
  let label = t.label.as_ref().map(|_| get(&regs, "label".into()));
  let anns: Vec<String> = (0..k).map(|j| get(&regs, format!("ann{}", j))).collect();
  let rules: Vec<(Vec<String>, Vec<String>, Vec<String>)> = (0..r)
    .map(|i| {
      (
        (0..n).map(|j| get(&regs, format!("ine{}_{}", owner(0, i, j), j))).collect(),
        (0..m).map(|j| get(&regs, format!("oute{}_{}", owner(1, i, j), j))).collect(),
        (0..k).map(|j| get(&regs, format!("anne{}_{}", owner(2, i, j), j))).collect(),
      )
    })
    .collect();
  let expected = Sexp::list(vec![Sexp::atom("ok"), spec_sexp(t.orient, t.hp, &raw_name, &inputs, &outputs, &label, &anns, &rules)]).to_string();
  let mut text = String::new();
  for l in &lines {
    text.push_str(l);
    text.push('\n');
  }
  (text, expected)
}

/// A table for the mixed header shape `kind` (logical, evaluable texts).
fn mix_table(rng: &mut Rng, kind: usize, orient: &'static str, hp: &'static str) -> (Tbl, usize) {
  let (_, several, label, lanes) = MIX_KINDS[kind];
  let sh = Shape {
    orient,
    n: 1 + rng.below(3) as usize,
    m: if several { 2 + rng.below(2) as usize } else { 1 },
    k: rng.below(3) as usize,
    r: 1 + rng.below(4) as usize,
    hp,
    name: false,
    values: true,
    label,
    split: false,
    quirks: false,
    blank_values: 0,
    merge: false,
  };
  let multi = rng.chance(1, 3);
  let mut t = gen_table(rng, &sh, true, multi);
  let (n, m) = (t.inputs.len(), t.outputs.len());
  // which clauses keep their allowed values
  let mut keep_in = vec![true; n];
  let mut keep_out = vec![true; m];
  match kind {
    0 | 2 | 4 => keep_out = vec![false; m],
    1 | 3 | 5 => keep_in = vec![false; n],
    _ => {
      for x in keep_in.iter_mut() {
        *x = rng.chance(1, 2);
      }
      if kind != 8 {
        for x in keep_out.iter_mut() {
          *x = rng.chance(1, 2);
        }
      }
      // at least one clause with allowed values (the lane exists) and one without (something spans)
      if !keep_in.iter().any(|x| *x) && !keep_out.iter().any(|x| *x) {
        keep_out[m - 1] = true;
      }
      if keep_in.iter().all(|x| *x) && keep_out.iter().all(|x| *x) {
        keep_in[0] = false;
      }
    }
  }
  if matches!(kind, 0 | 2 | 4) && rng.chance(1, 3) && n > 1 {
    // some of the inputs without allowed values, too
    keep_in[rng.below(n as u64) as usize] = false;
    if !keep_in.iter().any(|x| *x) {
      keep_in[0] = true;
    }
  }
  if matches!(kind, 1 | 5) && rng.chance(1, 3) {
    keep_out[rng.below(m as u64) as usize] = false;
    if !keep_out.iter().any(|x| *x) {
      keep_out[0] = true;
    }
  }
  for j in 0..n {
    if !keep_in[j] {
      t.inputs[j].1 = None;
    }
  }
  for j in 0..m {
    if !keep_out[j] {
      t.outputs[j].1 = None;
    }
  }
  (t, lanes)
}

fn mixed_family(rep: &mut Report, seed: u64, thorough: bool, scan_cases: &mut Vec<(String, ScanObs, String)>) {
  let mut rng = Rng::new(seed ^ 0x19f1_c19f);
  let per_kind = if thorough { 400 } else { 40 };
  for kind in 0..MIX_KINDS.len() {
    for i in 0..per_kind {
      let orient = if i % 2 == 0 { "rows" } else { "cols" };
      let hp = MARKERS[(i / 2 + kind) % MARKERS.len()];
      let (t, lanes) = mix_table(&mut rng, kind, orient, hp);
      let (text, expected) = mix_drawing(&mut rng, &t, lanes, i % 3 != 0);
      rep.case(&text, true);
      rep.hit(&format!("mixed-header:{}", MIX_KINDS[kind].0));
      let obs = run_impl(&text);
      let got = impl_outcome(&obs);
      scan_cases.push((text.clone(), scan_obs(&obs), got.clone()));
      if let Some((site, msg)) = &obs.panic {
        rep.disagree(Kind::ImplVsSpec, "total", &panic_signature(site, msg), &text, &format!("panic at {}: {}", site, msg), "Ok or Err");
        continue;
      }
      if got != expected {
        let what = match &obs.built {
          Err(m) => format!("rejected: {}", err_name(m)),
          Ok(_) => {
            let names = ["", "", "orientation", "hit policy", "information item name", "input clauses", "output clauses", "output label", "annotations", "rules"];
            let g = Sexp::parse(&got).and_then(|s| s.as_list().and_then(|l| l.get(1).and_then(|x| x.as_list().map(|v| v.to_vec())))).unwrap_or_default();
            let e = Sexp::parse(&expected).and_then(|s| s.as_list().and_then(|l| l.get(1).and_then(|x| x.as_list().map(|v| v.to_vec())))).unwrap_or_default();
            let mut which = "table";
            for i in 1..9 {
              if g.get(i) != e.get(i) {
                which = names[i + 1];
                break;
              }
            }
            format!("recognised {} differ from the drawn ones", which)
          }
        };
        rep.disagree(Kind::ImplVsSpec, "mixed", &format!("mixed header ({}): {} ({})", MIX_KINDS[kind].0, what, orient), &text, &got, &expected);
      } else {
        rep.hit("mixed-header:recognised-as-drawn");
      }
      if let Ok(dt) = &obs.built {
        evaluate_family(rep, &mut rng, &t, dt, &text);
      }
    }
  }
  // box-drawing characters inside a cell text (outside the property; totality and model agreement only)
  for (ci, ch) in ['│', '─', '║', '═', '┼', '╬', '┌', '┘'].iter().enumerate() {
    for i in 0..(if thorough { 40 } else { 6 }) {
      let orient = if i % 2 == 0 { "rows" } else { "cols" };
      let sh = Shape { orient, n: 1 + rng.below(2) as usize, m: 1 + rng.below(2) as usize, k: rng.below(2) as usize, r: 1 + rng.below(3) as usize, hp: MARKERS[(i + ci) % MARKERS.len()], name: false, values: false, label: true, split: false, quirks: false, blank_values: 0, merge: false };
      let mut t = gen_table(&mut rng, &sh, true, false);
      let ri = rng.below(t.rules.len() as u64) as usize;
      let ji = rng.below(t.inputs.len() as u64) as usize;
      t.rules[ri].0[ji] = format!("\"B{}C\"", ch);
      let lanes = 1 + (t.outputs.len() > 1) as usize;
      let (text, expected) = mix_drawing(&mut rng, &t, lanes, true);
      rep.case(&text, true);
      let obs = run_impl(&text);
      let got = impl_outcome(&obs);
      scan_cases.push((text.clone(), scan_obs(&obs), got.clone()));
      if let Some((site, msg)) = &obs.panic {
        rep.disagree(Kind::ImplVsSpec, "total", &panic_signature(site, msg), &text, &format!("panic at {}: {}", site, msg), "Ok or Err");
        continue;
      }
      let class = if got == expected {
        "read-as-text"
      } else if obs.built.is_ok() {
        "read-as-line:another-table"
      } else {
        "read-as-line:error"
      };
      rep.hit(&format!("boxchar-in-cell:{}:{}", ch, class));
    }
  }
}
// c19fix END
// ================================================================================================

// ================================================================================================
// Family `merged` — entry cells merged over 2, 3, … adjacent rules.
//
// The class: an input, output or annotation entry drawn as ONE cell over `len` adjacent rules
// (rules as rows: the cell spans rows; rules as columns: it spans columns), `len` = 2 .. all
// rules, for every number of rules 2..8.  The drawings are made by the grid drawer of the family
// `mixed` (`mix_drawing_merged`: the cells of a run share one region, so no separator is drawn
// between them and the text is written once, at a random place of the box — also on the lines
// where the separators would have been).  The expectation is written out: the table the drawing
// was made from, where every rule covered by a merged cell has the raw text of the whole box (what
// `text_from_rect` cuts: all interior lines of the box).  ImplVsSpec: `build(text)` = that table,
// field by field; the recognised table evaluates like its XML twin; every text goes to the
// scanner model (`scanText` / `recognizeText`) with the other texts of the run.

const PART_NAMES: [&str; 3] = ["input", "output", "annotation"];

/// Gives the rules `s .. s+len` the entry of rule `s` at position `j` of `part`
/// (0 inputs, 1 outputs, 2 annotations).
fn equalise_entries(t: &mut Tbl, part: usize, j: usize, s: usize, len: usize) {
  let text = match part {
    0 => t.rules[s].0[j].clone(),
    1 => t.rules[s].1[j].clone(),
    _ => t.rules[s].2[j].clone(),
  };
  for i in s..s + len {
    match part {
      0 => t.rules[i].0[j] = text.clone(),
      1 => t.rules[i].1[j] = text.clone(),
      _ => t.rules[i].2[j] = text.clone(),
    }
  }
}

/// The longest run of equal input entries of consecutive rules (what the Lean `draw` with
/// `merge: true` draws as one cell).
fn longest_input_run(t: &Tbl) -> usize {
  let mut best = 1;
  for j in 0..t.inputs.len() {
    let mut run = 1;
    for i in 1..t.rules.len() {
      if t.rules[i].0[j] == t.rules[i - 1].0[j] {
        run += 1;
        best = best.max(run);
      } else {
        run = 1;
      }
    }
  }
  best
}

/// Merges the entry cells of the rules `s .. s+len` at position `j` of `part`, unless one of them
/// already belongs to a merged cell.
fn merge_run(t: &mut Tbl, own: &mut Owners, part: usize, j: usize, s: usize, len: usize) -> bool {
  let r = t.rules.len();
  let in_run = |own: &Owners, i: usize| own[part][i][j] != i || (i + 1 < r && own[part][i + 1][j] == i);
  if len < 2 || s + len > r || (s..s + len).any(|i| in_run(own, i)) {
    return false;
  }
  equalise_entries(t, part, j, s, len);
  for i in s..s + len {
    own[part][i][j] = s;
  }
  true
}

/// Which field of the recognised table is the first to differ from the expected one / how the
/// drawing was rejected.
fn first_difference(obs: &ImplObs, got: &str, expected: &str) -> String {
  match &obs.built {
    Err(m) => format!("rejected: {}", err_name(m)),
    Ok(_) => {
      let names = ["", "orientation", "hit policy", "information item name", "input clauses", "output clauses", "output label", "annotations", "rules"];
      let fields = |x: &str| Sexp::parse(x).and_then(|s| s.as_list().and_then(|l| l.get(1).and_then(|x| x.as_list().map(|v| v.to_vec())))).unwrap_or_default();
      let (g, e) = (fields(got), fields(expected));
      let mut which = "table";
      for i in 1..9 {
        if g.get(i) != e.get(i) {
          which = names[i];
          break;
        }
      }
      format!("recognised {} differ from the drawn ones", which)
    }
  }
}

fn merged_family(rep: &mut Report, seed: u64, thorough: bool, scan_cases: &mut Vec<(String, ScanObs, String)>) {
  let mut rng = Rng::new(seed ^ 0x4d45_5247_c190);
  let variants = if thorough { 9 } else { 2 };
  let mut idx = 0usize;
  let mut sampled = 0usize;
  for orient in ["rows", "cols"] {
    for part in 0..3usize {
      for r in 2..=8usize {
        for len in 2..=r {
          for _ in 0..variants {
            idx += 1;
            // the size of the part and the position of the merged cell in it: first / middle / last
            let few = |rng: &mut Rng, max: u64| 1 + rng.below(max) as usize;
            let (n, m, k, j) = match (part, idx % 3) {
              (0, 0) => (few(&mut rng, 5), few(&mut rng, 3), rng.below(3) as usize, 0),
              (0, 1) => {
                let n = 3 + rng.below(3) as usize;
                (n, few(&mut rng, 3), rng.below(3) as usize, 1 + rng.below(n as u64 - 2) as usize)
              }
              (0, _) => {
                let n = few(&mut rng, 5);
                (n, few(&mut rng, 3), rng.below(3) as usize, n - 1)
              }
              (1, 0) => (few(&mut rng, 5), few(&mut rng, 3), rng.below(3) as usize, 0),
              (1, 1) => (few(&mut rng, 5), 3, rng.below(3) as usize, 1),
              (1, _) => {
                let m = few(&mut rng, 3);
                (few(&mut rng, 5), m, rng.below(3) as usize, m - 1)
              }
              (_, 0) => (few(&mut rng, 4), few(&mut rng, 3), few(&mut rng, 2), 0),
              (_, 1) => (few(&mut rng, 4), few(&mut rng, 3), 1, 0),
              (_, _) => (few(&mut rng, 4), few(&mut rng, 3), 2, 1),
            };
            // the rules the merged cell covers: from the first rule / in the middle / to the last rule
            let s = match (idx / 3) % 3 {
              0 => 0,
              1 => (r - len) / 2,
              _ => r - len,
            };
            let sh = Shape {
              orient,
              n,
              m,
              k,
              r,
              hp: MARKERS[idx % MARKERS.len()],
              name: rng.chance(1, 2),
              values: rng.chance(1, 2),
              label: rng.chance(1, 2),
              split: false,
              quirks: false,
              blank_values: if rng.chance(1, 4) { 3 } else { 0 },
              merge: false,
            };
            let multi = rng.chance(1, 3);
            let mut t = gen_table(&mut rng, &sh, true, multi);
            let mut own: Owners = [vec![(0..n).collect::<Vec<_>>(); 0], vec![], vec![]];
            for (p, size) in [n, m, k].iter().enumerate() {
              own[p] = (0..r).map(|i| vec![i; *size]).collect();
            }
            let mut runs: Vec<(usize, usize, usize, usize)> = vec![];
            if merge_run(&mut t, &mut own, part, j, s, len) {
              runs.push((part, j, s, len));
            }
            // a second merged cell in the same column, before or after the first one
            if rng.chance(1, 4) {
              let (s2, room) = if s >= 2 { (0, s) } else { (s + len, r - (s + len)) };
              if room >= 2 {
                let len2 = 2 + rng.below(room as u64 - 1) as usize;
                let s2 = s2 + rng.below((room - len2 + 1) as u64) as usize;
                if merge_run(&mut t, &mut own, part, j, s2, len2) {
                  runs.push((part, j, s2, len2));
                }
              }
            }
            // more merged cells anywhere in the table
            if rng.chance(1, 3) {
              for _ in 0..(1 + rng.below(4)) {
                let p2 = rng.below(3) as usize;
                let size = [n, m, k][p2];
                if size == 0 {
                  continue;
                }
                let j2 = rng.below(size as u64) as usize;
                let len2 = 2 + rng.below(r as u64 - 1) as usize;
                let s2 = rng.below((r - len2 + 1) as u64) as usize;
                if merge_run(&mut t, &mut own, p2, j2, s2, len2) {
                  runs.push((p2, j2, s2, len2));
                }
              }
            }
            let lanes = t.header_lanes();
            let roomy = rng.chance(2, 3);
            let (drawing, expected) = mix_drawing_merged(&mut rng, &t, lanes, roomy, Some(&own));
            // as a file may have it: a blank first line, the drawing indented
            let indent = " ".repeat(rng.below(4) as usize);
            let mut text = String::new();
            if rng.chance(1, 2) {
              text.push('\n');
            }
            for l in drawing.lines() {
              text.push_str(&indent);
              text.push_str(l);
              text.push('\n');
            }
            rep.case(&text, true);
            for (p, j2, s2, l2) in &runs {
              let size = [n, m, k][*p];
              rep.hit(&format!("merged-{}-{}:{}", PART_NAMES[*p], if *l2 >= 3 { "3+" } else { "2" }, orient));
              rep.hit(&format!("merged-{}:rules-covered:{}", PART_NAMES[*p], l2));
              rep.hit(&format!("merged-position:column-{}", if size == 1 { "only" } else if *j2 == 0 { "first" } else if j2 + 1 == size { "last" } else { "middle" }));
              rep.hit(&format!("merged-position:rules-{}", if *l2 == r { "all" } else if *s2 == 0 { "from-first" } else if s2 + l2 == r { "to-last" } else { "in-the-middle" }));
            }
            rep.hit(&format!("merged-cells-in-table:{}", if runs.len() >= 3 { "3+".to_string() } else { runs.len().to_string() }));
            rep.hit(&format!("merged-parts:name{}-values{}-annotations{}", t.name.is_some() as u8, t.has_values() as u8, (k > 0) as u8));
            rep.hit(&format!("merged-rules:{}", r));
            let obs = run_impl(&text);
            let got = impl_outcome(&obs);
            scan_cases.push((text.clone(), scan_obs(&obs), got.clone()));
            if let Some((site, msg)) = &obs.panic {
              rep.disagree(Kind::ImplVsSpec, "total", &panic_signature(site, msg), &text, &format!("panic at {}: {}", site, msg), "Ok or Err");
              continue;
            }
            if got != expected {
              let what = first_difference(&obs, &got, &expected);
              // named after the longest merged cell of the drawing
              let (lp, ll) = runs.iter().map(|x| (x.0, x.3)).max_by_key(|x| x.1).unwrap_or((part, len));
              rep.disagree(
                Kind::ImplVsSpec,
                "merged",
                &format!("{} entry cell merged over {} adjacent rules: {} ({})", PART_NAMES[lp], if ll >= 3 { "three or more" } else { "two" }, what, orient),
                &text,
                &got,
                &expected,
              );
            } else {
              rep.hit("merged:recognised-as-drawn");
              if sampled < 2 && len >= 3 && part == 1 + sampled % 2 {
                sampled += 1;
                rep.sample(json!({"drawing": text, "merged": format!("{} entry, rules {}..{}", PART_NAMES[part], s + 1, s + len), "recognised": got.chars().take(300).collect::<String>()}));
              }
            }
            if let Ok(dt) = &obs.built {
              evaluate_family(rep, &mut rng, &t, dt, &text);
            }
          }
        }
      }
    }
  }
}
