//! Family `positions` (C01: `partial`; C10: every way a name is introduced): a name bound by a construct of the
//! expression — the implicit `partial` of a `for`, an iteration variable, a `some` / `every` variable, the `item` of a
//! filter, a key of a filtered item, a formal parameter, an earlier context entry — or by the scope, *occurring in
//! every syntactic position* of the sub-expression in which it is visible.
//!
//! The positions are not a hand-made list of bodies: they are all well-typed compositions (depth 1 and 2 completely,
//! depth 3 sampled) of *wrappers*, one or more per child slot of every node kind of the syntax tree that can hold an
//! expression (list item, context entry value, positional and named argument, callee, function body — invoked in
//! place, from a later context entry —, if condition and branches, both operands of every binary operator, the
//! three operands of between, in-list / expression-list / unary-test items, filter source / index / predicate, path
//! source, for / some / every domains, range-iteration endpoints, bodies and satisfies-expressions, instance-of
//! operand, negation, interval endpoints — the latter being *qualified names*, a leaf form of its own).  After the
//! run the node kinds actually lying between the root and the occurrence of the name are collected from the real
//! syntax trees and compared with the variants of `enum AstNode` read from `/repo/feel/src/ast.rs`: a node kind that
//! lies on no such path and is not on the short list of kinds that cannot hold an expression (types, keys, literal
//! leaves, constructs of unary tests the expression grammar does not produce) is reported — a new node kind or a
//! forgotten slot is a hole in the tie, not silence.
//!
//! Expectations come from an evaluator of its own over a value type of its own (`Qv`): each wrapper carries its
//! meaning as a Rust closure on `Qv`; the value of the name is known from the way it was bound.  Neither the parser
//! nor the evaluator of the implementation takes part in an expectation.

use super::{pv_num, run_case, Case};
use crate::model::Model;
use crate::report::{Kind, Report};
use crate::rng::Rng;
use crate::sexp::Sexp;
use crate::Cfg;
use dmntk_feel::context::FeelContext;
use dmntk_feel::values::Value;
use dmntk_feel::Name;
use serde_json::json;
use std::collections::{BTreeMap, BTreeSet};

#[derive(Clone, PartialEq, Debug)]
pub enum Qv {
  Null,
  B(bool),
  N(i64),
  L(Vec<Qv>),
  C(Vec<(String, Qv)>),
  /// closed range with the two end points
  R(Box<Qv>, Box<Qv>),
}

impl Qv {
  pub fn value(&self) -> Value {
    match self {
      Qv::Null => Value::Null(None),
      Qv::B(b) => Value::Boolean(*b),
      Qv::N(n) => pv_num(*n),
      Qv::L(xs) => Value::List(dmntk_feel::values::Values::new(xs.iter().map(|x| x.value()).collect())),
      Qv::C(es) => {
        let mut c = FeelContext::default();
        for (k, v) in es {
          c.set_entry(&Name::from(k.as_str()), v.value());
        }
        Value::Context(c)
      }
      Qv::R(a, b) => Value::Range(Box::new(a.value()), true, Box::new(b.value()), true),
    }
  }
  /// the value written as an expression (no ranges: their end points must be names)
  pub fn text(&self) -> Option<String> {
    Some(match self {
      Qv::Null => "null".into(),
      Qv::B(b) => b.to_string(),
      Qv::N(n) => n.to_string(),
      Qv::L(xs) => format!("[{}]", xs.iter().map(|x| x.text()).collect::<Option<Vec<_>>>()?.join(", ")),
      Qv::C(es) => format!("{{{}}}", es.iter().map(|(k, v)| v.text().map(|t| format!("{}: {}", k, t))).collect::<Option<Vec<_>>>()?.join(", ")),
      Qv::R(_, _) => return None,
    })
  }
}

#[derive(Clone, Copy, PartialEq, Eq, Debug)]
pub enum T {
  Lst,
  Num,
  Bool,
  Any,
}

fn accepts(slot: T, have: T) -> bool {
  slot == T::Any || slot == have
}

type Sem = Box<dyn Fn(&Qv) -> Option<Qv>>;

pub struct Wrapper {
  /// the child slot the wrapper is there for (documentation and the hit bucket)
  pub slot: &'static str,
  pub input: T,
  /// `None`: the value passes through unchanged (the type of the result is the type of the operand)
  pub output: Option<T>,
  pub text: Box<dyn Fn(&str) -> String>,
  /// the meaning on the value of the operand; `None` = not judged for this operand
  pub sem: Sem,
  /// the wrapper is a `for` whose body holds the operand: an occurrence of `partial` inside means this `for`'s own
  pub rebinds_partial: bool,
  /// the wrapper is a filter whose predicate holds the operand: an occurrence of `item` inside means this filter's own
  pub rebinds_item: bool,
}

fn w(slot: &'static str, input: T, output: Option<T>, text: impl Fn(&str) -> String + 'static, sem: impl Fn(&Qv) -> Option<Qv> + 'static) -> Wrapper {
  Wrapper { slot, input, output, text: Box::new(text), sem: Box::new(sem), rebinds_partial: false, rebinds_item: false }
}

fn num(v: &Qv) -> Option<i64> {
  match v {
    Qv::N(n) => Some(*n),
    _ => None,
  }
}

fn boolean(v: &Qv) -> Option<bool> {
  match v {
    Qv::B(b) => Some(*b),
    _ => None,
  }
}

fn list(v: &Qv) -> Option<&Vec<Qv>> {
  match v {
    Qv::L(xs) => Some(xs),
    _ => None,
  }
}

fn n(x: i64) -> Qv {
  Qv::N(x)
}

fn l(xs: Vec<Qv>) -> Qv {
  Qv::L(xs)
}

fn c(es: Vec<(&str, Qv)>) -> Qv {
  Qv::C(es.into_iter().map(|(k, v)| (k.to_string(), v)).collect())
}

/// 1-based / negative-from-the-end indexing of a list
fn index(xs: &[Qv], k: i64) -> Qv {
  let len = xs.len() as i64;
  if k >= 1 && k <= len {
    xs[(k - 1) as usize].clone()
  } else if k <= -1 && -k <= len {
    xs[(len + k) as usize].clone()
  } else {
    Qv::Null
  }
}

/// a filter that keeps `kept`: a single kept item is handed out itself (pinned by the repository's tests)
fn filtered(kept: Vec<Qv>) -> Qv {
  if kept.len() == 1 {
    kept[0].clone()
  } else {
    Qv::L(kept)
  }
}

fn range_list(a: i64, b: i64) -> Qv {
  if a <= b {
    Qv::L((a..=b).map(Qv::N).collect())
  } else {
    Qv::L((b..=a).rev().map(Qv::N).collect())
  }
}

/// One or more wrappers per child slot of every node kind that can hold an expression.
pub fn wrappers() -> Vec<Wrapper> {
  let same = |v: &Qv| Some(v.clone());
  let mut ws: Vec<Wrapper> = vec![
    // ---- lists and contexts
    w("List item", T::Any, Some(T::Any), |e| format!("[0, {}]", e), |v| Some(l(vec![n(0), v.clone()]))),
    w("List item (nested list)", T::Any, Some(T::Any), |e| format!("[[{}]]", e), |v| Some(l(vec![l(vec![v.clone()])]))),
    w("ContextEntry value", T::Any, Some(T::Any), |e| format!("{{a: {}}}", e), |v| Some(c(vec![("a", v.clone())]))),
    w("ContextEntry value (second entry)", T::Any, Some(T::Any), |e| format!("{{a: 1, b: {}}}", e), |v| Some(c(vec![("a", n(1)), ("b", v.clone())]))),
    w("ContextEntry value (read by a later entry)", T::Any, Some(T::Any), |e| format!("{{a: {}, b: a}}", e), |v| Some(c(vec![("a", v.clone()), ("b", v.clone())]))),
    w("ContextEntry value (string key)", T::Any, Some(T::Any), |e| format!("{{\"a\": {}}}", e), |v| Some(c(vec![("a", v.clone())]))),
    w("ContextEntry value (nested context)", T::Any, Some(T::Any), |e| format!("{{a: {{b: {}}}}}", e), |v| Some(c(vec![("a", c(vec![("b", v.clone())]))]))),
    // ---- invocation: arguments, callee, function bodies
    w("PositionalParameters item", T::Any, None, |e| format!("(function (p9) p9)({})", e), same),
    w("PositionalParameters item (second)", T::Any, None, |e| format!("(function (p9, q9) q9)(0, {})", e), same),
    w("NamedParameter value", T::Any, None, |e| format!("(function (p9) p9)(p9: {})", e), same),
    w("NamedParameter value (second, other order)", T::Any, None, |e| format!("(function (p9, q9) q9)(q9: {}, p9: 0)", e), same),
    w("NamedParameter value (function of a context entry)", T::Any, None, |e| format!("{{f: function (p9) p9, r: f(p9: {})}}.r", e), same),
    w("FunctionBody (invoked in place)", T::Any, None, |e| format!("(function () {})()", e), same),
    w("FunctionBody (with a parameter)", T::Any, Some(T::Any), |e| format!("(function (p9) [p9, {}])(3)", e), |v| Some(l(vec![n(3), v.clone()]))),
    w("FunctionBody (typed parameter, invoked by name)", T::Any, None, |e| format!("(function (p9: number) {})(p9: 1)", e), same),
    w("FunctionBody (defined in a context entry, invoked from a later one)", T::Any, None, |e| format!("{{f: function () {}, r: f()}}.r", e), same),
    w("FunctionBody (function returned by a function)", T::Any, None, |e| format!("(function () function () {})()()", e), same),
    w("FunctionInvocation callee", T::Bool, Some(T::Num), |e| format!("(if {} then function () 1 else function () 2)()", e), |v| boolean(v).map(|b| n(if b { 1 } else { 2 }))),
    w("built-in, positional argument", T::Lst, Some(T::Num), |e| format!("count({})", e), |v| list(v).map(|xs| n(xs.len() as i64))),
    w("built-in, named argument", T::Lst, Some(T::Num), |e| format!("count(list: {})", e), |v| list(v).map(|xs| n(xs.len() as i64))),
    w("built-in not, positional argument", T::Bool, Some(T::Bool), |e| format!("not({})", e), |v| boolean(v).map(|b| Qv::B(!b))),
    // ---- if
    w("If condition", T::Bool, Some(T::Num), |e| format!("if {} then 1 else 0", e), |v| boolean(v).map(|b| n(if b { 1 } else { 0 }))),
    w("If then-branch", T::Any, None, |e| format!("if true then {} else 0", e), same),
    w("If else-branch", T::Any, None, |e| format!("if false then 0 else {}", e), same),
    // ---- paths and filters
    w("Path source (context literal)", T::Any, None, |e| format!("{{k: {}}}.k", e), same),
    w("Path source (the name itself)", T::Lst, Some(T::Any), |e| format!("{}.a", e), |v| {
      let xs = list(v)?;
      let mut out = vec![];
      for x in xs {
        match x {
          Qv::C(es) => out.push(es.iter().find(|(k, _)| k == "a").map(|(_, v)| v.clone()).unwrap_or(Qv::Null)),
          _ => return Some(Qv::Null),
        }
      }
      Some(Qv::L(out))
    }),
    w("Filter source", T::Any, None, |e| format!("[{}, 0][1]", e), same),
    w("Filter source (the name itself, index 1)", T::Lst, Some(T::Any), |e| format!("{}[1]", e), |v| list(v).map(|xs| index(xs, 1))),
    w("Filter source (the name itself, index -1)", T::Lst, Some(T::Any), |e| format!("{}[-1]", e), |v| list(v).map(|xs| index(xs, -1))),
    w("Filter index", T::Num, Some(T::Num), |e| format!("[10, 20, 30, 40, 50][{}]", e), |v| num(v).map(|k| index(&[n(10), n(20), n(30), n(40), n(50)], k))),
    w("Filter predicate (constant)", T::Bool, Some(T::Any), |e| format!("[7, 8][{}]", e), |v| boolean(v).map(|b| if b { l(vec![n(7), n(8)]) } else { l(vec![]) })),
    w("Filter predicate (compared with item)", T::Num, Some(T::Any), |e| format!("[1, 2, 3, 4][item > {}]", e), |v| num(v).map(|k| filtered((1..=4).filter(|x| *x > k).map(n).collect()))),
    // ---- for / some / every
    w("IterationContextSingle domain (the name itself)", T::Lst, None, |e| format!("for p9 in {} return p9", e), same),
    w("IterationContextSingle domain (list around)", T::Any, Some(T::Any), |e| format!("for p9 in [{}] return p9", e), |v| Some(l(vec![v.clone()]))),
    w("IterationContextSingle domain (second variable)", T::Lst, Some(T::Any), |e| format!("for o9 in [1], p9 in {} return p9", e), same),
    w("IterationContextRange start and end", T::Num, Some(T::Any), |e| format!("for p9 in {}..{} return p9", e, e), |v| num(v).map(|k| l(vec![n(k)]))),
    w("IterationContextRange end", T::Num, Some(T::Any), |e| format!("for p9 in 1..{} return p9", e), |v| num(v).map(|k| range_list(1, k))),
    w("IterationContextRange start", T::Num, Some(T::Any), |e| format!("for p9 in {}..2 return p9", e), |v| num(v).map(|k| range_list(k, 2))),
    w("QuantifiedContext domain (some)", T::Lst, Some(T::Bool), |e| format!("some p9 in {} satisfies true", e), |v| list(v).map(|xs| Qv::B(!xs.is_empty()))),
    w("QuantifiedContext domain (every)", T::Lst, Some(T::Bool), |e| format!("every p9 in {} satisfies false", e), |v| list(v).map(|xs| Qv::B(xs.is_empty()))),
    w("Satisfies (some)", T::Bool, Some(T::Bool), |e| format!("some p9 in [1] satisfies {}", e), |v| boolean(v).map(Qv::B)),
    w("Satisfies (every)", T::Bool, Some(T::Bool), |e| format!("every p9 in [1, 2] satisfies {}", e), |v| boolean(v).map(Qv::B)),
    // ---- arithmetic
    w("Neg", T::Num, Some(T::Num), |e| format!("-{}", e), |v| num(v).map(|k| n(-k))),
    w("Neg (parenthesised)", T::Num, Some(T::Num), |e| format!("-({})", e), |v| num(v).map(|k| n(-k))),
    w("Add left", T::Num, Some(T::Num), |e| format!("{} + 1", e), |v| num(v).map(|k| n(k + 1))),
    w("Add right", T::Num, Some(T::Num), |e| format!("1 + {}", e), |v| num(v).map(|k| n(1 + k))),
    w("Sub left", T::Num, Some(T::Num), |e| format!("{} - 1", e), |v| num(v).map(|k| n(k - 1))),
    w("Sub right", T::Num, Some(T::Num), |e| format!("10 - {}", e), |v| num(v).map(|k| n(10 - k))),
    w("Mul left", T::Num, Some(T::Num), |e| format!("{} * 2", e), |v| num(v).map(|k| n(k * 2))),
    w("Mul right", T::Num, Some(T::Num), |e| format!("3 * {}", e), |v| num(v).map(|k| n(3 * k))),
    w("Div left", T::Num, Some(T::Num), |e| format!("{} / 1", e), |v| num(v).map(n)),
    w("Div right", T::Num, Some(T::Num), |e| format!("0 / (1 + {} * {})", e, e), |v| num(v).map(|_| n(0))),
    w("Exp left", T::Num, Some(T::Num), |e| format!("({}) ** 2", e), |v| num(v).and_then(|k| if k.abs() < 1000 { Some(n(k * k)) } else { None })),
    w("Exp right", T::Num, Some(T::Num), |e| format!("2 ** ({})", e), |v| num(v).and_then(|k| if (0..=20).contains(&k) { Some(n(1 << k)) } else { None })),
    // ---- comparison, logic, between, in, instance of
    w("Lt left", T::Num, Some(T::Bool), |e| format!("{} < 2", e), |v| num(v).map(|k| Qv::B(k < 2))),
    w("Lt right", T::Num, Some(T::Bool), |e| format!("1 < {}", e), |v| num(v).map(|k| Qv::B(1 < k))),
    w("Le left", T::Num, Some(T::Bool), |e| format!("{} <= 1", e), |v| num(v).map(|k| Qv::B(k <= 1))),
    w("Le right", T::Num, Some(T::Bool), |e| format!("1 <= {}", e), |v| num(v).map(|k| Qv::B(1 <= k))),
    w("Gt left", T::Num, Some(T::Bool), |e| format!("{} > 1", e), |v| num(v).map(|k| Qv::B(k > 1))),
    w("Gt right", T::Num, Some(T::Bool), |e| format!("2 > {}", e), |v| num(v).map(|k| Qv::B(2 > k))),
    w("Ge left", T::Num, Some(T::Bool), |e| format!("{} >= 1", e), |v| num(v).map(|k| Qv::B(k >= 1))),
    w("Ge right", T::Num, Some(T::Bool), |e| format!("1 >= {}", e), |v| num(v).map(|k| Qv::B(1 >= k))),
    w("Eq left (numbers)", T::Num, Some(T::Bool), |e| format!("{} = 1", e), |v| num(v).map(|k| Qv::B(k == 1))),
    w("Eq right (numbers)", T::Num, Some(T::Bool), |e| format!("1 = {}", e), |v| num(v).map(|k| Qv::B(1 == k))),
    w("Nq left (numbers)", T::Num, Some(T::Bool), |e| format!("{} != 1", e), |v| num(v).map(|k| Qv::B(k != 1))),
    w("Nq right (numbers)", T::Num, Some(T::Bool), |e| format!("1 != {}", e), |v| num(v).map(|k| Qv::B(1 != k))),
    w("Eq left (lists)", T::Lst, Some(T::Bool), |e| format!("{} = []", e), |v| list(v).map(|xs| Qv::B(xs.is_empty()))),
    w("Eq right (lists)", T::Lst, Some(T::Bool), |e| format!("[] = {}", e), |v| list(v).map(|xs| Qv::B(xs.is_empty()))),
    w("Nq left (lists)", T::Lst, Some(T::Bool), |e| format!("{} != []", e), |v| list(v).map(|xs| Qv::B(!xs.is_empty()))),
    w("And left", T::Bool, Some(T::Bool), |e| format!("{} and true", e), |v| boolean(v).map(Qv::B)),
    w("And right", T::Bool, Some(T::Bool), |e| format!("true and {}", e), |v| boolean(v).map(Qv::B)),
    w("Or left", T::Bool, Some(T::Bool), |e| format!("{} or false", e), |v| boolean(v).map(Qv::B)),
    w("Or right", T::Bool, Some(T::Bool), |e| format!("false or {}", e), |v| boolean(v).map(Qv::B)),
    w("Between value", T::Num, Some(T::Bool), |e| format!("{} between 0 and 1", e), |v| num(v).map(|k| Qv::B((0..=1).contains(&k)))),
    w("Between lower bound", T::Num, Some(T::Bool), |e| format!("1 between {} and 5", e), |v| num(v).map(|k| Qv::B(k <= 1))),
    w("Between upper bound", T::Num, Some(T::Bool), |e| format!("1 between 0 and {}", e), |v| num(v).map(|k| Qv::B(1 <= k))),
    w("In value", T::Num, Some(T::Bool), |e| format!("{} in [1, 2]", e), |v| num(v).map(|k| Qv::B(k == 1 || k == 2))),
    w("In list item", T::Num, Some(T::Bool), |e| format!("1 in [{}, 7]", e), |v| num(v).map(|k| Qv::B(k == 1))),
    w("ExpressionList item", T::Num, Some(T::Bool), |e| format!("1 in ({}, 7)", e), |v| num(v).map(|k| Qv::B(k == 1))),
    w("ExpressionList item (second)", T::Num, Some(T::Bool), |e| format!("1 in (7, {})", e), |v| num(v).map(|k| Qv::B(k == 1))),
    w("In list item (lists)", T::Lst, Some(T::Bool), |e| format!("[] in [{}]", e), |v| list(v).map(|xs| Qv::B(xs.is_empty()))),
    w("In right-hand side", T::Any, Some(T::Bool), |e| format!("4 in {}", e), |v| match v {
      Qv::R(a, b) => Some(Qv::B(num(a)? <= 4 && 4 <= num(b)?)),
      Qv::L(xs) => {
        let mut hit = false;
        for x in xs {
          hit = hit || num(x)? == 4;
        }
        Some(Qv::B(hit))
      }
      _ => None,
    }),
    w("InstanceOf operand (number)", T::Num, Some(T::Bool), |e| format!("{} instance of number", e), |v| num(v).map(|_| Qv::B(true))),
    w("InstanceOf operand (boolean)", T::Any, Some(T::Bool), |e| format!("({}) instance of boolean", e), |v| Some(Qv::B(matches!(v, Qv::B(_))))),
  ];
  // a `for` whose body holds the operand: `partial` inside is this for's own (the empty list: one iteration)
  let mut inner_for = w("EvaluatedExpression (body of a nested for)", T::Any, Some(T::Any), |e| format!("for o9 in [1] return {}", e), |v| Some(l(vec![v.clone()])));
  inner_for.rebinds_partial = true;
  ws.push(inner_for);
  for x in ws.iter_mut() {
    if x.slot.starts_with("Filter index") || x.slot.starts_with("Filter predicate") {
      x.rebinds_item = true;
    }
  }
  ws
}

/// The leaf forms: how the name itself is written.
#[derive(Clone, Copy, PartialEq, Eq, Debug)]
pub enum Leaf {
  /// `Name`
  Plain,
  /// both end points of an interval: `QualifiedName`
  Interval,
  /// the operand of a unary test `< N`, `<= N`, `> N`, `>= N` (a qualified name as well); only for a number
  Unary(&'static str),
}

const LEAVES: [Leaf; 6] = [Leaf::Plain, Leaf::Interval, Leaf::Unary("<"), Leaf::Unary("<="), Leaf::Unary(">"), Leaf::Unary(">=")];

fn leaf_type(leaf: Leaf, name_ty: T) -> Option<T> {
  match leaf {
    Leaf::Plain => Some(name_ty),
    Leaf::Interval => Some(T::Any),
    Leaf::Unary(_) => {
      if name_ty == T::Num {
        Some(T::Bool)
      } else {
        None
      }
    }
  }
}

fn leaf_text(leaf: Leaf, name: &str) -> String {
  match leaf {
    Leaf::Plain => name.to_string(),
    Leaf::Interval => format!("[{}..{}]", name, name),
    Leaf::Unary(op) => format!("(1 in ({} {}))", op, name),
  }
}

fn leaf_value(leaf: Leaf, named: &Qv) -> Option<Qv> {
  match leaf {
    Leaf::Plain => Some(named.clone()),
    Leaf::Interval => Some(Qv::R(Box::new(named.clone()), Box::new(named.clone()))),
    Leaf::Unary(op) => {
      let k = num(named)?;
      Some(Qv::B(match op {
        "<" => 1 < k,
        "<=" => 1 <= k,
        ">" => 1 > k,
        _ => 1 >= k,
      }))
    }
  }
}

pub struct Position {
  pub chain: Vec<usize>, // indexes into the wrappers, outermost first
  pub leaf: Leaf,
}

/// the type of the composition when the name is a list; `None` when it does not type-check
fn type_of(ws: &[Wrapper], p: &Position, name_ty: T) -> Option<T> {
  let mut cur = leaf_type(p.leaf, name_ty)?;
  for &i in p.chain.iter().rev() {
    if !accepts(ws[i].input, cur) {
      return None;
    }
    cur = ws[i].output.unwrap_or(cur);
  }
  Some(cur)
}

pub fn position_text(ws: &[Wrapper], p: &Position, name: &str) -> String {
  let mut t = leaf_text(p.leaf, name);
  for (k, &i) in p.chain.iter().rev().enumerate() {
    // an operand that is itself a composition is parenthesised (operator precedence is C06's matter)
    t = if k == 0 { (ws[i].text)(&t) } else { (ws[i].text)(&format!("({})", t)) };
  }
  t
}

/// the value of the composition when the name has the value `named`; `partial_name`: the name is the implicit
/// `partial`, which a nested `for` binds anew (to the empty list in its only iteration)
pub fn position_value(ws: &[Wrapper], p: &Position, named: &Qv, partial_name: bool) -> Option<Qv> {
  let mut at_leaf = named.clone();
  if partial_name && p.chain.iter().any(|&i| ws[i].rebinds_partial) {
    at_leaf = Qv::L(vec![]);
  }
  let mut v = leaf_value(p.leaf, &at_leaf)?;
  for &i in p.chain.iter().rev() {
    v = (ws[i].sem)(&v)?;
  }
  Some(v)
}

pub fn position_name(ws: &[Wrapper], p: &Position) -> String {
  let mut parts: Vec<&str> = p.chain.iter().map(|&i| ws[i].slot).collect();
  parts.push(match p.leaf {
    Leaf::Plain => "Name",
    Leaf::Interval => "QualifiedName (interval end points)",
    Leaf::Unary(_) => "QualifiedName (operand of a unary test)",
  });
  parts.join(" > ")
}

/// All compositions of depth 0, 1 and 2 that type-check, and `sample` of depth 3.
pub fn positions(ws: &[Wrapper], rng: &mut Rng, sample: usize) -> Vec<Position> {
  let ok = |p: &Position| type_of(ws, p, T::Lst).is_some() || type_of(ws, p, T::Num).is_some();
  let mut out = vec![];
  for leaf in LEAVES {
    out.push(Position { chain: vec![], leaf });
    for i in 0..ws.len() {
      let p = Position { chain: vec![i], leaf };
      if ok(&p) {
        out.push(p);
      }
      for j in 0..ws.len() {
        let p = Position { chain: vec![j, i], leaf };
        if ok(&p) {
          out.push(p);
        }
      }
    }
  }
  let mut tries = 0;
  let mut added = 0;
  while added < sample && tries < sample * 50 {
    tries += 1;
    let chain: Vec<usize> = (0..3).map(|_| rng.below(ws.len() as u64) as usize).collect();
    let p = Position { chain, leaf: if rng.chance(1, 4) { *rng.pick(&LEAVES) } else { Leaf::Plain } };
    if ok(&p) {
      out.push(p);
      added += 1;
    }
  }
  out
}

/// The node kinds between the root and the occurrences of the name (as `Name` or as a segment of a qualified name).
fn kinds_on_paths(x: &Sexp, name: &str, stack: &mut Vec<String>, out: &mut BTreeSet<String>) {
  let squeeze = |t: &str| t.chars().filter(|ch| !ch.is_whitespace()).collect::<String>();
  if let Sexp::List(xs) = x {
    if let Some(Sexp::Atom(tag)) = xs.first() {
      if (tag == "name" || tag == "qualifiedNameSegment") && xs.get(1).and_then(super::sexp_string).map(|t| squeeze(&t)) == Some(squeeze(name)) {
        for k in stack.iter() {
          out.insert(k.clone());
        }
        out.insert(tag.clone());
        return;
      }
      if tag == "s" {
        return;
      }
      stack.push(tag.clone());
      for c in &xs[1..] {
        kinds_on_paths(c, name, stack, out);
      }
      stack.pop();
    }
  }
}

/// `enum AstNode` of the implementation, read from the source (lower camel case, as `ast_sexp` writes the tags).
fn ast_node_kinds() -> Option<Vec<String>> {
  let src = std::fs::read_to_string("/repo/feel/src/ast.rs").ok()?;
  let start = src.find("pub enum AstNode")?;
  let body = &src[start..];
  let open = body.find('{')?;
  let mut depth = 0i32;
  let mut kinds = vec![];
  let mut line_start = true;
  let mut chars = body[open..].char_indices().peekable();
  let text = &body[open..];
  while let Some((i, ch)) = chars.next() {
    match ch {
      '{' | '(' => depth += 1,
      '}' | ')' => {
        depth -= 1;
        if depth == 0 {
          break;
        }
      }
      '\n' => {
        line_start = true;
        continue;
      }
      _ => {}
    }
    if line_start && depth == 1 && ch.is_ascii_uppercase() {
      let rest = &text[i..];
      let ident: String = rest.chars().take_while(|c| c.is_ascii_alphanumeric()).collect();
      // skip doc comments and attributes: only identifiers that start a line of the enum body
      let before: &str = text[..i].rsplit('\n').next().unwrap_or("");
      if before.trim().is_empty() {
        let mut k = ident.clone();
        if let Some(f) = k.get(0..1) {
          k = format!("{}{}", f.to_lowercase(), &ident[1..]);
        }
        kinds.push(k);
      }
    }
    if !ch.is_whitespace() {
      line_start = false;
    }
  }
  if kinds.len() < 40 {
    None
  } else {
    Some(kinds)
  }
}

/// Node kinds that cannot lie between the root of an expression and an occurrence of a name in it: leaves, keys and
/// names of declarations, types, and the constructs only the unary-tests entry point of the grammar produces.
const NO_EXPRESSION_INSIDE: [(&str, &str); 29] = [
  ("at", "literal leaf"),
  ("boolean", "literal leaf"),
  ("null", "literal leaf"),
  ("numeric", "literal leaf"),
  ("string", "literal leaf"),
  ("irrelevant", "leaf of unary tests"),
  ("contextEntryKey", "key"),
  ("contextTypeEntryKey", "key of a type"),
  ("parameterName", "name of a declaration / of an argument"),
  ("formalParameter", "declaration (name and type)"),
  ("formalParameters", "declarations"),
  ("feelType", "type"),
  ("listType", "type"),
  ("rangeType", "type"),
  ("contextType", "type"),
  ("contextTypeEntry", "type"),
  ("functionType", "type"),
  ("parameterTypes", "type"),
  ("commaList", "produced by the unary-tests entry point only"),
  ("negatedList", "produced by the unary-tests entry point only"),
  ("out", "produced by the unary-tests entry point only"),
  ("range", "a range literal is written with interval end points (intervalStart / intervalEnd), `range` itself is not produced for expressions"),
  ("qualifiedName", "counted through its segments"),
  ("unaryLt", "its operand is a qualified name or a literal (leaf form of its own)"),
  ("unaryLe", "its operand is a qualified name or a literal (leaf form of its own)"),
  ("unaryGt", "its operand is a qualified name or a literal (leaf form of its own)"),
  ("unaryGe", "its operand is a qualified name or a literal (leaf form of its own)"),
  ("name", "the occurrence itself"),
  ("qualifiedNameSegment", "the occurrence itself"),
];

/// How the name is introduced.
#[derive(Clone, Copy, PartialEq, Eq, Debug)]
pub enum Binder {
  /// the implicit `partial` of a `for` with several iterations (the name is fixed)
  Partial,
  ForVariable,
  ForVariableSecond,
  SomeVariable,
  EveryVariable,
  FilterItem,
  FilterItemKey,
  FormalParameter,
  FormalParameterByName,
  EarlierContextEntry,
  ScopeVariable,
}

pub fn binder_label(b: Binder) -> &'static str {
  match b {
    Binder::Partial => "the implicit partial of a for",
    Binder::ForVariable => "for variable",
    Binder::ForVariableSecond => "second for variable",
    Binder::SomeVariable => "some variable",
    Binder::EveryVariable => "every variable",
    Binder::FilterItem => "item of a filter",
    Binder::FilterItemKey => "key of a filtered item",
    Binder::FormalParameter => "formal parameter, argument by position",
    Binder::FormalParameterByName => "formal parameter, argument by name",
    Binder::EarlierContextEntry => "earlier context entry",
    Binder::ScopeVariable => "variable of the scope",
  }
}

pub struct PosCase {
  pub binder: Binder,
  pub name: String,
  pub position: String,
  pub text: String,
  pub ctxs: Vec<FeelContext>,
  pub expected: Value,
}

/// The value the bound name has: the list `[4, 5]` or the number 4 (between them every wrapper applies).
fn bound_value(ty: T) -> Qv {
  if ty == T::Num {
    n(4)
  } else {
    l(vec![n(4), n(5)])
  }
}

/// The text and the expectation of one (binder, name, position); `None` when the combination is not expressible
/// (a result type the binder cannot show) or not judged.
pub fn build_case(ws: &[Wrapper], b: Binder, name: &str, p: &Position, name_ty: T, variant: u64) -> Option<PosCase> {
  let body = position_text(ws, p, name);
  let ty = type_of(ws, p, name_ty)?;
  let lv = bound_value(name_ty);
  // the other item of a filtered list: a value of the same kind
  let other = if name_ty == T::Num { n(0) } else { l(vec![]) };
  let other_text = other.text()?;
  let lv_text = lv.text()?;
  let at = |named: &Qv| position_value(ws, p, named, b == Binder::Partial);
  let mut ctxs = vec![FeelContext::default()];
  let (text, expected): (String, Qv) = match b {
    Binder::Partial => {
      // three iterations (or 2 x 2 with two variables): the fold results.push(body(results so far))
      let (head, iterations) = match variant % 3 {
        0 => ("for i9 in [5, 6, 7]".to_string(), 3),
        1 => ("for i9 in 1..2, j9 in [8, 9]".to_string(), 4),
        _ => ("for i9 in 3..1".to_string(), 3),
      };
      let mut results: Vec<Qv> = vec![];
      for _ in 0..iterations {
        let r = at(&Qv::L(results.clone()))?;
        results.push(r);
      }
      (format!("{} return {}", head, body), Qv::L(results))
    }
    Binder::ForVariable => (format!("for {} in [{}] return {}", name, lv_text, body), l(vec![at(&lv)?])),
    Binder::ForVariableSecond => (format!("for h9 in [1, 2], {} in [{}] return {}", name, lv_text, body), l(vec![at(&lv)?, at(&lv)?])),
    Binder::SomeVariable | Binder::EveryVariable => {
      if ty != T::Bool {
        return None;
      }
      let v = at(&lv)?;
      boolean(&v)?;
      (format!("{} {} in [{}] satisfies {}", if b == Binder::SomeVariable { "some" } else { "every" }, name, lv_text, body), v)
    }
    Binder::FilterItem => {
      if ty != T::Bool || name != "item" || p.chain.iter().any(|&i| ws[i].rebinds_item) {
        return None;
      }
      // two items, both lists: the predicate is evaluated once per item
      let items = [lv.clone(), other.clone()];
      let mut kept = vec![];
      for it in &items {
        if boolean(&at(it)?)? {
          kept.push(it.clone());
        }
      }
      (format!("[{}, {}][{}]", lv_text, other_text, body), filtered(kept))
    }
    Binder::FilterItemKey => {
      if ty != T::Bool {
        return None;
      }
      let items = [lv.clone(), other.clone()];
      let mut kept = vec![];
      for (k, it) in items.iter().enumerate() {
        if boolean(&at(it)?)? {
          kept.push(Qv::C(vec![(name.to_string(), it.clone()), ("k9".to_string(), n(k as i64))]));
        }
      }
      // the list comes from the scope, so that the keys of its items are names the lexer knows (a key met only
      // at evaluation time is C10's known finding F66-unbound-entry)
      ctxs[0].set_entry(
        &Name::from("zl9"),
        l(vec![Qv::C(vec![(name.to_string(), lv.clone()), ("k9".to_string(), n(0))]), Qv::C(vec![(name.to_string(), other.clone()), ("k9".to_string(), n(1))])]).value(),
      );
      (format!("zl9[{}]", body), filtered(kept))
    }
    Binder::FormalParameter => (format!("(function ({}) {})({})", name, body, lv_text), at(&lv)?),
    Binder::FormalParameterByName => (format!("(function (g9, {}) {})({}: {}, g9: 0)", name, body, name, lv_text), at(&lv)?),
    Binder::EarlierContextEntry => (format!("{{{}: {}, r: {}}}.r", name, lv_text, body), at(&lv)?),
    Binder::ScopeVariable => {
      ctxs[0].set_entry(&Name::from(name), lv.value());
      (body.clone(), at(&lv)?)
    }
  };
  if b != Binder::ScopeVariable && variant % 2 == 1 {
    // the same name bound to something else in the scope underneath: the inner binding wins
    ctxs[0].set_entry(&Name::from(name), Value::String("outer".into()));
  }
  Some(PosCase { binder: b, name: name.to_string(), position: position_name(ws, p), text, ctxs, expected: expected.value() })
}

pub struct Outcome {
  pub judged: usize,
  pub kinds_seen: BTreeSet<String>,
}

/// Runs the cases, judges them against the written-out values (and the Lean model), and checks afterwards that the
/// positions reached every node kind of the implementation's syntax tree that can hold an expression.
pub fn run_positions(cfg: &Cfg, rep: &mut Report, model: &mut Model, family: &str, binders: &[Binder], names: &[&str], sig_of: &dyn Fn(&PosCase) -> String) -> Outcome {
  let thorough = cfg.tier == "thorough";
  let mut rng = Rng::new(cfg.seed ^ 0x9051_7105);
  let ws = wrappers();
  let ps = positions(&ws, &mut rng, if thorough { 4000 } else { 400 });
  let mut rows: Vec<(String, String, Case, Value)> = vec![];
  let mut kinds_seen: BTreeSet<String> = BTreeSet::new();
  let mut unparsable: BTreeMap<String, u64> = BTreeMap::new();
  let mut per_binder: BTreeMap<&'static str, u64> = BTreeMap::new();
  let mut variant = 0u64;
  for &b in binders {
    let ns: Vec<&str> = match b {
      Binder::Partial => vec!["partial"],
      Binder::FilterItem => vec!["item"],
      _ => names.to_vec(),
    };
    for (pi, p) in ps.iter().enumerate() {
      // every binder sees every position of depth <= 1; deeper ones are spread over the names (all of them for `partial`)
      let name = if p.chain.len() <= 1 || ns.len() == 1 { None } else { Some(ns[pi % ns.len()]) };
      for nm in ns.iter().filter(|x| name.map(|y| y == **x).unwrap_or(true)) {
        for name_ty in [T::Lst, T::Num] {
        if b == Binder::Partial && name_ty == T::Num {
          continue;
        }
        variant += 1;
        let pc = match build_case(&ws, b, nm, p, name_ty, variant) {
          Some(pc) => pc,
          None => continue,
        };
        match run_case(&pc.text, &pc.ctxs, 10) {
          Some(c) => {
            if let Some(x) = Sexp::parse(&c.ast) {
              kinds_on_paths(&x, nm, &mut vec![], &mut kinds_seen);
            }
            *per_binder.entry(binder_label(b)).or_insert(0) += 1;
            rep.hit(&format!("{}:{}; depth {}", family, binder_label(b), p.chain.len()));
            let scope_note = if pc.ctxs[0].get_entries().is_empty() { String::new() } else { format!(" @ scope {}", pc.ctxs[0]) };
            rows.push((sig_of(&pc), format!("{}{}", pc.text, scope_note), c, pc.expected));
          }
          None => {
            // multi-word names cannot be written in every declaring position (C10: known finding about binding
            // sites); single-word names must parse everywhere
            if nm.chars().all(|ch| ch.is_ascii_alphanumeric()) {
              rep.disagree(Kind::ImplVsSpec, family, "a well-formed expression with a bound name in an expression position is rejected by the parser", &pc.text, "parse error", "a syntax tree");
            } else {
              *unparsable.entry(format!("{} / {}", binder_label(b), nm)).or_insert(0) += 1;
              rep.hit(&format!("{}:not-judged(the parser rejects the text)", family));
            }
          }
        }
        }
      }
    }
  }
  let judged = rows.len();
  super::judge_written_out_with(rep, model, family, rows, &|c: &Case| !c.text.contains("count(") && !c.text.contains("not("));
  // ---- the tie has no hole: every node kind that can hold an expression lay on a path to the name
  match ast_node_kinds() {
    Some(kinds) => {
      let excluded: BTreeSet<&str> = NO_EXPRESSION_INSIDE.iter().map(|(k, _)| *k).collect();
      let missing: Vec<String> = kinds.iter().filter(|k| !kinds_seen.contains(*k) && !excluded.contains(k.as_str())).cloned().collect();
      if !missing.is_empty() {
        rep.disagree(
          Kind::ImplVsModel,
          family,
          "a node kind of enum AstNode that can hold an expression lies on no path from the root to the bound name in any generated position (the family has a hole)",
          &missing.join(" "),
          &format!("{} kinds on paths", kinds_seen.len()),
          "every kind outside the list of leaves, keys and types",
        );
      }
      rep.extra.insert(format!("{}_ast_node_kinds", family), json!({"in_source": kinds.len(), "on_a_path_to_the_name": kinds_seen.len(), "cannot_hold_an_expression": excluded.len()}));
    }
    None => rep.disagree(Kind::ImplVsModel, family, "enum AstNode is unreadable in feel/src/ast.rs", "/repo/feel/src/ast.rs", "-", "the list of node kinds"),
  }
  rep.extra.insert(format!("{}_cases", family), json!(judged));
  rep.extra.insert(format!("{}_positions", family), json!(ps.len()));
  rep.extra.insert(format!("{}_wrappers", family), json!(ws.len()));
  rep.extra.insert(format!("{}_cases_by_binder", family), json!(per_binder));
  rep.extra.insert(format!("{}_unparsable", family), json!(unparsable));
  Outcome { judged, kinds_seen }
}
