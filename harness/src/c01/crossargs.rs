//! Family `crossargs` of C01: the arguments of an invocation of a user-defined function are the values of the
//! argument expressions in the CALLER's scope, whatever the parameters of the callee are called.
//!
//! User-defined functions of two and three parameters (bound in the scope, defined by a context entry, a lambda
//! invoked in place) are invoked by position and by name (in declaration order and reversed) with arguments that
//! are expressions over names spelled like the callee's parameters — crosswise (`f(y, x)`), duplicated
//! (`f(y, y)`), combined (`f(x + y, x)`, `f(x * x, -y)`) — while the caller binds other values to those names:
//! in the scope (one context, two contexts with shadowing), by earlier context entries, as iteration variables of
//! `for` (one, nested) and `some`, as parameters of an enclosing function (lambda, context entry) that are the
//! same names in another order.  Second part: recursive functions with accumulators (`product(n - 1, acc * n)`,
//! `fib(n - 1, b, a + b)`, subtractive gcd with swapped arguments …), the recursive call by position / by name.
//!
//! Oracle: integers computed here in machine arithmetic (one Rust closure per body / argument form, one Rust
//! function per recursive definition); neither the parser nor the evaluator of the implementation takes part.

use super::{ctx_of, judge_written_out, pv_list, pv_num, run_case_in, Case};
use crate::model::Model;
use crate::report::Report;
use crate::rng::Rng;
use crate::Cfg;
use dmntk_feel::context::FeelContext;
use dmntk_feel::values::Value;
use serde_json::json;

type F = Box<dyn Fn(&[i64]) -> i64>;

thread_local! {
  /// set when the oracle multiplied zero by a negative number: decimal arithmetic gives -0 there, machine integers
  /// have one zero; such a case is counted, not judged (the sign of a zero is not what this family is about)
  static NEG_ZERO: std::cell::Cell<bool> = const { std::cell::Cell::new(false) };
}

fn mul(a: i64, b: i64) -> i64 {
  if (a == 0 && b < 0) || (b == 0 && a < 0) {
    NEG_ZERO.with(|f| f.set(true));
  }
  a * b
}

struct Tm {
  /// template: `$1`, `$2`, `$3` stand for the names
  t: String,
  f: F,
}

fn tm(t: &str, f: impl Fn(&[i64]) -> i64 + 'static) -> Tm {
  Tm { t: t.to_string(), f: Box::new(f) }
}

fn subst(t: &str, names: &[&str]) -> String {
  let mut s = t.to_string();
  for (i, n) in names.iter().enumerate() {
    s = s.replace(&format!("${}", i + 1), n);
  }
  s
}

fn bodies(k: usize) -> Vec<Tm> {
  if k == 2 {
    vec![
      tm("$1 - $2", |v| v[0] - v[1]),
      tm("$1 * 10 + $2", |v| mul(v[0], 10) + v[1]),
      tm("$1 * $1 - $2", |v| mul(v[0], v[0]) - v[1]),
      tm("if $1 < $2 then $1 - $2 else $2 * 3 - $1", |v| if v[0] < v[1] { v[0] - v[1] } else { mul(v[1], 3) - v[0] }),
    ]
  } else {
    vec![
      tm("$1 * 100 + $2 * 10 + $3", |v| mul(v[0], 100) + mul(v[1], 10) + v[2]),
      tm("$1 - $2 - $3", |v| v[0] - v[1] - v[2]),
      tm("($1 - $2) * $3", |v| mul(v[0] - v[1], v[2])),
      tm("if $1 < $3 then $2 - $1 else $3 - $2 * 2", |v| if v[0] < v[2] { v[1] - v[0] } else { v[2] - mul(v[1], 2) }),
    ]
  }
}

/// argument expressions over the names spelled like the callee's parameters (the caller's values of them)
fn arg_pool(k: usize) -> Vec<Tm> {
  let mut out = vec![];
  for j in 0..k {
    let n = format!("${}", j + 1);
    out.push(tm(&n, move |v| v[j]));
    out.push(tm(&format!("{} - 1", n), move |v| v[j] - 1));
    out.push(tm(&format!("{} * {}", n, n), move |v| mul(v[j], v[j])));
    out.push(tm(&format!("-{}", n), move |v| -v[j]));
  }
  for i in 0..k {
    for j in 0..k {
      if i != j {
        let (a, b) = (format!("${}", i + 1), format!("${}", j + 1));
        out.push(tm(&format!("{} + {}", a, b), move |v| v[i] + v[j]));
        out.push(tm(&format!("{} - {}", a, b), move |v| v[i] - v[j]));
        out.push(tm(&format!("{} * {}", a, b), move |v| mul(v[i], v[j])));
      }
    }
  }
  out.push(tm("7", |_| 7));
  out
}

const NAMES2: [[&str; 2]; 5] = [["x", "y"], ["n", "acc"], ["a", "b"], ["left", "right"], ["p", "q"]];
const NAMES3: [[&str; 3]; 3] = [["x", "y", "z"], ["n", "acc", "step"], ["a", "b", "c"]];
const FORMS: [&str; 3] = ["by position", "by name", "by name, reversed"];
const CALLEE: &str = "callee";

/// the text of an invocation of `head` with the argument texts `args` for the parameters `params`
fn call(form: &str, head: &str, params: &[&str], args: &[String]) -> String {
  match form {
    "by position" => format!("{}({})", head, args.join(", ")),
    "by name" => format!("{}({})", head, params.iter().zip(args).map(|(p, a)| format!("{}: {}", p, a)).collect::<Vec<_>>().join(", ")),
    _ => format!("{}({})", head, params.iter().zip(args).rev().map(|(p, a)| format!("{}: {}", p, a)).collect::<Vec<_>>().join(", ")),
  }
}

/// `k` distinct values in -9..=9 without 0 and 1 (so that a swapped or duplicated value shows)
fn distinct(rng: &mut Rng, k: usize, avoid: &[i64]) -> Vec<i64> {
  let mut out: Vec<i64> = vec![];
  while out.len() < k {
    let v = rng.range(-9, 9);
    if v != 0 && v != 1 && !out.contains(&v) && !avoid.contains(&v) {
      out.push(v);
    }
  }
  out
}

fn bind(names: &[&str], vals: &[i64]) -> FeelContext {
  let e: Vec<(&str, Value)> = names.iter().zip(vals).map(|(n, v)| (*n, pv_num(*v))).collect();
  ctx_of(&e)
}

/// a permutation of 0..k that is not the identity
fn permutation(rng: &mut Rng, k: usize) -> Vec<usize> {
  loop {
    let mut p: Vec<usize> = (0..k).collect();
    for i in (1..k).rev() {
      let j = rng.below(i as u64 + 1) as usize;
      p.swap(i, j);
    }
    if p.iter().enumerate().any(|(i, j)| i != *j) {
      return p;
    }
  }
}

struct Built {
  site: &'static str,
  text: String,
  ctxs: Vec<FeelContext>,
  funs: Vec<(usize, String)>,
  fun_text: String,
  expected: Value,
}

const SITES: [&str; 10] =
  ["scope", "scope of two contexts", "context entry", "lambda in place", "for variable", "nested for variables", "some variable", "parameters of an enclosing lambda", "parameters of an enclosing function of a context entry", "scope, callee in the upper context"];

#[allow(clippy::too_many_arguments)]
fn build(site: &'static str, rng: &mut Rng, params: &[&str], body: &Tm, args: &[&Tm], form: &str) -> Built {
  let k = params.len();
  let v = distinct(rng, k, &[]);
  let w = distinct(rng, k, &v); // decoys bound underneath
  let fun_text = format!("function({}) {}", params.join(", "), subst(&body.t, params));
  let arg_texts: Vec<String> = args.iter().map(|a| subst(&a.t, params)).collect();
  let value = |vals: &[i64]| -> i64 {
    let actual: Vec<i64> = args.iter().map(|a| (a.f)(vals)).collect();
    (body.f)(&actual)
  };
  let the_call = call(form, CALLEE, params, &arg_texts);
  let fun0 = vec![(0usize, CALLEE.to_string())];
  let lits = |vals: &[i64]| -> Vec<String> { vals.iter().map(|x| x.to_string()).collect() };
  match site {
    "scope" => Built { site, text: the_call, ctxs: vec![bind(params, &v)], funs: fun0, fun_text, expected: pv_num(value(&v)) },
    "scope of two contexts" => Built { site, text: the_call, ctxs: vec![bind(params, &w), bind(params, &v)], funs: fun0, fun_text, expected: pv_num(value(&v)) },
    "scope, callee in the upper context" => {
      Built { site, text: the_call, ctxs: vec![bind(params, &v), FeelContext::default()], funs: vec![(1, CALLEE.to_string())], fun_text, expected: pv_num(value(&v)) }
    }
    "context entry" => {
      let mut entries: Vec<String> = params.iter().zip(&v).map(|(p, x)| format!("{}: {}", p, x)).collect();
      let at = rng.below(entries.len() as u64 + 1) as usize;
      entries.insert(at, format!("{}: {}", CALLEE, fun_text));
      let text = format!("{{{}, result: {}}}.result", entries.join(", "), the_call);
      Built { site, text, ctxs: vec![bind(params, &w)], funs: vec![], fun_text, expected: pv_num(value(&v)) }
    }
    "lambda in place" => {
      let text = call(form, &format!("({})", fun_text), params, &arg_texts);
      Built { site, text, ctxs: vec![bind(params, &v)], funs: vec![], fun_text, expected: pv_num(value(&v)) }
    }
    "for variable" | "some variable" => {
      // one of the names is the iteration variable (the scope binds a decoy under it), the others come from the scope
      let i = rng.below(k as u64) as usize;
      let alt = distinct(rng, 1, &v)[0];
      let mut in_scope = v.clone();
      in_scope[i] = w[i];
      let mut v2 = v.clone();
      v2[i] = alt;
      if site == "for variable" {
        let text = format!("for {} in [{}, {}] return {}", params[i], v[i], alt, the_call);
        Built { site, text, ctxs: vec![bind(params, &in_scope)], funs: fun0, fun_text, expected: pv_list(vec![pv_num(value(&v)), pv_num(value(&v2))]) }
      } else {
        let wanted = if rng.chance(2, 3) { value(&v2) } else { value(&in_scope) };
        let text = format!("some {} in [{}, {}] satisfies {} = {}", params[i], v[i], alt, the_call, wanted);
        Built { site, text, ctxs: vec![bind(params, &in_scope)], funs: fun0, fun_text, expected: Value::Boolean(value(&v) == wanted || value(&v2) == wanted) }
      }
    }
    "nested for variables" => {
      // the inner variable is declared first in the callee as often as the outer one
      let p = permutation(rng, k);
      let (i, j) = (p[0], p[1]);
      let (ai, aj) = (distinct(rng, 1, &v)[0], distinct(rng, 1, &v)[0]);
      let mut in_scope = v.clone();
      in_scope[i] = w[i];
      in_scope[j] = w[j];
      let mut rows = vec![];
      for x in [v[i], ai] {
        let mut row = vec![];
        for y in [v[j], aj] {
          let mut vv = v.clone();
          vv[i] = x;
          vv[j] = y;
          row.push(pv_num(value(&vv)));
        }
        rows.push(pv_list(row));
      }
      let text = format!("for {} in [{}, {}] return for {} in [{}, {}] return {}", params[i], v[i], ai, params[j], v[j], aj, the_call);
      Built { site, text, ctxs: vec![bind(params, &in_scope)], funs: fun0, fun_text, expected: pv_list(rows) }
    }
    "parameters of an enclosing lambda" | _ => {
      // the enclosing function has the same parameter names in another order
      let p = permutation(rng, k);
      let outer_params: Vec<&str> = p.iter().map(|i| params[*i]).collect();
      let outer_vals: Vec<i64> = p.iter().map(|i| v[*i]).collect();
      let outer_form = *rng.pick(&FORMS);
      if site == "parameters of an enclosing lambda" {
        let text = call(outer_form, &format!("(function({}) {})", outer_params.join(", "), the_call), &outer_params, &lits(&outer_vals));
        Built { site, text, ctxs: vec![bind(params, &w)], funs: fun0, fun_text, expected: pv_num(value(&v)) }
      } else {
        let text = format!(
          "{{{}: {}, enclosing: function({}) {}, result: {}}}.result",
          CALLEE,
          fun_text,
          outer_params.join(", "),
          the_call,
          call(outer_form, "enclosing", &outer_params, &lits(&outer_vals))
        );
        Built { site: "parameters of an enclosing function of a context entry", text, ctxs: vec![bind(params, &w)], funs: vec![], fun_text, expected: pv_num(value(&v)) }
      }
    }
  }
}

// ---------------------------------------------------------------------------------------------------------
// recursion with accumulators

struct Rec {
  name: &'static str,
  params: &'static [&'static str],
  /// `@0`, `@1` stand for the recursive calls
  body: &'static str,
  calls: &'static [&'static [&'static str]],
  oracle: fn(&[i64]) -> i64,
  /// ranges of the initial arguments
  init: &'static [(i64, i64)],
}

fn o_product(v: &[i64]) -> i64 {
  if v[0] == 0 { v[1] } else { o_product(&[v[0] - 1, mul(v[1], v[0])]) }
}
fn o_sum(v: &[i64]) -> i64 {
  if v[0] == 0 { v[1] } else { o_sum(&[v[0] - 1, v[1] + v[0]]) }
}
fn o_squares(v: &[i64]) -> i64 {
  if v[1] == 0 { v[0] } else { o_squares(&[v[0] + mul(v[1], v[1]), v[1] - 1]) }
}
fn o_fib(v: &[i64]) -> i64 {
  if v[0] == 0 { v[1] } else { o_fib(&[v[0] - 1, v[2], v[1] + v[2]]) }
}
fn o_power(v: &[i64]) -> i64 {
  if v[1] == 0 { v[2] } else { o_power(&[v[0], v[1] - 1, mul(v[2], v[0])]) }
}
fn o_count(v: &[i64]) -> i64 {
  if v[0] == 0 { v[1] } else { o_count(&[v[0] - 1, v[1] + mul(v[2], v[0]), v[2]]) }
}
fn o_gcd(v: &[i64]) -> i64 {
  if v[1] == 0 {
    v[0]
  } else if v[0] < v[1] {
    o_gcd(&[v[1], v[0]])
  } else {
    o_gcd(&[v[0] - v[1], v[1]])
  }
}
fn o_rotate(v: &[i64]) -> i64 {
  if v[0] == 0 { mul(v[1], 10) + v[2] } else { o_rotate(&[v[0] - 1, v[2], v[1] + v[0]]) }
}

const RECS: [Rec; 8] = [
  Rec { name: "product", params: &["n", "acc"], body: "if n = 0 then acc else @0", calls: &[&["n - 1", "acc * n"]], oracle: o_product, init: &[(0, 6), (1, 3)] },
  Rec { name: "sum", params: &["n", "acc"], body: "if n = 0 then acc else @0", calls: &[&["n - 1", "acc + n"]], oracle: o_sum, init: &[(0, 7), (-3, 3)] },
  Rec { name: "squares", params: &["acc", "n"], body: "if n = 0 then acc else @0", calls: &[&["acc + n * n", "n - 1"]], oracle: o_squares, init: &[(-3, 3), (0, 6)] },
  Rec { name: "fib", params: &["n", "a", "b"], body: "if n = 0 then a else @0", calls: &[&["n - 1", "b", "a + b"]], oracle: o_fib, init: &[(0, 8), (0, 2), (1, 3)] },
  Rec { name: "power", params: &["b", "e", "acc"], body: "if e = 0 then acc else @0", calls: &[&["b", "e - 1", "acc * b"]], oracle: o_power, init: &[(-3, 3), (0, 5), (1, 2)] },
  Rec { name: "count", params: &["n", "acc", "step"], body: "if n = 0 then acc else @0", calls: &[&["n - 1", "acc + step * n", "step"]], oracle: o_count, init: &[(0, 6), (-2, 2), (-3, 3)] },
  Rec { name: "gcd", params: &["a", "b"], body: "if b = 0 then a else if a < b then @0 else @1", calls: &[&["b", "a"], &["a - b", "b"]], oracle: o_gcd, init: &[(1, 12), (1, 12)] },
  Rec { name: "rotate", params: &["n", "x", "y"], body: "if n = 0 then x * 10 + y else @0", calls: &[&["n - 1", "y", "x + n"]], oracle: o_rotate, init: &[(0, 5), (-2, 2), (-2, 2)] },
];

const REC_SITES: [&str; 6] = ["scope", "context entry", "scope, arguments crosswise", "for variable", "parameters of an enclosing lambda", "arguments by name"];

fn build_rec(site: &'static str, rng: &mut Rng, r: &Rec, form: &str) -> Built {
  let k = r.params.len();
  let mut body = r.body.to_string();
  for (i, c) in r.calls.iter().enumerate() {
    let args: Vec<String> = c.iter().map(|s| s.to_string()).collect();
    body = body.replace(&format!("@{}", i), &call(form, r.name, r.params, &args));
  }
  let fun_text = format!("function({}) {}", r.params.join(", "), body);
  let v: Vec<i64> = r.init.iter().map(|(lo, hi)| rng.range(*lo, *hi)).collect();
  let w: Vec<i64> = v.iter().map(|x| x + 2).collect(); // decoys
  let lits: Vec<String> = v.iter().map(|x| x.to_string()).collect();
  let fun0 = vec![(0usize, r.name.to_string())];
  let expected = pv_num((r.oracle)(&v));
  match site {
    "scope" => Built { site, text: call("by position", r.name, r.params, &lits), ctxs: vec![bind(r.params, &w)], funs: fun0, fun_text, expected },
    "arguments by name" => Built { site, text: call(*rng.pick(&FORMS[1..]), r.name, r.params, &lits), ctxs: vec![bind(r.params, &w)], funs: fun0, fun_text, expected },
    "context entry" => {
      let text = format!("{{{}: {}, result: {}}}.result", r.name, fun_text, call("by position", r.name, r.params, &lits));
      Built { site, text, ctxs: vec![bind(r.params, &w)], funs: vec![], fun_text, expected }
    }
    "scope, arguments crosswise" => {
      // the scope binds the parameter names to the initial values rotated by one; the call names them crosswise
      let p = permutation(rng, k);
      // argument i is the name params[p[i]], so the scope binds params[p[i]] to v[i]
      let mut in_scope = vec![0; k];
      for i in 0..k {
        in_scope[p[i]] = v[i];
      }
      let args: Vec<String> = p.iter().map(|i| r.params[*i].to_string()).collect();
      Built { site, text: call(*rng.pick(&FORMS), r.name, r.params, &args), ctxs: vec![bind(r.params, &in_scope)], funs: fun0, fun_text, expected }
    }
    "for variable" => {
      let i = rng.below(k as u64) as usize;
      let (lo, hi) = r.init[i];
      let mut items = vec![];
      let mut texts = vec![];
      for x in lo..=hi.min(lo + 4) {
        let mut vv = v.clone();
        vv[i] = x;
        items.push(pv_num((r.oracle)(&vv)));
        texts.push(x.to_string());
      }
      let mut args = lits.clone();
      args[i] = r.params[i].to_string();
      let text = format!("for {} in [{}] return {}", r.params[i], texts.join(", "), call(*rng.pick(&FORMS), r.name, r.params, &args));
      Built { site, text, ctxs: vec![bind(r.params, &w)], funs: fun0, fun_text, expected: pv_list(items) }
    }
    _ => {
      let p = permutation(rng, k);
      let outer_params: Vec<&str> = p.iter().map(|i| r.params[*i]).collect();
      let outer_vals: Vec<String> = p.iter().map(|i| v[*i].to_string()).collect();
      let names: Vec<String> = r.params.iter().map(|s| s.to_string()).collect();
      let inner = call(*rng.pick(&FORMS), r.name, r.params, &names);
      let text = call(*rng.pick(&FORMS), &format!("(function({}) {})", outer_params.join(", "), inner), &outer_params, &outer_vals);
      Built { site: "parameters of an enclosing lambda", text, ctxs: vec![bind(r.params, &w)], funs: fun0, fun_text, expected }
    }
  }
}

fn push(rep: &mut Report, rows: &mut Vec<(String, String, Case, Value)>, part: &str, form: &str, b: Built, fuel: u32) {
  if NEG_ZERO.with(|f| f.get()) {
    rep.hit("crossargs:not-judged(the expectation multiplies zero by a negative number: -0)");
    return;
  }
  let scope = b.ctxs.iter().map(|c| c.to_string()).collect::<Vec<_>>().join(" / ");
  let shown = if b.funs.is_empty() { format!("{} @ scope {}", b.text, scope) } else { format!("{} @ scope {} with {} = {} in context {}", b.text, scope, b.funs[0].1, b.fun_text, b.funs[0].0) };
  match run_case_in(&b.text, &b.ctxs, &b.funs, &b.fun_text, fuel) {
    Some(c) => {
      rep.hit(&format!("crossargs:{}, {}, {}", part, b.site, form));
      let sig = format!("{} of a user-defined function {}, names spelled like its parameters bound by the caller ({}): the value is not the body's value for the argument values of the caller's scope", part, form, b.site);
      rows.push((sig, shown, c, b.expected));
    }
    None => {
      // every text of this family is a well-formed expression
      rep.disagree(crate::report::Kind::ImplVsSpec, "crossargs", "a well-formed invocation text is rejected by the parser (crossargs)", &shown, "parse error", "a syntax tree");
    }
  }
}

/// the recursive cases, the same list in the harness and in its child
fn rec_builds(seed: u64, thorough: bool) -> Vec<(&'static str, Built, bool)> {
  let mut rng = Rng::new(seed ^ 0x7ec0_5a26);
  let mut out = vec![];
  for r in RECS.iter() {
    for site in REC_SITES {
      for form in FORMS {
        for _ in 0..(if thorough { 20 } else { 4 }) {
          NEG_ZERO.with(|f| f.set(false));
          let b = build_rec(site, &mut rng, r, form);
          out.push((form, b, NEG_ZERO.with(|f| f.get())));
        }
      }
    }
  }
  out
}

/// `vharness child c01 crossargs-rec <seed> <tier>`: evaluates the recursive cases one by one, printing `case <i>`
/// before each and `done` after the last
pub fn child(args: &[String], _input: &str) -> i32 {
  use std::io::Write;
  let seed: u64 = args.get(1).and_then(|s| s.parse().ok()).unwrap_or(1);
  let thorough = args.get(2).map(|s| s == "thorough").unwrap_or(false);
  let so = std::io::stdout();
  for (i, (_, b, _)) in rec_builds(seed, thorough).into_iter().enumerate() {
    let _ = writeln!(so.lock(), "case {} {}", i, b.text);
    let _ = so.lock().flush();
    let _ = run_case_in(&b.text, &b.ctxs, &b.funs, &b.fun_text, 64);
  }
  let _ = writeln!(so.lock(), "done");
  let _ = so.lock().flush();
  0
}

pub fn crossargs_family(cfg: &Cfg, rep: &mut Report, model: &mut Model) {
  let mut rng = Rng::new(cfg.seed ^ 0xc205_5a26);
  let thorough = cfg.tier == "thorough";
  let mut rows = vec![];
  for k in [2usize, 3] {
    let pool = arg_pool(k);
    let bodies = bodies(k);
    // every pair of argument forms for two parameters; a sample of the triples
    let mut tuples: Vec<Vec<usize>> = vec![];
    if k == 2 {
      for i in 0..pool.len() {
        for j in 0..pool.len() {
          tuples.push(vec![i, j]);
        }
      }
    } else {
      for _ in 0..(if thorough { 3000 } else { 250 }) {
        tuples.push((0..3).map(|_| rng.below(pool.len() as u64) as usize).collect());
      }
    }
    for _round in 0..(if thorough { 4 } else { 1 }) {
      for t in &tuples {
        let args: Vec<&Tm> = t.iter().map(|i| &pool[*i]).collect();
        for site in SITES {
          let params: Vec<&str> = if k == 2 { rng.pick(&NAMES2).to_vec() } else { rng.pick(&NAMES3).to_vec() };
          let body = &bodies[rng.below(bodies.len() as u64) as usize];
          let form = if rng.chance(1, 2) { FORMS[0] } else { *rng.pick(&FORMS[1..]) };
          NEG_ZERO.with(|f| f.set(false));
          let b = build(site, &mut rng, &params, body, &args, form);
          push(rep, &mut rows, "invocation", form, b, 8);
        }
      }
    }
  }
  let n_plain = rows.len();
  // the recursive cases run first in a child of the harness: a wrong argument value can make a recursion endless
  // (stack overflow aborts the process); only the cases the child came through are evaluated in this process
  let tier = if thorough { "thorough" } else { "quick" };
  let (end, out) = crate::util::child(&["c01", "crossargs-rec", &cfg.seed.to_string(), tier], "", if thorough { 3_600_000 } else { 600_000 });
  let reached: Vec<&str> = out.lines().collect();
  let complete = end == "ok" && reached.last() == Some(&"done");
  let safe = if complete { usize::MAX } else { reached.iter().filter(|l| l.starts_with("case ")).count().saturating_sub(1) };
  let mut ix = 0usize;
  for (form, b, neg_zero) in rec_builds(cfg.seed, thorough) {
    if ix < safe {
      NEG_ZERO.with(|f| f.set(neg_zero));
      push(rep, &mut rows, "recursive invocation", form, b, 64);
    } else if ix == safe {
      let shown = format!("{} @ scope {} with {} = {}", b.text, b.ctxs.iter().map(|c| c.to_string()).collect::<Vec<_>>().join(" / "), b.funs.first().map(|f| f.1.as_str()).unwrap_or("(context entry)"), b.fun_text);
      let sig = format!("recursive invocation of a user-defined function {} ({}): the evaluation does not come to an end (the process is aborted or runs into the time limit)", form, b.site);
      rep.disagree(crate::report::Kind::ImplVsSpec, "crossargs", &sig, &shown, &format!("child process: {}", end), &super::value_text(&b.expected));
    }
    ix += 1;
  }
  rep.extra.insert("crossargs_cases".into(), json!(rows.len()));
  rep.extra.insert("crossargs_recursive_cases".into(), json!(rows.len() - n_plain));
  judge_written_out(rep, model, "crossargs", rows);
}
