//! Family `folded` (C01): composite expressions *all* of whose parts look like literals without being literals — an
//! arithmetic negation of a name / a path / an invocation / a parenthesised expression, a parenthesised name, a
//! nested list, context or range written with names — next to real literals, in every construct that takes a list of
//! parts: list, nested list, context entries, positional and named arguments (of a lambda, of a function defined in a
//! context entry, of a built-in), the items of an in-list and of an expression list, the end points of a range
//! iteration and of an interval, the operands of between, of the binary operators, of if, the domains of for / some /
//! every, a filter's list and index.  The names are bound — in the scope (top / bottom context), by earlier context
//! entries, as formal parameters, as iteration variables of one and of several iterations — and every text is
//! evaluated under two different sets of values, so a value computed from anything but the bindings in force
//! (computed once when the evaluator is built, in an empty scope, or in the first scope met) shows.
//!
//! Expectations: every part carries its value as a function of the bindings, every construct its meaning as a Rust
//! closure over a value type of its own (`Qv` of the `positions` module).  Neither the parser nor the evaluator of
//! the implementation takes part in an expectation; the Lean model evaluates every case too.

use super::positions::Qv;
use super::{run_case, Case};
use crate::model::Model;
use crate::report::{Kind, Report};
use crate::rng::Rng;
use crate::Cfg;
use dmntk_feel::context::FeelContext;
use dmntk_feel::values::Value;
use dmntk_feel::Name;
use serde_json::json;

/// The values bound to the names `vx`, `vy`, `vz` (numbers), `vb` (boolean), `vc` (context `{a: …}`), `vl` (list).
#[derive(Clone, Debug)]
pub struct Env {
  x: i64,
  y: i64,
  z: i64,
  b: bool,
  ca: i64,
  l: Vec<i64>,
}

const NAMES: [&str; 6] = ["vx", "vy", "vz", "vb", "vc", "vl"];

impl Env {
  fn value_of(&self, name: &str) -> Qv {
    match name {
      "vx" => Qv::N(self.x),
      "vy" => Qv::N(self.y),
      "vz" => Qv::N(self.z),
      "vb" => Qv::B(self.b),
      "vc" => Qv::C(vec![("a".to_string(), Qv::N(self.ca))]),
      _ => Qv::L(self.l.iter().map(|k| Qv::N(*k)).collect()),
    }
  }
}

#[derive(Clone, Copy, PartialEq, Eq, Debug)]
enum Kd {
  Num,
  Bool,
  Null,
  Other,
}

struct Part {
  text: &'static str,
  /// the part refers to a bound name (its value depends on the scope)
  dependent: bool,
  /// the part is a literal, a negation, a parenthesised name or a list / context of such: "looks like a literal"
  looks_literal: bool,
  value: fn(&Env) -> Qv,
}

fn kind_of(v: &Qv) -> Kd {
  match v {
    Qv::N(_) => Kd::Num,
    Qv::B(_) => Kd::Bool,
    Qv::Null => Kd::Null,
    _ => Kd::Other,
  }
}

fn n(k: i64) -> Qv {
  Qv::N(k)
}

fn parts() -> Vec<Part> {
  fn p(text: &'static str, dependent: bool, looks_literal: bool, value: fn(&Env) -> Qv) -> Part {
    Part { text, dependent, looks_literal, value }
  }
  vec![
    // ---- negations of something that is not a literal
    p("-vx", true, true, |e| n(-e.x)),
    p("-vy", true, true, |e| n(-e.y)),
    p("- vx", true, true, |e| n(-e.x)),
    p("-(vx)", true, true, |e| n(-e.x)),
    p("(-vy)", true, true, |e| n(-e.y)),
    p("-(-vx)", true, true, |e| n(e.x)),
    p("--vy", true, true, |e| n(e.y)),
    p("-(vx + vy)", true, true, |e| n(-(e.x + e.y))),
    p("-(vx * 2)", true, true, |e| n(-(e.x * 2))),
    p("-vc.a", true, true, |e| n(-e.ca)),
    p("-(vc.a)", true, true, |e| n(-e.ca)),
    p("-vl[1]", true, true, |e| n(-e.l[0])),
    p("-vl[-1]", true, true, |e| n(-e.l[e.l.len() - 1])),
    p("-(if vb then vx else vy)", true, true, |e| n(-(if e.b { e.x } else { e.y }))),
    p("-(function (p9) p9 + vx)(1)", true, true, |e| n(-(1 + e.x))),
    p("-({k: vx}.k)", true, true, |e| n(-e.x)),
    p("-[vx, vy][2]", true, true, |e| n(-e.y)),
    p("-count(vl)", true, true, |e| n(-(e.l.len() as i64))),
    p("-sum(vx, vy)", true, true, |e| n(-(e.x + e.y))),
    p("-vz", true, true, |e| n(-e.z)),
    // negations whose value is null
    p("-vb", true, true, |_| Qv::Null),
    p("-vl", true, true, |_| Qv::Null),
    p("-null", false, true, |_| Qv::Null),
    // ---- parenthesised names
    p("(vx)", true, true, |e| n(e.x)),
    p("((vy))", true, true, |e| n(e.y)),
    p("(vb)", true, true, |e| Qv::B(e.b)),
    p("(vl)", true, true, |e| e.value_of("vl")),
    p("(vc)", true, true, |e| e.value_of("vc")),
    // ---- lists, contexts and ranges written with names
    p("[-vx]", true, true, |e| Qv::L(vec![n(-e.x)])),
    p("[-vx, 1]", true, true, |e| Qv::L(vec![n(-e.x), n(1)])),
    p("[[-vy], []]", true, true, |e| Qv::L(vec![Qv::L(vec![n(-e.y)]), Qv::L(vec![])])),
    p("[(vx)]", true, true, |e| Qv::L(vec![n(e.x)])),
    p("{k: -vx}", true, true, |e| Qv::C(vec![("k".to_string(), n(-e.x))])),
    p("[vz..vx]", true, true, |e| Qv::R(Box::new(n(e.z)), Box::new(n(e.x)))),
    p("[vc.a..vc.a]", true, true, |e| Qv::R(Box::new(n(e.ca)), Box::new(n(e.ca)))),
    // ---- real literals
    p("1", false, true, |_| n(1)),
    p("-1", false, true, |_| n(-1)),
    p("-2", false, true, |_| n(-2)),
    p("0", false, true, |_| n(0)),
    p("7", false, true, |_| n(7)),
    p("true", false, true, |_| Qv::B(true)),
    p("false", false, true, |_| Qv::B(false)),
    p("null", false, true, |_| Qv::Null),
    p("[]", false, true, |_| Qv::L(vec![])),
    p("[1, -2]", false, true, |_| Qv::L(vec![n(1), n(-2)])),
    // ---- plain names and other expressions (the controls: not literal-looking)
    p("vx", true, false, |e| n(e.x)),
    p("vy", true, false, |e| n(e.y)),
    p("(vx + 1)", true, false, |e| n(e.x + 1)),
    p("vb", true, false, |e| Qv::B(e.b)),
  ]
}

#[derive(Clone, Copy, PartialEq, Eq, Debug)]
enum Slot {
  Any,
  Num,
  Bool,
}

struct Construct {
  name: &'static str,
  slots: Vec<Slot>,
  text: Box<dyn Fn(&[String]) -> String>,
  sem: Box<dyn Fn(&[Qv]) -> Option<Qv>>,
  /// calls a built-in function: not evaluated by the Lean model of this check (stubs)
  builtin: bool,
}

fn nums(vs: &[Qv]) -> Option<Vec<i64>> {
  vs.iter().map(|v| if let Qv::N(k) = v { Some(*k) } else { None }).collect()
}

fn constructs() -> Vec<Construct> {
  fn c(name: &'static str, slots: Vec<Slot>, text: impl Fn(&[String]) -> String + 'static, sem: impl Fn(&[Qv]) -> Option<Qv> + 'static) -> Construct {
    Construct { name, slots, text: Box::new(text), sem: Box::new(sem), builtin: false }
  }
  use Slot::*;
  let b = |v: bool| Some(Qv::B(v));
  let mut out = vec![
    c("list of one item", vec![Any], |a| format!("[{}]", a[0]), |v| Some(Qv::L(v.to_vec()))),
    c("list of two items", vec![Any, Any], |a| format!("[{}, {}]", a[0], a[1]), |v| Some(Qv::L(v.to_vec()))),
    c("list of three items", vec![Any, Any, Any], |a| format!("[{}, {}, {}]", a[0], a[1], a[2]), |v| Some(Qv::L(v.to_vec()))),
    c("nested list", vec![Any, Any, Any], |a| format!("[[{}], [{}, {}]]", a[0], a[1], a[2]), |v| Some(Qv::L(vec![Qv::L(vec![v[0].clone()]), Qv::L(vec![v[1].clone(), v[2].clone()])]))),
    c("list followed by an index", vec![Any, Any], |a| format!("[{}, {}][2]", a[0], a[1]), |v| Some(v[1].clone())),
    c("context entries", vec![Any, Any], |a| format!("{{k1: {}, k2: {}}}", a[0], a[1]), |v| Some(Qv::C(vec![("k1".to_string(), v[0].clone()), ("k2".to_string(), v[1].clone())]))),
    c("context entry read through a path", vec![Any], |a| format!("{{k1: {}}}.k1", a[0]), |v| Some(v[0].clone())),
    c("context nested in a context", vec![Any, Any], |a| format!("{{k1: {{k2: {}}}, k3: {}}}", a[0], a[1]), |v| {
      Some(Qv::C(vec![("k1".to_string(), Qv::C(vec![("k2".to_string(), v[0].clone())])), ("k3".to_string(), v[1].clone())]))
    }),
    c("positional arguments of a lambda", vec![Any, Any, Any], |a| format!("(function (p9, q9, r9) [r9, q9, p9])({}, {}, {})", a[0], a[1], a[2]), |v| Some(Qv::L(vec![v[2].clone(), v[1].clone(), v[0].clone()]))),
    c("named arguments of a lambda", vec![Any, Any], |a| format!("(function (p9, q9) [q9, p9])(q9: {}, p9: {})", a[0], a[1]), |v| Some(Qv::L(vec![v[0].clone(), v[1].clone()]))),
    c("positional arguments of a function defined in a context entry", vec![Any, Any], |a| format!("{{f: function (p9, q9) [q9, p9], r: f({}, {})}}.r", a[0], a[1]), |v| Some(Qv::L(vec![v[1].clone(), v[0].clone()]))),
    c("named arguments of a function defined in a context entry", vec![Any, Any], |a| format!("{{f: function (p9, q9) [q9, p9], r: f(p9: {}, q9: {})}}.r", a[0], a[1]), |v| Some(Qv::L(vec![v[1].clone(), v[0].clone()]))),
    c("items of an in-list", vec![Num, Num, Num], |a| format!("{} in [{}, {}]", a[0], a[1], a[2]), |v| nums(v).map(|k| Qv::B(k[0] == k[1] || k[0] == k[2]))),
    c("items of an expression list", vec![Num, Num, Num], |a| format!("{} in ({}, {})", a[0], a[1], a[2]), |v| nums(v).map(|k| Qv::B(k[0] == k[1] || k[0] == k[2]))),
    c("end points of a range iteration", vec![Num, Num], |a| format!("for p9 in {}..{} return p9", a[0], a[1]), |v| {
      nums(v).map(|k| Qv::L(if k[0] <= k[1] { (k[0]..=k[1]).map(Qv::N).collect() } else { (k[1]..=k[0]).rev().map(Qv::N).collect() }))
    }),
    c("operands of between", vec![Num, Num, Num], |a| format!("{} between {} and {}", a[0], a[1], a[2]), |v| nums(v).map(|k| Qv::B(k[1] <= k[0] && k[0] <= k[2]))),
    c("operands of +", vec![Num, Num], |a| format!("{} + {}", a[0], a[1]), |v| nums(v).map(|k| Qv::N(k[0] + k[1]))),
    c("operands of -", vec![Num, Num], |a| format!("{} - {}", a[0], a[1]), |v| nums(v).map(|k| Qv::N(k[0] - k[1]))),
    // a product with a zero factor has the sign of a decimal zero (-2 * 0 is -0): not a matter of this family
    c("operands of *", vec![Num, Num], |a| format!("{} * {}", a[0], a[1]), |v| nums(v).and_then(|k| if k[0] == 0 || k[1] == 0 { None } else { Some(Qv::N(k[0] * k[1])) })),
    c("operands of <", vec![Num, Num], |a| format!("{} < {}", a[0], a[1]), |v| nums(v).map(|k| Qv::B(k[0] < k[1]))),
    c("operands of >=", vec![Num, Num], |a| format!("{} >= {}", a[0], a[1]), |v| nums(v).map(|k| Qv::B(k[0] >= k[1]))),
    c("operands of =", vec![Num, Num], |a| format!("{} = {}", a[0], a[1]), |v| nums(v).map(|k| Qv::B(k[0] == k[1]))),
    c("operands of !=", vec![Num, Num], |a| format!("{} != {}", a[0], a[1]), |v| nums(v).map(|k| Qv::B(k[0] != k[1]))),
    c("operands of and", vec![Bool, Bool], |a| format!("{} and {}", a[0], a[1]), move |v| match (&v[0], &v[1]) {
      (Qv::B(p), Qv::B(q)) => b(*p && *q),
      _ => None,
    }),
    c("operands of or", vec![Bool, Bool], |a| format!("{} or {}", a[0], a[1]), move |v| match (&v[0], &v[1]) {
      (Qv::B(p), Qv::B(q)) => b(*p || *q),
      _ => None,
    }),
    c("condition and branches of if", vec![Bool, Any, Any], |a| format!("if {} then {} else {}", a[0], a[1], a[2]), |v| match &v[0] {
      Qv::B(true) => Some(v[1].clone()),
      Qv::B(false) => Some(v[2].clone()),
      _ => None,
    }),
    c("domain list of a for", vec![Any, Any], |a| format!("for p9 in [{}, {}] return [p9]", a[0], a[1]), |v| Some(Qv::L(vec![Qv::L(vec![v[0].clone()]), Qv::L(vec![v[1].clone()])]))),
    c("two domain lists of a for", vec![Any, Any], |a| format!("for p9 in [{}], q9 in [{}] return [q9, p9]", a[0], a[1]), |v| Some(Qv::L(vec![Qv::L(vec![v[1].clone(), v[0].clone()])]))),
    c("domain list of a some", vec![Num, Num, Num], |a| format!("some p9 in [{}, {}] satisfies p9 = {}", a[0], a[1], a[2]), |v| nums(v).map(|k| Qv::B(k[0] == k[2] || k[1] == k[2]))),
    c("domain list of an every", vec![Num, Num, Num], |a| format!("every p9 in [{}, {}] satisfies p9 >= {}", a[0], a[1], a[2]), |v| nums(v).map(|k| Qv::B(k[0] >= k[2] && k[1] >= k[2]))),
    c("list and numeric index of a filter", vec![Any, Any, Num], |a| format!("[{}, {}][{}]", a[0], a[1], a[2]), |v| match &v[2] {
      Qv::N(1) | Qv::N(-2) => Some(v[0].clone()),
      Qv::N(2) | Qv::N(-1) => Some(v[1].clone()),
      Qv::N(_) => Some(Qv::Null),
      _ => None,
    }),
    c("list of a filter with a predicate", vec![Num, Num, Num], |a| format!("[{}, {}, 100][item > {}]", a[0], a[1], a[2]), |v| {
      nums(v).map(|k| {
        let kept: Vec<Qv> = [k[0], k[1], 100].iter().filter(|x| **x > k[2]).map(|x| Qv::N(*x)).collect();
        if kept.len() == 1 {
          kept[0].clone()
        } else {
          Qv::L(kept)
        }
      })
    }),
    c("negation of a negation", vec![Num], |a| format!("-({})", a[0]), |v| nums(v).map(|k| Qv::N(-k[0]))),
    c("instance of", vec![Any], |a| format!("({}) instance of number", a[0]), |v| Some(Qv::B(matches!(v[0], Qv::N(_))))),
  ];
  let mut bi = |name: &'static str, slots: Vec<Slot>, text: Box<dyn Fn(&[String]) -> String>, sem: Box<dyn Fn(&[Qv]) -> Option<Qv>>| {
    out.push(Construct { name, slots, text, sem, builtin: true });
  };
  bi("positional arguments of a built-in (sum)", vec![Num, Num, Num], Box::new(|a| format!("sum({}, {}, {})", a[0], a[1], a[2])), Box::new(|v| nums(v).map(|k| Qv::N(k[0] + k[1] + k[2]))));
  bi("list argument of a built-in (max)", vec![Num, Num], Box::new(|a| format!("max([{}, {}])", a[0], a[1])), Box::new(|v| nums(v).map(|k| Qv::N(k[0].max(k[1])))));
  bi("named argument of a built-in (count)", vec![Any, Any], Box::new(|a| format!("count(list: [{}, {}])", a[0], a[1])), Box::new(|_| Some(Qv::N(2))));
  bi("positional arguments of a built-in (append)", vec![Any, Any], Box::new(|a| format!("append([{}], {})", a[0], a[1])), Box::new(|v| Some(Qv::L(vec![v[0].clone(), v[1].clone()]))));
  out
}

fn slot_fits(s: Slot, k: Kd) -> bool {
  match s {
    Slot::Any => true,
    Slot::Num => k == Kd::Num,
    Slot::Bool => k == Kd::Bool,
  }
}

fn lit(v: &Qv) -> String {
  v.text().unwrap_or_else(|| "null".into())
}

/// Where the names are bound.  Returns (site, text, expectation, contexts of the scope).
fn sites(e_text: &str, envs: &[Env], value: &dyn Fn(&Env) -> Option<Qv>) -> Vec<(&'static str, String, Option<Qv>, Vec<FeelContext>)> {
  let bind = |names: &[&str], env: &Env, ctx: &mut FeelContext| {
    for nm in names {
      ctx.set_entry(&Name::from(*nm), env.value_of(nm).value());
    }
  };
  let mut out = vec![];
  for (k, env) in envs.iter().enumerate() {
    // -- scope, all names in one context; split over two contexts with shadowed values underneath
    let mut one = FeelContext::default();
    bind(&NAMES, env, &mut one);
    out.push((if k == 0 { "scope, first values" } else { "scope, second values" }, e_text.to_string(), value(env), vec![one]));
    let mut bottom = FeelContext::default();
    let mut top = FeelContext::default();
    bind(&NAMES, &envs[(k + 1) % envs.len()], &mut bottom);
    bind(&["vz", "vc", "vl"], env, &mut bottom);
    bind(&["vx", "vy", "vb"], env, &mut top);
    out.push(("scope of two contexts, other values shadowed underneath", e_text.to_string(), value(env), vec![bottom, top]));
  }
  let env = &envs[0];
  // the names introduced by the text itself: the numbers and the boolean (the context and the list stay in the scope:
  // the keys nested in a value that is met only at evaluation time are not names the lexer knows — C10's findings)
  let intro = &NAMES[..4];
  let rest = || {
    let mut ctx = FeelContext::default();
    bind(&NAMES[4..], env, &mut ctx);
    ctx
  };
  let all = |env: &Env| intro.iter().map(|nm| format!("{}: {}", nm, lit(&env.value_of(nm)))).collect::<Vec<_>>().join(", ");
  out.push(("earlier context entries", format!("{{{}, r: {}}}.r", all(env), e_text), value(env), vec![rest()]));
  out.push((
    "formal parameters",
    format!("(function ({}) {})({})", intro.join(", "), e_text, intro.iter().map(|nm| lit(&env.value_of(nm))).collect::<Vec<_>>().join(", ")),
    value(env),
    vec![rest()],
  ));
  out.push((
    "iteration variables (one iteration)",
    format!("for {} return {}", intro.iter().map(|nm| format!("{} in [{}]", nm, lit(&env.value_of(nm)))).collect::<Vec<_>>().join(", "), e_text),
    value(env).map(|v| Qv::L(vec![v])),
    vec![rest()],
  ));
  // -- vx is the variable of a for over several values, the other names come from the scope
  {
    let mut ctx = FeelContext::default();
    bind(&NAMES[1..], env, &mut ctx);
    let xs = [env.x, env.x + 3, envs[1].x];
    let mut vals = vec![];
    let mut ok = true;
    for x in xs {
      let mut e2 = env.clone();
      e2.x = x;
      match value(&e2) {
        Some(v) => vals.push(v),
        None => ok = false,
      }
    }
    out.push((
      "variable of a for over several values",
      format!("for vx in [{}, {}, {}] return {}", xs[0], xs[1], xs[2], e_text),
      if ok { Some(Qv::L(vals)) } else { None },
      vec![ctx],
    ));
  }
  // -- vx, vy are the parameters of a function defined in a context entry and invoked twice
  {
    let mut ctx = FeelContext::default();
    bind(&NAMES[2..], env, &mut ctx);
    let mut e2 = env.clone();
    e2.x = envs[1].x;
    e2.y = envs[1].y;
    let want = match (value(env), value(&e2)) {
      (Some(a), Some(b)) => Some(Qv::L(vec![a, b])),
      _ => None,
    };
    out.push((
      "parameters of a function of a context entry, invoked twice",
      format!("{{f: function (vx, vy) {}, r: [f({}, {}), f({}, {})]}}.r", e_text, env.x, env.y, e2.x, e2.y),
      want,
      vec![ctx],
    ));
  }
  out
}

pub fn folded_family(cfg: &Cfg, rep: &mut Report, model: &mut Model) {
  let thorough = cfg.tier == "thorough";
  let mut rng = Rng::new(cfg.seed ^ 0xf01d_ed);
  let envs = vec![
    Env { x: 2, y: 3, z: 1, b: true, ca: 4, l: vec![7, 8] },
    Env { x: rng.range(4, 9), y: -rng.range(1, 6), z: rng.range(2, 3), b: false, ca: rng.range(10, 20), l: vec![rng.range(1, 5), rng.range(10, 15), 6] },
  ];
  let ps = parts();
  let cs = constructs();
  let mut rows: Vec<(String, String, Case, Value)> = vec![];
  let mut skip_model: std::collections::BTreeSet<String> = Default::default();
  let mut unparsable = 0u64;
  let mut composed = 0u64;
  let kinds: Vec<Kd> = ps.iter().map(|p| kind_of(&(p.value)(&envs[0]))).collect();
  for c in &cs {
    for (fi, f) in ps.iter().enumerate() {
      if !f.dependent {
        continue;
      }
      for slot in 0..c.slots.len() {
        if !slot_fits(c.slots[slot], kinds[fi]) {
          continue;
        }
        // the other slots: parts that look like literals (the class), or — one round in three — any part (the controls)
        let rounds = if thorough { 4 } else { 1 };
        for round in 0..rounds {
          let all_literal_looking = f.looks_literal && (round > 0 || !rng.chance(1, 3));
          let mut chosen: Vec<usize> = vec![];
          for s in 0..c.slots.len() {
            if s == slot {
              chosen.push(fi);
              continue;
            }
            let cands: Vec<usize> = (0..ps.len()).filter(|&i| slot_fits(c.slots[s], kinds[i]) && (!all_literal_looking || ps[i].looks_literal)).collect();
            chosen.push(*rng.pick(&cands));
          }
          let texts: Vec<String> = chosen.iter().map(|&i| ps[i].text.to_string()).collect();
          let e_text = (c.text)(&texts);
          let value = |env: &Env| -> Option<Qv> {
            let vs: Vec<Qv> = chosen.iter().map(|&i| (ps[i].value)(env)).collect();
            (c.sem)(&vs)
          };
          composed += 1;
          let class = if chosen.iter().all(|&i| ps[i].looks_literal) { "all parts look like literals" } else { "some part is a plain name" };
          let keep_a = 4 + rng.below(5) as usize;
          let keep_b = 4 + rng.below(5) as usize;
          for (si, (site, text, want, ctxs)) in sites(&e_text, &envs, &value).into_iter().enumerate() {
            // the scope under both sets of values always; two of the other sites (all of them in the thorough tier)
            if !thorough && !(si == 0 || si == 2 || si == keep_a || si == keep_b) {
              continue;
            }
            let want = match want {
              Some(w) => w,
              None => continue,
            };
            match run_case(&text, &ctxs, 10) {
              Some(case) => {
                rep.hit(&format!("folded:{}; {}; {}", c.name, class, site));
                if c.builtin || chosen.iter().any(|&i| ps[i].text.contains("count(") || ps[i].text.contains("sum(")) {
                  skip_model.insert(case.request.clone());
                }
                let sig = format!("a composite expression whose parts are negations, parenthesised names or literals does not have the value its parts have under the bindings in force: {}", c.name);
                let scope_note = format!(" @ scope {}", ctxs.iter().map(|x| x.to_string()).collect::<Vec<_>>().join(" / "));
                rows.push((sig, format!("{}{}", text, scope_note), case, want.value()));
              }
              None => {
                unparsable += 1;
                rep.hit("folded:not-judged(the parser rejects the text)");
                if unparsable <= 3 {
                  rep.extra.insert(format!("folded_unparsable_example_{}", unparsable), json!(text));
                }
              }
            }
          }
        }
      }
    }
  }
  rep.extra.insert("folded_cases".into(), json!(rows.len()));
  rep.extra.insert("folded_compositions".into(), json!(composed));
  rep.extra.insert("folded_unparsable".into(), json!(unparsable));
  if rows.len() < 2000 {
    rep.disagree(Kind::ImplVsModel, "folded", "the folded family judged fewer cases than it is meant to (the parser rejects its texts)", &format!("{} cases, {} rejected", rows.len(), unparsable), "-", "at least 2000 cases");
  }
  super::judge_written_out_with(rep, model, "folded", rows, &|c: &Case| !skip_model.contains(&c.request));
}
