//! C03 — decision tables return what their hit policy prescribes.
//!
//! Implementation: a generated table rendered as DMN XML inside a one-decision model →
//! `dmntk_model::parse` → `ModelEvaluator::new` → `evaluate_invocable` (this path includes
//! `parse_hit_policy_attribute` and the whole of `decision_table.rs`).
//! Model: `Dmn.DT.evaluate`; specification: `Dmn.DT.Spec.evaluate` (both through the driver).
//!
//! Numbers travel by value, in the normal form of `Dmn/Model/DNum.lean` (`number_norm`): coefficient and scale,
//! a fraction without trailing zeros — the table logic observes a number through `FeelNumber`'s numeric equality,
//! order and `+=` only.
//!
//! FEEL evaluation is given data for the model: every cell is evaluated here with the real
//! FEEL evaluator exactly as `parse_decision_table` composes it — input entry *i* as
//! `In(inputExpr_i, entry_i)` (conjoined with `In(inputExpr_i, inputValues_i)`), output entry
//! as the expression itself or `Out(entry, outputValues)` — and the resulting matrix
//! (true/false/other per input entry, a value per output entry) is shipped with the table's
//! structure.

use crate::model::Model;
use crate::report::{Kind, Report};
use crate::rng::Rng;
use crate::sexp::Sexp;
use crate::util::guarded;
use crate::Cfg;
use dmntk_feel::context::FeelContext;
use dmntk_feel::values::Value;
use dmntk_feel::{AstNode, Name, Scope};
use dmntk_model_evaluator::ModelEvaluator;
use serde_json::json;

/// The *value* of a finite number in the normal form of `Dmn/Model/DNum.lean`: signed coefficient and scale
/// (`coefficient / 10^scale`), a fraction without trailing zeros, an integer with scale 0 — `(n 15 2)` for 0.15 and
/// 0.150, `(n 1)` for 1, 1.0 and 1.00, `(n 100)` for 100 and 1E+2. `FeelNumber`'s equality and order are numeric
/// (`number.rs:218`, `:236`): the representation is not observed by the model layer.
pub fn number_norm(n: &dmntk_feel::FeelNumber) -> Option<(String, u32)> {
  let text = n.to_string();
  if text.contains("Inf") || text.contains("NaN") {
    return None;
  }
  let (neg, mut digits, mut exp) = crate::vals::number_parts(n);
  if exp > 8000 {
    return None;
  }
  while exp > 0 {
    digits.push('0');
    exp -= 1;
  }
  while exp < 0 && digits.len() > 1 && digits.ends_with('0') {
    digits.pop();
    exp += 1;
  }
  if digits.chars().all(|c| c == '0') {
    return Some(("0".to_string(), 0));
  }
  Some((format!("{}{}", if neg { "-" } else { "" }, digits), (-exp) as u32))
}

fn number_sexp(n: &dmntk_feel::FeelNumber) -> Option<Sexp> {
  let (c, s) = number_norm(n)?;
  Some(if s == 0 { Sexp::tagged("n", vec![Sexp::atom(c)]) } else { Sexp::tagged("n", vec![Sexp::atom(c), Sexp::int(s)]) })
}

/// A value of the model layer as the S-expression of `Dmn/Driver/C03.lean`; `None` for values
/// outside the model's value type (ranges, functions …).
pub fn value_sexp(v: &Value) -> Option<Sexp> {
  Some(match v {
    Value::Null(_) => Sexp::atom("null"),
    Value::Boolean(b) => Sexp::tagged("b", vec![Sexp::bool(*b)]),
    Value::Number(n) => number_sexp(n)?,
    Value::String(s) => Sexp::str(s),
    Value::Date(d) => Sexp::tagged("a", vec![Sexp::atom("date"), Sexp::str(&d.to_string())]),
    Value::Time(d) => Sexp::tagged("a", vec![Sexp::atom("time"), Sexp::str(&d.to_string())]),
    Value::DateTime(d) => Sexp::tagged("a", vec![Sexp::atom("dateTime"), Sexp::str(&d.to_string())]),
    Value::DaysAndTimeDuration(d) => Sexp::tagged("a", vec![Sexp::atom("dtDur"), Sexp::str(&d.to_string())]),
    Value::YearsAndMonthsDuration(d) => Sexp::tagged("a", vec![Sexp::atom("ymDur"), Sexp::str(&d.to_string())]),
    Value::List(vs) => {
      let mut xs = vec![];
      for x in vs.as_vec() {
        xs.push(value_sexp(x)?);
      }
      Sexp::tagged("l", xs)
    }
    Value::Context(ctx) => {
      let mut xs = vec![];
      for (k, x) in ctx.get_entries() {
        xs.push(Sexp::list(vec![Sexp::str(&k.to_string()), value_sexp(x)?]));
      }
      Sexp::tagged("c", xs)
    }
    _ => return None,
  })
}

pub fn xml_escape(s: &str) -> String {
  s.replace('&', "&amp;").replace('<', "&lt;").replace('>', "&gt;").replace('"', "&quot;")
}

#[derive(Clone, Copy, PartialEq, Debug)]
enum Ty {
  Num,
  Str,
  Bool,
}

impl Ty {
  fn type_ref(self) -> &'static str {
    match self {
      Ty::Num => "number",
      Ty::Str => "string",
      Ty::Bool => "boolean",
    }
  }
}

const STRS: [&str; 5] = ["a", "b", "c", "d", "e"];

fn lit(ty: Ty, rng: &mut Rng) -> String {
  match ty {
    Ty::Num => format!("{}", rng.range(1, 6)),
    Ty::Str => format!("\"{}\"", rng.pick(&STRS)),
    Ty::Bool => (if rng.chance(1, 2) { "true" } else { "false" }).to_string(),
  }
}

/// Decimal literals: values written with and without trailing zeros (1.0 / 1.00 / 1, 1.10 / 1.1, 0.15 / 0.150,
/// 2.5 / 2.50, -0.5 / -0.50), neighbours in the last place (1.01), a small one.
const DECS: [&str; 15] = ["1.0", "1.00", "1", "1.10", "1.1", "1.01", "0.15", "0.150", "-0.5", "-0.50", "0.5", "2.5", "2.50", "0.001", "3"];

fn dlit(rng: &mut Rng) -> String {
  rng.pick(&DECS).to_string()
}

/// The same value written with another number of trailing zeros.
fn respell(d: &str, rng: &mut Rng) -> String {
  if d.contains('.') {
    if d.ends_with('0') && rng.chance(1, 2) {
      d[..d.len() - 1].trim_end_matches('.').to_string()
    } else {
      format!("{}0", d)
    }
  } else if rng.chance(1, 2) {
    format!("{}.0", d)
  } else {
    d.to_string()
  }
}

/// An input entry over decimals and a value that satisfies it.
fn dec_input_entry(rng: &mut Rng) -> (String, &'static str, Option<String>) {
  let (a, b) = (dlit(rng), dlit(rng));
  let shape = rng.below(8);
  // the endpoint of a comparison or of an interval cannot be a negative literal in this parser (`< -1` and `[-1..1]`
  // are syntax errors: the grammar has `simple_literal: NUMERIC` only — reported as a finding of the grammar, not of
  // C03); negative literals stand as alternatives (`-0.5`, `not(-0.5, 1)`) only
  let unsign = |x: String| x.trim_start_matches('-').to_string();
  let (a, b) = if matches!(shape, 2 | 3 | 6) { (unsign(a), unsign(b)) } else { (a, b) };
  match shape {
    0 | 1 => (a.clone(), "decimal-literal", Some(respell(&a, rng))),
    2 => {
      let op = *rng.pick(&["<", "<=", ">", ">="]);
      (format!("{} {}", op, a), "decimal-comparison", Some(respell(&a, rng)))
    }
    3 => {
      let (lo, hi) = if Dn::parse(&a) <= Dn::parse(&b) { (a, b) } else { (b, a) };
      let (ob, cb) = (*rng.pick(&["[", "(", "]"]), *rng.pick(&["]", ")", "["]));
      let w = if rng.chance(1, 2) { lo.clone() } else { hi.clone() };
      (format!("{}{}..{}{}", ob, lo, hi, cb), "decimal-interval", Some(respell(&w, rng)))
    }
    4 => (format!("{}, {}", a, b), "decimal-disjunction", Some(respell(if rng.chance(1, 2) { &a } else { &b }, rng))),
    5 => (format!("not({})", a), "decimal-not", Some(respell(&a, rng))),
    6 => {
      let op = *rng.pick(&["<", "<=", ">", ">="]);
      (format!("not({} {})", op, a), "decimal-not-comparison", Some(respell(&a, rng)))
    }
    _ => (format!("not({}, {})", a, b), "decimal-not", Some(respell(&b, rng))),
  }
}

/// An input entry and a value that satisfies it (FEEL text), when there is an obvious one.
fn input_entry(ty: Ty, rng: &mut Rng) -> (String, &'static str, Option<String>) {
  if rng.chance(1, 6) {
    // negated intervals, negated boolean literals, and lists of tests with an alternative `null`
    let (a, b) = (lit(ty, rng), lit(ty, rng));
    let (ob, cb) = (*rng.pick(&["[", "(", "]"]), *rng.pick(&["]", ")", "["]));
    return match (ty, rng.below(8)) {
      (Ty::Bool, 0..=2) => (format!("not({})", a), "not-boolean", Some(if a == "true" { "false".into() } else { "true".into() })),
      (Ty::Bool, 3) => ("true, false".into(), "disjunction", Some(a)),
      (Ty::Num, 0 | 1) => {
        let lo = rng.range(1, 4);
        let hi = lo + rng.range(0, 3);
        (format!("not({}{}..{}{})", ob, lo, hi, cb), "not-interval", Some(format!("{}", hi + 1)))
      }
      (Ty::Num, 2) => {
        let lo = rng.range(1, 4);
        let hi = lo + rng.range(0, 3);
        if rng.chance(1, 2) {
          (format!("not({}{}..{}{}, {})", ob, lo, hi, cb, a), "not-interval", Some(format!("{}", hi + 2)))
        } else {
          (format!("not(< {}, {}{}..{}{})", lo, ob, lo, hi, cb), "not-interval", Some(format!("{}", hi + 1)))
        }
      }
      (Ty::Str, 0..=2) => (format!("not({}{}..{}{})", ob, a, b, cb), "not-interval", Some("\"f\"".into())),
      (_, 4) => (format!("null, {}", a), "null-alternative", Some(a)),
      (_, 5) => (format!("{}, null", a), "null-alternative", Some(a)),
      (_, 6) => (format!("not(null, {})", a), "null-alternative", Some(b)),
      (_, 7) => (format!("not({}, null)", a), "null-alternative", Some(b)),
      _ => ("null".into(), "null-alternative", Some("null".into())),
    };
  }
  match ty {
    Ty::Bool => match rng.below(3) {
      0 => ("-".into(), "dash", None),
      1 => ("true".into(), "literal", Some("true".into())),
      _ => ("false".into(), "literal", Some("false".into())),
    },
    Ty::Str => match rng.below(9) {
      6 => {
        // comparisons of strings; the witness input is the bound itself
        let k = lit(ty, rng);
        let op = *rng.pick(&["<", "<=", ">", ">="]);
        if rng.chance(1, 3) {
          (format!("not({} {})", op, k), "not-comparison", Some(k))
        } else {
          (format!("{} {}", op, k), "comparison", Some(k))
        }
      }
      7 => {
        let (a, b) = (lit(ty, rng), lit(ty, rng));
        let (ob, cb) = (*rng.pick(&["[", "(", "]"]), *rng.pick(&["]", ")", "["]));
        (format!("{}{}..{}{}", ob, a, b, cb), "interval", Some(if rng.chance(1, 2) { a } else { b }))
      }
      8 => {
        let (a, b) = (lit(ty, rng), lit(ty, rng));
        (format!("{}, >= {}", a, b), "disjunction", Some(if rng.chance(1, 2) { a } else { b }))
      }
      0 => ("-".into(), "dash", None),
      1 | 2 => {
        let l = lit(ty, rng);
        (l.clone(), "literal", Some(l))
      }
      3 | 4 => {
        let a = lit(ty, rng);
        let b = lit(ty, rng);
        if rng.chance(1, 3) {
          let alien = rng.pick(&["< 10", "1", ">= 0", "[1..5]", "false"]).to_string();
          let wit = if rng.chance(1, 2) { a.clone() } else { b.clone() };
          let mut xs = vec![a, b];
          let at = rng.below(3) as usize;
          xs.insert(at, alien);
          (xs.join(","), "disjunction-mixed-kinds", Some(wit))
        } else {
          (format!("{},{}", a, b), "disjunction", Some(if rng.chance(1, 2) { a } else { b }))
        }
      }
      _ => {
        let a = lit(ty, rng);
        (format!("not({})", a), "not", None)
      }
    },
    Ty::Num => match rng.below(10) {
      0 => ("-".into(), "dash", None),
      1 | 2 => {
        let l = lit(ty, rng);
        (l.clone(), "literal", Some(l))
      }
      3 | 4 => {
        let k = rng.range(1, 6);
        match rng.below(4) {
          0 => (format!("< {}", k), "comparison", Some(format!("{}", k - 1))),
          1 => (format!("<= {}", k), "comparison", Some(format!("{}", k))),
          2 => (format!("> {}", k), "comparison", Some(format!("{}", k + 1))),
          _ => (format!(">= {}", k), "comparison", Some(format!("{}", k))),
        }
      }
      5 | 6 => {
        let lo = rng.range(1, 4);
        let (ob, cb) = (*rng.pick(&["[", "(", "]"]), *rng.pick(&["]", ")", "["]));
        match rng.below(6) {
          // an interval of one value, an empty one and a descending one, alone and before another test
          0 => (format!("{}{}..{}{}", ob, lo, lo, cb), "interval-degenerate", Some(format!("{}", lo))),
          1 => {
            let j = rng.range(1, 6);
            (format!("{}{}..{}{}, {}", ob, lo, lo, cb, j), "interval-degenerate", Some(format!("{}", if rng.chance(1, 2) { lo } else { j })))
          }
          2 => {
            let j = rng.range(1, 6);
            (format!("{}{}..{}{}, >= {}", ob, lo + 2, lo, cb, j), "interval-descending", Some(format!("{}", j)))
          }
          _ => {
            let hi = lo + rng.range(1, 3);
            (format!("{}{}..{}{}", ob, lo, hi, cb), "interval", Some(format!("{}", if ob == "[" { lo } else { lo + 1 })))
          }
        }
      }
      7 | 8 => {
        let n = 2 + rng.below(2);
        let mut xs: Vec<String> = (0..n).map(|_| lit(ty, rng)).collect();
        let wit = rng.pick(&xs).clone();
        let mut kind = "disjunction";
        if rng.chance(1, 3) {
          // an alternative of another kind (a string, a comparison with a string, an interval of strings) cannot be
          // decided for a number: it does not match, and the alternatives after it are still looked at
          let alien = rng.pick(&["\"a\"", "< \"x\"", ">= \"a\"", "[\"a\"..\"c\"]", "true"]).to_string();
          let at = rng.below(xs.len() as u64 + 1) as usize;
          xs.insert(at, alien);
          kind = "disjunction-mixed-kinds";
        }
        (xs.join(","), kind, Some(wit))
      }
      _ => match rng.below(4) {
        0 => (format!("not({})", lit(ty, rng)), "not", None),
        1 => (format!("not({},{})", lit(ty, rng), lit(ty, rng)), "not", None),
        _ => {
          // negated comparisons; the witness input is the bound itself
          let k = rng.range(1, 6);
          let op = *rng.pick(&["<", "<=", ">", ">="]);
          if rng.chance(1, 3) {
            let j = k + rng.range(1, 3);
            (format!("not(< {}, {} {})", k, op, j), "not-comparison", Some(format!("{}", if rng.chance(1, 2) { k } else { j })))
          } else {
            (format!("not({} {})", op, k), "not-comparison", Some(format!("{}", k)))
          }
        }
      },
    },
  }
}

struct InClause {
  name: String,
  ty: Ty,
  input_values: Option<String>,
}

struct OutClause {
  name: Option<String>,
  ty: Ty,
  output_values: Option<String>,
  default: Option<String>,
}

struct GenRule {
  inputs: Vec<String>,
  outputs: Vec<String>,
}

struct GenTable {
  /// numbers of this table are decimals (cells, input values)
  decimal: bool,
  hit_policy: Option<&'static str>,
  aggregation: Option<&'static str>,
  ins: Vec<InClause>,
  outs: Vec<OutClause>,
  rules: Vec<GenRule>,
}

const POLICIES: [(Option<&str>, Option<&str>, &str); 13] = [
  (Some("UNIQUE"), None, "U"),
  (Some("ANY"), None, "A"),
  (Some("PRIORITY"), None, "P"),
  (Some("FIRST"), None, "F"),
  (Some("RULE ORDER"), None, "R"),
  (Some("OUTPUT ORDER"), None, "O"),
  (Some("COLLECT"), None, "C"),
  (Some("COLLECT"), Some("SUM"), "C+"),
  (Some("COLLECT"), Some("MIN"), "C<"),
  (Some("COLLECT"), Some("MAX"), "C>"),
  (Some("COLLECT"), Some("COUNT"), "C#"),
  (None, None, "absent"),
  (Some(" FIRST "), None, "F-padded"),
];

fn gen_table(rng: &mut Rng, policy_ix: usize) -> (GenTable, Vec<Vec<Option<String>>>) {
  let (hp, agg, tag) = POLICIES[policy_ix];
  let n_in = 1 + rng.below(4) as usize;
  let n_out = 1 + rng.below(3) as usize;
  let n_rules = rng.below(9) as usize;
  let aggregating = matches!(tag, "C+" | "C<" | "C>");
  let prioritising = matches!(tag, "P" | "O");
  // one table in four computes with decimals: cells written with and without trailing zeros
  let decimal = rng.chance(1, 4);
  let mut ins = vec![];
  for i in 0..n_in {
    let ty = match rng.below(6) {
      0 => Ty::Bool,
      1 | 2 => Ty::Str,
      _ => Ty::Num,
    };
    let input_values = if rng.chance(1, 5) {
      Some(match ty {
        Ty::Num if decimal => "0.15,0.5,1.0,1.10,2.5,-0.5".to_string(),
        Ty::Num => "1,2,3,4".to_string(),
        Ty::Str => "\"a\",\"b\",\"c\"".to_string(),
        Ty::Bool => "true,false".to_string(),
      })
    } else {
      None
    };
    ins.push(InClause { name: format!("i{}", i + 1), ty, input_values });
  }
  let mut outs = vec![];
  for i in 0..n_out {
    let ty = if aggregating {
      if rng.chance(3, 4) {
        Ty::Num
      } else {
        Ty::Str
      }
    } else {
      match rng.below(5) {
        0 => Ty::Bool,
        1 | 2 => Ty::Str,
        _ => Ty::Num,
      }
    };
    let name = if n_out > 1 {
      match rng.below(20) {
        0 => None,
        1 => Some("o1".to_string()),
        // reversed names: the context is keyed in name order, not clause order
        2 | 3 => Some(format!("z{}", 9 - i)),
        _ => Some(format!("o{}", i + 1)),
      }
    } else if rng.chance(1, 2) {
      Some("o1".to_string())
    } else {
      None
    };
    let p_ov = if prioritising { 4 } else { 1 };
    let output_values = if ty == Ty::Num && !prioritising && !decimal && rng.chance(1, 6) {
      // output values written as tests rather than as a list of literals (entries are 1..6)
      Some(
        (*rng.pick(&["[1..6]", "> 0", "<= 4", "not(7)", "[1..3], [5..6]", "(0..7)", "< 3, >= 4", "not(2, 3)", "[1..6)", "1, 2, [4..6]"]))
          .to_string(),
      )
    } else if rng.chance(p_ov, 5) {
      let mut pool: Vec<String> = match ty {
        Ty::Num if decimal => DECS.iter().map(|d| d.to_string()).collect(),
        Ty::Num => (1..=6).map(|k| k.to_string()).collect(),
        Ty::Str => STRS.iter().map(|s| format!("\"{}\"", s)).collect(),
        Ty::Bool => vec!["true".into(), "false".into()],
      };
      // shuffle, then keep a prefix (values missing from the list make `Out` produce null)
      for k in (1..pool.len()).rev() {
        let j = rng.below(k as u64 + 1) as usize;
        pool.swap(k, j);
      }
      let keep = if rng.chance(2, 3) { pool.len() } else { 1 + rng.below(pool.len() as u64) as usize };
      pool.truncate(keep);
      Some(pool.join(","))
    } else {
      None
    };
    // a default output entry is an expression like any other: now and then it reads an input (its value follows
    // the input data of each evaluation; an evaluator that computes it once keeps the first evaluation's value)
    let same_ty: Vec<&InClause> = ins.iter().filter(|c| c.ty == ty).collect();
    let default = if rng.chance(1, 3) {
      if !same_ty.is_empty() && rng.chance(1, 3) {
        let c = rng.pick(&same_ty);
        Some(if ty == Ty::Num && rng.chance(1, 2) { format!("{} + 1", c.name) } else { c.name.clone() })
      } else if ty == Ty::Num && decimal {
        Some(dlit(rng))
      } else {
        Some(lit(ty, rng))
      }
    } else {
      None
    };
    outs.push(OutClause { name, ty, output_values, default });
  }
  let mut rules = vec![];
  let mut witnesses: Vec<Vec<Option<String>>> = vec![];
  for _ in 0..n_rules {
    let mut inputs = vec![];
    let mut wit = vec![];
    for c in &ins {
      let (text, _, w) = if decimal && c.ty == Ty::Num && rng.chance(2, 3) { dec_input_entry(rng) } else { input_entry(c.ty, rng) };
      inputs.push(text);
      wit.push(w);
    }
    let mut outputs = vec![];
    for c in &outs {
      // a small pool per clause so that ANY sees equal outputs and priorities tie
      let narrow = rng.chance(1, 2);
      let t = match c.ty {
        // decimals: the narrow pool is 1.0 / 1.00 / 1 / 1.10 / 1.1 (equal values under different spellings)
        Ty::Num if decimal => DECS[rng.below(if narrow { 5 } else { DECS.len() as u64 }) as usize].to_string(),
        Ty::Num => format!("{}", rng.range(1, if narrow { 2 } else { 6 })),
        Ty::Str => format!("\"{}\"", STRS[rng.below(if narrow { 2 } else { 5 }) as usize]),
        Ty::Bool => lit(Ty::Bool, rng),
      };
      // occasionally a value of another type, or null
      let t = match rng.below(40) {
        0 => "null".to_string(),
        1 => lit(Ty::Str, rng),
        2 => lit(Ty::Num, rng),
        _ => t,
      };
      outputs.push(t);
    }
    rules.push(GenRule { inputs, outputs });
    witnesses.push(wit);
  }
  // duplicated rules make ANY / UNIQUE / PRIORITY ties frequent
  if !rules.is_empty() && rng.chance(1, 3) && rules.len() < 8 {
    let k = rng.below(rules.len() as u64) as usize;
    let dup = GenRule { inputs: rules[k].inputs.clone(), outputs: if rng.chance(1, 2) { rules[k].outputs.clone() } else { rules[rules.len() - 1].outputs.clone() } };
    let w = witnesses[k].clone();
    rules.push(dup);
    witnesses.push(w);
  }
  (GenTable { decimal, hit_policy: hp, aggregation: agg, ins, outs, rules }, witnesses)
}

/// A generated one-decision model (used by C12 as a base for fault enumeration).
pub fn sample_model_xml(rng: &mut Rng) -> String {
  let ix = rng.below(POLICIES.len() as u64) as usize;
  let (t, _) = gen_table(rng, ix);
  table_xml(&t)
}

fn table_xml(t: &GenTable) -> String {
  let mut s = String::new();
  s.push_str(r#"<?xml version="1.0" encoding="UTF-8"?><definitions namespace="ns" name="m" id="_m" xmlns="https://www.omg.org/spec/DMN/20191111/MODEL/">"#);
  s.push_str(r#"<decision name="D" id="_d"><variable name="D"/>"#);
  for (i, _) in t.ins.iter().enumerate() {
    s.push_str(&format!(r##"<informationRequirement id="_r{}"><requiredInput href="#_i{}"/></informationRequirement>"##, i + 1, i + 1));
  }
  s.push_str("<decisionTable");
  if let Some(hp) = t.hit_policy {
    s.push_str(&format!(" hitPolicy=\"{}\"", hp));
  }
  if let Some(a) = t.aggregation {
    s.push_str(&format!(" aggregation=\"{}\"", a));
  }
  s.push('>');
  for c in &t.ins {
    s.push_str(&format!("<input><inputExpression><text>{}</text></inputExpression>", xml_escape(&c.name)));
    if let Some(iv) = &c.input_values {
      s.push_str(&format!("<inputValues><text>{}</text></inputValues>", xml_escape(iv)));
    }
    s.push_str("</input>");
  }
  for c in &t.outs {
    s.push_str("<output");
    if let Some(n) = &c.name {
      s.push_str(&format!(" name=\"{}\"", n));
    }
    s.push('>');
    if let Some(ov) = &c.output_values {
      s.push_str(&format!("<outputValues><text>{}</text></outputValues>", xml_escape(ov)));
    }
    if let Some(d) = &c.default {
      s.push_str(&format!("<defaultOutputEntry><text>{}</text></defaultOutputEntry>", xml_escape(d)));
    }
    s.push_str("</output>");
  }
  for r in &t.rules {
    s.push_str("<rule>");
    for e in &r.inputs {
      s.push_str(&format!("<inputEntry><text>{}</text></inputEntry>", xml_escape(e)));
    }
    for e in &r.outputs {
      s.push_str(&format!("<outputEntry><text>{}</text></outputEntry>", xml_escape(e)));
    }
    s.push_str("</rule>");
  }
  s.push_str("</decisionTable></decision>");
  for (i, c) in t.ins.iter().enumerate() {
    s.push_str(&format!(r#"<inputData name="{}" id="_i{}"><variable typeRef="{}" name="{}"/></inputData>"#, c.name, i + 1, c.ty.type_ref(), c.name));
  }
  s.push_str("</definitions>");
  s
}

/// The generated table as the `DecisionTable` value the recogniser / XML parser deliver
/// (second observation point: `dmntk_model_evaluator::build_decision_table_evaluator`).
/// Always-run corpus: the witnesses of the repaired findings F19 (default output entries of a
/// table with several output clauses) and F20 (C> over outputs that include null), with the
/// index of their hit policy in `POLICIES`.
fn corpus_tables() -> Vec<(usize, GenTable)> {
  let input = || vec![InClause { name: "i1".into(), ty: Ty::Num, input_values: None }];
  let out = |name: &str, ov: Option<&str>, d: Option<&str>| OutClause { name: Some(name.into()), ty: Ty::Num, output_values: ov.map(|s| s.to_string()), default: d.map(|s| s.to_string()) };
  let rule = |i: &str, o: &[&str]| GenRule { inputs: vec![i.into()], outputs: o.iter().map(|s| s.to_string()).collect() };
  let mut res = vec![];
  for (da, db) in [(Some("1"), Some("2")), (None, Some("2")), (Some("1"), None), (None, None)] {
    // policies U, F, C, C+ (compound: aggregators give null)
    for ix in [0usize, 3, 6, 7] {
      res.push((
        ix,
        GenTable {
          decimal: false,
          hit_policy: POLICIES[ix].0,
          aggregation: POLICIES[ix].1,
          ins: input(),
          outs: vec![out("a", None, da), out("b", None, db)],
          rules: vec![rule("100", &["7", "8"])],
        },
      ));
    }
  }
  for ix in [9usize, 8, 7] {
    // output values 1,3: the entry 2 becomes null through Out()
    res.push((
      ix,
      GenTable {
        decimal: false,
        hit_policy: POLICIES[ix].0,
        aggregation: POLICIES[ix].1,
        ins: input(),
        outs: vec![out("a", Some("1,3"), None)],
        rules: vec![rule("-", &["1"]), rule("-", &["2"]), rule("-", &["3"])],
      },
    ));
  }
  // PRIORITY / OUTPUT ORDER with the same output values in different orders in two clauses: an entry ranks among the
  // output values of its own clause
  let sout = |name: &str, ov: &str| OutClause { name: Some(name.into()), ty: Ty::Str, output_values: Some(ov.to_string()), default: None };
  for ix in [2usize, 5] {
    res.push((
      ix,
      GenTable {
        decimal: false,
        hit_policy: POLICIES[ix].0,
        aggregation: POLICIES[ix].1,
        ins: input(),
        outs: vec![sout("p", "\"A\",\"B\""), sout("q", "\"B\",\"A\"")],
        rules: vec![rule("-", &["\"A\"", "\"A\""]), rule("-", &["\"A\"", "\"B\""])],
      },
    ));
    res.push((
      ix,
      GenTable {
        decimal: false,
        hit_policy: POLICIES[ix].0,
        aggregation: POLICIES[ix].1,
        ins: input(),
        outs: vec![sout("p", "\"A\",\"B\""), sout("q", "\"C\",\"B\",\"A\"")],
        rules: vec![rule("-", &["\"B\"", "\"A\""]), rule("-", &["\"A\"", "\"A\""]), rule("-", &["\"A\"", "\"C\""]), rule("-", &["\"A\"", "\"B\""])],
      },
    ));
  }
  // rule matching: `-` against an absent input, negated intervals, alternatives `null` (policy C: the list of matches)
  for entries in [vec!["-"], vec!["not([2..4])", "not((2..4), 6)", "not(< 2, [4..5])"], vec!["null, 3", "3, null", "not(null)", "not(null, 3)", "null"]] {
    res.push((
      6,
      GenTable {
        decimal: false,
        hit_policy: POLICIES[6].0,
        aggregation: POLICIES[6].1,
        ins: input(),
        outs: vec![out("a", None, None)],
        rules: entries.iter().enumerate().map(|(k, e)| rule(e, &[&format!("{}", k + 1)])).collect(),
      },
    ));
  }
  res
}

fn table_struct(t: &GenTable) -> dmntk_model::model::DecisionTable {
  use dmntk_model::model::*;
  let hit_policy = match (t.hit_policy.map(|s| s.trim()), t.aggregation) {
    (None, _) | (Some("UNIQUE"), _) => HitPolicy::Unique,
    (Some("ANY"), _) => HitPolicy::Any,
    (Some("PRIORITY"), _) => HitPolicy::Priority,
    (Some("FIRST"), _) => HitPolicy::First,
    (Some("RULE ORDER"), _) => HitPolicy::RuleOrder,
    (Some("OUTPUT ORDER"), _) => HitPolicy::OutputOrder,
    (_, None) => HitPolicy::Collect(BuiltinAggregator::List),
    (_, Some("SUM")) => HitPolicy::Collect(BuiltinAggregator::Sum),
    (_, Some("MIN")) => HitPolicy::Collect(BuiltinAggregator::Min),
    (_, Some("MAX")) => HitPolicy::Collect(BuiltinAggregator::Max),
    (_, Some(_)) => HitPolicy::Collect(BuiltinAggregator::Count),
  };
  DecisionTable {
    information_item_name: None,
    input_clauses: t.ins.iter().map(|c| InputClause { input_expression: c.name.clone(), input_values: c.input_values.clone() }).collect(),
    output_clauses: t
      .outs
      .iter()
      .map(|c| OutputClause { type_ref: None, name: c.name.clone(), output_values: c.output_values.clone(), default_output_entry: c.default.clone() })
      .collect(),
    annotations: vec![],
    rules: t
      .rules
      .iter()
      .map(|r| DecisionRule {
        input_entries: r.inputs.iter().map(|e| InputEntry { text: e.clone() }).collect(),
        output_entries: r.outputs.iter().map(|e| OutputEntry { text: e.clone() }).collect(),
        annotation_entries: vec![],
      })
      .collect(),
    hit_policy,
    aggregation: None,
    preferred_orientation: DecisionTableOrientation::RuleAsRow,
    output_label: None,
  }
}

/// Runs `build_decision_table_evaluator` on a table value under the given scope context.
fn direct_eval(dt: &dmntk_model::model::DecisionTable, seen: &FeelContext) -> String {
  let r = guarded(|| {
    let scope: Scope = seen.clone().into();
    match dmntk_model_evaluator::build_decision_table_evaluator(&scope, dt) {
      Ok(ev) => Ok(ev(&scope)),
      Err(e) => Err(e.to_string()),
    }
  });
  match r {
    Ok(Ok(v)) => match value_sexp(&v) {
      Some(s) => format!("(ok {})", s),
      None => format!("(unsupported {})", v),
    },
    Ok(Err(e)) => format!("(build-error {})", e.replace(' ', "_")),
    Err(p) => format!("(panic {})", p.replace(' ', "_")),
  }
}

/// The `EX_*` tables of `examples/src/examples/valid.rs` (box-drawing text), read at run time.
fn ex_table_texts() -> Vec<(String, String)> {
  let mut res = vec![];
  let src = match std::fs::read_to_string("/repo/examples/src/examples/valid.rs") {
    Ok(s) => s,
    Err(_) => return res,
  };
  let mut rest = src.as_str();
  while let Some(p) = rest.find("pub const EX_") {
    let tail = &rest[p..];
    let name_end = tail.find(':').unwrap_or(0);
    let name = tail[10..name_end].to_string();
    let (open, close) = match tail.find("r#\"") {
      Some(o) => match tail[o + 3..].find("\"#") {
        Some(c) => (o + 3, o + 3 + c),
        None => break,
      },
      None => break,
    };
    res.push((name, tail[open..close].to_string()));
    rest = &tail[close..];
  }
  res
}

/// A recognised table as a `GenTable` (input expressions must be plain names).
fn gen_of_recognised(dt: &dmntk_model::model::DecisionTable) -> Option<GenTable> {
  use dmntk_model::model::{BuiltinAggregator, HitPolicy};
  let (hp, agg): (&'static str, Option<&'static str>) = match dt.hit_policy {
    HitPolicy::Unique => ("UNIQUE", None),
    HitPolicy::Any => ("ANY", None),
    HitPolicy::Priority => ("PRIORITY", None),
    HitPolicy::First => ("FIRST", None),
    HitPolicy::RuleOrder => ("RULE ORDER", None),
    HitPolicy::OutputOrder => ("OUTPUT ORDER", None),
    HitPolicy::Collect(BuiltinAggregator::List) => ("COLLECT", None),
    HitPolicy::Collect(BuiltinAggregator::Sum) => ("COLLECT", Some("SUM")),
    HitPolicy::Collect(BuiltinAggregator::Min) => ("COLLECT", Some("MIN")),
    HitPolicy::Collect(BuiltinAggregator::Max) => ("COLLECT", Some("MAX")),
    HitPolicy::Collect(BuiltinAggregator::Count) => ("COLLECT", Some("COUNT")),
  };
  let mut ins = vec![];
  for c in &dt.input_clauses {
    let n = c.input_expression.trim();
    if n.is_empty() || !n.chars().all(|ch| ch.is_alphanumeric() || ch == ' ' || ch == '_') {
      return None;
    }
    ins.push(InClause { name: n.to_string(), ty: Ty::Num, input_values: c.input_values.clone() });
  }
  let outs = dt.output_clauses.iter().map(|c| OutClause { name: c.name.clone(), ty: Ty::Num, output_values: c.output_values.clone(), default: c.default_output_entry.clone() }).collect();
  let rules = dt
    .rules
    .iter()
    .map(|r| GenRule { inputs: r.input_entries.iter().map(|e| e.text.clone()).collect(), outputs: r.output_entries.iter().map(|e| e.text.clone()).collect() })
    .collect();
  Some(GenTable { decimal: true, hit_policy: Some(hp), aggregation: agg, ins, outs, rules })
}

/// Candidate input values (FEEL text) read off the entries of one input column: the literals
/// that occur in them, and the neighbours of the numbers.
fn candidates(t: &GenTable, col: usize) -> Vec<String> {
  let mut c: Vec<String> = vec!["null".into(), "0".into(), "\"?\"".into(), "true".into(), "false".into()];
  for r in &t.rules {
    if let Some(text) = r.inputs.get(col) {
      let b: Vec<char> = text.chars().collect();
      let mut i = 0;
      while i < b.len() {
        if b[i] == '"' {
          let mut j = i + 1;
          while j < b.len() && b[j] != '"' {
            j += 1;
          }
          c.push(b[i..(j + 1).min(b.len())].iter().collect());
          i = j + 1;
        } else if b[i].is_ascii_digit() {
          let mut j = i;
          while j < b.len() && b[j].is_ascii_digit() {
            j += 1;
          }
          // a decimal: the literal itself, the same value written with one more trailing zero, and its neighbours
          // one unit in the last place below and above
          if j < b.len() && b[j] == '.' && j + 1 < b.len() && b[j + 1].is_ascii_digit() {
            j += 1;
            while j < b.len() && b[j].is_ascii_digit() {
              j += 1;
            }
            let text: String = b[i..j].iter().collect();
            if let Some(d) = Dn::parse(&text) {
              c.push(text.clone());
              c.push(format!("{}0", text));
              for k in [d.c - 1, d.c + 1] {
                c.push(Dn { c: k, s: d.s }.plain());
              }
            }
          } else if let Ok(n) = b[i..j].iter().collect::<String>().parse::<i64>() {
            c.push(format!("{}", n));
            c.push(format!("{}", n + 1));
            c.push(format!("{}", n - 1));
          }
          i = j;
        } else {
          i += 1;
        }
      }
    }
  }
  c.sort();
  c.dedup();
  c
}

fn eval_text(scope: &Scope, text: &str) -> Option<Value> {
  crate::util::note_case(text);
  let n = dmntk_feel_parser::parse_expression(scope, text, false).ok()?;
  dmntk_feel_evaluator::evaluate(scope, &n).ok()
}

/// What an optional unary-tests cell evaluates to (output values, default output entry).
fn cell_sexp(scope: &Scope, text: &Option<String>) -> Option<Sexp> {
  match text {
    None => Some(Sexp::atom("none")),
    Some(t) => {
      let node = dmntk_feel_parser::parse_unary_tests(scope, t, false).ok()?;
      match dmntk_feel_evaluator::evaluate(scope, &node).ok()? {
        Value::ExpressionList(vs) => {
          let mut xs = vec![];
          for v in vs.as_vec() {
            xs.push(value_sexp(v)?);
          }
          Some(Sexp::tagged("el", xs))
        }
        _ => Some(Sexp::atom("other")),
      }
    }
  }
}

fn attr_sexp(a: Option<&str>) -> Sexp {
  match a {
    None => Sexp::atom("none"),
    Some(t) => Sexp::str(t.trim()),
  }
}

/// The request for the driver: the table's structure and the matrix of evaluated cells under
/// the given input context. `None` when a cell is outside the model's value type.
fn request(t: &GenTable, ctx: &FeelContext) -> Option<String> {
  let scope: Scope = ctx.clone().into();
  let mut names = vec![];
  for c in &t.outs {
    if let Some(n) = &c.name {
      // decision_table.rs:288: the component name is what `parse_name` makes of the attribute
      names.push(Sexp::str(&dmntk_feel_parser::parse_name(&scope, n, false).ok()?.to_string()));
    }
  }
  let mut ovals = vec![];
  let mut defaults = vec![];
  let mut ov_nodes = vec![];
  for c in &t.outs {
    // output values written as tests have no priority order; under a hit policy that does not prioritise they
    // only filter the output cells (shipped evaluated, below)
    let prioritising = matches!(t.hit_policy.map(|s| s.trim()), Some("PRIORITY") | Some("OUTPUT ORDER"));
    ovals.push(match cell_sexp(&scope, &c.output_values) {
      Some(x) => x,
      None if !prioritising => Sexp::atom("other"),
      None => return None,
    });
    defaults.push(cell_sexp(&scope, &c.default)?);
    ov_nodes.push(match &c.output_values {
      Some(t) => Some(dmntk_feel_parser::parse_unary_tests(&scope, t, false).ok()?),
      None => None,
    });
  }
  let mut in_nodes = vec![];
  for c in &t.ins {
    let ie = dmntk_feel_parser::parse_expression(&scope, &c.name, false).ok()?;
    let iv = match &c.input_values {
      Some(t) => Some(dmntk_feel_parser::parse_unary_tests(&scope, t, false).ok()?),
      None => None,
    };
    in_nodes.push((ie, iv));
  }
  let mut rules = vec![];
  for r in &t.rules {
    let mut ins = vec![];
    for (i, (ie, iv)) in in_nodes.iter().enumerate() {
      let entry = dmntk_feel_parser::parse_unary_tests(&scope, &r.inputs[i], false).ok()?;
      // decision_table.rs:298-306
      let node = match iv {
        Some(ivn) => {
          let left = AstNode::In(Box::new(ie.clone()), Box::new(ivn.clone()));
          let right = AstNode::In(Box::new(ie.clone()), Box::new(entry));
          AstNode::And(Box::new(left), Box::new(right))
        }
        None => AstNode::In(Box::new(ie.clone()), Box::new(entry)),
      };
      let v = dmntk_feel_evaluator::evaluate(&scope, &node).ok()?;
      ins.push(Sexp::atom(match v {
        Value::Boolean(true) => "t",
        Value::Boolean(false) => "f",
        _ => "o",
      }));
    }
    let mut outs = vec![];
    for (i, ovn) in ov_nodes.iter().enumerate() {
      let entry = dmntk_feel_parser::parse_expression(&scope, &r.outputs[i], false).ok()?;
      // decision_table.rs:312-317
      let node = match ovn {
        Some(n) => AstNode::Out(Box::new(entry), Box::new(n.clone())),
        None => entry,
      };
      outs.push(value_sexp(&dmntk_feel_evaluator::evaluate(&scope, &node).ok()?)?);
    }
    rules.push(Sexp::list(vec![Sexp::list(ins), Sexp::list(outs)]));
  }
  Some(
    Sexp::list(vec![
      Sexp::atom("c03"),
      Sexp::atom("eval"),
      attr_sexp(t.hit_policy),
      attr_sexp(t.aggregation),
      Sexp::list(names),
      Sexp::list(ovals),
      Sexp::list(defaults),
      Sexp::list(rules),
    ])
    .to_string(),
  )
}

fn random_value(ty: Ty, decimal: bool, rng: &mut Rng) -> String {
  match ty {
    Ty::Num if decimal && rng.chance(2, 3) => dlit(rng),
    Ty::Num => format!("{}", rng.range(0, 7)),
    Ty::Str => format!("\"{}\"", rng.pick(&["a", "b", "c", "d", "e", "f"])),
    Ty::Bool => (if rng.chance(1, 2) { "true" } else { "false" }).to_string(),
  }
}

/// Input tuples steered by the rule entries: per input either the witness value of a randomly
/// chosen rule's entry (biased towards one "target" rule so that whole rules match), a random
/// value of the pool, or null / absent.
fn input_tuple(t: &GenTable, wits: &[Vec<Option<String>>], rng: &mut Rng) -> Vec<Option<String>> {
  let target = if wits.is_empty() { None } else { Some(rng.below(wits.len() as u64) as usize) };
  let mode = rng.below(10);
  let mut tuple = vec![];
  for (i, c) in t.ins.iter().enumerate() {
    let from_rule = |k: usize, rng: &mut Rng| wits[k][i].clone().unwrap_or_else(|| random_value(c.ty, t.decimal, rng));
    let v = match (target, mode) {
      (Some(k), 0..=5) => Some(from_rule(k, rng)),
      (Some(_), 6 | 7) => {
        let k = rng.below(wits.len() as u64) as usize;
        Some(from_rule(k, rng))
      }
      (_, 8) => {
        if rng.chance(1, 4) {
          if rng.chance(1, 2) {
            Some("null".to_string())
          } else {
            None
          }
        } else {
          Some(random_value(c.ty, t.decimal, rng))
        }
      }
      _ => Some(random_value(c.ty, t.decimal, rng)),
    };
    tuple.push(v);
  }
  // now and then one input of an otherwise matching tuple is null or absent
  if !tuple.is_empty() && rng.chance(1, 6) {
    let k = rng.below(tuple.len() as u64) as usize;
    tuple[k] = if rng.chance(1, 2) { Some("null".to_string()) } else { None };
  }
  tuple
}

/// What a generated numeric input entry says about an integer input value, computed here from the
/// entry's text alone (`-`, literals, comparisons, intervals with `[ ( ]` / `] ) [` ends, disjunctions,
/// `not(…)`): the rule-matching half of the property, independent of the FEEL evaluator.
/// An exact decimal `c / 10^s` of the oracles (at most 38 digits; a comparison or a sum that does not fit `i128`
/// is `None`: not asserted). Equality and order are numeric: 1.10 = 1.1.
#[derive(Clone, Copy, Debug)]
pub struct Dn {
  c: i128,
  s: u32,
}

impl Dn {
  fn int(n: i64) -> Dn {
    Dn { c: n as i128, s: 0 }
  }
  /// A FEEL number literal with an optional sign: digits, optionally a point and digits.
  fn parse(t: &str) -> Option<Dn> {
    let t = t.trim();
    let (neg, rest) = match t.strip_prefix('-') {
      Some(r) => (true, r.trim_start()),
      None => (false, t),
    };
    let (ip, fp) = match rest.split_once('.') {
      Some((a, b)) => (a, b),
      None => (rest, ""),
    };
    if ip.is_empty() || !ip.bytes().all(|b| b.is_ascii_digit()) || !fp.bytes().all(|b| b.is_ascii_digit()) || (rest.contains('.') && fp.is_empty()) {
      return None;
    }
    if ip.len() + fp.len() > 38 {
      return None;
    }
    let c: i128 = format!("{}{}", ip, fp).parse().ok()?;
    Some(Dn { c: if neg { -c } else { c }, s: fp.len() as u32 })
  }
  fn aligned(&self, o: &Dn) -> Option<(i128, i128, u32)> {
    let s = self.s.max(o.s);
    let a = self.c.checked_mul(10i128.checked_pow(s - self.s)?)?;
    let b = o.c.checked_mul(10i128.checked_pow(s - o.s)?)?;
    Some((a, b, s))
  }
  fn add(&self, o: &Dn) -> Option<Dn> {
    let (a, b, s) = self.aligned(o)?;
    Some(Dn { c: a.checked_add(b)?, s }.normal())
  }
  fn normal(&self) -> Dn {
    let mut d = *self;
    while d.s > 0 && d.c % 10 == 0 {
      d.c /= 10;
      d.s -= 1;
    }
    d
  }
  /// number of significant digits (trailing zeros of an integer do not count)
  fn digits(&self) -> usize {
    let mut c = self.normal().c.unsigned_abs();
    while c != 0 && c % 10 == 0 {
      c /= 10;
    }
    if c == 0 {
      1
    } else {
      c.to_string().len()
    }
  }
  /// plain FEEL text of the value as it stands (scale kept)
  fn plain(&self) -> String {
    let neg = self.c < 0;
    let mut digits = self.c.unsigned_abs().to_string();
    let s = self.s as usize;
    while digits.len() <= s {
      digits.insert(0, '0');
    }
    let (ip, fp) = digits.split_at(digits.len() - s);
    format!("{}{}{}{}", if neg { "-" } else { "" }, ip, if s > 0 { "." } else { "" }, fp)
  }
  /// the normal form as `number_norm` gives it
  fn norm_text(&self) -> (String, u32) {
    let d = self.normal();
    (d.c.to_string(), d.s)
  }
}

impl PartialEq for Dn {
  fn eq(&self, o: &Dn) -> bool {
    matches!(self.aligned(o), Some((a, b, _)) if a == b)
  }
}

impl PartialOrd for Dn {
  fn partial_cmp(&self, o: &Dn) -> Option<std::cmp::Ordering> {
    self.aligned(o).map(|(a, b, _)| a.cmp(&b))
  }
}

#[derive(Clone, PartialEq, PartialOrd, Debug)]
enum OV {
  I(Dn),
  S(String),
  B(bool),
  /// the input is null (or absent)
  Null,
}

fn ov_parse(t: &str, like: &OV) -> Option<OV> {
  let t = t.trim();
  match like {
    OV::I(_) => Dn::parse(t).map(OV::I),
    OV::S(_) => t.strip_prefix('"').and_then(|r| r.strip_suffix('"')).filter(|r| !r.contains('"') && r.is_ascii()).map(|r| OV::S(r.to_string())),
    OV::B(_) => match t {
      "true" => Some(OV::B(true)),
      "false" => Some(OV::B(false)),
      _ => None,
    },
    OV::Null => None,
  }
}

fn entry_oracle(entry: &str, v: i64) -> Option<bool> {
  entry_oracle_v(entry, &OV::I(Dn::int(v)))
}

/// As `entry_oracle`, for an integer or an (ASCII) string value: strings are ordered by their characters.
/// The operand of a test read as a value of the kind of `v`: `Some(Some(x))`; `Some(None)` when it is a well-formed
/// literal of another kind (a comparison across kinds is undecided: the test does not match); `None` when unreadable.
fn ov_operand(t: &str, v: &OV) -> Option<Option<OV>> {
  if let Some(x) = ov_parse(t, v) {
    if let (OV::I(a), OV::I(b)) = (v, &x) {
      // a comparison that does not fit the oracle's integers is not asserted
      a.aligned(b)?;
    }
    return Some(Some(x));
  }
  // a well-formed literal of another kind (for a null input: of any kind)
  for other in [OV::I(Dn::int(0)), OV::S(String::new()), OV::B(false)] {
    if ov_parse(t, &other).is_some() {
      return Some(None);
    }
  }
  None
}

fn entry_oracle_v(entry: &str, v: &OV) -> Option<bool> {
  entry_oracle_u(entry, v).map(|(satisfied, _)| satisfied)
}

/// (satisfied, undecided): `undecided` says that the entry is a negated list none of whose tests is satisfied and one
/// of whose tests — a comparison or an interval — cannot be decided for the input (a null or absent input, an input
/// of another kind than the operand): the test is null, `not(null)` is null (DMN 1.3 table 50, 10.3.2.8), so the
/// entry is *not satisfied* and the rule does not match; the implementation may answer null or false for it.
fn entry_oracle_u(entry: &str, v: &OV) -> Option<(bool, bool)> {
  let e = entry.trim();
  let (negated, body) = match e.strip_prefix("not(").and_then(|r| r.strip_suffix(')')) {
    Some(b) => (true, b),
    None => (false, e),
  };
  let mut any = false;
  let mut undecided = false;
  // an equality test against a literal of another kind under a negation: not asserted (unless another test decides)
  let mut unasserted = false;
  for test in body.split(',') {
    let t = test.trim();
    // `und`: an ordering test (comparison, interval) whose operand is of another kind than the input, or of a null input
    let (ok, und) = if t == "-" {
      // irrelevant: satisfied by every input value, null included (DMN 1.3, 8.3.3)
      (true, false)
    } else if t == "null" {
      // an alternative `null` is the test `? = null`: satisfied by a null input only
      (*v == OV::Null, false)
    } else if let Some(r) = t.strip_prefix("<=") {
      ov_operand(r, v)?.map_or((false, true), |x| (*v <= x, false))
    } else if let Some(r) = t.strip_prefix(">=") {
      ov_operand(r, v)?.map_or((false, true), |x| (*v >= x, false))
    } else if let Some(r) = t.strip_prefix('<') {
      ov_operand(r, v)?.map_or((false, true), |x| (*v < x, false))
    } else if let Some(r) = t.strip_prefix('>') {
      ov_operand(r, v)?.map_or((false, true), |x| (*v > x, false))
    } else if t.contains("..") {
      let (ob, rest) = t.split_at(1);
      let (mid, cb) = rest.split_at(rest.len() - 1);
      let (lo, hi) = mid.split_once("..")?;
      match (ov_operand(lo, v)?, ov_operand(hi, v)?) {
        (Some(lo), Some(hi)) => {
          let l_ok = if ob == "[" { *v >= lo } else { *v > lo };
          let r_ok = if cb == "]" { *v <= hi } else { *v < hi };
          (l_ok && r_ok, false)
        }
        _ => (false, true),
      }
    } else {
      match ov_operand(t, v)? {
        Some(x) => (*v == x, false),
        None => {
          // a literal of another kind than the input: not equal; under a negation whether the code's `false` or
          // FEEL's null for an equality across kinds is meant is left open (a null input is equal to null only)
          if negated && *v != OV::Null {
            unasserted = true;
          }
          (false, false)
        }
      }
    };
    any |= ok;
    undecided |= und;
  }
  if !negated {
    return Some((any, false));
  }
  if any {
    return Some((false, false));
  }
  if undecided {
    return Some((false, true));
  }
  if unasserted {
    return None;
  }
  Some((true, false))
}

/// The branch of rule matching a cell exercises (part of the signature of a disagreement; the shapes the
/// cell oracle had from the start are `other`).
fn cell_branch(entry: &str, v: &OV) -> &'static str {
  let e = entry.trim();
  let negated = e.starts_with("not(");
  let has_null = e.trim_start_matches("not(").trim_end_matches(')').split(',').any(|t| t.trim() == "null");
  if e == "-" && *v == OV::Null {
    "irrelevant entry against a null input"
  } else if has_null {
    "list of tests with a null alternative"
  } else if negated && e.contains("..") {
    "negated list with an interval"
  } else if negated && matches!(v, OV::B(_)) {
    "negated list of boolean literals"
  } else if *v == OV::Null {
    "null input"
  } else {
    "other"
  }
}

fn context_of(t: &GenTable, tuple: &[Option<String>]) -> (FeelContext, FeelContext, String) {
  // `sent`: what the caller passes; `seen`: what the decision logic sees (absent ⇒ null)
  let scope = Scope::default();
  let mut sent = FeelContext::default();
  let mut seen = FeelContext::default();
  let mut text = vec![];
  for (c, v) in t.ins.iter().zip(tuple.iter()) {
    let name: Name = c.name.as_str().into();
    match v {
      Some(tv) => {
        let val = eval_text(&scope, tv).unwrap_or(Value::Null(None));
        sent.set_entry(&name, val.clone());
        seen.set_entry(&name, val);
        text.push(format!("{}: {}", c.name, tv));
      }
      None => {
        seen.set_entry(&name, Value::Null(None));
      }
    }
  }
  (sent, seen, format!("{{{}}}", text.join(", ")))
}

/// Probe (`C03_PROBE=<file>`): one `input expression | unary tests` per line, evaluated in an empty scope as the
/// decision table builder composes an input entry (`In(input expression, unary tests)`); prints and exits.
fn probe(path: &str) -> ! {
  let text = std::fs::read_to_string(path).unwrap_or_default();
  let scope = Scope::default();
  for line in text.lines().filter(|l| !l.trim().is_empty()) {
    let shown = match line.split_once('|') {
      None => "?".to_string(),
      Some((l, r)) => {
        let r = guarded(|| {
          let ie = dmntk_feel_parser::parse_expression(&scope, l.trim(), false).map_err(|e| e.to_string())?;
          let ut = dmntk_feel_parser::parse_unary_tests(&scope, r.trim(), false).map_err(|e| e.to_string())?;
          dmntk_feel_evaluator::evaluate(&scope, &AstNode::In(Box::new(ie), Box::new(ut))).map(|v| format!("{:?}", v)).map_err(|e| e.to_string())
        });
        match r {
          Ok(Ok(v)) => v,
          Ok(Err(e)) => format!("ERROR {}", e),
          Err(p) => format!("PANIC {}", p),
        }
      }
    };
    println!("{} => {}", line, shown);
  }
  std::process::exit(0)
}

pub fn run(cfg: &Cfg) -> Report {
  if let Ok(p) = std::env::var("C03_PROBE") {
    probe(&p);
  }
  let mut rep = Report::new(
    "C03",
    "generated decision tables (1..4 inputs, 1..3 outputs, 0..8 rules (+1 duplicate), all 11 hit policies/aggregators plus absent/padded attribute, input entries '-', literals, null, comparisons, intervals, disjunctions, not(...) of those incl. negated intervals / booleans / null alternatives, null and absent inputs, optional input values, output values, default outputs) rendered as DMN XML and evaluated through parse → ModelEvaluator::new → evaluate_invocable, with input tuples drawn from the rule entries; one table in four computes with decimals (cells, output values, defaults and input data written with and without trailing zeros), the family `decimal` (single-output tables over pools of decimals under all 11 policies) is also compared with an expectation in exact integer arithmetic, and the shipped EX_* tables are evaluated on the literals of their entries (decimals included) and their neighbours. Non-trivial: the table has at least one rule; distinct by (XML, input context).",
  );
  let thorough = cfg.tier == "thorough";
  let n_tables = if thorough { 60_000 } else { 6_000 };
  let tuples_per_table = 4;
  let mut rng = Rng::new(cfg.seed);
  let mut model = Model::start(&cfg.driver);

  struct Case {
    req: String,
    xml: String,
    input: String,
    policy: &'static str,
    impl_obs: String,
    /// `build_decision_table_evaluator` on the same table (None: only one observation point)
    direct_obs: Option<String>,
    family: &'static str,
    n_out: usize,
    any_default: bool,
  }
  let mut cases: Vec<Case> = vec![];
  let mut corpus = corpus_tables();
  corpus.reverse();
  for ti in 0..(corpus.len() + n_tables) {
    // the always-run corpus (witnesses of repaired findings) first, then generated tables
    let from_corpus = !corpus.is_empty();
    let (policy_ix, (t, wits)) = match corpus.pop() {
      Some((ix, t)) => {
        let w = vec![vec![None; t.ins.len()]; t.rules.len()];
        (ix, (t, w))
      }
      None => {
        let policy_ix = if ti % 16 < 11 { ti % 16 } else { rng.below(POLICIES.len() as u64) as usize };
        (policy_ix, gen_table(&mut rng, policy_ix))
      }
    };
    let xml = table_xml(&t);
    let built = guarded(|| match dmntk_model::parse(&xml) {
      Ok(d) => ModelEvaluator::new(&d).map_err(|e| format!("build-error: {}", e)),
      Err(e) => Err(format!("parse-error: {}", e)),
    });
    let me = match built {
      Ok(Ok(me)) => me,
      Ok(Err(e)) => {
        rep.hit("generated table rejected");
        rep.disagree(Kind::ImplVsModel, "xml", "a generated well-formed table does not load", &xml, &e, "a built model");
        continue;
      }
      Err(p) => {
        rep.disagree(Kind::ImplVsSpec, "xml", "panic while loading a generated well-formed table", &xml, &p, "a built model");
        continue;
      }
    };
    let dt = table_struct(&t);
    rep.hit(&format!("policy:{}", POLICIES[policy_ix].2));
    rep.hit(&format!("rules:{}", t.rules.len()));
    if t.decimal {
      rep.hit("table with decimal cells");
    }
    rep.hit(&format!("inputs:{} outputs:{}", t.ins.len(), t.outs.len()));
    // output cells against the oracle on the texts: an output entry that is literally one of the listed output
    // values is the rule's output (the value of the literal), whatever `Out` is built from
    {
      let scope = Scope::default();
      for (ci, c) in t.outs.iter().enumerate() {
        let ov = match &c.output_values {
          Some(ov) => ov,
          None => continue,
        };
        let listed: Vec<&str> = ov.split(',').map(|x| x.trim()).collect();
        for r in &t.rules {
          let entry = r.outputs[ci].trim();
          let by_test = Dn::parse(entry).and_then(|v| entry_oracle_v(ov, &OV::I(v))) == Some(true);
          if entry == "null" || !(listed.contains(&entry) || by_test) {
            continue;
          }
          let shown = guarded(|| {
            let e = dmntk_feel_parser::parse_expression(&scope, entry, false).ok()?;
            let n = dmntk_feel_parser::parse_unary_tests(&scope, ov, false).ok()?;
            let node = AstNode::Out(Box::new(e), Box::new(n));
            dmntk_feel_evaluator::evaluate(&scope, &node).ok().map(|v| v.to_string())
          });
          let want = guarded(|| eval_text(&scope, entry).map(|v| v.to_string()));
          rep.hit("output-cell oracle");
          if entry.contains('.') {
            rep.hit("output-cell oracle:decimal entry");
          }
          if let (Ok(Some(w)), got) = (&want, &shown) {
            let g = match got {
              Ok(Some(g)) => g.clone(),
              Ok(None) => "error".to_string(),
              Err(p) => format!("panic {}", p),
            };
            if &g != w {
              rep.disagree(
                Kind::ImplVsSpec,
                "output-cell",
                "an output entry admitted by the output values is not the output of its rule",
                &format!("output entry `{}` against the output values `{}`", entry, ov),
                &g,
                w,
              );
            }
          }
        }
      }
    }
    for k in 0..tuples_per_table {
      // corpus tables: the first tuple leaves every input absent, the second gives null
      let tuple = match (from_corpus, k) {
        (true, 0) => vec![None; t.ins.len()],
        (true, 1) => vec![Some("null".to_string()); t.ins.len()],
        _ => input_tuple(&t, &wits, &mut rng),
      };
      let (sent, seen, input_text) = context_of(&t, &tuple);
      // rule matching, cell by cell, against the oracle on the entry text (numeric columns, integer inputs)
      {
        let scope: Scope = seen.clone().into();
        for (i, c) in t.ins.iter().enumerate() {
          let v = match (&c.ty, tuple[i].as_ref().map(|tv| tv.trim())) {
            // an absent input is seen as null by the decision logic
            (_, None) | (_, Some("null")) => OV::Null,
            (Ty::Num, Some(tv)) => match Dn::parse(tv) {
              Some(v) => OV::I(v),
              None => continue,
            },
            (Ty::Str, Some(tv)) => match ov_parse(tv, &OV::S(String::new())) {
              Some(v) => v,
              None => continue,
            },
            (Ty::Bool, Some(tv)) => match ov_parse(tv, &OV::B(false)) {
              Some(v) => v,
              None => continue,
            },
          };
          for r in &t.rules {
            let (want, undecided) = match entry_oracle_u(&r.inputs[i], &v) {
              Some(w) => w,
              None => continue,
            };
            let got = guarded(|| {
              let ie = dmntk_feel_parser::parse_expression(&scope, &c.name, false).ok()?;
              let entry = dmntk_feel_parser::parse_unary_tests(&scope, &r.inputs[i], false).ok()?;
              dmntk_feel_evaluator::evaluate(&scope, &AstNode::In(Box::new(ie), Box::new(entry))).ok()
            });
            rep.hit("cell-oracle:checked");
            if matches!(&v, OV::I(d) if d.normal().s > 0) || (matches!(&v, OV::I(_)) && r.inputs[i].contains('.')) {
              rep.hit("cell-oracle:decimal input value or entry");
            }
            let shown = match &got {
              Ok(Some(Value::Boolean(b))) => b.to_string(),
              Ok(Some(other)) => format!("{}", other),
              Ok(None) => "error".to_string(),
              Err(p) => format!("panic {}", p),
            };
            // for a null input only `satisfied or not` is asserted (an undecided test may answer false or null)
            // (and so for a negated test that cannot be decided: it is not satisfied, null or false)
            let agrees = if v == OV::Null || undecided { matches!(&got, Ok(Some(Value::Boolean(true)))) == want } else { shown == want.to_string() };
            rep.hit(&format!("cell-oracle:{}", cell_branch(&r.inputs[i], &v)));
            if undecided {
              rep.hit("cell-oracle:negated test that cannot be decided");
            }
            if !agrees {
              let sig = match cell_branch(&r.inputs[i], &v) {
                _ if undecided => "a negated input entry whose test cannot be decided for the input (not(< 5) of a string or of null) is satisfied: the rule matches".to_string(),
                "other" => "an input entry is satisfied (or not) contrary to what its text says: the set of matching rules is wrong".to_string(),
                b => format!("an input entry is satisfied (or not) contrary to what its text says ({}): the set of matching rules is wrong", b),
              };
              rep.disagree(
                Kind::ImplVsSpec,
                "rule-matching",
                &sig,
                &format!("input value {:?} against the input entry `{}`", v, r.inputs[i]),
                &shown,
                &want.to_string(),
              );
            }
          }
        }
      }
      let req = match request(&t, &seen) {
        Some(r) => r,
        None => {
          rep.hit("cell outside the model's value type (skipped)");
          continue;
        }
      };
      let obs = match guarded(|| me.evaluate_invocable("D", &sent)) {
        Ok(v) => match value_sexp(&v) {
          Some(s) => format!("(ok {})", s),
          None => format!("(unsupported {})", v),
        },
        Err(p) => format!("(panic {})", p.replace(' ', "_")),
      };
      cases.push(Case {
        req,
        xml: xml.clone(),
        input: input_text,
        policy: POLICIES[policy_ix].2,
        impl_obs: obs,
        direct_obs: Some(direct_eval(&dt, &seen)),
        family: "xml",
        n_out: t.outs.len(),
        any_default: t.outs.iter().any(|c| c.default.is_some()),
      });
    }
  }
  // COLLECT with < / > over outputs that are dates, times, date-times or durations: the minimum / maximum of comparable
  // values is defined for them (DMN 1.3, 10.3.4.4 min / max: comparable items). The expectation is written out here:
  // the literals of a pool are listed in increasing order, the matching rules are told by the oracle on the entry texts.
  {
    const POOLS: [(&str, [&str; 4]); 5] = [
      ("date", ["date(\"2019-12-31\")", "date(\"2020-01-01\")", "date(\"2020-02-29\")", "date(\"2021-06-15\")"]),
      ("time", ["time(\"08:00:00\")", "time(\"09:30:00\")", "time(\"12:00:00\")", "time(\"23:59:59\")"]),
      ("date and time", ["date and time(\"2019-12-31T23:00:00\")", "date and time(\"2020-01-01T10:00:00\")", "date and time(\"2020-01-01T10:00:01\")", "date and time(\"2021-06-15T00:00:00\")"]),
      ("days and time duration", ["duration(\"-P1D\")", "duration(\"PT12H\")", "duration(\"P1D\")", "duration(\"P1DT1H\")"]),
      ("years and months duration", ["duration(\"-P1M\")", "duration(\"P11M\")", "duration(\"P1Y\")", "duration(\"P1Y2M\")"]),
    ];
    let scope = Scope::default();
    let n_temporal = if thorough { 2_000 } else { 200 };
    for ti in 0..n_temporal {
      let (kind, pool) = &POOLS[ti % POOLS.len()];
      let policy_ix = if (ti / POOLS.len()) % 2 == 0 { 8usize } else { 9 };
      let n_rules = 1 + rng.below(5) as usize;
      let mut rules = vec![];
      let mut picks = vec![];
      for _ in 0..n_rules {
        let k = rng.range(1, 5);
        let entry = match rng.below(4) {
          0 => "-".to_string(),
          1 => format!("{}", k),
          2 => format!(">= {}", k),
          _ => format!("[{}..{}]", k, k + 2),
        };
        let pick = rng.below(4) as usize;
        picks.push(pick);
        rules.push(GenRule { inputs: vec![entry], outputs: vec![pool[pick].to_string()] });
      }
      let t = GenTable {
        decimal: false,
        hit_policy: POLICIES[policy_ix].0,
        aggregation: POLICIES[policy_ix].1,
        ins: vec![InClause { name: "i1".into(), ty: Ty::Num, input_values: None }],
        outs: vec![OutClause { name: Some("o1".into()), ty: Ty::Num, output_values: None, default: None }],
        rules,
      };
      let xml = table_xml(&t);
      let me = match guarded(|| dmntk_model::parse(&xml).ok().and_then(|d| ModelEvaluator::new(&d).ok())) {
        Ok(Some(me)) => me,
        _ => {
          rep.disagree(Kind::ImplVsModel, "temporal-collect", "a generated well-formed table does not load", &xml, "error", "a built model");
          continue;
        }
      };
      for _ in 0..3 {
        let v = rng.range(0, 7);
        let matching: Vec<usize> = (0..n_rules).filter(|&k| entry_oracle(&t.rules[k].inputs[0], v) == Some(true)).collect();
        let want = match (policy_ix, matching.iter().map(|&k| picks[k]).min(), matching.iter().map(|&k| picks[k]).max()) {
          (8, Some(lo), _) => eval_text(&scope, pool[lo]).map(|x| x.to_string()),
          (9, _, Some(hi)) => eval_text(&scope, pool[hi]).map(|x| x.to_string()),
          _ => Some("null".to_string()),
        };
        let want = match want {
          Some(w) => w,
          None => continue,
        };
        let mut sent = FeelContext::default();
        sent.set_entry(&"i1".into(), Value::Number(v.into()));
        let got = match guarded(|| me.evaluate_invocable("D", &sent)) {
          Ok(Value::Null(_)) => "null".to_string(),
          Ok(x) => x.to_string(),
          Err(p) => format!("panic {}", p),
        };
        let key = format!("{}|{{i1: {}}}", xml, v);
        rep.case(&key, !matching.is_empty());
        rep.hit(&format!("temporal-collect:{} × matches {}", kind, if matching.len() > 1 { "several" } else if matching.len() == 1 { "one" } else { "none" }));
        if got != want {
          rep.disagree(
            Kind::ImplVsSpec,
            "temporal-collect",
            "COLLECT with < or >: the result is not the minimum / maximum of the matching outputs (dates, times, durations)",
            &format!("{} | input {{i1: {}}}", xml, v),
            &got,
            &want,
          );
        }
      }
    }
  }
  // Negated entries whose test cannot be decided for the input: a comparison or an interval under `not(...)` against
  // an input of another kind, a null input or an absent one.  The test is null, its negation is null, the entry is
  // not satisfied and the rule does not match (DMN 1.3: not(null) = null; a rule matches when every input entry is
  // *true*) — unless another alternative of the list is satisfied, which makes the negation false, or every test is
  // decided.  Every comparison sign × operand kind, every interval bracket × kind, alone and with a decided
  // alternative before / after it, against integer, string, boolean, null and absent inputs; COLLECT tables of up to 8
  // rules through the XML path and `build_decision_table_evaluator`; the expectation is the oracle on the entry texts.
  {
    let inputs: Vec<(Option<&str>, OV, Ty)> = vec![
      (Some("3"), OV::I(Dn::int(3)), Ty::Num),
      (Some("5"), OV::I(Dn::int(5)), Ty::Num),
      (Some("9"), OV::I(Dn::int(9)), Ty::Num),
      (Some("\"abc\""), OV::S("abc".into()), Ty::Str),
      (Some("\"m\""), OV::S("m".into()), Ty::Str),
      (Some("\"zz\""), OV::S("zz".into()), Ty::Str),
      (Some("true"), OV::B(true), Ty::Bool),
      (Some("false"), OV::B(false), Ty::Bool),
      (Some("null"), OV::Null, Ty::Num),
      (None, OV::Null, Ty::Str),
      (None, OV::Null, Ty::Num),
    ];
    let mut tests: Vec<String> = vec![];
    for op in ["<", "<=", ">", ">="] {
      for operand in ["5", "3", "\"m\"", "\"abc\""] {
        tests.push(format!("{} {}", op, operand));
        tests.push(format!("{}{}", op, operand));
      }
    }
    for (ob, cb) in [("[", "]"), ("(", ")"), ("]", "["), ("[", ")"), ("(", "]")] {
      tests.push(format!("{}1..5{}", ob, cb));
      tests.push(format!("{}\"a\"..\"n\"{}", ob, cb));
    }
    let decided = ["3", "9", "\"abc\"", "\"zz\"", "true", "null"];
    let mut entries: Vec<String> = vec![];
    for t in &tests {
      entries.push(format!("not({})", t));
      entries.push(format!("not( {} )", t));
    }
    for (k, t) in tests.iter().enumerate() {
      let d = decided[k % decided.len()];
      let d2 = decided[(k + 1) % decided.len()];
      entries.push(format!("not({}, {})", t, d));
      entries.push(format!("not({}, {})", d2, t));
      entries.push(format!("not({}, {})", t, tests[(k * 7 + 3) % tests.len()]));
    }
    let mut n_und = 0usize;
    for (text, v, ty) in &inputs {
      let usable: Vec<(String, bool, bool)> = entries.iter().filter_map(|e| entry_oracle_u(e, v).map(|(sat, und)| (e.clone(), sat, und))).collect();
      for chunk in usable.chunks(8) {
        let t = GenTable {
          decimal: false,
          hit_policy: POLICIES[6].0,
          aggregation: POLICIES[6].1,
          ins: vec![InClause { name: "i1".into(), ty: *ty, input_values: None }],
          outs: vec![OutClause { name: None, ty: Ty::Num, output_values: None, default: None }],
          rules: chunk.iter().enumerate().map(|(k, (e, _, _))| GenRule { inputs: vec![e.clone()], outputs: vec![format!("{}", k + 1)] }).collect(),
        };
        let ms: Vec<usize> = chunk.iter().enumerate().filter(|(_, (_, sat, _))| *sat).map(|(k, _)| k + 1).collect();
        let want = if ms.is_empty() { "(ok null)".to_string() } else { format!("(ok (l {}))", ms.iter().map(|k| format!("(n {})", k)).collect::<Vec<_>>().join(" ")) };
        n_und += chunk.iter().filter(|(_, _, und)| *und).count();
        let xml = table_xml(&t);
        let tuple = vec![text.map(|x| x.to_string())];
        let (sent, seen, input_text) = context_of(&t, &tuple);
        let got_xml = match guarded(|| dmntk_model::parse(&xml).map_err(|e| e.to_string()).and_then(|d| ModelEvaluator::new(&d).map_err(|e| e.to_string())).map(|me| me.evaluate_invocable("D", &sent))) {
          Ok(Ok(val)) => value_sexp(&val).map_or_else(|| format!("(unsupported {})", val), |x| format!("(ok {})", x)),
          Ok(Err(e)) => format!("(build-error {})", e.replace(' ', "_")),
          Err(p) => format!("(panic {})", p.replace(' ', "_")),
        };
        let got_direct = direct_eval(&table_struct(&t), &seen);
        rep.case(&format!("{}|{}", xml, input_text), true);
        rep.hit(&format!("negated-undecided: input {} × {}", match v { OV::I(_) => "integer", OV::S(_) => "string", OV::B(_) => "boolean", OV::Null => if text.is_some() { "null" } else { "absent" } }, if chunk.iter().any(|(_, _, und)| *und) { "an entry that cannot be decided" } else { "decided entries only" }));
        for (path, got) in [("XML", &got_xml), ("build_decision_table_evaluator", &got_direct)] {
          if *got != want {
            let culprit = chunk.iter().find(|(_, _, und)| *und).map_or(String::new(), |(e, _, _)| format!(" (e.g. `{}`)", e));
            rep.disagree(
              Kind::ImplVsSpec,
              "negated-undecided",
              "a negated input entry whose test cannot be decided for the input (not(< 5) of a string or of null) is satisfied: the rule matches",
              &format!("{} | input {} | through {}{}", xml, input_text, path, culprit),
              got,
              &want,
            );
          }
        }
      }
    }
    rep.hit(&format!("negated-undecided: {} cells that cannot be decided", if n_und > 0 { "some" } else { "no" }));
  }
  // The cells of a table are taken as they are written in the document: string literals that differ only in the white
  // space inside them (two blanks, a tab, a blank and a tab, a blank at either end; a line break is no part of a FEEL string literal) are different values — in input entries,
  // input values, output entries, output values and default output entries.  The expectation is written out here from
  // the strings alone (a rule matches when the input string is literally one of / none of the strings of its entry
  // and is among the input values; outputs are ranked by their literal position among the output values).
  {
    const IN_POOL: [&str; 8] = ["New York", "New  York", "New\tYork", "New \tYork", " New York", "New York ", "NewYork", "New   York"];
    const OUT_POOL: [&str; 7] = ["east coast", "east  coast", "east\tcoast", "east coast ", "west  coast", "west coast", "no\tzone"];
    // U, A, P, F, R, O, C, C#
    const LT_POLICIES: [usize; 8] = [0, 1, 2, 3, 4, 5, 6, 10];
    let q = |s: &str| format!("\"{}\"", s);
    let n_lt = if thorough { 4_000 } else { 400 };
    for ti in 0..n_lt {
      let policy_ix = LT_POLICIES[ti % LT_POLICIES.len()];
      let tag = POLICIES[policy_ix].2;
      let n_rules = 1 + rng.below(5) as usize;
      // (negated, the strings of the entry; empty: the entry `-`), the output
      let mut entries: Vec<(bool, Vec<usize>)> = vec![];
      let mut outs: Vec<usize> = vec![];
      let mut rules = vec![];
      // a narrow window of the pools makes several matches and equal outputs frequent
      let base = rng.below(IN_POOL.len() as u64) as usize;
      let near = |rng: &mut Rng, n: usize| (base + rng.below(3) as usize) % n;
      for _ in 0..n_rules {
        let (neg, strs): (bool, Vec<usize>) = match rng.below(6) {
          0 => (false, vec![]),
          1 | 2 => (false, vec![near(&mut rng, IN_POOL.len())]),
          3 => (false, vec![near(&mut rng, IN_POOL.len()), rng.below(IN_POOL.len() as u64) as usize]),
          4 => (true, vec![near(&mut rng, IN_POOL.len())]),
          _ => (false, vec![rng.below(IN_POOL.len() as u64) as usize]),
        };
        let text = if strs.is_empty() {
          "-".to_string()
        } else {
          let l = strs.iter().map(|&k| q(IN_POOL[k])).collect::<Vec<_>>().join(", ");
          if neg {
            format!("not({})", l)
          } else {
            l
          }
        };
        let o = near(&mut rng, OUT_POOL.len());
        entries.push((neg, strs));
        outs.push(o);
        rules.push(GenRule { inputs: vec![text], outputs: vec![q(OUT_POOL[o])] });
      }
      let mut order: Vec<usize> = (0..OUT_POOL.len()).collect();
      for k in (1..order.len()).rev() {
        let j = rng.below(k as u64 + 1) as usize;
        order.swap(k, j);
      }
      let prioritising = matches!(tag, "P" | "O");
      let listed = prioritising || rng.chance(1, 4);
      let input_values: Option<Vec<usize>> = if rng.chance(1, 3) { Some((0..IN_POOL.len()).filter(|_| rng.chance(2, 3)).collect::<Vec<_>>()).filter(|v: &Vec<usize>| !v.is_empty()) } else { None };
      let default: Option<usize> = if rng.chance(1, 3) { Some(rng.below(OUT_POOL.len() as u64) as usize) } else { None };
      let t = GenTable {
        decimal: false,
        hit_policy: POLICIES[policy_ix].0,
        aggregation: POLICIES[policy_ix].1,
        ins: vec![InClause { name: "i1".into(), ty: Ty::Str, input_values: input_values.as_ref().map(|iv| iv.iter().map(|&k| q(IN_POOL[k])).collect::<Vec<_>>().join(", ")) }],
        outs: vec![OutClause {
          name: if rng.chance(1, 2) { Some("o1".into()) } else { None },
          ty: Ty::Str,
          output_values: if listed { Some(order.iter().map(|&k| q(OUT_POOL[k])).collect::<Vec<_>>().join(", ")) } else { None },
          default: default.map(|k| q(OUT_POOL[k])),
        }],
        rules,
      };
      let xml = table_xml(&t);
      let me = match guarded(|| dmntk_model::parse(&xml).map_err(|e| e.to_string()).and_then(|d| ModelEvaluator::new(&d).map_err(|e| e.to_string()))) {
        Ok(Ok(me)) => me,
        other => {
          let shown = match other {
            Ok(Err(e)) => e,
            Err(p) => format!("panic {}", p),
            _ => String::new(),
          };
          rep.disagree(Kind::ImplVsSpec, "literal-text", "a table whose string literals contain white space (blanks, a tab) does not load", &xml, &shown, "a built model");
          continue;
        }
      };
      let rank = |o: usize| order.iter().position(|&k| k == o).unwrap_or(usize::MAX);
      let s = |k: usize| Sexp::str(OUT_POOL[k]).to_string();
      for _ in 0..3 {
        let vi = if rng.chance(3, 4) { near(&mut rng, IN_POOL.len()) } else { rng.below(IN_POOL.len() as u64) as usize };
        let allowed = input_values.as_ref().map_or(true, |iv| iv.contains(&vi));
        let ms: Vec<usize> = (0..n_rules).filter(|&k| allowed && (entries[k].1.is_empty() || entries[k].1.contains(&vi) != entries[k].0)).map(|k| outs[k]).collect();
        let want = if ms.is_empty() {
          default.map_or("null".to_string(), s)
        } else {
          match tag {
            "U" => if ms.len() == 1 { s(ms[0]) } else { "null".to_string() },
            "A" => if ms.iter().all(|x| *x == ms[0]) { s(ms[0]) } else { "null".to_string() },
            "F" => s(ms[0]),
            "P" => {
              let best = ms.iter().map(|&x| rank(x)).min().unwrap();
              s(*ms.iter().find(|&&x| rank(x) == best).unwrap())
            }
            "R" | "C" => format!("(l {})", ms.iter().map(|&x| s(x)).collect::<Vec<_>>().join(" ")),
            "O" => {
              let mut sorted = ms.clone();
              sorted.sort_by_key(|&x| rank(x));
              format!("(l {})", sorted.iter().map(|&x| s(x)).collect::<Vec<_>>().join(" "))
            }
            _ => format!("(n {})", ms.len()),
          }
        };
        let mut sent = FeelContext::default();
        sent.set_entry(&"i1".into(), Value::String(IN_POOL[vi].to_string()));
        let got = match guarded(|| me.evaluate_invocable("D", &sent)) {
          Ok(v) => value_sexp(&v).map_or_else(|| format!("(unsupported {})", v), |x| x.to_string()),
          Err(p) => format!("(panic {})", p.replace(' ', "_")),
        };
        rep.case(&format!("{}|{:?}", xml, IN_POOL[vi]), true);
        rep.hit(&format!("literal-text: policy {} × matches {}", tag, if ms.len() > 1 { "several" } else if ms.len() == 1 { "one" } else if default.is_some() { "none, default" } else { "none" }));
        if got != want {
          rep.disagree(
            Kind::ImplVsSpec,
            "literal-text",
            &format!("hit policy {} over string cells that differ in the white space inside the literals: the result is not what the texts of the cells prescribe", tag),
            &format!("{} | input {{i1: {:?}}}", xml, IN_POOL[vi]),
            &got,
            &want,
          );
        }
      }
    }
  }
  // Decimal outputs under every single-output policy, with the expectation written out here in exact integer arithmetic
  // (`Dn`: coefficient / 10^scale), independent of the evaluator and of the Lean model: which rules match is told by
  // the oracle on the entry texts; equality, order and sum are numeric. Pools: the same values under different
  // spellings (ANY must treat 1.0 and 1.00 as equal), values that differ in the 20th digit (C< / C>), 34-digit
  // values whose sum stays inside / leaves the 34-digit envelope (outside it only model and specification, which
  // round as `+=` does, are compared). The same cases go to the model and the specification (family `decimal`).
  {
    const POOLS: [(&str, &[&str]); 4] = [
      ("spellings", &["1.0", "1.00", "1", "1.10", "1.1", "1.01", "0.15", "0.150", "-0.5", "-0.50", "0.5", "2.50"]),
      ("digit20", &["1.2345678901234567890", "1.2345678901234567891", "1.2345678901234567892", "1.2345678901234567889", "1.234567890123456789", "-1.2345678901234567891"]),
      (
        "digits34",
        &[
          "9999999999999999999999999999999999",
          "-9999999999999999999999999999999999",
          "1234567890123456789012345678901234",
          "0.5",
          "0.4",
          "0.6",
          "1.5",
          "1",
          "-1",
          "5000000000000000000000000000000000",
          "499999999999999999999999999999999.5",
          "0.1234567890123456789012345678901234",
        ],
      ),
      ("mixed", &["0.15", "0.1", "2.25", "-0.5", "0.001", "100", "0.0010", "12.50", "7", "0.35"]),
    ];
    // U, A, P, F, R, O, C, C+, C<, C>, C#
    const DEC_POLICIES: [usize; 11] = [0, 1, 2, 3, 4, 5, 6, 7, 8, 9, 10];
    let n_dec = if thorough { 12_000 } else { 1_200 };
    for ti in 0..n_dec {
      let (pool_name, pool) = POOLS[ti % POOLS.len()];
      let policy_ix = DEC_POLICIES[(ti / POOLS.len()) % DEC_POLICIES.len()];
      let tag = POLICIES[policy_ix].2;
      let n_rules = 1 + rng.below(6) as usize;
      let mut rules = vec![];
      let mut vals: Vec<Option<Dn>> = vec![];
      for _ in 0..n_rules {
        let k = rng.range(1, 5);
        let entry = match rng.below(5) {
          0 => "-".to_string(),
          1 => format!("{}", k),
          2 => format!(">= {}.0", k),
          3 => format!("< {}.50", k),
          _ => format!("[{}..{}.0]", k, k + 2),
        };
        // a narrow pick makes equal values and ties frequent
        let pick = if rng.chance(1, 2) { rng.below(3.min(pool.len() as u64)) } else { rng.below(pool.len() as u64) } as usize;
        let text = pool[pick];
        vals.push(Dn::parse(text));
        rules.push(GenRule { inputs: vec![entry], outputs: vec![text.to_string()] });
      }
      // PRIORITY / OUTPUT ORDER: the pool in a shuffled order as the output values
      let mut order: Vec<&str> = pool.to_vec();
      for k in (1..order.len()).rev() {
        let j = rng.below(k as u64 + 1) as usize;
        order.swap(k, j);
      }
      let prioritising = matches!(tag, "P" | "O");
      let t = GenTable {
        decimal: true,
        hit_policy: POLICIES[policy_ix].0,
        aggregation: POLICIES[policy_ix].1,
        ins: vec![InClause { name: "i1".into(), ty: Ty::Num, input_values: None }],
        outs: vec![OutClause { name: if rng.chance(1, 2) { Some("o1".into()) } else { None }, ty: Ty::Num, output_values: if prioritising { Some(order.join(",")) } else { None }, default: None }],
        rules,
      };
      let xml = table_xml(&t);
      let me = match guarded(|| dmntk_model::parse(&xml).ok().and_then(|d| ModelEvaluator::new(&d).ok())) {
        Ok(Some(me)) => me,
        _ => {
          rep.disagree(Kind::ImplVsModel, "decimal", "a generated well-formed table does not load", &xml, "error", "a built model");
          continue;
        }
      };
      let dt = table_struct(&t);
      let rank = |v: &Dn| order.iter().position(|o| Dn::parse(o).map_or(false, |x| x == *v)).unwrap_or(usize::MAX);
      for _ in 0..3 {
        let input = *rng.pick(&["0", "1", "2", "2.0", "2.50", "3", "3.5", "4.49", "4.50", "5", "6.00", "7"]);
        let iv = match Dn::parse(input) {
          Some(v) => v,
          None => continue,
        };
        let tuple = vec![Some(input.to_string())];
        let (sent, seen, input_text) = context_of(&t, &tuple);
        let obs_value = guarded(|| me.evaluate_invocable("D", &sent));
        let obs = match &obs_value {
          Ok(v) => match value_sexp(v) {
            Some(s) => format!("(ok {})", s),
            None => format!("(unsupported {})", v),
          },
          Err(p) => format!("(panic {})", p.replace(' ', "_")),
        };
        // the expectation, from the texts alone
        let matching: Option<Vec<usize>> = (0..n_rules).map(|k| entry_oracle_v(&t.rules[k].inputs[0], &OV::I(iv))).collect::<Option<Vec<bool>>>().map(|m| (0..n_rules).filter(|&k| m[k]).collect());
        let num = |d: &Dn| {
          let (c, s) = d.norm_text();
          if s == 0 {
            format!("(n {})", c)
          } else {
            format!("(n {} {})", c, s)
          }
        };
        let want: Option<String> = (|| {
          let m = matching.as_ref()?;
          let ms: Vec<Dn> = m.iter().map(|&k| vals[k]).collect::<Option<Vec<Dn>>>()?;
          // comparisons must fit the oracle's integers
          for a in &ms {
            for b in &ms {
              a.aligned(b)?;
            }
          }
          if ms.is_empty() {
            return Some("null".to_string());
          }
          Some(match tag {
            "U" => {
              if ms.len() == 1 {
                num(&ms[0])
              } else {
                "null".to_string()
              }
            }
            "A" => {
              if ms.iter().all(|x| *x == ms[0]) {
                num(&ms[0])
              } else {
                "null".to_string()
              }
            }
            "F" => num(&ms[0]),
            "P" => {
              let best = ms.iter().map(|x| rank(x)).min()?;
              num(ms.iter().find(|x| rank(x) == best)?)
            }
            "R" | "C" => format!("(l {})", ms.iter().map(|x| num(x)).collect::<Vec<_>>().join(" ")),
            "O" => {
              let mut sorted = ms.clone();
              sorted.sort_by_key(|x| rank(x));
              format!("(l {})", sorted.iter().map(|x| num(x)).collect::<Vec<_>>().join(" "))
            }
            "C#" => format!("(n {})", ms.len()),
            "C+" => {
              let mut acc = ms[0];
              for x in &ms[1..] {
                acc = acc.add(x)?;
                if acc.digits() > 34 {
                  // outside the envelope: the code rounds; left to the model and the specification
                  return None;
                }
              }
              num(&acc)
            }
            "C<" => {
              let mut m0 = ms[0];
              for x in &ms[1..] {
                if *x < m0 {
                  m0 = *x;
                }
              }
              num(&m0)
            }
            "C>" => {
              let mut m0 = ms[0];
              for x in &ms[1..] {
                if *x > m0 {
                  m0 = *x;
                }
              }
              num(&m0)
            }
            _ => return None,
          })
        })();
        let n_match = matching.as_ref().map(|m| m.len()).unwrap_or(0);
        rep.hit(&format!("decimal:{} × policy {} × matches {}", pool_name, tag, if n_match > 1 { "several" } else if n_match == 1 { "one" } else { "none" }));
        match &want {
          Some(w) => {
            rep.hit("decimal:expectation written out");
            let want_obs = format!("(ok {})", w);
            if obs != want_obs {
              rep.disagree(
                Kind::ImplVsSpec,
                "decimal",
                &format!("hit policy {} over decimal outputs: the result is not what exact decimal arithmetic gives (equality, order and sum of numbers are numeric)", tag),
                &format!("{} | input {}", xml, input_text),
                &obs,
                &want_obs,
              );
            }
          }
          None => rep.hit("decimal:expectation left to model and specification (sum outside the 34-digit envelope, or beyond the oracle's integers)"),
        }
        if let Some(req) = request(&t, &seen) {
          cases.push(Case {
            req,
            xml: xml.clone(),
            input: input_text,
            policy: tag,
            impl_obs: obs,
            direct_obs: Some(direct_eval(&dt, &seen)),
            family: "decimal",
            n_out: 1,
            any_default: false,
          });
        } else {
          rep.hit("cell outside the model's value type (skipped)");
        }
      }
    }
  }
  // the shipped EX_* tables, recognised from their box-drawing text
  let mut n_ex = 0;
  for (name, text) in ex_table_texts() {
    let dt = match guarded(|| dmntk_recognizer::build(&text)) {
      Ok(Ok(dt)) => dt,
      _ => {
        rep.hit("EX table not recognised (skipped)");
        continue;
      }
    };
    let t = match gen_of_recognised(&dt) {
      Some(t) => t,
      None => {
        rep.hit("EX table with a non-name input expression (skipped)");
        continue;
      }
    };
    n_ex += 1;
    let cands: Vec<Vec<String>> = (0..t.ins.len()).map(|i| candidates(&t, i)).collect();
    let n_tuples = if thorough { 200 } else { 40 };
    for _ in 0..n_tuples {
      let tuple: Vec<Option<String>> = cands.iter().map(|c| Some(rng.pick(c).clone())).collect();
      let (_, seen, input_text) = context_of(&t, &tuple);
      let req = match request(&t, &seen) {
        Some(r) => r,
        None => {
          rep.hit("cell outside the model's value type (skipped)");
          continue;
        }
      };
      let obs = direct_eval(&dt, &seen);
      cases.push(Case {
        req,
        xml: format!("EX_{} (examples/src/examples/valid.rs)", name),
        input: input_text,
        policy: POLICIES.iter().find(|p| p.0 == t.hit_policy && p.1 == t.aggregation).map(|p| p.2).unwrap_or("?"),
        impl_obs: obs,
        direct_obs: None,
        family: "recognised",
        n_out: t.outs.len(),
        any_default: t.outs.iter().any(|c| c.default.is_some()),
      });
    }
  }
  rep.extra.insert("ex_tables_used".into(), json!(n_ex));
  let reqs: Vec<String> = cases.iter().map(|c| c.req.clone()).collect();
  let answers = model.ask_batch(&reqs);
  for (c, ans) in cases.iter().zip(answers.iter()) {
    let key = format!("{}|{}", c.xml, c.input);
    rep.case(&key, c.req.contains("((t") || c.req.contains("((f") || c.req.contains("((o"));
    let parsed = Sexp::parse(ans);
    let (m, s, n) = match parsed.as_ref().and_then(|p| p.as_list()) {
      Some([m, s, n]) => (m.to_string(), s.to_string(), n.as_atom().and_then(|a| a.parse::<usize>().ok()).unwrap_or(0)),
      _ => {
        rep.disagree(Kind::ImplVsModel, "eval", "driver-error", &c.req, &c.impl_obs, ans);
        continue;
      }
    };
    rep.hit(&format!("matching rules:{}", if n > 3 { "4+".to_string() } else { n.to_string() }));
    rep.hit(&format!("policy {} × matches {}", c.policy, if n > 1 { "several" } else if n == 1 { "one" } else { "none" }));
    let input = format!("{} | input {} | {}", c.xml, c.input, c.req);
    rep.hit(&format!("observation point: {}", c.family));
    if c.impl_obs != m {
      rep.disagree(Kind::ImplVsModel, c.family, &format!("hit policy {}: implementation differs from the model", c.policy), &input, &c.impl_obs, &m);
    }
    if let Some(d) = &c.direct_obs {
      if d != &c.impl_obs {
        rep.disagree(Kind::ImplVsModel, "direct", "build_decision_table_evaluator and the XML path disagree on the same table", &input, d, &c.impl_obs);
      }
    }
    if n == 0 && c.n_out > 1 && c.any_default {
      rep.hit("no rule matches × several output clauses × default entries");
    }
    let spec = format!("(ok {})", s);
    if c.impl_obs != spec {
      let sig = if c.impl_obs.starts_with("(panic") {
        format!("hit policy {}: panic {}", c.policy, c.impl_obs)
      } else {
        format!("hit policy {}: result differs from what the policy prescribes", c.policy)
      };
      rep.disagree(Kind::ImplVsSpec, "spec", &sig, &input, &c.impl_obs, &spec);
    }
    if n >= 2 {
      rep.sample(json!({"xml": c.xml, "input": c.input, "request": c.req, "implementation": c.impl_obs, "model_spec_matches": ans}));
    }
  }
  rep.model_requests = model.requests;
  rep
}
