//! C20 — a deployed model may be evaluated from many threads with per-call results intact.
//!
//! One generated model (numeric, temporal, regular-expression and decision-table heavy
//! invocables, a chain of required decisions, a business knowledge model, a decision service)
//! is built once; `Arc<ModelEvaluator>` is then shared by 2..16 threads, each performing a
//! sequence of `evaluate_invocable` calls with randomised start barriers, yields and call
//! orders.  Every result is compared with the sequential result of the same call; a watchdog
//! turns a hang into a "deadlock" observation; afterwards the evaluator must still answer
//! (no poisoned lock).  The driver reports the checks of the regenerated synchronisation
//! table and runs the interleaving semantics on the abstract lock shape of every round.
//!
//! The generated model also has invocables that ACCUMULATE their result (boxed relation — as decision logic and as
//! the logic of a knowledge model —, boxed contexts, boxed invocation, long lists built by for / filter / sort /
//! quantifiers / list built-ins, collecting decision tables); half of the rounds put all threads into these
//! constructs (modes `accumulating-mixed`, `one-accumulating-construct`: the same construct, different inputs).
//!
//! Family `server-scope` (server/src/server.rs is an anchor of C20): over HTTP against the real service, sequences
//! rejected body -> well-formed body over entry names related by the additional symbols (- + * / .), on every worker
//! thread, from one client and from several clients at once; every answer is judged by the value written in the body.
//!
//! Families added in wave 7 (all with written-out expectations, `judge_written`):
//! * `special-names` — invocables Par1..Par6: `for` bodies that read `partial` (one and two iteration contexts), and a
//!   `for` / a filter / quantifiers entered again from their own body through a recursive function (the same prepared
//!   construct re-entered on one thread) and from many threads at once (they are "accumulating" invocables);
//! * `overlapping-rules` — one decision table per hit policy (UNIQUE, ANY, FIRST, PRIORITY, RULE ORDER, OUTPUT ORDER,
//!   COLLECT, COLLECT COUNT) whose rules overlap; inputs at and next to every threshold, each twice, so that a call of a
//!   part matched by several rules follows a call of a part matched by one;
//! * `invocable-names` — every tenth call (and two per overlapping table, whose names have a space) asks an invocable by
//!   another spelling of its name: the answer must be null or the value of the invocable meant;
//! * every evaluation made alone runs under a watchdog (`with_deadline`): a call that does not come back is reported as
//!   a deadlock with that single call as the failing input.
//!
//! Families added in wave 8 (every kind of invocable is paired with a "disturber": the same code driven by failing /
//! extreme / differently-shaped inputs on other threads; three rounds of every five put the ordinary calls on the even
//! threads and the disturbing calls on the odd threads):
//! * `service-input-decisions` — decision services WITH input decisions (one, two, one in the middle of a chain, a
//!   service invoked as a function from a decision, a service inside a service) beside direct evaluations of the
//!   decisions that require those decisions; every call carries tags of its own (`w`, `Sal1`, `Amt1`, `Let1`), so that a
//!   value of another call shows in the answer; written-out expectations (`Oracle::Letter`);
//! * `conversions` — Cnv1: number -> machine integer conversions behind time / date / date and time / substring / sublist /
//!   list index / for range with arguments that fit (written-out expectation, `Oracle::Conversions`) beside Dst1: the same
//!   built-ins with numbers that do not fit (`BIG`);
//! * `ordinary-vs-disturbing-inputs` — every invocable (but the unbounded recursion) with the inputs of
//!   `gen_extreme_input`; the answer alone is the expectation;
//! * `number-conversions` — directly on `FeelNumber` (`number_conversions`): conversions of integers that fit (the
//!   expectation is the integer) beside conversions of numbers that do not fit (the expectation is the answer alone);
//! * the semantics with panics (`Dmn.ConcP`, request `runp`) on the abstract lock shape of the rounds.
//!
//! Family added in wave 9:
//! * `oversubscription` — rounds with far more runnable threads than processors (12 x `available_parallelism`, all
//!   released from one barrier, one call each): iteration-heavy invocables (`sum(for …)`, a `for` with two iteration
//!   contexts, `some` / `every` over a long range, a filter over a long list built by `for`) whose `n` is calibrated at
//!   run time so that one call made alone takes about a quarter of a second; every answer is compared with the
//!   written-out value (n(n+1)/2 …) and with the answer of the same call made alone. An answer that depends on how
//!   long the thread was kept off the processor shows here.

use crate::model::Model;
use crate::report::{Kind, Report};
use crate::rng::Rng;
use crate::sexp::Sexp;
use crate::util::guarded;
use crate::Cfg;
use dmntk_feel::context::FeelContext;
use dmntk_feel::values::Value;
use dmntk_feel::Scope;
use dmntk_model_evaluator::ModelEvaluator;
use serde_json::json;
use std::sync::mpsc;
use std::sync::{Arc, Barrier};
use std::time::{Duration, Instant};

/// One invocable of the generated model: name, kind, the nesting of read-lock acquisitions
/// its evaluation performs (for the abstract program), and a generator of inputs.
struct Invocable {
  name: String,
  kind: &'static str,
  /// registries read-locked on the way (abstract shape only; numbers name the locks)
  locks: Vec<u64>,
  /// the written-out expectation of a call of this invocable, when there is one (independent of the implementation)
  oracle: Oracle,
}

/// Written-out expectations (the specification side of the families `special-names` and `overlapping-rules`).
#[derive(Clone)]
enum Oracle {
  None,
  /// the answer is this text, whatever the input
  Fixed(String),
  /// `for i in 1..len return if i = 1 then n else partial[-1] + i`: item i is n + (2 + 3 + … + i)
  PartialSums(u64),
  /// `for i in 1..len return count(partial)`: 0, 1, 2, …
  PartialCounts(u64),
  /// the table of the family `overlapping-rules`: hit policy, thresholds t0 < t1 < t2
  Overlap(&'static str, i128, i128, i128),
  /// family `service-input-decisions`: which of Let1..Let3 / SvcL1..SvcL4, and the length of the padding loop
  Letter(&'static str, u64),
  /// family `conversions`: the invocable Cnv1
  Conversions,
}

/// Hit policies of the family `overlapping-rules`: label, attributes of the decision table.
const OVERLAP_POLICIES: [(&str, &str); 8] = [
  ("UNIQUE", "hitPolicy=\"UNIQUE\""),
  ("ANY", "hitPolicy=\"ANY\""),
  ("FIRST", "hitPolicy=\"FIRST\""),
  ("PRIORITY", "hitPolicy=\"PRIORITY\""),
  ("RULE ORDER", "hitPolicy=\"RULE ORDER\""),
  ("OUTPUT ORDER", "hitPolicy=\"OUTPUT ORDER\""),
  ("COLLECT", "hitPolicy=\"COLLECT\""),
  ("COUNT", "hitPolicy=\"COLLECT\" aggregation=\"COUNT\""),
];

/// A decimal numeral `[-]digits[.digits]` (possibly in parentheses) as (coefficient, scale), trailing zeros removed.
fn dec_value(text: &str) -> Option<(i128, u32)> {
  let t = text.trim().trim_start_matches('(').trim_end_matches(')').trim();
  let (neg, t) = match t.strip_prefix('-') {
    Some(r) => (true, r),
    None => (false, t),
  };
  let (ip, fp) = match t.split_once('.') {
    Some((a, b)) => (a, b),
    None => (t, ""),
  };
  if ip.is_empty() || !ip.chars().all(|c| c.is_ascii_digit()) || !fp.chars().all(|c| c.is_ascii_digit()) || ip.len() + fp.len() > 30 {
    return None;
  }
  let fp = fp.trim_end_matches('0');
  let c: i128 = format!("{}{}", ip, fp).parse().ok()?;
  Some((if neg { -c } else { c }, fp.len() as u32))
}

/// `a + k` for an integer k, normalised.
fn dec_add_int(a: (i128, u32), k: i128) -> (i128, u32) {
  let (mut c, mut s) = (a.0 + k * 10i128.pow(a.1), a.1);
  while s > 0 && c % 10 == 0 {
    c /= 10;
    s -= 1;
  }
  (c, s)
}

/// The items of a canonical list text `[a, b, c]` of numbers, as normalised decimals.
fn dec_list(text: &str) -> Option<Vec<(i128, u32)>> {
  let inner = text.strip_prefix('[')?.strip_suffix(']')?;
  if inner.is_empty() {
    return Some(vec![]);
  }
  inner.split(", ").map(dec_value).collect()
}

/// Judges the answer `got` (canonical text) of a call with the number `n` by the written-out expectation of the
/// invocable; `Err(expected)` when it is not what is written.
fn judge_written(oracle: &Oracle, input_text: &str, got: &str) -> Result<(), String> {
  let n = match n_of(input_text) {
    Some(n) => n,
    None => return Ok(()),
  };
  let q = |s: &str| format!("{:?}", s);
  let int = |name: &str| -> Option<i128> { field_of(input_text, name).and_then(|t| dec_value(&t)).filter(|d| d.1 == 0).map(|d| d.0) };
  let text = |name: &str| -> Option<String> { field_of(input_text, name).and_then(|t| t.strip_prefix('"').and_then(|r| r.strip_suffix('"')).map(|r| r.to_string())) };
  match oracle {
    Oracle::Letter(which, pad) => {
      // the values a decision service is given for its input decisions replace those decisions inside the service;
      // everywhere else a required decision is evaluated from the input data of the call
      let w = match text("w") {
        Some(w) => w,
        None => return Ok(()),
      };
      let amount = dec_add_int((n.0 * 2, n.1), 1);
      let same_number = |t: Option<String>, want: (i128, u32)| t.and_then(|t| dec_value(&t)) == Some(dec_add_int(want, 0));
      let ctx_ok = |letter: &str, amount: (i128, u32)| -> bool {
        field_of(got, "letter") == Some(q(letter)) && same_number(field_of(got, "amount"), amount) && field_of(got, "pad") == Some(pad.to_string())
      };
      let (ok, want) = match *which {
        "Let1" => (got == q(&format!("Dear {}!", w)), q(&format!("Dear {}!", w))),
        "Let3" => (got == q(&format!("Yo {}!?", w)), q(&format!("Yo {}!?", w))),
        "Let2" => (ctx_ok(&format!("Dear {}!", w), amount), format!("{{amount: n * 2 + 1, letter: \"Dear {}!\", pad: {}}}", w, pad)),
        "SvcL1" => match text("Sal1") {
          Some(sal) => (got == q(&format!("{}!", sal)), q(&format!("{}!", sal))),
          None => return Ok(()),
        },
        "SvcL2" => match (text("Sal1"), field_of(input_text, "Amt1").and_then(|t| dec_value(&t))) {
          (Some(sal), Some(amt)) => (ctx_ok(&format!("{}!", sal), amt), format!("{{amount: {}e-{}, letter: \"{}!\", pad: {}}}", amt.0, amt.1, sal, pad)),
          _ => return Ok(()),
        },
        "SvcL3" => match text("Let1") {
          Some(let1) => (ctx_ok(&let1, amount), format!("{{amount: n * 2 + 1, letter: \"{}\", pad: {}}}", let1, pad)),
          None => return Ok(()),
        },
        _ => match text("Sal1") {
          Some(sal) => {
            let want = format!("{{Let1: {}, Let3: {}}}", q(&format!("{}!", sal)), q(&format!("Yo {}!?", w)));
            (got == want, want)
          }
          None => return Ok(()),
        },
      };
      return if ok { Ok(()) } else { Err(want) };
    }
    Oracle::Conversions => {
      let f = (int("h"), int("mi"), int("sc"), int("y"), int("mo"), int("dd"), int("pp"), int("qq"));
      let (h, mi, sc, y, mo, dd, pp, qq) = match f {
        (Some(h), Some(mi), Some(sc), Some(y), Some(mo), Some(dd), Some(pp), Some(qq))
          if (0..24).contains(&h) && (0..60).contains(&mi) && (0..60).contains(&sc) && (1000..10000).contains(&y) && (1..13).contains(&mo) && (1..29).contains(&dd) && (0..20).contains(&pp) && (0..20).contains(&qq) =>
        {
          (h, mi, sc, y, mo, dd, pp, qq)
        }
        _ => return Ok(()),
      };
      let abc = "abcdefghijklmnopqrstuvwxyz";
      let (t, d) = (format!("{:02}:{:02}:{:02}", h, mi, sc), format!("{:04}-{:02}-{:02}", y, mo, dd));
      let want = format!(
        "[{}, {}, {}, [{}, {}], {}, {}, {}, {}, [{}], 1770, {}, [{}]]",
        q(&t),
        q(&d),
        q(&abc[pp as usize..pp as usize + 3]),
        qq,
        qq + 1,
        pp,
        q(&format!("{}T{}", d, t)),
        qq + 1,
        h * 60 + mi,
        (0..24).map(|i| i.to_string()).collect::<Vec<_>>().join(", "),
        q(&abc[25 - pp as usize..]),
        (1..13).map(|i| i.to_string()).collect::<Vec<_>>().join(", ")
      );
      return if got == want { Ok(()) } else { Err(want) };
    }
    _ => {}
  }
  match oracle {
    Oracle::Letter(..) | Oracle::Conversions => Ok(()),
    Oracle::None => Ok(()),
    Oracle::Fixed(t) => {
      if got == t {
        Ok(())
      } else {
        Err(t.clone())
      }
    }
    Oracle::PartialSums(len) => {
      let want: Vec<(i128, u32)> = (1..=*len as i128).map(|i| dec_add_int(n, i * (i + 1) / 2 - 1)).collect();
      if dec_list(got).as_ref() == Some(&want) {
        Ok(())
      } else {
        Err(format!("the list of n + (2 + ... + i) for i = 1..{}, n = {}e-{}", len, n.0, n.1))
      }
    }
    Oracle::PartialCounts(len) => {
      let want: Vec<(i128, u32)> = (0..*len as i128).map(|i| (i, 0)).collect();
      if dec_list(got).as_ref() == Some(&want) {
        Ok(())
      } else {
        Err(format!("[0, 1, ..., {}]", len - 1))
      }
    }
    Oracle::Overlap(hp, t0, t1, t2) => {
      // compare n with an integer threshold: n - t as a sign
      let cmp = |t: i128| (n.0 - t * 10i128.pow(n.1)).signum();
      let matched: Vec<&str> = [
        (cmp(*t1) <= 0, "standard"),
        (cmp(*t0) >= 0 && cmp(*t2) <= 0, "reduced"),
        (cmp(*t2) > 0, "individual"),
        (cmp(*t1) > 0 && cmp(*t2) <= 0, "reduced"),
      ]
      .iter()
      .filter(|(m, _)| *m)
      .map(|(_, o)| *o)
      .collect();
      let q = |s: &str| format!("{:?}", s);
      let list = |v: &[&str]| format!("[{}]", v.iter().map(|s| q(s)).collect::<Vec<_>>().join(", "));
      let priority = |s: &str| ["individual", "reduced", "standard"].iter().position(|p| *p == s).unwrap_or(9);
      let want = match *hp {
        "UNIQUE" => {
          if matched.len() == 1 {
            q(matched[0])
          } else {
            "null".to_string()
          }
        }
        "ANY" => {
          if !matched.is_empty() && matched.iter().all(|m| *m == matched[0]) {
            q(matched[0])
          } else {
            "null".to_string()
          }
        }
        "FIRST" => matched.first().map(|m| q(m)).unwrap_or_else(|| "null".into()),
        "PRIORITY" => matched.iter().min_by_key(|m| priority(m)).map(|m| q(m)).unwrap_or_else(|| "null".into()),
        "RULE ORDER" | "COLLECT" => list(&matched),
        "OUTPUT ORDER" => {
          let mut v = matched.clone();
          v.sort_by_key(|m| priority(m));
          list(&v)
        }
        _ => format!("{}", matched.len()),
      };
      if got == want {
        Ok(())
      } else {
        Err(want)
      }
    }
  }
}

/// Runs `f` on a thread of its own and waits at most `secs` seconds for it: `None` when it does not come back
/// (the thread is left behind; the caller ends the run).
fn with_deadline<T: Send + 'static>(secs: u64, f: impl FnOnce() -> T + Send + 'static) -> Option<T> {
  let (tx, rx) = mpsc::channel::<T>();
  let h = std::thread::Builder::new().stack_size(8 << 20).spawn(move || {
    let _ = tx.send(f());
  });
  match h {
    Ok(h) => match rx.recv_timeout(Duration::from_secs(secs)) {
      Ok(v) => {
        let _ = h.join();
        Some(v)
      }
      Err(_) => None,
    },
    Err(_) => None,
  }
}

/// Other spellings of the name of an invocable (family `invocable-names`): white space added in every place, other
/// white space characters, other case, a prefix, a longer name, the empty name.
fn name_variants(name: &str) -> Vec<String> {
  let mut v = vec![
    format!(" {}", name),
    format!("{} ", name),
    format!("  {}  ", name),
    format!("\t{}", name),
    format!("{}\n", name),
    format!("\u{a0}{}", name),
    name.to_lowercase(),
    name.to_uppercase(),
    format!("{}x", name),
    name.chars().take(name.chars().count().saturating_sub(1)).collect(),
    String::new(),
    " ".to_string(),
  ];
  if name.contains(' ') {
    v.push(name.replace(' ', "  "));
    v.push(name.replace(' ', "\t"));
    v.push(name.replace(' ', " \t "));
    v.push(name.replace(' ', "\u{a0}"));
    v.push(name.replace(' ', ""));
    v.push(name.replace(' ', "_"));
  }
  v.retain(|x| x != name);
  v
}

fn xml_escape(s: &str) -> String {
  s.replace('&', "&amp;").replace('<', "&lt;").replace('>', "&gt;").replace('"', "&quot;")
}

fn decision(name: &str, type_ref: &str, requirements: &[(&str, &str)], text: &str) -> String {
  let reqs: String = requirements
    .iter()
    .map(|(kind, href)| match *kind {
      "input" => format!("<informationRequirement><requiredInput href=\"#{}\"/></informationRequirement>", href),
      "decision" => format!("<informationRequirement><requiredDecision href=\"#{}\"/></informationRequirement>", href),
      _ => format!("<knowledgeRequirement><requiredKnowledge href=\"#{}\"/></knowledgeRequirement>", href),
    })
    .collect();
  let tr = if type_ref.is_empty() { String::new() } else { format!(" typeRef=\"{}\"", type_ref) };
  format!(
    "<decision name=\"{n}\" id=\"_{n}\"><variable name=\"{n}\"{tr}/>{reqs}<literalExpression><text>{text}</text></literalExpression></decision>\n",
    n = name,
    tr = tr,
    reqs = reqs,
    text = xml_escape(text)
  )
}

/// The generated model; constants vary with the seed.
fn generate_model(rng: &mut Rng) -> (String, Vec<Invocable>) {
  let mut x = String::new();
  let mut inv = vec![];
  x.push_str("<inputData name=\"n\" id=\"_n\"><variable name=\"n\" typeRef=\"number\"/></inputData>\n");
  x.push_str("<inputData name=\"s\" id=\"_s\"><variable name=\"s\" typeRef=\"string\"/></inputData>\n");
  x.push_str("<inputData name=\"d\" id=\"_d\"><variable name=\"d\" typeRef=\"string\"/></inputData>\n");
  // locks: 0 invocable_by_name, 1 decision registry, 2 knowledge models, 3 decision services, 4 input data, 5 item definitions
  let dec_locks = vec![0, 2, 3, 1, 4, 5];
  // numeric
  let (a, b, c) = (20 + rng.below(60), 2 + rng.below(7), 1 + rng.below(9));
  x.push_str(&decision(
    "Num1",
    "number",
    &[("input", "_n")],
    &format!("sum(for i in 1..{a} return (i * i + n) / {b}) + sqrt(n * n + {c}) - decimal(n / {b}, 3) + floor(n) ** 2", a = a, b = b, c = c),
  ));
  inv.push(Invocable { name: "Num1".into(), kind: "numeric", locks: dec_locks.clone(), oracle: Oracle::None });
  x.push_str(&decision(
    "Num2",
    "number",
    &[("input", "_n")],
    &format!("mean(for i in 1..{a} return i * n) + max([n, {b}, {c}]) * modulo(n + {a}, {b} + 1) + abs(n - {c}) + exp(1) + log({b} + 1)", a = 10 + rng.below(40), b = b, c = c),
  ));
  inv.push(Invocable { name: "Num2".into(), kind: "numeric", locks: dec_locks.clone(), oracle: Oracle::None });
  // rounding to integers, many times per call: floor / ceiling / round-to-scale / modulo / odd of numbers with a
  // fraction (each rounds with a mode of its own) ...
  let (ia, ib) = (30 + rng.below(40), 20 + rng.below(30));
  x.push_str(&decision(
    "Int1",
    "",
    &[("input", "_n")],
    &format!(
      "[sum(for i in 1..{a} return floor(n + i / 8) + ceiling(n - i / 16)), sum(for i in 1..{a} return decimal(n + i / 8, 2) + modulo(n + i, 0.75)), for i in 1..8 return [floor(-(n + i / 4)), ceiling(-(n + i / 4)), odd(n + i / 4), even(i)]]",
      a = ia
    ),
  ));
  inv.push(Invocable { name: "Int1".into(), kind: "integral", locks: dec_locks.clone(), oracle: Oracle::None });
  // ... while another call computes results that lie exactly half-way (or nearly) between two 34-digit numbers, and
  // inexact quotients: the results that depend on the rounding mode of the decimal context, which is per call
  x.push_str(&decision(
    "Tie1",
    "",
    &[("input", "_n")],
    &format!(
      "[for i in 1..{b} return (n + i) / 3, for i in 1..{b} return (n + i) / 7, for i in 1..{b} return 1000000000000000000000000000000001 + 2 * i + 0.5, for i in 1..{b} return 1000000000000000000000000000000000 + 2 * i + 0.5, for i in 1..{b} return (1000000000000000000000000000000001 + 2 * i) * 1.5, for i in 1..{b} return 2000000000000000000000000000000000 + i + 0.5000000001, for i in 1..{b} return -(3000000000000000000000000000000000 + i) - 0.4999999999, for i in 1..{b} return 0.6666666666666666666666666666666667 * (n + i)]",
      b = ib
    ),
  ));
  inv.push(Invocable { name: "Tie1".into(), kind: "tie", locks: dec_locks.clone(), oracle: Oracle::None });
  // temporal
  let (days, hours, months) = (1 + rng.below(40), 1 + rng.below(23), 1 + rng.below(30));
  x.push_str(&decision(
    "Tmp1",
    "",
    &[("input", "_d"), ("input", "_n")],
    &format!(
      "[string(date(d) + duration(\"P{days}D\")), string(date and time(d + \"T10:20:30\") + duration(\"P{days}DT{hours}H\")), string(date(d) + duration(\"P{months}M\")), date(d).year * 10000 + date(d).month * 100 + date(d).day, string(date and time(d + \"T23:59:59@Europe/Warsaw\")), string(time(\"10:20:30+0{tz}:00\")), string(years and months duration(date(\"2000-01-31\"), date(d))), string(date(d) - date(\"1999-12-31\"))]",
      days = days,
      hours = hours,
      months = months,
      tz = rng.below(9)
    ),
  ));
  inv.push(Invocable { name: "Tmp1".into(), kind: "temporal", locks: dec_locks.clone(), oracle: Oracle::None });
  // an evaluation that can fail: 02:30 does not exist in Warsaw on the day daylight saving time begins; on the
  // pinned tree the subtraction panics for such an input (C15 finding). A failed call must not spoil later calls
  // (no lock left poisoned): calls with such inputs are part of every call table, their sequential outcome
  // (value or panic) is the expectation like for every other call.
  x.push_str(&decision(
    "Gap1",
    "",
    &[("input", "_d")],
    "string(date and time(d + \"T12:00:00@Europe/Warsaw\") - date and time(d + \"T02:30:00@Europe/Warsaw\"))",
  ));
  inv.push(Invocable { name: "Gap1".into(), kind: "failing", locks: dec_locks.clone(), oracle: Oracle::None });
  // regular expressions
  let rx = *rng.pick(&["^[a-c]+[0-9]*$", "a+b*", "(ab)+", "^.{3,}$", "[0-9]{2}", "b.a"]);
  x.push_str(&decision(
    "Rgx1",
    "",
    &[("input", "_s")],
    &format!(
      "[matches(s, \"{rx}\"), replace(s, \"(a+)(b*)\", \"$2-$1\"), replace(s, \"[0-9]\", \"#\"), matches(s, \"^[A-Z]\", \"i\"), split(s, \"[0-9]+\"), upper case(s), string length(s), substring(s, 2, 3), contains(s, \"ab\")]",
      rx = rx
    ),
  ));
  inv.push(Invocable { name: "Rgx1".into(), kind: "regex", locks: dec_locks.clone(), oracle: Oracle::None });
  // decision table
  let (t1, t2, t3) = (5 + rng.below(10), 20 + rng.below(20), 50 + rng.below(40));
  let hp = *rng.pick(&["UNIQUE", "FIRST", "ANY", "PRIORITY"]);
  let mut rules = String::new();
  let bands = [
    (format!("< {}", t1), "\"a\"".to_string(), "\"low\"".to_string()),
    (format!("[{}..{})", t1, t2), "-".to_string(), "\"mid\"".to_string()),
    (format!("[{}..{}]", t2, t3), "\"ab\", \"abc\", \"aab1\"".to_string(), "\"high\"".to_string()),
    (format!("[{}..{}]", t2, t3), "not(\"ab\", \"abc\", \"aab1\")".to_string(), "\"high-other\"".to_string()),
    (format!("> {}", t3), "-".to_string(), "\"top\"".to_string()),
    (format!("< {}", t1), "not(\"a\")".to_string(), "\"low-other\"".to_string()),
  ];
  for (i, (n_test, s_test, out)) in bands.iter().enumerate() {
    rules.push_str(&format!(
      "<rule id=\"_r{}\"><inputEntry><text>{}</text></inputEntry><inputEntry><text>{}</text></inputEntry><outputEntry><text>{}</text></outputEntry></rule>",
      i,
      xml_escape(n_test),
      xml_escape(s_test),
      xml_escape(out)
    ));
  }
  x.push_str(&format!(
    "<decision name=\"Tbl1\" id=\"_Tbl1\"><variable name=\"Tbl1\" typeRef=\"string\"/><informationRequirement><requiredInput href=\"#_n\"/></informationRequirement><informationRequirement><requiredInput href=\"#_s\"/></informationRequirement><decisionTable hitPolicy=\"{hp}\" outputLabel=\"Tbl1\"><input id=\"_i1\" label=\"n\"><inputExpression typeRef=\"number\"><text>n</text></inputExpression></input><input id=\"_i2\" label=\"s\"><inputExpression typeRef=\"string\"><text>s</text></inputExpression></input><output id=\"_o1\" name=\"Tbl1\" typeRef=\"string\"><outputValues><text>\"top\", \"high\", \"high-other\", \"mid\", \"low\", \"low-other\"</text></outputValues></output>{rules}</decisionTable></decision>\n",
    hp = hp,
    rules = rules
  ));
  inv.push(Invocable { name: "Tbl1".into(), kind: "table", locks: dec_locks.clone(), oracle: Oracle::None });
  // collect table with aggregation
  let mut rules2 = String::new();
  for i in 0..12u64 {
    rules2.push_str(&format!(
      "<rule id=\"_c{}\"><inputEntry><text>&gt;= {}</text></inputEntry><outputEntry><text>{}</text></outputEntry></rule>",
      i,
      i * (1 + rng.below(9)),
      1 + rng.below(50)
    ));
  }
  x.push_str(&format!(
    "<decision name=\"Tbl2\" id=\"_Tbl2\"><variable name=\"Tbl2\" typeRef=\"number\"/><informationRequirement><requiredInput href=\"#_n\"/></informationRequirement><decisionTable hitPolicy=\"COLLECT\" aggregation=\"SUM\" outputLabel=\"Tbl2\"><input id=\"_j1\" label=\"n\"><inputExpression typeRef=\"number\"><text>n</text></inputExpression></input><output id=\"_p1\" name=\"Tbl2\" typeRef=\"number\"/>{}</decisionTable></decision>\n",
    rules2
  ));
  inv.push(Invocable { name: "Tbl2".into(), kind: "table", locks: dec_locks.clone(), oracle: Oracle::None });
  // a table whose default output entry and allowed output values are expressions over the call's input
  // (they are evaluated per call; a value kept from one call would show in the next)
  x.push_str(&format!(
    "<decision name=\"Tbl3\" id=\"_Tbl3\"><variable name=\"Tbl3\"/><informationRequirement><requiredInput href=\"#_n\"/></informationRequirement><decisionTable hitPolicy=\"FIRST\" outputLabel=\"Tbl3\"><input id=\"_k1\" label=\"n\"><inputExpression typeRef=\"number\"><text>n</text></inputExpression></input><output id=\"_q1\" name=\"Tbl3\"><outputValues><text>n, n * 2, n + {a}, -1</text></outputValues><defaultOutputEntry><text>n * 2</text></defaultOutputEntry></output><rule id=\"_t0\"><inputEntry><text>&lt; {t}</text></inputEntry><outputEntry><text>n + {a}</text></outputEntry></rule><rule id=\"_t1\"><inputEntry><text>&gt; {u}</text></inputEntry><outputEntry><text>-1</text></outputEntry></rule></decisionTable></decision>\n",
    a = 1 + rng.below(9),
    t = 5 + rng.below(10),
    u = 60 + rng.below(30)
  ));
  inv.push(Invocable { name: "Tbl3".into(), kind: "table", locks: dec_locks.clone(), oracle: Oracle::None });
  // deep recursion through a function bound in a context: every call nests its own invocations only
  x.push_str(&decision(
    "Rec1",
    "number",
    &[("input", "_n")],
    &format!("{{f: function(k) if k <= 0 then 0 else 1 + f(k - 1), r: f({} + floor(abs(n)))}}.r", 40 + rng.below(40)),
  ));
  inv.push(Invocable { name: "Rec1".into(), kind: "recursive", locks: dec_locks.clone(), oracle: Oracle::None });
  // knowledge model and a chain of required decisions (nested read acquisitions)
  x.push_str(&format!(
    "<businessKnowledgeModel name=\"Bkm1\" id=\"_Bkm1\"><variable name=\"Bkm1\"/><encapsulatedLogic><formalParameter name=\"p\" typeRef=\"number\"/><formalParameter name=\"q\" typeRef=\"number\"/><literalExpression><text>{}</text></literalExpression></encapsulatedLogic></businessKnowledgeModel>\n",
    xml_escape(&format!("sum(for k in 1..{} return p * k + q) / (q + 1)", 10 + rng.below(30)))
  ));
  let chain = 3 + rng.below(4);
  x.push_str(&decision("Chn0", "number", &[("input", "_n"), ("knowledge", "_Bkm1")], "Bkm1(n, 3) + 1"));
  for i in 1..=chain {
    x.push_str(&decision(
      &format!("Chn{}", i),
      "number",
      &[("decision", &format!("_Chn{}", i - 1)), ("decision", "_Tbl2"), ("input", "_n")],
      &format!("Chn{} * {} + Tbl2 + n", i - 1, 1 + rng.below(5)),
    ));
  }
  let mut chain_locks = vec![];
  for _ in 0..=chain {
    chain_locks.extend_from_slice(&[2, 3, 1, 4, 5]);
  }
  let mut l = vec![0];
  l.extend(chain_locks);
  inv.push(Invocable { name: format!("Chn{}", chain), kind: "chain", locks: l.clone(), oracle: Oracle::None });
  inv.push(Invocable { name: "Bkm1".into(), kind: "knowledge", locks: vec![0, 2], oracle: Oracle::None });
  // decision service over the chain
  x.push_str(&format!(
    "<decisionService name=\"Svc1\" id=\"_Svc1\"><variable name=\"Svc1\"/><outputDecision href=\"#_Chn{}\"/><outputDecision href=\"#_Tbl1\"/><inputData href=\"#_n\"/><inputData href=\"#_s\"/></decisionService>\n",
    chain
  ));
  let mut sl = vec![0, 3];
  sl.extend(l.iter().skip(1));
  inv.push(Invocable { name: "Svc1".into(), kind: "service", locks: sl, oracle: Oracle::None });
  // ---- constructs that ACCUMULATE a result while they evaluate (rows of a boxed relation, entries of a boxed
  // context, bindings of a boxed invocation, the items a for loop / filter / sort / quantifier / collect table
  // gathers): every one of them depends on the call's input in every part, so that a buffer shared between two
  // calls (rows of another call, rows missing, items in another order) shows in the result
  let lit = |text: &str| format!("<literalExpression><text>{}</text></literalExpression>", xml_escape(text));
  let boxed = |name: &str, reqs: &[(&str, &str)], body: &str| -> String {
    let reqs: String = reqs
      .iter()
      .map(|(kind, href)| match *kind {
        "input" => format!("<informationRequirement><requiredInput href=\"#{}\"/></informationRequirement>", href),
        "decision" => format!("<informationRequirement><requiredDecision href=\"#{}\"/></informationRequirement>", href),
        _ => format!("<knowledgeRequirement><requiredKnowledge href=\"#{}\"/></knowledgeRequirement>", href),
      })
      .collect();
    format!("<decision name=\"{n}\" id=\"_{n}\"><variable name=\"{n}\"/>{reqs}{body}</decision>\n", n = name, reqs = reqs, body = body)
  };
  let relation = |rows: u64, rng: &mut Rng, var: &str| -> String {
    let mut r = String::from("<relation><column name=\"idx\"/><column name=\"val\"/><column name=\"tag\"/>");
    for i in 0..rows {
      r.push_str(&format!(
        "<row>{}{}{}</row>",
        lit(&format!("{} * 1000 + {}", var, i)),
        lit(&format!("sum(for k in 1..{} return k * {}) + {}", 5 + rng.below(20), var, i)),
        lit(&format!("string({}) + \"-r{}\"", var, i))
      ));
    }
    r.push_str("</relation>");
    r
  };
  let acc_locks = dec_locks.clone();
  // boxed relation as the logic of a decision
  let rel_rows = 8 + rng.below(10);
  x.push_str(&boxed("Rel1", &[("input", "_n")], &relation(rel_rows, rng, "n")));
  inv.push(Invocable { name: "Rel1".into(), kind: "accumulating", locks: acc_locks.clone(), oracle: Oracle::None });
  // boxed relation as the logic of a knowledge model, reached through a decision (and filtered there)
  x.push_str(&format!(
    "<businessKnowledgeModel name=\"Bkm2\" id=\"_Bkm2\"><variable name=\"Bkm2\"/><encapsulatedLogic><formalParameter name=\"p\"/>{}</encapsulatedLogic></businessKnowledgeModel>\n",
    relation(6 + rng.below(8), rng, "p")
  ));
  x.push_str(&decision("Rel2", "", &[("input", "_n"), ("knowledge", "_Bkm2")], "{all: Bkm2(n), some: Bkm2(n + 1)[idx > (n + 1) * 1000 + 2], n: count(Bkm2(n))}"));
  inv.push(Invocable { name: "Rel2".into(), kind: "accumulating", locks: vec![0, 2, 3, 1, 4, 5, 2], oracle: Oracle::None });
  // boxed context with many entries, each using the one before; with and without a result entry
  let entries = 10 + rng.below(10);
  let mut ctx = String::from("<context>");
  for i in 0..entries {
    let text = if i == 0 { format!("n + {}", rng.below(9)) } else { format!("e{} * 2 + n + {}", i - 1, i) };
    ctx.push_str(&format!("<contextEntry><variable name=\"e{}\"/>{}</contextEntry>", i, lit(&text)));
  }
  x.push_str(&boxed("Ctx1", &[("input", "_n")], &format!("{}</context>", ctx)));
  inv.push(Invocable { name: "Ctx1".into(), kind: "accumulating", locks: acc_locks.clone(), oracle: Oracle::None });
  let all: Vec<String> = (0..entries).map(|i| format!("e{}", i)).collect();
  x.push_str(&boxed("Ctx2", &[("input", "_n")], &format!("{}<contextEntry>{}</contextEntry></context>", ctx, lit(&format!("[{}]", all.join(", "))))));
  inv.push(Invocable { name: "Ctx2".into(), kind: "accumulating", locks: acc_locks.clone(), oracle: Oracle::None });
  // boxed invocation of a knowledge model with bindings
  x.push_str(&boxed(
    "Inv1",
    &[("input", "_n"), ("knowledge", "_Bkm1")],
    &format!("<invocation>{}<binding><parameter name=\"p\"/>{}</binding><binding><parameter name=\"q\"/>{}</binding></invocation>", lit("Bkm1"), lit("n + 1"), lit(&format!("floor(n) + {}", 1 + rng.below(5)))),
  ));
  inv.push(Invocable { name: "Inv1".into(), kind: "accumulating", locks: vec![0, 2, 3, 1, 4, 5, 2], oracle: Oracle::None });
  // a literal list with many items, for loops building long lists, a filter, a sort, quantifiers and the list built-ins
  let items: Vec<String> = (0..(20 + rng.below(30))).map(|i| format!("n + {}", i)).collect();
  x.push_str(&decision("Lst1", "", &[("input", "_n")], &format!("[{}]", items.join(", "))));
  inv.push(Invocable { name: "Lst1".into(), kind: "accumulating", locks: acc_locks.clone(), oracle: Oracle::None });
  x.push_str(&decision(
    "For1",
    "",
    &[("input", "_n")],
    &format!("[(for i in 1..{a} return i * n + {c}), (for i in 1..{b}, j in 1..{b} return i * j + n), (for i in [n, n + 1, n + 2], j in [1, 2] return [i, j])]", a = 100 + rng.below(100), b = 6 + rng.below(8), c = rng.below(9)),
  ));
  inv.push(Invocable { name: "For1".into(), kind: "accumulating", locks: acc_locks.clone(), oracle: Oracle::None });
  x.push_str(&decision(
    "Flt1",
    "",
    &[("input", "_n")],
    &format!("[(for i in 1..{a} return i + n)[item > n + {h}], (for i in 1..{b} return {{a: i + n, b: i}})[b > {k}], (for i in 1..{b} return i + n)[{k}]]", a = 100 + rng.below(100), h = 30 + rng.below(40), b = 20 + rng.below(20), k = 3 + rng.below(9)),
  ));
  inv.push(Invocable { name: "Flt1".into(), kind: "accumulating", locks: acc_locks.clone(), oracle: Oracle::None });
  x.push_str(&decision(
    "Srt1",
    "",
    &[("input", "_n")],
    &format!("[sort((for i in 1..{a} return modulo(i * 37 + floor(n), 101)), function(a, b) a < b), sort((for i in 1..{b} return modulo(i * 53 + floor(n), 97)), function(a, b) a > b)]", a = 40 + rng.below(40), b = 20 + rng.below(20)),
  ));
  inv.push(Invocable { name: "Srt1".into(), kind: "accumulating", locks: acc_locks.clone(), oracle: Oracle::None });
  x.push_str(&decision(
    "Acc1",
    "",
    &[("input", "_n")],
    &format!(
      "[(some i in (for k in 1..{a} return k) satisfies i * n > {t}), (every i in (for k in 1..{a} return k + n) satisfies i > n), distinct values((for i in 1..{a} return modulo(i + floor(n), 7))), flatten((for i in 1..{b} return [i, [n, [i + n]]])), append([n], n + 1, n + 2), concatenate([n], [1, 2], [n + 3]), union([n, 1], [1, 2, n]), insert before((for i in 1..{b} return i + n), 3, n), remove((for i in 1..{b} return i + n), 2), reverse((for i in 1..{b} return i * n)), index of((for i in 1..{b} return modulo(i + floor(n), 3)), 1), sublist((for i in 1..{b} return i + n), 2, 5), get entries({{a: n, b: n + 1, c: n + 2}}), split(string(n) + \",\" + string(n + 1) + \",x\", \",\")]",
      a = 40 + rng.below(60),
      b = 8 + rng.below(12),
      t = 500 + rng.below(2000)
    ),
  ));
  inv.push(Invocable { name: "Acc1".into(), kind: "accumulating", locks: acc_locks.clone(), oracle: Oracle::None });
  // tables that collect: a list of outputs, and a list of output contexts in rule order
  let mut rules3 = String::new();
  let mut rules4 = String::new();
  for i in 0..14u64 {
    rules3.push_str(&format!("<rule id=\"_d{}\"><inputEntry><text>&gt;= {}</text></inputEntry><outputEntry><text>n + {}</text></outputEntry></rule>", i, i * (1 + rng.below(7)), i));
    rules4.push_str(&format!(
      "<rule id=\"_e{}\"><inputEntry><text>&gt;= {}</text></inputEntry><outputEntry><text>n * {}</text></outputEntry><outputEntry><text>\"o{}\"</text></outputEntry></rule>",
      i,
      i * (1 + rng.below(7)),
      i + 1,
      i
    ));
  }
  x.push_str(&format!(
    "<decision name=\"Col1\" id=\"_Col1\"><variable name=\"Col1\"/><informationRequirement><requiredInput href=\"#_n\"/></informationRequirement><decisionTable hitPolicy=\"COLLECT\" outputLabel=\"Col1\"><input id=\"_l1\" label=\"n\"><inputExpression typeRef=\"number\"><text>n</text></inputExpression></input><output id=\"_m1\" name=\"Col1\"/>{}</decisionTable></decision>\n",
    rules3
  ));
  inv.push(Invocable { name: "Col1".into(), kind: "accumulating", locks: acc_locks.clone(), oracle: Oracle::None });
  x.push_str(&format!(
    "<decision name=\"Col2\" id=\"_Col2\"><variable name=\"Col2\"/><informationRequirement><requiredInput href=\"#_n\"/></informationRequirement><decisionTable hitPolicy=\"RULE ORDER\" outputLabel=\"Col2\"><input id=\"_l2\" label=\"n\"><inputExpression typeRef=\"number\"><text>n</text></inputExpression></input><output id=\"_m2\" name=\"amount\"/><output id=\"_m3\" name=\"tag\"/>{}</decisionTable></decision>\n",
    rules4
  ));
  inv.push(Invocable { name: "Col2".into(), kind: "accumulating", locks: acc_locks.clone(), oracle: Oracle::None });
  // ---- family `special-names`: the names an iteration construct binds by itself (`partial` of a for expression,
  // `item` of a filter, the variables of quantifiers) are read by the body, in every iteration, also when the SAME
  // construct is entered again before it has finished (by recursion on one thread, by another thread). The
  // expectations are written out.
  let pa = 30 + rng.below(90);
  x.push_str(&decision("Par1", "", &[("input", "_n")], &format!("for i in 1..{} return if i = 1 then n else partial[-1] + i", pa)));
  inv.push(Invocable { name: "Par1".into(), kind: "accumulating", locks: acc_locks.clone(), oracle: Oracle::PartialSums(pa) });
  let pb = 20 + rng.below(60);
  x.push_str(&decision("Par2", "", &[("input", "_n")], &format!("for i in 1..{} return count(partial) + 0 * n", pb)));
  inv.push(Invocable { name: "Par2".into(), kind: "accumulating", locks: acc_locks.clone(), oracle: Oracle::PartialCounts(pb) });
  // two iteration contexts: partial is the flat list of all results so far
  let pc = 3 + rng.below(6);
  x.push_str(&decision("Par3", "", &[("input", "_n")], &format!("for i in 1..{}, j in [n, n + 1, n + 2] return count(partial)", pc)));
  inv.push(Invocable { name: "Par3".into(), kind: "accumulating", locks: acc_locks.clone(), oracle: Oracle::PartialCounts(pc * 3) });
  // the same for expression entered again from its own body (recursion): f(0) = [n]; f(1) = [0 + 1, 1 + 1]; f(k) = [0 + 2, 1 + 2]
  let depth = 3 + rng.below(4);
  x.push_str(&decision(
    "Par4",
    "",
    &[("input", "_n")],
    &format!("{{f: function(k) if k <= 0 then [n] else for i in 1..2 return count(partial) + count(f(k - 1)), r: f({})}}.r", depth),
  ));
  inv.push(Invocable { name: "Par4".into(), kind: "accumulating", locks: acc_locks.clone(), oracle: Oracle::Fixed("[2, 3]".into()) });
  // the same filter entered again from its own predicate: `item` is the item of the innermost filter
  x.push_str(&decision(
    "Par5",
    "",
    &[("input", "_n")],
    &format!("{{g: function(k) if k <= 0 then [1, 2, 3] else g(k - 1)[item > count(g(k - 1)[item > 5])], r: g({})}}.r", 2 + rng.below(3)),
  ));
  inv.push(Invocable { name: "Par5".into(), kind: "accumulating", locks: acc_locks.clone(), oracle: Oracle::Fixed("[1, 2, 3]".into()) });
  // the same quantifiers entered again from their own condition
  x.push_str(&decision(
    "Par6",
    "",
    &[("input", "_n")],
    &format!("{{h: function(k) if k <= 0 then [true] else [every i in [1, 2] satisfies (some j in [i, k] satisfies (j = k and h(k - 1)[1]))], r: h({})}}.r", 2 + rng.below(3)),
  ));
  inv.push(Invocable { name: "Par6".into(), kind: "accumulating", locks: acc_locks.clone(), oracle: Oracle::Fixed("[true]".into()) });
  // ---- family `overlapping-rules`: one table per hit policy whose rules OVERLAP (and whose name has a space); the
  // inputs fall into the parts matched by one rule and into the parts matched by several. Rules:
  //   r0: <= t1 -> "standard"   r1: [t0..t2] -> "reduced"   r2: > t2 -> "individual"   r3: (t1..t2] -> "reduced"
  // so  n < t0: {r0};  t0 <= n <= t1: {r0, r1};  t1 < n <= t2: {r1, r3};  n > t2: {r2}
  let (t0, t1, t2) = (10 + rng.below(20), 35 + rng.below(20), 60 + rng.below(25));
  for (hp, attr) in OVERLAP_POLICIES {
    let name = format!("Ovl {}", hp);
    let id = name.replace(' ', "_");
    let entries = [(format!("<= {}", t1), "standard"), (format!("[{}..{}]", t0, t2), "reduced"), (format!("> {}", t2), "individual"), (format!("({}..{}]", t1, t2), "reduced")];
    let mut rules = String::new();
    for (i, (test, out)) in entries.iter().enumerate() {
      rules.push_str(&format!(
        "<rule id=\"_{}_r{}\"><inputEntry><text>{}</text></inputEntry><outputEntry><text>\"{}\"</text></outputEntry></rule>",
        id,
        i,
        xml_escape(test),
        out
      ));
    }
    x.push_str(&format!(
      "<decision name=\"{name}\" id=\"_{id}\"><variable name=\"{name}\"/><informationRequirement><requiredInput href=\"#_n\"/></informationRequirement><decisionTable {attr} outputLabel=\"{name}\"><input id=\"_{id}_i\" label=\"n\"><inputExpression typeRef=\"number\"><text>n</text></inputExpression></input><output id=\"_{id}_o\" name=\"{name}\"><outputValues><text>\"individual\", \"reduced\", \"standard\"</text></outputValues></output>{rules}</decisionTable></decision>\n",
      name = name,
      id = id,
      attr = attr,
      rules = rules
    ));
    inv.push(Invocable { name, kind: "overlapping", locks: dec_locks.clone(), oracle: Oracle::Overlap(hp, t0 as i128, t1 as i128, t2 as i128) });
  }
  // ---- family `service-input-decisions` (wave 8): decision services WITH input decisions beside direct evaluations of
  // the decisions that require those same decisions. Inside a service the supplied values replace the required
  // decisions; outside (and in every other call) they are evaluated from the call's own input data.
  //   Sal1 = "Dear " + w     Amt1 = n * 2 + 1     Let1 = Sal1 + "!"     Let2 = {letter: Let1, amount: Amt1, pad: ...}
  //   Let3 = SvcL1("Yo " + w) + "?"   (the service invoked as a function from a decision)
  //   SvcL1: output Let1, input decision Sal1            SvcL2: output Let2, encapsulated Let1, input decisions Sal1, Amt1
  //   SvcL3: output Let2, input decision Let1 (mid-chain) SvcL4: outputs Let3, Let1; input decision Sal1 (a service inside a service)
  for name in ["w", "h", "mi", "sc", "y", "mo", "dd", "pp", "qq", "big"] {
    let tr = if name == "w" { "string" } else { "number" };
    x.push_str(&format!("<inputData name=\"{n}\" id=\"_{n}\"><variable name=\"{n}\" typeRef=\"{t}\"/></inputData>\n", n = name, t = tr));
  }
  let pad = 20 + rng.below(60);
  x.push_str(&decision("Sal1", "string", &[("input", "_w")], "\"Dear \" + w"));
  x.push_str(&decision("Amt1", "number", &[("input", "_n")], "n * 2 + 1"));
  x.push_str(&decision("Let1", "string", &[("decision", "_Sal1")], "Sal1 + \"!\""));
  x.push_str(&decision(
    "Let2",
    "",
    &[("decision", "_Let1"), ("decision", "_Amt1"), ("input", "_n")],
    &format!("{{letter: Let1, amount: Amt1, pad: count(for i in 1..{} return i + n)}}", pad),
  ));
  x.push_str(&decision("Let3", "string", &[("input", "_w"), ("knowledge", "_SvcL1")], "SvcL1(\"Yo \" + w) + \"?\""));
  x.push_str("<decisionService name=\"SvcL1\" id=\"_SvcL1\"><variable name=\"SvcL1\"/><outputDecision href=\"#_Let1\"/><inputDecision href=\"#_Sal1\"/></decisionService>\n");
  x.push_str("<decisionService name=\"SvcL2\" id=\"_SvcL2\"><variable name=\"SvcL2\"/><outputDecision href=\"#_Let2\"/><encapsulatedDecision href=\"#_Let1\"/><inputDecision href=\"#_Sal1\"/><inputDecision href=\"#_Amt1\"/><inputData href=\"#_n\"/></decisionService>\n");
  x.push_str("<decisionService name=\"SvcL3\" id=\"_SvcL3\"><variable name=\"SvcL3\"/><outputDecision href=\"#_Let2\"/><inputDecision href=\"#_Let1\"/><inputData href=\"#_n\"/></decisionService>\n");
  x.push_str("<decisionService name=\"SvcL4\" id=\"_SvcL4\"><variable name=\"SvcL4\"/><outputDecision href=\"#_Let3\"/><outputDecision href=\"#_Let1\"/><inputDecision href=\"#_Sal1\"/><inputData href=\"#_w\"/></decisionService>\n");
  let two_deep = vec![0, 2, 3, 1, 4, 5, 2, 3, 1, 4, 5];
  for name in ["Let1", "Let2", "Let3"] {
    inv.push(Invocable { name: name.into(), kind: "requires-input-decision", locks: two_deep.clone(), oracle: Oracle::Letter(name, pad) });
  }
  for name in ["SvcL1", "SvcL2", "SvcL3", "SvcL4"] {
    let mut l = vec![0, 3, 5, 4, 1];
    l.extend(two_deep.iter().skip(1));
    inv.push(Invocable { name: name.into(), kind: "service-with-input-decision", locks: l, oracle: Oracle::Letter(name, pad) });
  }
  // ---- family `conversions` (wave 8): number -> machine integer conversions (to_u8 / i32 / u32 / u64 / usize / isize) behind
  // the temporal constructors, substring, sublist, list indices, range ends of for; Cnv1 with arguments that fit (the
  // expectation is written out), Dst1 ("disturber") drives the SAME code with the input `big`: out of range,
  // negative, fractional, beyond 32 / 64 bits - conversions that fail, many per call.
  let abc = "abcdefghijklmnopqrstuvwxyz";
  let l26: Vec<String> = (0..26).map(|i| i.to_string()).collect();
  let l26 = format!("[{}]", l26.join(", "));
  x.push_str(&decision(
    "Cnv1",
    "",
    &[("input", "_h"), ("input", "_mi"), ("input", "_sc"), ("input", "_y"), ("input", "_mo"), ("input", "_dd"), ("input", "_pp"), ("input", "_qq")],
    &format!(
      "[string(time(h, mi, sc)), string(date(y, mo, dd)), substring(\"{abc}\", pp + 1, 3), sublist({l26}, qq + 1, 2), {l26}[pp + 1], string(date and time(date(y, mo, dd), time(h, mi, sc))), count(for i in pp..(pp + qq) return i), (time(h, mi, sc).hour) * 60 + (time(h, mi, sc).minute), for i in 0..23 return time(i, mi, sc).hour, sum(for i in 0..59 return time(h, i, sc).minute), substring(\"{abc}\", -(pp + 1)), for i in 1..12 return date(y, i, dd).month]",
      abc = abc,
      l26 = l26
    ),
  ));
  inv.push(Invocable { name: "Cnv1".into(), kind: "conversion", locks: dec_locks.clone(), oracle: Oracle::Conversions });
  let reps = 10 + rng.below(20);
  x.push_str(&decision(
    "Dst1",
    "",
    &[("input", "_h"), ("input", "_mi"), ("input", "_sc"), ("input", "_y"), ("input", "_mo"), ("input", "_dd"), ("input", "_pp"), ("input", "_big")],
    &format!(
      "[string(time(big, mi, sc)), string(time(h, big, sc)), string(time(h, mi, big)), string(date(big, mo, dd)), string(date(y, big, dd)), string(date(y, mo, big)), substring(\"{abc}\", big), substring(\"{abc}\", 1, big), substring(\"{abc}\", -big), sublist({l26}, big), sublist({l26}, 1, big), {l26}[big], {l26}[-big], decimal(pp + 0.125, big), (for i in 1..{reps} return string(date(big + i, mo, dd))), (for i in 1..{reps} return string(time(big + i, mi, sc))), string(date and time(date(big, 1, 1), time(big, 0, 0))), insert before([1, 2, 3], big, 0), remove([1, 2, 3], big), count(for i in big..big return i)]",
      abc = abc,
      l26 = l26,
      reps = reps
    ),
  ));
  inv.push(Invocable { name: "Dst1".into(), kind: "disturber", locks: dec_locks.clone(), oracle: Oracle::None });
  let xml = format!(
    "<?xml version=\"1.0\" encoding=\"UTF-8\"?>\n<definitions namespace=\"https://verif/c20\" name=\"c20\" id=\"_c20\" xmlns=\"https://www.omg.org/spec/DMN/20191111/MODEL/\">\n{}</definitions>",
    x
  );
  (xml, inv)
}

const MODES: [&str; 11] = [
  "same-call",
  "half-hot",
  "mixed",
  "mixed",
  "integral-vs-tie",
  "accumulating-mixed",
  "one-accumulating-construct",
  "one-accumulating-construct",
  "direct-vs-service-with-input-decision",
  "conversions-vs-failing-conversions",
  "ordinary-vs-disturbing-inputs",
];

/// Null messages are not compared; everything else by its FEEL text.
fn canon(v: &Value) -> String {
  match v {
    Value::Null(_) => "null".to_string(),
    Value::List(items) => format!("[{}]", items.as_vec().iter().map(canon).collect::<Vec<_>>().join(", ")),
    Value::Context(ctx) => format!("{{{}}}", ctx.iter().map(|(k, x)| format!("{}: {}", k, canon(x))).collect::<Vec<_>>().join(", ")),
    Value::String(s) => format!("{:?}", s),
    other => other.to_string(),
  }
}

fn gen_input(rng: &mut Rng) -> String {
  let n = match rng.below(6) {
    0 => format!("{}", rng.below(100)),
    1 => format!("{}.{}", rng.below(100), rng.below(1000)),
    2 => format!("(-{})", rng.below(50)),
    3 => format!("{}", rng.below(10)),
    4 => format!("{}.5", rng.below(60)),
    _ => format!("{}", 10 + rng.below(90)),
  };
  let s = *rng.pick(&["a", "ab", "abc", "aab1", "Zebra42", "aaabbb77cc", "", "baa", "x9y8"]);
  let d = format!("{}-{:02}-{:02}", 1990 + rng.below(60), 1 + rng.below(12), 1 + rng.below(28));
  format!("{{n: {}, s: \"{}\", d: \"{}\", p: {}, q: {}, {}}}", n, s, d, rng.below(20), rng.below(20), more_fields(rng, None))
}

/// The input fields of the wave-8 families: a tag `w` of the call's own, arguments of the temporal constructors and of the
/// positional built-ins that fit their machine types, and `big` (the disturbing number, unused by the ordinary invocables).
fn more_fields(rng: &mut Rng, big: Option<&str>) -> String {
  format!(
    "w: \"N{}x{}\", h: {}, mi: {}, sc: {}, y: {}, mo: {}, dd: {}, pp: {}, qq: {}, big: {}",
    rng.below(16),
    rng.below(100000),
    rng.below(24),
    rng.below(60),
    rng.below(60),
    1000 + rng.below(9000),
    1 + rng.below(12),
    1 + rng.below(28),
    rng.below(20),
    rng.below(20),
    big.unwrap_or("0")
  )
}

/// Numbers that do not fit a machine integer type, or are not integers, or are at the very ends of the types.
const BIG: [&str; 26] = [
  "50000000000",
  "(-50000000000)",
  "4294967296",
  "4294967295",
  "2147483648",
  "(-2147483649)",
  "9223372036854775807",
  "9223372036854775808",
  "(-9223372036854775808)",
  "(-9223372036854775809)",
  "18446744073709551615",
  "18446744073709551616",
  "100000000000000000000",
  "1000000000000000000000000000000",
  "(-1000000000000000000000000000000)",
  "0.5",
  "(-1)",
  "256",
  "255.5",
  "1000000000",
  "0",
  "0.0000000001",
  "(-0.5)",
  "1.5",
  "999999999999",
  "60",
];

/// Disturbing inputs of the same shape as `gen_input`: extreme, failing and differently-shaped values (huge and tiny
/// numbers, numbers where a string is declared and the reverse, nulls, lists, dates that do not exist, long and
/// non-ASCII strings, missing entries). Integers only for `n` when `int_n`.
fn gen_extreme_input(rng: &mut Rng) -> String {
  let n = *rng.pick(&[
    "50000000000", "(-50000000000)", "1000000000000000000000000000000", "0.000000000000000000000000000001", "9223372036854775808", "0", "(-0.0)", "null", "\"text\"", "[1, 2]", "true",
    "date(\"2020-01-01\")", "9999999999999999999999999999999999", "(-9999999999999999999999999999999999)", "0.5", "2147483648", "{a: 1}",
  ]);
  let long = "ab1".repeat(400);
  let s = match rng.below(8) {
    0 => "\"\"".to_string(),
    1 => format!("\"{}\"", long),
    2 => "\"\u{17c}\u{f3}\u{142}\u{107} \u{1f980}\"".to_string(),
    3 => "null".to_string(),
    4 => "5".to_string(),
    5 => "\"a\\\"b\"".to_string(),
    6 => "[\"a\"]".to_string(),
    _ => "\"(((\"".to_string(),
  };
  let d = *rng.pick(&["\"2021-02-30\"", "\"\"", "\"not a date\"", "\"999999999-12-31\"", "\"-2020-01-01\"", "null", "20200101", "\"2020-13-01\"", "\"2020-03-29\"", "\"0000-01-01\""]);
  let big = *rng.pick(&BIG);
  let mut fields = vec![format!("n: {}", n), format!("s: {}", s), format!("d: {}", d), format!("p: {}", rng.pick(&BIG)), format!("q: {}", rng.pick(&["0", "(-1)", "null", "\"q\""]))];
  // the wave-8 fields, each sometimes extreme as well
  for f in more_fields(rng, Some(big)).split(", ") {
    let (name, value) = f.split_once(": ").unwrap_or((f, "0"));
    // (pp and qq are the ends of a range that Cnv1 iterates: never huge)
    let value = if name == "pp" || name == "qq" {
      if rng.chance(1, 3) { (*rng.pick(&["null", "\"x\"", "(-1)", "0.5", "60", "30", "0", "(-30)"])).to_string() } else { value.to_string() }
    } else if name != "big" && rng.chance(1, 3) {
      (*rng.pick(&[big, "null", "\"x\"", "(-1)", "0.5", "60", "24", "13", "32", "0"])).to_string()
    } else {
      value.to_string()
    };
    fields.push(format!("{}: {}", name, value));
  }
  // differently shaped: entries missing
  if rng.chance(1, 4) {
    let k = rng.below(fields.len() as u64) as usize;
    fields.remove(k);
  }
  if rng.chance(1, 8) {
    fields.truncate(1 + rng.below(3) as usize);
  }
  // `n` stays the first entry (n_of / field_of read the text)
  format!("{{{}}}", fields.join(", "))
}

/// The number bound to `n` in an input text of `gen_input`.
fn n_of(input_text: &str) -> Option<(i128, u32)> {
  let rest = input_text.strip_prefix("{n: ")?;
  dec_value(&rest[..rest.find(", s:")?])
}

/// The text of the value bound to `name` in a context text written by this harness (`{a: 1, b: "x", c: [1, 2]}`,
/// names are plain identifiers, strings have no `", "` followed by an entry name inside).
fn field_of(text: &str, name: &str) -> Option<String> {
  let inner = text.strip_prefix('{')?.strip_suffix('}')?;
  let key = format!("{}: ", name);
  let start = if inner.starts_with(&key) { key.len() } else { inner.find(&format!(", {}", key))? + 2 + key.len() };
  let rest = &inner[start..];
  // the value ends before the next `, <identifier>: ` at nesting depth 0, or at the end
  let (mut depth, mut in_str) = (0i32, false);
  let bytes = rest.as_bytes();
  let mut i = 0;
  while i < bytes.len() {
    let c = bytes[i];
    if in_str {
      if c == b'\\' {
        i += 1;
      } else if c == b'"' {
        in_str = false;
      }
    } else if c == b'"' {
      in_str = true;
    } else if c == b'[' || c == b'{' || c == b'(' {
      depth += 1;
    } else if c == b']' || c == b'}' || c == b')' {
      depth -= 1;
    } else if c == b',' && depth == 0 {
      return Some(rest[..i].to_string());
    }
    i += 1;
  }
  Some(rest.to_string())
}

struct Call {
  invocable: usize,
  /// what the call is in its family: "" (an ordinary call), "extreme" (the disturbing inputs of the invocable)
  role: &'static str,
  /// the name the invocable is asked by (the name of the invocable, or another spelling of it)
  name: String,
  input_text: String,
  input: FeelContext,
  expected: String,
}

enum Msg {
  Done(usize, Vec<(usize, String)>),
}

pub fn run(cfg: &Cfg) -> Report {
  let mut rep = Report::new(
    "C20",
    "rounds: one shared Arc<ModelEvaluator>, 2..16 threads, each a randomly ordered sequence of evaluate_invocable calls over numeric / integer-rounding / tie-computing / temporal / regular-expression / decision-table / chained / knowledge-model / decision-service / result-accumulating invocables with generated inputs; randomised barriers, yields and spins. Non-trivial: at least two threads and at least two kinds of invocable in the round, or at least two different calls of accumulating constructs (boxed relation / context / invocation, long lists built by for / filter / sort / quantifiers / list built-ins, collecting tables); distinct by (threads, call sequence) description.",
  );
  let mut rng = Rng::new(cfg.seed);
  let mut model = Model::start(&cfg.driver);
  // the regenerated table, as the driver sees it
  let table = model.ask("(c20 table)");
  rep.extra.insert("shared_state_table".into(), json!(table));
  if let Some(t) = Sexp::parse(&table) {
    for key in ["readOnly", "closed", "globals", "ffi", "sendSync", "server"] {
      let ok = t.as_list().map(|l| l.iter().any(|p| p.to_string() == format!("({} true)", key))).unwrap_or(false);
      if !ok {
        rep.notes.push(format!("the synchronisation table fails the check '{}': {}", key, table));
        rep.hit(&format!("table-check-failed:{}", key));
      }
    }
  }
  let thorough = cfg.tier == "thorough";
  let rounds = if thorough { 20_000 } else { 320 };
  let models_to_build = if thorough { 20 } else { 4 };
  let rounds_per_model = rounds / models_to_build;
  let budget = Duration::from_secs(if thorough { 5400 } else { 120 });
  let t_start = Instant::now();
  let mut total_calls = 0u64;
  let mut rounds_done = 0u64;
  let mut hung = false;

  'models: for mi in 0..models_to_build {
    let (xml, invocables) = generate_model(&mut rng);
    let built = guarded(|| dmntk_model::parse(&xml).map_err(|e| e.to_string()).and_then(|d| ModelEvaluator::new(&d).map_err(|e| e.to_string())));
    let me: Arc<ModelEvaluator> = match built {
      Ok(Ok(me)) => me,
      other => {
        let why = match other {
          Ok(Err(e)) => e,
          Err(p) => format!("panic: {}", p),
          _ => String::new(),
        };
        rep.disagree(Kind::ImplVsModel, "stress", "the generated model does not build", &xml, &why, "a model evaluator");
        continue;
      }
    };
    // a decision whose evaluation always panics (hook `verif_add_failing_decision`, cfg dmntk_verif): a failed
    // call must leave no lock poisoned, whatever lock the evaluation path holds while it runs
    me.verif_add_failing_decision("Boom");
    let mut invocables = invocables;
    invocables.push(Invocable { name: "Boom".into(), kind: "panicking", locks: vec![0, 1], oracle: Oracle::None });
    // the table of calls with their sequential results
    let mut calls: Vec<Call> = vec![];
    let n_calls = 60 + rng.below(40) as usize;
    let accumulating: Vec<usize> = invocables.iter().enumerate().filter(|(_, i)| i.kind == "accumulating").map(|(k, _)| k).collect();
    let mut next_acc = 0usize;
    let gap1 = invocables.iter().position(|i| i.name == "Gap1");
    let int1 = invocables.iter().position(|i| i.name == "Int1");
    let tie1 = invocables.iter().position(|i| i.name == "Tie1");
    let overlapping: Vec<usize> = invocables.iter().enumerate().filter(|(_, i)| i.kind == "overlapping").map(|(k, _)| k).collect();
    let mut todo: Vec<(usize, String, String, &'static str)> = vec![];
    for ci in 0..n_calls {
      let mut invocable = rng.below(invocables.len() as u64) as usize;
      let mut input_text = gen_input(&mut rng);
      if ci % 10 == 7 {
        invocable = invocables.len() - 1;
      }
      // every call table has calls that round to integers and calls that compute ties
      if let (true, Some(g)) = (ci % 10 == 1, int1) {
        invocable = g;
      }
      if let (true, Some(g)) = (ci % 10 == 5, tie1) {
        invocable = g;
      }
      // ... and calls of every accumulating construct, each with several different inputs
      if matches!(ci % 10, 2 | 4 | 6 | 8 | 9) && !accumulating.is_empty() {
        invocable = accumulating[next_acc % accumulating.len()];
        next_acc += 1;
      }
      if let (true, Some(g)) = (ci % 10 == 3, gap1) {
        invocable = g;
        input_text = format!("{{n: 1, s: \"a\", d: \"{}\", p: 1, q: 1}}", rng.pick(&["2020-03-29", "2021-03-28", "2019-03-31"]));
      }
      let mut name = invocables[invocable].name.clone();
      // family `invocable-names`: the invocable asked by another spelling of its name
      if ci % 10 == 0 {
        name = rng.pick(&name_variants(&name)).clone();
      }
      todo.push((invocable, name, input_text, ""));
    }
    // family `overlapping-rules`: every table with inputs in every part (matched by one rule, by several), at and next
    // to every threshold, twice each (so that a call follows a call of another part), then the names of these tables
    // (they have a space) in every other spelling
    for &k in &overlapping {
      if let Oracle::Overlap(_, t0, t1, t2) = invocables[k].oracle {
        let mut ns: Vec<String> = vec![
          format!("{}", t0 - 1 - rng.below(9) as i128),
          format!("{}", t0),
          format!("{}.{}", t0 + rng.below((t1 - t0) as u64) as i128, 1 + rng.below(9)),
          format!("{}", t1),
          format!("{}.5", t1),
          format!("{}", t1 + 1 + rng.below((t2 - t1 - 1) as u64) as i128),
          format!("{}", t2),
          format!("{}.001", t2),
          format!("{}", t2 + 1 + rng.below(30) as i128),
          format!("{}", t0 - 1),
        ];
        // orders in which a part matched by one rule comes right before a part matched by several, for every rule
        let k0 = rng.below(ns.len() as u64) as usize;
        ns.rotate_left(k0);
        if rng.chance(1, 2) {
          ns.reverse();
        }
        let again: Vec<String> = ns.iter().rev().cloned().collect();
        ns.extend(again);
        for n in ns {
          todo.push((k, invocables[k].name.clone(), format!("{{n: {}, s: \"ab\", d: \"2001-02-03\", p: 1, q: 2}}", n), ""));
        }
        let variants = name_variants(&invocables[k].name);
        for _ in 0..2 {
          todo.push((k, rng.pick(&variants).clone(), gen_input(&mut rng), ""));
        }
      }
    }
    // family `service-input-decisions`: every decision that requires an input decision of a service, directly, and every
    // service with values for its input decisions; every call carries tags of its own (`w`, the supplied values), so
    // that a value read from another call shows in the answer
    let by_name = |n: &str| invocables.iter().position(|i| i.name == n);
    for rep_i in 0..(if thorough { 12 } else { 6 }) {
      for (k, inv) in invocables.iter().enumerate() {
        if inv.kind != "requires-input-decision" && inv.kind != "service-with-input-decision" {
          continue;
        }
        let n = rng.below(50);
        let tag = format!("{}x{}", rng.below(16), rep_i * 1000 + rng.below(1000));
        let supplied = match inv.name.as_str() {
          "SvcL1" | "SvcL4" => format!("Sal1: \"Hi S{}\", ", tag),
          "SvcL2" => format!("Sal1: \"Hi S{}\", Amt1: {}, ", tag, 1000 + rng.below(9000)),
          "SvcL3" => format!("Let1: \"Hello L{}.\", ", tag),
          _ => String::new(),
        };
        let input_text = format!("{{n: {}, s: \"ab\", d: \"2001-02-03\", p: 1, q: 2, {}{}}}", n, supplied, more_fields(&mut rng, None));
        todo.push((k, inv.name.clone(), input_text, ""));
      }
    }
    // family `conversions`: Cnv1 with arguments that fit, Dst1 with every disturbing number
    if let (Some(cnv), Some(dst)) = (by_name("Cnv1"), by_name("Dst1")) {
      for _ in 0..(if thorough { 40 } else { 16 }) {
        todo.push((cnv, "Cnv1".to_string(), gen_input(&mut rng), ""));
      }
      let k0 = rng.below(BIG.len() as u64) as usize;
      for i in 0..(if thorough { BIG.len() } else { 14 }) {
        let big = BIG[(k0 + i) % BIG.len()];
        let input_text = format!("{{n: {}, s: \"ab\", d: \"2001-02-03\", p: 1, q: 2, {}}}", rng.below(50), more_fields(&mut rng, Some(big)));
        todo.push((dst, "Dst1".to_string(), input_text, "extreme"));
      }
    }
    // disturbers in general: every invocable (except the unbounded recursion, whose depth is its input) with extreme,
    // failing and differently-shaped inputs; their answers alone are their expectations like for every other call
    for (k, inv) in invocables.iter().enumerate() {
      if inv.kind == "recursive" || inv.kind == "panicking" {
        continue;
      }
      for _ in 0..(if thorough { 4 } else { 2 }) {
        todo.push((k, inv.name.clone(), gen_extreme_input(&mut rng), "extreme"));
      }
    }
    for (invocable, name, input_text, role) in todo {
      let input = match dmntk_feel_evaluator::evaluate_context(&Scope::default(), &input_text) {
        Ok(c) => c,
        Err(_) => continue,
      };
      let exact = invocables[invocable].name.clone();
      // "the same value as that call made alone": the first expectation comes from an evaluator of its own,
      // built for this call only (except for the hook's panicking decision, which exists on `me` alone).
      // Every evaluation made here runs under a watchdog: a call that does not come back is a deadlock.
      let first = {
        let (me, xml, name, input, boom) = (Arc::clone(&me), xml.clone(), name.clone(), input.clone(), exact == "Boom");
        with_deadline(20, move || {
          if boom {
            guarded(|| canon(&me.evaluate_invocable(&name, &input)))
          } else {
            guarded(|| match dmntk_model::parse(&xml).ok().and_then(|d| ModelEvaluator::new(&d).ok()) {
              Some(fresh) => canon(&fresh.evaluate_invocable(&name, &input)),
              None => "no-evaluator".to_string(),
            })
          }
        })
      };
      let second = match first {
        None => None,
        Some(_) => {
          let (me, name, input) = (Arc::clone(&me), name.clone(), input.clone());
          with_deadline(20, move || guarded(|| canon(&me.evaluate_invocable(&name, &input))))
        }
      };
      let (first, second) = match (first, second) {
        (Some(a), Some(b)) => (a, b),
        (a, _) => {
          rep.disagree(
            Kind::ImplVsSpec,
            "no_blocking",
            "deadlock: an evaluation made alone does not come back within 20 s",
            &format!("seed {} evaluate_invocable({:?}, {}) {}", cfg.seed, name, input_text, if a.is_none() { "on an evaluator of its own, nothing else running" } else { "on the shared evaluator, nothing else running" }),
            "no answer",
            "a value (null when there is no invocable of that name)",
          );
          rep.case(&format!("alone|{:?}|{}", name, input_text), true);
          hung = true;
          break 'models;
        }
      };
      let expected = match (first, second) {
        (Ok(a), Ok(b)) if a == b => a,
        (Err(_), Err(_)) => "panic".to_string(),
        (a, b) => {
          rep.disagree(
            Kind::ImplVsSpec,
            "sequential",
            "an evaluation on the shared evaluator differs from the same call made alone on an evaluator of its own",
            &format!("{:?} {}", name, input_text),
            &format!("{:?}", b),
            &format!("{:?}", a),
          );
          continue;
        }
      };
      // the written-out expectation of the call (families `special-names`, `overlapping-rules`)
      if name == exact {
        if role != "extreme" {
          if let Err(want) = judge_written(&invocables[invocable].oracle, &input_text, &expected) {
            let family = match invocables[invocable].kind {
              "overlapping" => "overlapping-rules",
              "requires-input-decision" | "service-with-input-decision" => "service-input-decisions",
              "conversion" => "conversions",
              _ => "special-names",
            };
            rep.disagree(
              Kind::ImplVsSpec,
              family,
              &format!("{}: an evaluation made alone does not return the written-out value", family),
              &format!("{:?} {} ;; decision logic: see the model of the run (generate_model: {})", name, input_text, exact),
              &expected,
              &want,
            );
            continue;
          }
          if !matches!(invocables[invocable].oracle, Oracle::None) {
            rep.hit(&format!("written-oracle:{}:as-written", invocables[invocable].kind));
          }
        }
      } else {
        // another spelling of the name: no invocable of that name (null), or the invocable meant — nothing else
        let meant = {
          let (xml, exact, input) = (xml.clone(), exact.clone(), input.clone());
          with_deadline(20, move || {
            guarded(|| match dmntk_model::parse(&xml).ok().and_then(|d| ModelEvaluator::new(&d).ok()) {
              Some(fresh) => canon(&fresh.evaluate_invocable(&exact, &input)),
              None => "no-evaluator".to_string(),
            })
          })
        };
        let meant = match meant {
          Some(Ok(v)) => v,
          _ => "panic".to_string(),
        };
        rep.hit(if expected == "null" { "invocable-names:not-found" } else { "invocable-names:found" });
        if expected != "null" && expected != meant {
          rep.disagree(
            Kind::ImplVsSpec,
            "invocable-names",
            "invocable-names: a name that is not the name of an invocable is answered with something else than null or the value of the invocable meant",
            &format!("{:?} (for {:?}) {}", name, exact, input_text),
            &expected,
            &format!("null or {}", meant),
          );
          continue;
        }
      }
      rep.hit(&format!("call:{}:{}", invocables[invocable].kind, if expected == "null" { "null" } else if expected == "panic" { "panic" } else { "value" }));
      calls.push(Call { invocable, role, name, input_text, input, expected });
    }
    rep.extra.insert(format!("t_calls_model_{}", mi), json!(t_start.elapsed().as_secs_f64()));
    if mi == 0 {
      for c in calls.iter().take(6) {
        rep.sample(json!({"invocable": invocables[c.invocable].name, "input": c.input_text, "sequential_result": c.expected}));
      }
    }
    let int_calls: Vec<usize> = calls.iter().enumerate().filter(|(_, c)| invocables[c.invocable].kind == "integral").map(|(i, _)| i).collect();
    let tie_calls: Vec<usize> = calls.iter().enumerate().filter(|(_, c)| invocables[c.invocable].kind == "tie").map(|(i, _)| i).collect();
    let acc_calls: Vec<usize> = calls.iter().enumerate().filter(|(_, c)| invocables[c.invocable].kind == "accumulating").map(|(i, _)| i).collect();
    // the calls of each accumulating invocable (same invocable, different inputs)
    let mut acc_groups: Vec<Vec<usize>> = vec![];
    for &k in &accumulating {
      let g: Vec<usize> = calls.iter().enumerate().filter(|(_, c)| c.invocable == k).map(|(i, _)| i).collect();
      if g.len() >= 2 {
        acc_groups.push(g);
      }
    }
    rep.hit(&format!("accumulating-invocables-with-two-or-more-inputs:{}", acc_groups.len()));
    // wave 8: the calls of the paired families
    let of_kind = |kind: &str, role: &str| -> Vec<usize> { calls.iter().enumerate().filter(|(_, c)| invocables[c.invocable].kind == kind && c.role == role && c.name == invocables[c.invocable].name).map(|(i, _)| i).collect() };
    let direct_calls = of_kind("requires-input-decision", "");
    let service_calls = of_kind("service-with-input-decision", "");
    let cnv_calls = of_kind("conversion", "");
    let mut dst_calls = of_kind("disturber", "extreme");
    dst_calls.extend(of_kind("conversion", "extreme"));
    // every invocable that has ordinary calls and disturbing calls: (ordinary, disturbing)
    let mut disturbed: Vec<(Vec<usize>, Vec<usize>)> = vec![];
    for (k, _) in invocables.iter().enumerate() {
      let ordinary: Vec<usize> = calls.iter().enumerate().filter(|(_, c)| c.invocable == k && c.role.is_empty()).map(|(i, _)| i).collect();
      let extreme: Vec<usize> = calls.iter().enumerate().filter(|(_, c)| c.invocable == k && c.role == "extreme").map(|(i, _)| i).collect();
      if !ordinary.is_empty() && !extreme.is_empty() {
        disturbed.push((ordinary, extreme));
      }
    }
    let all_extreme: Vec<usize> = calls.iter().enumerate().filter(|(_, c)| c.role == "extreme").map(|(i, _)| i).collect();
    rep.hit(&format!("invocables-with-ordinary-and-disturbing-calls:{}", if disturbed.len() >= 40 { "40+" } else if disturbed.len() >= 20 { "20-39" } else { "<20" }));
    let calls = Arc::new(calls);

    for _round in 0..rounds_per_model {
      if t_start.elapsed() > budget {
        rep.notes.push(format!("time budget reached after {} rounds", rounds_done));
        break 'models;
      }
      let threads = 2 + rng.below(15) as usize;
      let use_barrier = rng.chance(3, 4);
      let barrier = Arc::new(Barrier::new(if use_barrier { threads } else { 1 }));
      let (tx, rx) = mpsc::channel::<Msg>();
      let mut plan: Vec<Vec<usize>> = vec![];
      let mut kinds = std::collections::BTreeSet::new();
      // sometimes every thread hammers the same call, sometimes all differ
      // (mode 4: half of the threads round to integers while the other half computes ties)
      // (mode 5: every thread evaluates accumulating constructs; modes 6, 7: all threads are inside the SAME
      // accumulating construct, each with inputs of its own)
      let mut mode = if int_calls.is_empty() || tie_calls.is_empty() { rng.below(4) } else { rng.below(5) };
      if !acc_groups.is_empty() && rng.chance(1, 2) {
        mode = 5 + rng.below(3);
      }
      // wave 8 (three rounds of every five): 8 = direct evaluations of decisions that require an input decision beside
      // decision services that are given values for it; 9 = conversions that fit beside conversions that fail;
      // 10 = one invocable with its ordinary inputs beside the same invocable (and others) with disturbing inputs
      match _round % 5 {
        0 if !direct_calls.is_empty() && !service_calls.is_empty() => mode = 8,
        1 if !cnv_calls.is_empty() && !dst_calls.is_empty() => mode = 9,
        2 if !disturbed.is_empty() => mode = 10,
        _ => {}
      }
      let pair = if disturbed.is_empty() { None } else { Some(&disturbed[rng.below(disturbed.len() as u64) as usize]) };
      let hot = rng.below(calls.len() as u64) as usize;
      let group: &Vec<usize> = if acc_groups.is_empty() { &acc_calls } else { &acc_groups[(_round as usize + rng.below(2) as usize * 7) % acc_groups.len()] };
      for ti in 0..threads {
        let k = if mode >= 8 { 12 + rng.below(if thorough { 40 } else { 24 }) as usize } else { 1 + rng.below(if thorough { 40 } else { 24 }) as usize };
        let seq: Vec<usize> = (0..k)
          .map(|_| match mode {
            4 => *rng.pick(if ti % 2 == 0 { &int_calls } else { &tie_calls }),
            5 => *rng.pick(&acc_calls),
            6 | 7 => *rng.pick(group),
            8 => *rng.pick(if ti % 2 == 0 { &direct_calls } else { &service_calls }),
            9 => *rng.pick(if ti % 2 == 0 { &cnv_calls } else { &dst_calls }),
            10 => match pair {
              Some((ordinary, extreme)) => {
                if ti % 2 == 0 {
                  *rng.pick(ordinary)
                } else if rng.chance(1, 2) {
                  *rng.pick(extreme)
                } else {
                  *rng.pick(&all_extreme)
                }
              }
              None => hot,
            },
            0 => hot,
            1 => {
              if rng.chance(1, 2) {
                hot
              } else {
                rng.below(calls.len() as u64) as usize
              }
            }
            _ => rng.below(calls.len() as u64) as usize,
          })
          .collect();
        for &c in &seq {
          kinds.insert(invocables[calls[c].invocable].kind);
        }
        plan.push(seq);
      }
      let mut handles = vec![];
      for (ti, seq) in plan.iter().enumerate() {
        let me = Arc::clone(&me);
        let calls = Arc::clone(&calls);
        let seq = seq.clone();
        let tx = tx.clone();
        let barrier = Arc::clone(&barrier);
        let mut trng = rng.fork();
        let wait = use_barrier;
        let h = std::thread::Builder::new().stack_size(8 << 20).spawn(move || {
          if wait {
            barrier.wait();
          } else {
            for _ in 0..trng.below(2000) {
              std::hint::spin_loop();
            }
          }
          let mut out = vec![];
          for c in seq {
            match trng.below(4) {
              0 => std::thread::yield_now(),
              1 => {
                for _ in 0..trng.below(500) {
                  std::hint::spin_loop();
                }
              }
              _ => {}
            }
            let call = &calls[c];
            // every thread evaluates with its own copy of the input
            let input = call.input.clone();
            let r = match guarded(|| canon(&me.evaluate_invocable(&call.name, &input))) {
              Ok(v) => v,
              Err(_) => "panic".to_string(),
            };
            out.push((c, r));
          }
          let _ = tx.send(Msg::Done(ti, out));
        });
        match h {
          Ok(h) => handles.push(h),
          Err(e) => {
            rep.notes.push(format!("could not spawn a thread: {}", e));
          }
        }
      }
      drop(tx);
      let spawned = handles.len();
      let describe = |plan: &Vec<Vec<usize>>| -> String {
        plan
          .iter()
          .map(|seq| seq.iter().map(|&c| format!("{}#{}", invocables[calls[c].invocable].name, c)).collect::<Vec<_>>().join(","))
          .collect::<Vec<_>>()
          .join(" | ")
      };
      let key = format!("model {} mode {} threads {} barrier {} : {}", mi, MODES[mode as usize], threads, use_barrier, describe(&plan));
      // watchdog
      let deadline = Instant::now() + Duration::from_secs(30);
      let mut finished = 0usize;
      let mut results: Vec<(usize, Vec<(usize, String)>)> = vec![];
      while finished < spawned {
        let left = deadline.saturating_duration_since(Instant::now());
        match rx.recv_timeout(left) {
          Ok(Msg::Done(ti, out)) => {
            finished += 1;
            results.push((ti, out));
          }
          Err(mpsc::RecvTimeoutError::Timeout) => {
            rep.disagree(
              Kind::ImplVsSpec,
              "no_blocking",
              "deadlock: concurrent evaluations did not finish within 30 s",
              &format!("seed {} {}", cfg.seed, key),
              &format!("{} of {} threads finished", finished, spawned),
              "all threads finish",
            );
            hung = true;
            break;
          }
          Err(mpsc::RecvTimeoutError::Disconnected) => {
            // a thread ended without reporting (it died outside catch_unwind)
            rep.disagree(
              Kind::ImplVsSpec,
              "stress",
              "a thread ended without reporting its results",
              &format!("seed {} {}", cfg.seed, key),
              &format!("{} of {} threads reported", finished, spawned),
              "every thread reports",
            );
            break;
          }
        }
      }
      if hung {
        // stuck threads cannot be killed: stop here (the process ends with the report)
        rep.case(&key, true);
        break 'models;
      }
      for h in handles {
        let _ = h.join();
      }
      rounds_done += 1;
      let distinct_acc_calls: std::collections::BTreeSet<usize> = plan.iter().flatten().copied().filter(|&c| invocables[calls[c].invocable].kind == "accumulating").collect();
      rep.case(&key, threads >= 2 && (kinds.len() >= 2 || distinct_acc_calls.len() >= 2));
      rep.hit(&format!("threads:{}", if threads <= 4 { "2-4" } else if threads <= 8 { "5-8" } else { "9-16" }));
      rep.hit(&format!("mode:{}", MODES[mode as usize]));
      for (ti, out) in &results {
        for (c, r) in out {
          total_calls += 1;
          let call = &calls[*c];
          if *r != call.expected {
            let what = if r == "panic" {
              "a concurrent evaluation panics where the sequential one does not".to_string()
            } else if matches!(invocables[call.invocable].kind, "conversion" | "disturber" | "requires-input-decision" | "service-with-input-decision") {
              format!("a concurrent evaluation returns a different value than the same call alone ({})", invocables[call.invocable].kind)
            } else {
              "a concurrent evaluation returns a different value than the same call alone".to_string()
            };
            rep.disagree(
              Kind::ImplVsSpec,
              "interleaving_independent",
              &what,
              &format!(
                "seed {} thread {} call {} {} ;; meanwhile in the other threads: {} ;; round: {}",
                cfg.seed,
                ti,
                invocables[call.invocable].name,
                call.input_text,
                {
                  let mut seen = std::collections::BTreeSet::new();
                  let mut others = vec![];
                  for (tj, seq) in plan.iter().enumerate() {
                    if tj != *ti {
                      for &c in seq {
                        // the calls whose own tags / numbers appear in the answer first
                        if seen.insert(c) {
                          let o = &calls[c];
                          let tagged = ["w", "Sal1", "Let1", "Amt1", "big"].iter().any(|f| field_of(&o.input_text, f).map(|v| v.len() > 3 && r.contains(v.trim_matches('"'))).unwrap_or(false));
                          let other_side = (o.role == "extreme") != (call.role == "extreme") || invocables[o.invocable].kind != invocables[call.invocable].kind;
                          others.push((!tagged, !other_side, format!("{} {}", o.name, o.input_text)));
                        }
                      }
                    }
                  }
                  others.sort();
                  others.into_iter().take(3).map(|(_, _, t)| t).collect::<Vec<_>>().join(" ; ")
                },
                key
              ),
              r,
              &call.expected,
            );
          }
        }
      }
      // the interleaving semantics on the abstract lock shape of this round (first threads only)
      if rounds_done % 4 == 1 {
        let progs: Vec<String> = plan
          .iter()
          .take(6)
          .map(|seq| {
            let mut acts = vec![];
            for &c in seq.iter().take(4) {
              let inv = &invocables[calls[c].invocable];
              for l in &inv.locks {
                acts.push(format!("(r {})", l));
              }
              acts.push(format!("(c {})", c));
              for l in inv.locks.iter().rev() {
                acts.push(format!("(u {})", l));
              }
            }
            format!("({})", acts.join(" "))
          })
          .collect();
        let total: usize = plan.iter().take(6).map(|s| s.iter().take(4).map(|&c| invocables[calls[c].invocable].locks.len() * 2 + 1).sum::<usize>()).sum();
        let nt = progs.len() as u64;
        let mut sched = vec![];
        // random picks, then a round-robin tail that certainly finishes every thread
        for _ in 0..total {
          sched.push(rng.below(nt).to_string());
        }
        for _ in 0..total {
          for t in 0..nt {
            sched.push(t.to_string());
          }
        }
        let sched: Vec<String> = sched.into_iter().take(total * 3 + 64 + (nt as usize) * total).collect();
        let req = format!("(c20 run ({}) ({}))", progs.join(" "), sched.join(" "));
        let ans = model.ask(&req);
        let ok = Sexp::parse(&ans)
          .and_then(|a| {
            let l = a.as_list()?.to_vec();
            let get = |tag: &str| l.iter().find(|p| p.as_list().and_then(|x| x.first()).and_then(|x| x.as_atom()) == Some(tag)).map(|p| p.to_string());
            let results = get("results")?.replacen("results", "", 1);
            let alone = get("alone")?.replacen("alone", "", 1);
            Some(get("finished")? == "(finished true)" && get("blocked")? == "(blocked 0)" && results == alone)
          })
          .unwrap_or(false);
        rep.hit("semantics-run");
        if !ok {
          rep.disagree(Kind::ImplVsModel, "semantics", "the interleaving semantics blocks or changes a result on a read-only round", &req, &ans, "finished, nobody blocked, results = alone");
        }
        // the same round in the semantics with panics: a call whose evaluation alone panics is a program that panics
        // under its guards (the releases after it never run); nothing may stay held, poisoned or blocked
        let mut panics = 0;
        let progs_p: Vec<String> = plan
          .iter()
          .take(6)
          .map(|seq| {
            let mut acts = vec![];
            for &c in seq.iter().take(4) {
              let inv = &invocables[calls[c].invocable];
              for l in &inv.locks {
                acts.push(format!("(r {})", l));
              }
              // (and every fifth call of the table, so that every run of the semantics has calls that panic under guards)
              if calls[c].expected == "panic" || c % 5 == 0 {
                panics += 1;
                acts.push("(p)".to_string());
              } else {
                acts.push(format!("(c {})", c));
              }
              for l in inv.locks.iter().rev() {
                acts.push(format!("(u {})", l));
              }
            }
            format!("({})", acts.join(" "))
          })
          .collect();
        let req = format!("(c20 runp ({}) ({}))", progs_p.join(" "), sched.join(" "));
        let ans = model.ask(&req);
        let ok = Sexp::parse(&ans)
          .and_then(|a| {
            let l = a.as_list()?.to_vec();
            let get = |tag: &str| l.iter().find(|p| p.as_list().and_then(|x| x.first()).and_then(|x| x.as_atom()) == Some(tag)).map(|p| p.to_string());
            let results = get("results")?.replacen("results", "", 1);
            let alone = get("alone")?.replacen("alone", "", 1);
            Some(get("finished")? == "(finished true)" && get("blocked")? == "(blocked 0)" && results == alone && get("readers")? == "(readers 0)" && get("poisoned")? == "(poisoned 0)" && get("held")? == "(held 0)" && !results.contains("lock-error"))
          })
          .unwrap_or(false);
        rep.hit(if panics > 0 { "semantics-run-with-panics:some-call-panics" } else { "semantics-run-with-panics:no-call-panics" });
        if !ok {
          rep.disagree(Kind::ImplVsModel, "semantics", "the semantics with panics leaves a guard, a poisoned lock, a blocked thread or another result on a read-only round", &req, &ans, "finished, nobody blocked, results = alone, no reader left, nothing poisoned");
        }
      }
    }
    rep.extra.insert(format!("t_rounds_model_{}", mi), json!(t_start.elapsed().as_secs_f64()));
    // lock poisoning: the evaluator still answers every call as before
    for call in calls.iter() {
      let r = match guarded(|| canon(&me.evaluate_invocable(&call.name, &call.input))) {
        Ok(v) => v,
        Err(_) => "panic".to_string(),
      };
      if r != call.expected {
        rep.disagree(
          Kind::ImplVsSpec,
          "poisoning",
          "after the concurrent run an evaluation no longer returns its sequential result (poisoned lock?)",
          &format!("seed {} model {} call {} {}", cfg.seed, mi, invocables[call.invocable].name, call.input_text),
          &r,
          &call.expected,
        );
      }
    }
  }
  rep.extra.insert("t_before_oversubscription".into(), json!(t_start.elapsed().as_secs_f64()));
  if !hung {
    hung = oversubscription(cfg, &mut rep);
  }
  rep.extra.insert("t_before_number_conversions".into(), json!(t_start.elapsed().as_secs_f64()));
  if !hung {
    number_conversions(cfg, &mut rep, &mut rng);
  }
  rep.extra.insert("t_before_server_scope".into(), json!(t_start.elapsed().as_secs_f64()));
  if !hung {
    server_scope(cfg, &mut rep, &mut rng);
  }
  rep.extra.insert("rounds".into(), json!(rounds_done));
  rep.extra.insert("concurrent_calls".into(), json!(total_calls));
  rep.notes.push("oracle: the sequential run of the same call on the same evaluator (evaluated twice before the threads start, and once more after all rounds)".into());
  rep.model_requests = model.requests;
  if hung {
    // threads are stuck in the implementation: write the report and leave without joining
    let text = serde_json::to_string_pretty(&rep.to_json()).unwrap();
    if cfg.report.is_empty() {
      println!("{}", text);
    } else {
      let _ = std::fs::write(&cfg.report, text);
    }
    std::process::exit(0);
  }
  rep
}

// ------------------------------------------------------------------------------------------------
// oversubscription: many more runnable threads than processors, every thread in an iteration-heavy invocable
// ------------------------------------------------------------------------------------------------

/// The iteration-heavy invocables of the family `oversubscription`: name, FEEL text over the input `n` (`K` is replaced
/// by a constant of the seed), the first `n` of the calibration, the growth of `n` per calibration step in percent (every
/// construct is quadratic in `n`: a `for` copies its partial results in every step, the quantifiers have two iteration
/// contexts of length `n`).
const OVERSUBSCRIBED: [(&str, &str, u64, u64); 6] = [
  ("Ovs1", "sum(for i in 1..n return i)", 150, 141),
  ("Ovs2", "sum(for i in 1..n, j in 1..K return i * j)", 40, 141),
  ("Ovs3", "some i in (for k in 1..n return k), j in (for k in 1..n return k) satisfies i * j + K < 0", 40, 141),
  ("Ovs4", "every i in (for k in 1..n return k), j in (for k in 1..n return k) satisfies i + j + K > 0", 40, 141),
  ("Ovs5", "count((for i in 1..n return i)[item > K])", 150, 141),
  ("Ovs6", "count(for i in 1..n return if (some j in [1, 2, K] satisfies j = i) then i else i + K)", 150, 141),
];

/// The written-out value of an invocable of the family `oversubscription` (independent of the implementation).
fn oversubscribed_spec(name: &str, n: u64, k: u64) -> String {
  let (n, k) = (n as i128, k as i128);
  match name {
    "Ovs1" => format!("{}", n * (n + 1) / 2),
    "Ovs2" => format!("{}", (n * (n + 1) / 2) * (k * (k + 1) / 2)),
    "Ovs3" => "false".to_string(),
    "Ovs4" => "true".to_string(),
    "Ovs5" => format!("{}", (n - k).max(0)),
    _ => format!("{}", n),
  }
}

/// Returns `true` when threads were left behind in the implementation (the caller ends the run).
fn oversubscription(cfg: &Cfg, rep: &mut Report) -> bool {
  // a generator of its own: the draws of the other families stay what they were
  let mut rng = Rng::new(cfg.seed ^ 0x0c20_0c20_9e37_79b9);
  let thorough = cfg.tier == "thorough";
  let k = 3 + rng.below(6);
  let mut xml = String::from("<?xml version=\"1.0\" encoding=\"UTF-8\"?>\n<definitions namespace=\"https://verif/c20over\" name=\"c20over\" id=\"_c20over\" xmlns=\"https://www.omg.org/spec/DMN/20191111/MODEL/\">\n<inputData name=\"n\" id=\"_n\"><variable name=\"n\" typeRef=\"number\"/></inputData>\n");
  for (name, text, _, _) in OVERSUBSCRIBED.iter() {
    xml.push_str(&decision(name, "", &[("input", "_n")], &text.replace('K', &k.to_string())));
  }
  xml.push_str("</definitions>");
  let me: Arc<ModelEvaluator> = match guarded(|| dmntk_model::parse(&xml).map_err(|e| e.to_string()).and_then(|d| ModelEvaluator::new(&d).map_err(|e| e.to_string()))) {
    Ok(Ok(me)) => me,
    other => {
      let why = match other {
        Ok(Err(e)) => e,
        Err(p) => format!("panic: {}", p),
        _ => String::new(),
      };
      rep.disagree(Kind::ImplVsModel, "oversubscription", "the model of the family oversubscription does not build", &xml, &why, "a model evaluator");
      return false;
    }
  };
  let input_of = |n: u64| dmntk_feel_evaluator::evaluate_context(&Scope::default(), &format!("{{n: {}}}", n)).ok();
  let alone = |name: &str, n: u64| -> (String, Duration) {
    let input = match input_of(n) {
      Some(c) => c,
      None => return ("no-input".to_string(), Duration::ZERO),
    };
    let t = Instant::now();
    let r = match guarded(|| canon(&me.evaluate_invocable(name, &input))) {
      Ok(v) => v,
      Err(_) => "panic".to_string(),
    };
    (r, t.elapsed())
  };
  // calibration: n grows until one call made alone takes a quarter of a second on this machine (every answer on the
  // way is compared with the written-out value: short iterations first)
  struct Heavy {
    name: &'static str,
    text: String,
    n: u64,
    alone: String,
    alone_ms: u128,
  }
  let mut heavy: Vec<Heavy> = vec![];
  let target = Duration::from_millis(250);
  for (name, text, n0, growth) in OVERSUBSCRIBED.iter() {
    let mut n = *n0 + rng.below(*n0 / 4);
    let mut last = (String::new(), Duration::ZERO);
    for _ in 0..40 {
      last = alone(name, n);
      let spec = oversubscribed_spec(name, n, k);
      rep.case(&format!("oversubscription|alone|{}|{}", name, n), false);
      if last.0 != spec {
        rep.disagree(
          Kind::ImplVsSpec,
          "oversubscription",
          "an iteration-heavy call made alone differs from the written-out value",
          &format!("seed {} model c20over ({} = {}) evaluate_invocable({:?}, {{n: {}}}), nothing else running, took {} ms", cfg.seed, name, text.replace('K', &k.to_string()), name, n, last.1.as_millis()),
          &last.0,
          &spec,
        );
        break;
      }
      if last.1 >= target {
        break;
      }
      // the last steps are made short, so that a call alone stays near the target (well under a second)
      let g = if last.1 * 4 >= target { (*growth).min(120) } else { *growth };
      n = n * g / 100 + 1 + rng.below(7);
    }
    rep.hit(&format!("oversubscription:alone-ms:{}", if last.1.as_millis() < 200 { "<200" } else if last.1.as_millis() < 500 { "200..500" } else { ">=500" }));
    heavy.push(Heavy { name, text: text.replace('K', &k.to_string()), n, alone: last.0, alone_ms: last.1.as_millis() });
  }
  rep.extra.insert("oversubscription_calibration".into(), json!(heavy.iter().map(|h| json!({"invocable": h.name, "text": h.text, "n": h.n, "alone_ms": h.alone_ms as u64})).collect::<Vec<_>>()));
  // the rounds: `factor` x processors threads leave one barrier together, one call each; round 0 has every construct
  // (thread t calls construct t mod 6), the following rounds put all threads into ONE construct
  let processors = std::thread::available_parallelism().map(|v| v.get()).unwrap_or(4);
  let rounds = if thorough { 1 + heavy.len() } else { 2 };
  let first_single = rng.below(heavy.len() as u64) as usize;
  for round in 0..rounds {
    let factor = if round == 0 { 12 } else { 8 + rng.below(5) as usize };
    let threads = (processors * factor).clamp(48, 768);
    let which: Vec<usize> = (0..threads).map(|t| if round == 0 { t % heavy.len() } else { (first_single + round - 1) % heavy.len() }).collect();
    let barrier = Arc::new(Barrier::new(threads));
    let (tx, rx) = mpsc::channel::<(usize, String, u128)>();
    let t_round = Instant::now();
    let mut spawned = 0usize;
    for (t, &w) in which.iter().enumerate() {
      let (me, barrier, tx) = (Arc::clone(&me), Arc::clone(&barrier), tx.clone());
      let (name, input) = (heavy[w].name, input_of(heavy[w].n));
      let h = std::thread::Builder::new().stack_size(4 << 20).spawn(move || {
        barrier.wait();
        let t0 = Instant::now();
        let r = match input {
          Some(input) => match guarded(|| canon(&me.evaluate_invocable(name, &input))) {
            Ok(v) => v,
            Err(_) => "panic".to_string(),
          },
          None => "no-input".to_string(),
        };
        let _ = tx.send((t, r, t0.elapsed().as_millis()));
      });
      if h.is_ok() {
        spawned += 1;
      }
    }
    drop(tx);
    if spawned < threads {
      // the barrier would never open: nothing to observe in this round (the threads are left waiting)
      rep.notes.push(format!("oversubscription: only {} of {} threads could be started, round skipped", spawned, threads));
      rep.hit("oversubscription:threads-not-started");
      return false;
    }
    let mut answers: Vec<Option<(String, u128)>> = vec![None; threads];
    let deadline = Instant::now() + Duration::from_secs(180);
    let mut got = 0usize;
    while got < threads {
      match rx.recv_timeout(deadline.saturating_duration_since(Instant::now())) {
        Ok((t, r, ms)) => {
          answers[t] = Some((r, ms));
          got += 1;
        }
        Err(_) => break,
      }
    }
    let describe = |w: usize| format!("evaluate_invocable({:?}, {{n: {}}}) [{} = {}]", heavy[w].name, heavy[w].n, heavy[w].name, heavy[w].text);
    let history = |t: usize, r: &str, ms: u128| {
      let w = which[t];
      let wrong = (0..threads).filter(|&u| answers[u].as_ref().map(|a| a.0 != oversubscribed_spec(heavy[which[u]].name, heavy[which[u]].n, k)).unwrap_or(true)).count();
      format!(
        "seed {} model c20over, round {}: {} threads on {} processors leave one barrier together, one call each on the shared evaluator ({}); thread {}: {} -> {} after {} ms; the same call made alone -> {} in {} ms; {} of {} calls of the round wrong",
        cfg.seed,
        round,
        threads,
        processors,
        if round == 0 { "thread t calls Ovs(1 + t mod 6)".to_string() } else { format!("every thread calls {}", heavy[which[0]].name) },
        t,
        describe(w),
        r,
        ms,
        heavy[w].alone,
        heavy[w].alone_ms,
        wrong,
        threads
      )
    };
    if got < threads {
      let t = (0..threads).find(|&t| answers[t].is_none()).unwrap_or(0);
      rep.disagree(
        Kind::ImplVsSpec,
        "oversubscription",
        "deadlock: a round with many more threads than processors does not finish within 180 s",
        &history(t, "no answer", 180_000),
        "no answer",
        &oversubscribed_spec(heavy[which[t]].name, heavy[which[t]].n, k),
      );
      rep.case(&format!("oversubscription|round|{}|{}", threads, round), true);
      return true;
    }
    let mut reported = vec![false; heavy.len()];
    let mut slowest = 0u128;
    for t in 0..threads {
      let w = which[t];
      let (r, ms) = answers[t].clone().unwrap_or_default();
      slowest = slowest.max(ms);
      let spec = oversubscribed_spec(heavy[w].name, heavy[w].n, k);
      if (r != spec || r != heavy[w].alone) && !reported[w] {
        reported[w] = true;
        rep.disagree(
          Kind::ImplVsSpec,
          "oversubscription",
          "an iteration-heavy call made while there are many more runnable threads than processors differs from the written-out value and from the same call made alone",
          &history(t, &r, ms),
          &r,
          &spec,
        );
      }
    }
    rep.case(&format!("oversubscription|round|{}|{}|{}", threads, round, heavy.iter().map(|h| format!("{}:{}", h.name, h.n)).collect::<Vec<_>>().join(",")), true);
    rep.hit(&format!("oversubscription:threads-per-processor:{}", factor));
    rep.hit(&format!("oversubscription:slowest-call:{}", if slowest < 1500 { "<1.5s" } else if slowest < 4000 { "1.5..4s" } else { ">=4s" }));
    rep.extra.insert(format!("oversubscription_round_{}", round), json!({"threads": threads, "processors": processors, "wall_ms": t_round.elapsed().as_millis() as u64, "slowest_call_ms": slowest as u64}));
  }
  rep.notes.push("oversubscription: oracle = the written-out value of the iteration (n(n+1)/2, n(n+1)/2 * K(K+1)/2, false, true, n - K, n), beside the answer of the same call made alone".into());
  false
}

// ------------------------------------------------------------------------------------------------
// number-conversions: FeelNumber -> machine integer, directly, conversions that fit beside conversions that fail
// ------------------------------------------------------------------------------------------------

/// The conversions of a `FeelNumber` into a machine integer (feel-number/src/number.rs): the answer as text.
const CONVERSIONS: [&str; 10] = ["to_u8", "to_u64", "to_usize", "to_isize", "i32::from", "u8::from", "u8::from(&)", "u32::try_from", "u64::try_from(&)", "isize::try_from"];

fn convert(which: usize, n: &dmntk_feel_number::FeelNumber) -> String {
  use dmntk_feel_number::FeelNumber;
  match which {
    0 => format!("{:?}", n.to_u8().map(|v| v as i128)),
    1 => format!("{:?}", n.to_u64().map(|v| v as i128)),
    2 => format!("{:?}", n.to_usize().map(|v| v as i128)),
    3 => format!("{:?}", n.to_isize().map(|v| v as i128)),
    4 => format!("{}", i32::from(*n)),
    5 => format!("{}", <u8 as From<FeelNumber>>::from(*n)),
    6 => format!("{}", <u8 as From<&FeelNumber>>::from(n)),
    7 => format!("{:?}", u32::try_from(*n).ok().map(|v| v as i128)),
    8 => format!("{:?}", u64::try_from(n).ok().map(|v| v as i128)),
    _ => format!("{:?}", isize::try_from(*n).ok().map(|v| v as i128)),
  }
}

/// The mathematical answer for an integer `v` that fits the target type: the integer itself.
fn convert_spec(which: usize, v: i128) -> Option<String> {
  let (lo, hi): (i128, i128) = match which {
    0 | 5 | 6 => (0, 255),
    1 | 2 | 8 => (0, u64::MAX as i128),
    3 | 9 => (i64::MIN as i128, i64::MAX as i128),
    4 => (i32::MIN as i128, i32::MAX as i128),
    _ => (0, u32::MAX as i128),
  };
  if v < lo || v > hi {
    return None;
  }
  Some(match which {
    4 | 5 | 6 => format!("{}", v),
    _ => format!("Some({})", v),
  })
}

/// Family `number-conversions`: half of the threads convert integers that fit the target type (every conversion of
/// feel-number, the integer written plainly, with a zero fraction and with an exponent; the expectation is the integer
/// itself), the other half converts numbers that do not fit (beyond 8 / 32 / 64 bits, negative, with a fraction, tiny,
/// huge; the expectation is the answer of the same conversion made alone before the threads start).
fn number_conversions(cfg: &Cfg, rep: &mut Report, rng: &mut Rng) {
  use dmntk_feel_number::FeelNumber;
  let thorough = cfg.tier == "thorough";
  // (conversion, text of the number, expectation)
  let mut fitting: Vec<(usize, String, String)> = vec![];
  let ints: Vec<i128> = {
    let mut v: Vec<i128> = (0..=60).collect();
    v.extend([100, 127, 128, 200, 254, 255, 256, 1000, 2020, 9999, 65535, 65536, 2147483647, 2147483648, 4294967295, 4294967296, 9007199254740993, i64::MAX as i128, u64::MAX as i128]);
    v.extend([-1, -59, -128, -2020, -2147483648, -9007199254740993, i64::MIN as i128]);
    v
  };
  for which in 0..CONVERSIONS.len() {
    for &v in &ints {
      if let Some(want) = convert_spec(which, v) {
        let spellings = [format!("{}", v), format!("{}.0", v), format!("{}.000", v)];
        let k = if v.abs() < 300 { rng.below(3) as usize } else { 0 };
        fitting.push((which, spellings[k].clone(), want));
      }
    }
  }
  let failing_texts = [
    "50000000000", "-50000000000", "4294967296", "2147483648", "-2147483649", "256", "-1", "1.5", "0.5", "255.5", "9223372036854775808", "-9223372036854775809", "18446744073709551616", "1E+30", "-1E+30", "1E-10",
    "9999999999999999999999999999999999", "1E+6000", "100000000000000000000", "4294967295.5",
  ];
  let parse = |t: &str| t.parse::<FeelNumber>().ok();
  // expectations of the failing conversions: made alone (twice)
  let mut failing: Vec<(usize, String, String)> = vec![];
  for which in 0..CONVERSIONS.len() {
    for t in failing_texts {
      if let Some(n) = parse(t) {
        let a = guarded(|| convert(which, &n)).unwrap_or_else(|_| "panic".into());
        let b = guarded(|| convert(which, &n)).unwrap_or_else(|_| "panic".into());
        if a == b {
          failing.push((which, t.to_string(), a));
        } else {
          rep.disagree(Kind::ImplVsSpec, "number-conversions", "number-conversions: the same conversion made alone twice gives two answers", &format!("{}({})", CONVERSIONS[which], t), &b, &a);
        }
      }
    }
  }
  // the fitting conversions alone: the integer itself
  for (which, t, want) in &fitting {
    rep.case(&format!("number-conversions|alone|{}|{}", CONVERSIONS[*which], t), true);
    let got = match parse(t) {
      Some(n) => guarded(|| convert(*which, &n)).unwrap_or_else(|_| "panic".into()),
      None => "not a number".to_string(),
    };
    if &got != want {
      rep.disagree(
        Kind::ImplVsSpec,
        "number-conversions",
        &format!("number-conversions: {} of an integer that fits is not that integer (alone)", CONVERSIONS[*which]),
        &format!("FeelNumber {} . {}", t, CONVERSIONS[*which]),
        &got,
        want,
      );
    } else {
      rep.hit("number-conversions:alone:the-integer");
    }
  }
  let fitting = Arc::new(fitting);
  let failing = Arc::new(failing);
  let rounds = if thorough { 300 } else { 24 };
  let per_thread = if thorough { 60_000 } else { 40_000 };
  let mut reported = 0;
  for round in 0..rounds {
    let threads = 2 + rng.below(15) as usize;
    let barrier = Arc::new(Barrier::new(threads));
    // rounds of one victim conversion beside one failing conversion, and rounds of everything beside everything
    let narrow = round % 2 == 0;
    let victim_which = rng.below(CONVERSIONS.len() as u64) as usize;
    let disturber_which = rng.below(CONVERSIONS.len() as u64) as usize;
    let mut handles = vec![];
    for ti in 0..threads {
      let (fitting, failing, barrier) = (Arc::clone(&fitting), Arc::clone(&failing), Arc::clone(&barrier));
      let mut trng = rng.fork();
      handles.push(std::thread::spawn(move || {
        let table = if ti % 2 == 0 { &fitting } else { &failing };
        let which = if ti % 2 == 0 { victim_which } else { disturber_which };
        let mine: Vec<&(usize, String, String)> = table.iter().filter(|c| !narrow || c.0 == which).collect();
        let numbers: Vec<Option<FeelNumber>> = mine.iter().map(|c| c.1.parse::<FeelNumber>().ok()).collect();
        barrier.wait();
        let mut wrong: Option<(usize, String, String, String, u64)> = None;
        let mut count = 0u64;
        if mine.is_empty() {
          return (ti, wrong, 0u64);
        }
        let mut k = trng.below(mine.len() as u64) as usize;
        for i in 0..per_thread {
          k = (k + 1) % mine.len();
          if let Some(n) = &numbers[k] {
            let got = guarded(|| convert(mine[k].0, n)).unwrap_or_else(|_| "panic".into());
            if got != mine[k].2 {
              count += 1;
              if wrong.is_none() {
                wrong = Some((mine[k].0, mine[k].1.clone(), got, mine[k].2.clone(), i));
              }
            }
          }
        }
        (ti, wrong, count)
      }));
    }
    let mut all = vec![];
    for h in handles {
      if let Ok(r) = h.join() {
        all.push(r);
      }
    }
    rep.case(&format!("number-conversions|round {}|threads {}|narrow {} {} {}", round, threads, narrow, victim_which, disturber_which), threads >= 2);
    rep.hit(if narrow { "number-conversions:one-conversion-beside-one-failing-conversion" } else { "number-conversions:all-beside-all" });
    for (ti, wrong, count) in all {
      if let Some((which, t, got, want, i)) = wrong {
        if reported < 4 {
          reported += 1;
          let others = if narrow {
            format!("{} of numbers that do not fit ({})", CONVERSIONS[disturber_which], failing.iter().filter(|c| c.0 == disturber_which).take(4).map(|c| c.1.clone()).collect::<Vec<_>>().join(", "))
          } else {
            "every conversion of numbers that do not fit (50000000000, -1, 256, 1.5, 1E+30, ...)".to_string()
          };
          rep.disagree(
            Kind::ImplVsSpec,
            "number-conversions",
            &format!(
              "number-conversions: {} {} returns another answer beside conversions in other threads than alone",
              CONVERSIONS[which],
              if ti % 2 == 0 { "of an integer that fits" } else { "of a number that does not fit" }
            ),
            &format!(
              "seed {} round {}: {} threads behind a barrier, thread {} conversion #{}: FeelNumber {} . {} ;; meanwhile the {} threads convert: {} ;; {} of {} answers of this thread differ",
              cfg.seed,
              round,
              threads,
              ti,
              i,
              t,
              CONVERSIONS[which],
              if ti % 2 == 0 { "odd" } else { "even" },
              if ti % 2 == 0 { others } else { format!("{} of integers that fit", if narrow { CONVERSIONS[victim_which] } else { "every conversion" }) },
              count,
              per_thread
            ),
            &got,
            &want,
          );
        }
      }
    }
  }
  rep.extra.insert("number_conversion_rounds".into(), json!(rounds));
}

// ------------------------------------------------------------------------------------------------
// server-scope: an evaluation over HTTP never observes the entry names of another request
// ------------------------------------------------------------------------------------------------

/// One case of the family: a request body the service rejects, whose entry names combine two names with an additional
/// symbol, and a well-formed body over the same two names whose answer is WRITTEN IN THE BODY (the specification:
/// `Out` = the value of `Profit`, an arithmetic expression over numbers given in the same body).
struct ScopeCase {
  rejected: String,
  good: String,
  expected: i64,
}

fn scope_cases(rng: &mut Rng, thorough: bool) -> Vec<ScopeCase> {
  const NAMES: [(&str, &str); 8] = [
    ("Income", "Costs"),
    ("Total Income", "Fixed Costs"),
    ("a", "b"),
    ("Net", "Tax Rate"),
    ("x1", "x2"),
    ("Gross", "Net"),
    ("Order size", "Discount"),
    ("é", "ß"),
  ];
  let mut out = vec![];
  // the reported witness first
  out.push(ScopeCase { rejected: "{ Income - Costs: 100, Rate: }".into(), good: "{ Income: 500, Costs: 200, Profit: Income - Costs }".into(), expected: 300 });
  let n = if thorough { 600 } else { 44 };
  for i in 0..n {
    let (a, b) = NAMES[(i + rng.below(2) as usize) % NAMES.len()];
    let sym = ["-", "+", "*", "/", "."][i % 5];
    let (va, vb) = (2 + rng.below(40) as i64, 1 + rng.below(9) as i64);
    let joined = match rng.below(3) {
      0 => format!("{} {} {}", a, sym, b),
      1 => format!("{}{}{}", a, sym, b),
      _ => format!("{}  {}  {}", a, sym, b),
    };
    let three = format!("{} {} {} + {}", a, sym, b, a);
    // the ways a body over such an entry name is rejected: a missing value, a missing brace, a stray token, inside a
    // nested context, inside a list, after a complete context
    let rejected = match (i / 5) % 8 {
      0 => format!("{{ {}: 100, Rate: }}", joined),
      1 => format!("{{ {}: 100, Rate: 1", joined),
      2 => format!("{{ {}: 100, ] }}", joined),
      3 => format!("{{ Outer: {{ {}: 100, Rate: }} }}", joined),
      4 => format!("{{ Rows: [ {{ {}: 100, Rate: 1 }}, {{ {}: 2, ", joined, joined),
      5 => format!("{{ {}: 100 }} }}", joined),
      6 => format!("{{ {}: 1, {}: 2, Rate: }}", joined, three),
      _ => format!("{{ {}: 100, Profit: {} ", joined, joined),
    };
    let (good, expected) = match sym {
      "-" => (format!("{{ {}: {}, {}: {}, Profit: {} - {} }}", a, va, b, vb, a, b), va - vb),
      "+" => (format!("{{ {}: {}, {}: {}, Profit: {}+{} }}", a, va, b, vb, a, b), va + vb),
      "*" => (format!("{{ {}: {}, {}: {}, Profit: {} * {} }}", a, va, b, vb, a, b), va * vb),
      "/" => (format!("{{ {}: {}, {}: {}, Profit: {} / {} }}", a, va * vb, b, vb, a, b), va),
      _ => (format!("{{ {}: {{ {}: {} }}, Profit: {}.{} }}", a, b, va, a, b), va),
    };
    out.push(ScopeCase { rejected, good, expected });
  }
  out
}

/// The number in `{"data": N}`, or the text of the answer.
fn data_number(body: &[u8]) -> Result<f64, String> {
  let text = String::from_utf8_lossy(body).to_string();
  match serde_json::from_str::<serde_json::Value>(&text) {
    Ok(v) => match v.get("data").and_then(|d| d.as_f64()) {
      Some(n) => Ok(n),
      None => Err(text.chars().take(200).collect()),
    },
    Err(_) => Err(text.chars().take(200).collect()),
  }
}

fn server_scope(cfg: &Cfg, rep: &mut Report, rng: &mut Rng) {
  use crate::c18::{http, Server};
  const SIG: &str = "an evaluate request answered after a rejected request body does not return the value written in its own body";
  let thorough = cfg.tier == "thorough";
  let mut server = match Server::start() {
    Ok(s) => s,
    Err(e) => {
      rep.disagree(Kind::ImplVsSpec, "server-scope", "the service does not start on a loopback port", "start_server(127.0.0.1, free port)", &e, "a listening service");
      return;
    }
  };
  let port = server.port;
  let xml = "<?xml version=\"1.0\" encoding=\"UTF-8\"?>\n<definitions namespace=\"https://verif/c20scope\" name=\"c20scope\" id=\"_c20scope\" xmlns=\"https://www.omg.org/spec/DMN/20191111/MODEL/\">\n<inputData name=\"Profit\" id=\"_Profit\"><variable name=\"Profit\" typeRef=\"number\"/></inputData>\n<decision name=\"Out\" id=\"_Out\"><variable name=\"Out\" typeRef=\"number\"/><informationRequirement><requiredInput href=\"#_Profit\"/></informationRequirement><literalExpression><text>Profit</text></literalExpression></decision>\n</definitions>";
  let add = json!({"content": base64::encode(xml)}).to_string();
  for (path, body) in [("/definitions/clear", String::new()), ("/definitions/add", add), ("/definitions/deploy", String::new())] {
    match http(port, "POST", path, Some("application/json"), body.as_bytes()) {
      Ok(a) if a.status == 200 && !String::from_utf8_lossy(&a.body).contains("\"errors\"") => {}
      other => {
        let got = match other {
          Ok(a) => format!("{} {}", a.status, String::from_utf8_lossy(&a.body).chars().take(200).collect::<String>()),
          Err(e) => e,
        };
        rep.disagree(Kind::ImplVsSpec, "server-scope", "the model of the family server-scope is not deployed", &format!("POST {}", path), &got, "{\"data\":...}");
        return;
      }
    }
  }
  let eval = |body: &str| http(port, "POST", "/evaluate/c20scope/Out", Some("text/plain"), body.as_bytes());
  // the service has one worker thread per CPU and hands connections to them in turn: so many repetitions reach all
  let workers = std::thread::available_parallelism().map(|n| n.get()).unwrap_or(8).max(4);
  let reps = workers + 2;
  let cases = scope_cases(rng, thorough);
  let mut judged = 0u64;
  let mut judge = |rep: &mut Report, phase: &str, history: &str, c: &ScopeCase, answer: Result<crate::c18::HttpAnswer, String>| {
    judged += 1;
    let got = match answer {
      Ok(a) => match data_number(&a.body) {
        Ok(n) if n == c.expected as f64 => {
          rep.hit(&format!("server-scope:{}:answer-as-written", phase));
          return;
        }
        Ok(n) => format!("{{\"data\":{}}}", n),
        Err(text) => text,
      },
      Err(e) => format!("no answer: {}", e),
    };
    rep.hit(&format!("server-scope:{}:other-answer", phase));
    rep.disagree(
      Kind::ImplVsSpec,
      "server-scope",
      SIG,
      &format!("{} ;; then POST /evaluate/c20scope/Out {}   [model: decision Out = Profit, input data Profit]", history, c.good),
      &got,
      &format!("{{\"data\":{}}}", c.expected),
    );
  };
  // phase 0: every well-formed body before anything was rejected (the specification holds for the bodies as such)
  for c in &cases {
    rep.case(&format!("server-scope|fresh|{}", c.good), true);
    let a = eval(&c.good);
    judge(rep, "fresh", "no request before", c, a);
  }
  // phase 1: one client; the rejected body on every worker thread, then the well-formed body on every worker thread
  for c in &cases {
    rep.case(&format!("server-scope|sequence|{}|{}", c.rejected, c.good), true);
    let mut rejected_as_expected = 0;
    for _ in 0..reps {
      if let Ok(a) = eval(&c.rejected) {
        if String::from_utf8_lossy(&a.body).contains("\"errors\"") {
          rejected_as_expected += 1;
        }
      }
    }
    rep.hit(if rejected_as_expected == reps { "server-scope:rejected-body-is-rejected" } else { "server-scope:rejected-body-is-accepted" });
    let history = format!("{} x POST /evaluate/c20scope/Out {}", reps, c.rejected);
    for _ in 0..reps {
      let a = eval(&c.good);
      judge(rep, "after-rejected", &history, c, a);
    }
  }
  // phase 2: several clients at once, each sending rejected and well-formed bodies of different cases in random order
  if !server.alive() {
    rep.disagree(Kind::ImplVsSpec, "server-scope", "the service stopped", "after the sequences rejected body -> well-formed body", "process ended", "a running service");
    return;
  }
  let clients = 8usize;
  let per_client = if thorough { 400 } else { 60 };
  let plans: Vec<Vec<(bool, usize)>> = (0..clients).map(|_| (0..per_client).map(|_| (rng.chance(1, 2), rng.below(cases.len() as u64) as usize)).collect()).collect();
  let answers: Vec<Vec<(usize, Result<crate::c18::HttpAnswer, String>)>> = std::thread::scope(|sc| {
    let handles: Vec<_> = plans
      .iter()
      .map(|plan| {
        let cases = &cases;
        sc.spawn(move || {
          let mut out = vec![];
          for &(good, ci) in plan {
            let c = &cases[ci];
            let a = http(port, "POST", "/evaluate/c20scope/Out", Some("text/plain"), if good { c.good.as_bytes() } else { c.rejected.as_bytes() });
            if good {
              out.push((ci, a));
            }
          }
          out
        })
      })
      .collect();
    handles.into_iter().map(|h| h.join().unwrap_or_default()).collect()
  });
  rep.case(&format!("server-scope|concurrent clients|{:?}", plans), true);
  for (k, out) in answers.into_iter().enumerate() {
    for (ci, a) in out {
      let c = &cases[ci];
      judge(rep, "concurrent-clients", &format!("{} clients at once, each sending rejected and well-formed bodies of the cases in random order (client {}); rejected body of this case: {}", clients, k, c.rejected), c, a);
    }
  }
  // phase 3: when everything has been rejected somewhere, every well-formed body once more on every worker thread
  for c in &cases {
    for _ in 0..(if thorough { reps } else { 3 }) {
      let a = eval(&c.good);
      judge(rep, "final-sweep", &format!("all rejected bodies of the run sent before, among them {}", c.rejected), c, a);
    }
  }
  rep.extra.insert("server_scope_cases".into(), json!(cases.len()));
  rep.extra.insert("server_scope_answers_judged".into(), json!(judged));
  rep.extra.insert("server_scope_worker_estimate".into(), json!(workers));
}
