//! S-expressions of the line protocol (see lean/Dmn/Model/Sexp.lean).

#[derive(Debug, Clone, PartialEq, Eq, Hash)]
pub enum Sexp {
  Atom(String),
  List(Vec<Sexp>),
}

impl Sexp {
  pub fn atom<S: Into<String>>(s: S) -> Sexp {
    Sexp::Atom(s.into())
  }
  pub fn list(xs: Vec<Sexp>) -> Sexp {
    Sexp::List(xs)
  }
  pub fn tagged(tag: &str, mut xs: Vec<Sexp>) -> Sexp {
    let mut v = vec![Sexp::atom(tag)];
    v.append(&mut xs);
    Sexp::List(v)
  }
  pub fn int<T: std::fmt::Display>(n: T) -> Sexp {
    Sexp::Atom(format!("{}", n))
  }
  pub fn bool(b: bool) -> Sexp {
    Sexp::Atom(if b { "true".into() } else { "false".into() })
  }
  /// A string as the list of its Unicode scalar values: `(s 104 105)`.
  pub fn str(s: &str) -> Sexp {
    let mut v = vec![Sexp::atom("s")];
    for c in s.chars() {
      v.push(Sexp::int(c as u32));
    }
    Sexp::List(v)
  }
  pub fn as_atom(&self) -> Option<&str> {
    match self {
      Sexp::Atom(s) => Some(s),
      _ => None,
    }
  }
  pub fn as_list(&self) -> Option<&[Sexp]> {
    match self {
      Sexp::List(v) => Some(v),
      _ => None,
    }
  }
  pub fn parse(s: &str) -> Option<Sexp> {
    let mut stack: Vec<Vec<Sexp>> = vec![vec![]];
    let mut cur = String::new();
    let flush = |cur: &mut String, stack: &mut Vec<Vec<Sexp>>| {
      if !cur.is_empty() {
        stack.last_mut().unwrap().push(Sexp::Atom(std::mem::take(cur)));
      }
    };
    for c in s.chars() {
      match c {
        '(' => {
          flush(&mut cur, &mut stack);
          stack.push(vec![]);
        }
        ')' => {
          flush(&mut cur, &mut stack);
          let top = stack.pop()?;
          stack.last_mut()?.push(Sexp::List(top));
        }
        ' ' | '\t' | '\n' | '\r' => flush(&mut cur, &mut stack),
        c => cur.push(c),
      }
    }
    flush(&mut cur, &mut stack);
    if stack.len() == 1 && stack[0].len() == 1 {
      stack.pop()?.pop()
    } else {
      None
    }
  }
}

impl std::fmt::Display for Sexp {
  fn fmt(&self, f: &mut std::fmt::Formatter<'_>) -> std::fmt::Result {
    match self {
      Sexp::Atom(s) => write!(f, "{}", s),
      Sexp::List(xs) => {
        write!(f, "(")?;
        for (i, x) in xs.iter().enumerate() {
          if i > 0 {
            write!(f, " ")?;
          }
          write!(f, "{}", x)?;
        }
        write!(f, ")")
      }
    }
  }
}
