//! Values and syntax trees of the implementation → S-expressions of the line protocol
//! (decoded on the Lean side by `Dmn/Driver/Codec.lean`).

use crate::sexp::Sexp;
use dmntk_feel::values::Value;
use dmntk_feel::{AstNode, FeelDate, FeelDateTime, FeelNumber, FeelTime, FeelType};

/// `(neg, coefficient digits, exponent)` of a number, exactly as stored (not reduced).
/// Read from the plain text `Display` gives; when that text is malformed (C07 finding:
/// a negative number in `E-` form) the reduced scientific `Debug` text is used instead.
pub fn number_parts(n: &FeelNumber) -> (bool, String, i64) {
  let plain = n.to_string();
  if let Some(p) = parts_of_plain(&plain) {
    // Plain text cannot show a positive exponent (1E+1 prints as 10); no public API can: the
    // two representations are observationally equal, and the driver prints numbers with a
    // positive exponent expanded to exponent 0 as well.
    return p;
  }
  let sci = format!("{:?}", n);
  parts_of_sci(&sci).unwrap_or((false, "0".into(), 0))
}

fn parts_of_plain(text: &str) -> Option<(bool, String, i64)> {
  let (neg, rest) = match text.strip_prefix('-') {
    Some(r) => (true, r),
    None => (false, text),
  };
  if rest.is_empty() {
    return None;
  }
  let mut digits = String::new();
  let mut exp = 0i64;
  let mut seen_dot = false;
  for c in rest.chars() {
    if c == '.' && !seen_dot {
      seen_dot = true;
    } else if c.is_ascii_digit() {
      digits.push(c);
      if seen_dot {
        exp -= 1;
      }
    } else {
      return None;
    }
  }
  if digits.is_empty() {
    return None;
  }
  Some((neg, strip_leading_zeros(&digits), exp))
}

fn parts_of_sci(text: &str) -> Option<(bool, String, i64)> {
  let (mant, e) = match text.find('E') {
    Some(i) => (&text[..i], text[i + 1..].parse::<i64>().ok()?),
    None => (text, 0),
  };
  let (neg, digits, exp) = parts_of_plain(mant)?;
  Some((neg, digits, exp + e))
}

fn strip_leading_zeros(d: &str) -> String {
  let t = d.trim_start_matches('0');
  if t.is_empty() {
    "0".to_string()
  } else {
    t.to_string()
  }
}

pub fn number_sexp(n: &FeelNumber) -> Sexp {
  let (neg, digits, exp) = number_parts(n);
  Sexp::tagged("n", vec![Sexp::atom(if neg { "1" } else { "0" }), Sexp::atom(digits), Sexp::int(exp)])
}

pub fn type_sexp(t: &FeelType) -> Sexp {
  crate::c16::type_sexp(t)
}

/// The instant of a date-time on the UTC line in nanoseconds, as the code computes it
/// (`subtract` against the epoch), or `none`.
fn datetime_key(dt: &FeelDateTime) -> Sexp {
  let epoch = FeelDateTime::utc(1970, 1, 1, 0, 0, 0, 0);
  match crate::util::guarded(|| dmntk_feel::subtract(dt, &epoch)) {
    Ok(Some(n)) => Sexp::int(n),
    _ => Sexp::atom("none"),
  }
}

fn time_key(t: &FeelTime) -> Sexp {
  datetime_key(&FeelDateTime::new(FeelDate::new(2000, 1, 1), t.clone()))
}

/// Total nanoseconds of a normalised days-and-time duration text (`-P1DT2H3M4.5S`).
pub fn dt_duration_nanos(text: &str) -> Option<i128> {
  let (neg, rest) = match text.strip_prefix('-') {
    Some(r) => (true, r),
    None => (false, text),
  };
  let rest = rest.strip_prefix('P')?;
  let mut total: i128 = 0;
  let mut num = String::new();
  let mut in_time = false;
  for c in rest.chars() {
    match c {
      'T' => in_time = true,
      '0'..='9' | '.' => num.push(c),
      'D' => {
        total += num.parse::<i128>().ok()? * 86_400_000_000_000;
        num.clear();
      }
      'H' if in_time => {
        total += num.parse::<i128>().ok()? * 3_600_000_000_000;
        num.clear();
      }
      'M' if in_time => {
        total += num.parse::<i128>().ok()? * 60_000_000_000;
        num.clear();
      }
      'S' if in_time => {
        let (s, f) = match num.find('.') {
          Some(i) => (&num[..i], &num[i + 1..]),
          None => (num.as_str(), ""),
        };
        let mut frac = f.to_string();
        while frac.len() < 9 {
          frac.push('0');
        }
        total += s.parse::<i128>().ok()? * 1_000_000_000 + frac[..9].parse::<i128>().ok()?;
        num.clear();
      }
      _ => return None,
    }
  }
  Some(if neg { -total } else { total })
}

/// Encodes a value; `None` for carrier variants that never leave the evaluator.
pub fn value_sexp(v: &Value) -> Option<Sexp> {
  Some(match v {
    Value::Null(_) => Sexp::atom("null"),
    Value::Boolean(b) => Sexp::tagged("b", vec![Sexp::bool(*b)]),
    Value::Number(n) => number_sexp(n),
    Value::String(s) => Sexp::str(s),
    Value::Date(d) => Sexp::tagged("d", vec![Sexp::int(d.year()), Sexp::int(d.month()), Sexp::int(d.day())]),
    Value::Time(t) => Sexp::tagged("t", vec![Sexp::str(&t.to_string()), time_key(t)]),
    Value::DateTime(dt) => Sexp::tagged("dt", vec![Sexp::str(&dt.to_string()), datetime_key(dt)]),
    Value::DaysAndTimeDuration(d) => Sexp::tagged("dtd", vec![Sexp::int(dt_duration_nanos(&d.to_string())?)]),
    Value::YearsAndMonthsDuration(d) => Sexp::tagged("ymd", vec![Sexp::int(d.as_months())]),
    Value::List(vs) => {
      let mut xs = vec![];
      for x in vs.as_vec() {
        xs.push(value_sexp(x)?);
      }
      Sexp::tagged("l", xs)
    }
    Value::Context(ctx) => {
      let mut xs = vec![];
      for (k, x) in ctx.get_entries() {
        xs.push(Sexp::list(vec![Sexp::str(&k.to_string()), value_sexp(x)?]));
      }
      Sexp::tagged("c", xs)
    }
    Value::Range(lo, lc, hi, hc) => Sexp::tagged("r", vec![value_sexp(lo)?, Sexp::bool(*lc), value_sexp(hi)?, Sexp::bool(*hc)]),
    Value::FunctionDefinition(ps, _, rt) => Sexp::tagged(
      "f",
      vec![
        Sexp::list(ps.iter().map(|(n, t)| Sexp::list(vec![Sexp::str(&n.to_string()), type_sexp(t)])).collect()),
        type_sexp(rt),
      ],
    ),
    Value::BuiltInFunction(_) => Sexp::tagged("bif", vec![]),
    Value::FeelType(t) => Sexp::tagged("ty", vec![type_sexp(t)]),
    Value::Irrelevant => Sexp::atom("irrelevant"),
    Value::UnaryLess(x) => Sexp::tagged("ult", vec![value_sexp(x)?]),
    Value::UnaryLessOrEqual(x) => Sexp::tagged("ule", vec![value_sexp(x)?]),
    Value::UnaryGreater(x) => Sexp::tagged("ugt", vec![value_sexp(x)?]),
    Value::UnaryGreaterOrEqual(x) => Sexp::tagged("uge", vec![value_sexp(x)?]),
    Value::ExpressionList(vs) => {
      let mut xs = vec![];
      for x in vs.as_vec() {
        xs.push(value_sexp(x)?);
      }
      Sexp::tagged("el", xs)
    }
    Value::NegatedCommaList(vs) => {
      let mut xs = vec![];
      for x in vs.as_vec() {
        xs.push(value_sexp(x)?);
      }
      Sexp::tagged("nl", xs)
    }
    _ => return None,
  })
}

fn bx(tag: &str, xs: &[&AstNode]) -> Sexp {
  Sexp::tagged(tag, xs.iter().map(|x| ast_sexp(x)).collect())
}

fn many(tag: &str, xs: &[AstNode]) -> Sexp {
  Sexp::tagged(tag, xs.iter().map(ast_sexp).collect())
}

/// Encodes a syntax tree with the constructor names of `AstNode` (lower camel case).
pub fn ast_sexp(n: &AstNode) -> Sexp {
  use AstNode::*;
  match n {
    Add(a, b) => bx("add", &[a, b]),
    And(a, b) => bx("and", &[a, b]),
    At(t) => Sexp::tagged("at", vec![Sexp::str(t)]),
    Between(a, b, c) => bx("between", &[a, b, c]),
    Boolean(b) => Sexp::tagged("boolean", vec![Sexp::bool(*b)]),
    CommaList(xs) => many("commaList", xs),
    Context(xs) => many("context", xs),
    ContextEntry(a, b) => bx("contextEntry", &[a, b]),
    ContextEntryKey(k) => Sexp::tagged("contextEntryKey", vec![Sexp::str(&k.to_string())]),
    ContextType(xs) => many("contextType", xs),
    ContextTypeEntry(a, b) => bx("contextTypeEntry", &[a, b]),
    ContextTypeEntryKey(k) => Sexp::tagged("contextTypeEntryKey", vec![Sexp::str(&k.to_string())]),
    Div(a, b) => bx("div", &[a, b]),
    Eq(a, b) => bx("eq", &[a, b]),
    EvaluatedExpression(a) => bx("evaluatedExpression", &[a]),
    Every(a, b) => bx("every", &[a, b]),
    Exp(a, b) => bx("exp", &[a, b]),
    ExpressionList(xs) => many("expressionList", xs),
    FeelType(t) => Sexp::tagged("feelType", vec![type_sexp(t)]),
    Filter(a, b) => bx("filter", &[a, b]),
    For(a, b) => bx("for", &[a, b]),
    FormalParameter(a, b) => bx("formalParameter", &[a, b]),
    FormalParameters(xs) => many("formalParameters", xs),
    FunctionBody(a, ext) => Sexp::tagged("functionBody", vec![ast_sexp(a), Sexp::bool(*ext)]),
    FunctionDefinition(a, b) => bx("functionDefinition", &[a, b]),
    FunctionInvocation(a, b) => bx("functionInvocation", &[a, b]),
    FunctionType(a, b) => bx("functionType", &[a, b]),
    Ge(a, b) => bx("ge", &[a, b]),
    Gt(a, b) => bx("gt", &[a, b]),
    If(a, b, c) => bx("if", &[a, b, c]),
    In(a, b) => bx("in", &[a, b]),
    InstanceOf(a, b) => bx("instanceOf", &[a, b]),
    IntervalEnd(a, c) => Sexp::tagged("intervalEnd", vec![ast_sexp(a), Sexp::bool(*c)]),
    IntervalStart(a, c) => Sexp::tagged("intervalStart", vec![ast_sexp(a), Sexp::bool(*c)]),
    Irrelevant => Sexp::atom("irrelevant"),
    IterationContexts(xs) => many("iterationContexts", xs),
    IterationContextSingle(a, b) => bx("iterationContextSingle", &[a, b]),
    IterationContextRange(a, b, c) => bx("iterationContextRange", &[a, b, c]),
    Le(a, b) => bx("le", &[a, b]),
    Lt(a, b) => bx("lt", &[a, b]),
    List(xs) => many("list", xs),
    ListType(a) => bx("listType", &[a]),
    Mul(a, b) => bx("mul", &[a, b]),
    Name(k) => Sexp::tagged("name", vec![Sexp::str(&k.to_string())]),
    NamedParameter(a, b) => bx("namedParameter", &[a, b]),
    NamedParameters(xs) => many("namedParameters", xs),
    NegatedList(xs) => many("negatedList", xs),
    Neg(a) => bx("neg", &[a]),
    Nq(a, b) => bx("nq", &[a, b]),
    Null => Sexp::atom("null"),
    Numeric(a, b) => Sexp::tagged("numeric", vec![Sexp::str(a), Sexp::str(b)]),
    Or(a, b) => bx("or", &[a, b]),
    Out(a, b) => bx("out", &[a, b]),
    ParameterName(k) => Sexp::tagged("parameterName", vec![Sexp::str(&k.to_string())]),
    ParameterTypes(xs) => many("parameterTypes", xs),
    Path(a, b) => bx("path", &[a, b]),
    PositionalParameters(xs) => many("positionalParameters", xs),
    QualifiedName(xs) => many("qualifiedName", xs),
    QualifiedNameSegment(k) => Sexp::tagged("qualifiedNameSegment", vec![Sexp::str(&k.to_string())]),
    QuantifiedContexts(xs) => many("quantifiedContexts", xs),
    QuantifiedContext(a, b) => bx("quantifiedContext", &[a, b]),
    Range(a, b) => bx("range", &[a, b]),
    RangeType(a) => bx("rangeType", &[a]),
    Satisfies(a) => bx("satisfies", &[a]),
    Some(a, b) => bx("some", &[a, b]),
    String(s) => Sexp::tagged("string", vec![Sexp::str(s)]),
    Sub(a, b) => bx("sub", &[a, b]),
    UnaryGe(a) => bx("unaryGe", &[a]),
    UnaryGt(a) => bx("unaryGt", &[a]),
    UnaryLe(a) => bx("unaryLe", &[a]),
    UnaryLt(a) => bx("unaryLt", &[a]),
  }
}
