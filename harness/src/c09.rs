//! C09 — three-valued logic, equality and ordering obey their laws on all values.
//!
//! Implementation: `and or = != < <= > >= between in` evaluated by the real evaluator on
//! values bound to the names a, b, c in the scope. Model: `Dmn.Value.{and3, or3, eqV, …}`.
//! The laws themselves are evaluated on the implementation's answers (no oracle needed).

use crate::model::Model;
use crate::report::{Kind, Report};
use crate::rng::Rng;
use crate::util::guarded;
use crate::vals::value_sexp;
use crate::Cfg;
use dmntk_feel::context::FeelContext;
use dmntk_feel::values::Value;
use dmntk_feel::{Evaluator, FeelNumber, Name, Scope};
use serde_json::json;

pub fn eval_text(scope: &Scope, text: &str) -> Value {
  crate::util::note_case(text);
  match dmntk_feel_parser::parse_expression(scope, text, false) {
    Ok(node) => dmntk_feel_evaluator::evaluate(scope, &node).unwrap_or(Value::Null(Some("build error".into()))),
    Err(_) => Value::Null(Some("parse error".into())),
  }
}

fn prepared(text: &str) -> Evaluator {
  let mut ctx = FeelContext::default();
  for n in ["a", "b", "c"] {
    ctx.set_entry(&Name::from(n), Value::Null(None));
  }
  let scope: Scope = ctx.into();
  let node = dmntk_feel_parser::parse_expression(&scope, text, false).unwrap_or_else(|e| panic!("cannot parse {}: {}", text, e));
  dmntk_feel_evaluator::prepare(&node).unwrap_or_else(|e| panic!("cannot build {}: {}", text, e))
}

/// `a in <unary tests>`: the tests are parsed with the unary-tests start symbol (as the input entries of a
/// decision table are), the `In` node is built as the decision table builder builds it.
fn prepared_in(tests: &str) -> Evaluator {
  let mut ctx = FeelContext::default();
  for n in ["a", "b", "c"] {
    ctx.set_entry(&Name::from(n), Value::Null(None));
  }
  let scope: Scope = ctx.into();
  let left = dmntk_feel_parser::parse_expression(&scope, "a", false).unwrap_or_else(|e| panic!("cannot parse a: {}", e));
  let right = dmntk_feel_parser::parse_unary_tests(&scope, tests, false).unwrap_or_else(|e| panic!("cannot parse {}: {}", tests, e));
  let node = dmntk_feel::AstNode::In(Box::new(left), Box::new(right));
  dmntk_feel_evaluator::prepare(&node).unwrap_or_else(|e| panic!("cannot build a in {}: {}", tests, e))
}

fn scope_of(vals: &[(&str, &Value)]) -> Scope {
  let mut ctx = FeelContext::default();
  for (n, v) in vals {
    ctx.set_entry(&Name::from(*n), (*v).clone());
  }
  ctx.into()
}

fn show(v: &Value) -> String {
  match value_sexp(v) {
    Some(s) => s.to_string(),
    None => format!("(unencodable {})", v),
  }
}

fn as_bool(v: &Value) -> Option<bool> {
  match v {
    Value::Boolean(b) => Some(*b),
    _ => None,
  }
}

/// Kleene operand: booleans stay, everything else counts as null.
fn kleene(v: &Value) -> Option<bool> {
  as_bool(v)
}

fn kleene_and(a: Option<bool>, b: Option<bool>) -> Option<bool> {
  match (a, b) {
    (Some(false), _) | (_, Some(false)) => Some(false),
    (Some(true), Some(true)) => Some(true),
    _ => None,
  }
}

fn kleene_or(a: Option<bool>, b: Option<bool>) -> Option<bool> {
  match (a, b) {
    (Some(true), _) | (_, Some(true)) => Some(true),
    (Some(false), Some(false)) => Some(false),
    _ => None,
  }
}

fn ordered_kind(v: &Value) -> Option<&'static str> {
  match v {
    Value::Number(_) => Some("number"),
    Value::String(_) => Some("string"),
    Value::Date(_) => Some("date"),
    Value::DaysAndTimeDuration(_) => Some("days and time duration"),
    Value::YearsAndMonthsDuration(_) => Some("years and months duration"),
    // times and date-times are ordered when they have a position on the UTC line (C15: beyond chrono's
    // range they have none and every comparison is null)
    Value::Time(_) | Value::DateTime(_) => {
      let has_key = crate::vals::value_sexp(v).map(|s| !s.to_string().ends_with("none)")).unwrap_or(false);
      match (has_key, v) {
        (true, Value::Time(_)) => Some("time"),
        (true, _) => Some("date and time"),
        _ => None,
      }
    }
    _ => None,
  }
}

pub fn alphabet_texts() -> Vec<&'static str> {
  vec![
    "null",
    "true",
    "false",
    "-1",
    "0",
    "-0",
    // computed negative zeros (`-0` written as a literal is +0)
    "0 * -1",
    "0 / -5",
    "-0.00 * 1",
    "1",
    "1.0",
    "1.00",
    "2",
    "0.1",
    "100",
    "1e2",
    "12345678901234567890123456789012",
    "99999999999999999999999999999999999",
    r#""""#,
    r#""a""#,
    r#""b""#,
    r#""ab""#,
    r#""A""#,
    r#""é""#,
    r#""🙏""#,
    // a character of the last BMP block next to one beyond the BMP: code point order, not UTF-16 order
    "\"\u{FB01}\"",
    "\"\u{E000}a\"",
    "\"\u{1F600}\"",
    r#"date("2021-02-03")"#,
    r#"date("2021-02-04")"#,
    r#"date("2020-02-29")"#,
    r#"date("1999-12-31")"#,
    r#"time("10:11:12")"#,
    r#"time("10:11:12Z")"#,
    r#"time("11:11:12+01:00")"#,
    r#"time("10:11:13")"#,
    // values that differ in the fraction of the second only
    r#"time("10:11:12.25")"#,
    r#"time("10:11:12.5")"#,
    r#"date and time("2021-02-03T10:11:12.25")"#,
    r#"date and time("2021-02-03T10:11:12.5")"#,
    r#"date and time("2021-02-03T10:11:12")"#,
    r#"date and time("2021-02-03T10:11:12Z")"#,
    r#"date and time("2021-02-03T11:11:12+01:00")"#,
    r#"date and time("2021-02-04T00:00:00")"#,
    // one instant on two calendar dates; neighbours of it
    r#"date and time("2021-01-01T23:00:00-05:00")"#,
    r#"date and time("2021-01-02T04:00:00Z")"#,
    r#"date and time("2021-01-02T13:00:00+09:00")"#,
    r#"date and time("2021-01-02T04:00:01Z")"#,
    r#"date and time("2021-01-01T22:59:59-05:00")"#,
    // named zones around the two switches of 2020 (wall-clock times on either side of the other operand's)
    r#"date and time("2020-10-25T01:30:00Z")"#,
    r#"date and time("2020-10-25T03:15:00@Europe/Warsaw")"#,
    r#"date and time("2020-03-29T00:30:00Z")"#,
    r#"date and time("2020-03-29T03:15:00@Europe/Warsaw")"#,
    r#"time("23:00:00-05:00")"#,
    r#"time("04:00:00Z")"#,
    r#"time("08:00:00Z")"#,
    r#"time("12:00:00Z")"#,
    r#"duration("P1D")"#,
    r#"duration("PT24H")"#,
    r#"duration("PT1H")"#,
    r#"duration("-PT1H")"#,
    r#"duration("P1Y")"#,
    r#"duration("P12M")"#,
    r#"duration("P1M")"#,
    "[]",
    "[1]",
    "[1,2]",
    "[2,1]",
    "[1.0,2.00]",
    "[null]",
    "[[1]]",
    r#"["a"]"#,
    "[true,null]",
    "{}",
    "{a:1}",
    "{a:1.0}",
    "{a:2}",
    "{b:1}",
    r#"{a:1,b:"x"}"#,
    "{b:1,c:1}",
    "{a:null}",
    "{a:{b:1}}",
    "{a:[1]}",
    "[1..2]",
    "(1..2]",
    r#"["a".."b"]"#,
    "function(x) x",
    "function() 1",
    // lists of ONE item of every kind (a singleton list is a list: no operator takes the item out of it),
    // lists of one such list, contexts of one boolean entry
    "[true]",
    "[false]",
    "[[true]]",
    "[[false]]",
    "[true,false]",
    "[0]",
    r#"[""]"#,
    r#"["b"]"#,
    r#"[date("2021-02-03")]"#,
    r#"[date("2021-02-04")]"#,
    r#"[time("10:11:12")]"#,
    r#"[date and time("2021-02-03T10:11:12")]"#,
    r#"[duration("P1D")]"#,
    r#"[duration("P1Y")]"#,
    "[[]]",
    "[{}]",
    "[{a:1}]",
    "[[1..2]]",
    "[function(x) x]",
    "{a:true}",
    "{a:false}",
  ]
}

/// Ranges as operands: every closedness combination in every spelling (`[a..b] (a..b] [a..b) (a..b)` and the
/// reversed-bracket spellings `]a..b] [a..b[ ]a..b[`), over endpoint pairs of every kind that has endpoints
/// (numbers incl. equal values of different scale, strings, dates, times, date-times, both durations), pairs that
/// share one endpoint and differ in the other, a single-point range, endpoints of two kinds; lists of one range.
pub fn range_texts() -> Vec<String> {
  let endpoints: Vec<(&str, &str)> = vec![
    ("1", "2"),
    ("1.0", "2.00"),
    ("1", "3"),
    ("0", "2"),
    ("2", "2"),
    (r#""a""#, r#""b""#),
    (r#""a""#, r#""c""#),
    (r#"date("2021-02-03")"#, r#"date("2021-02-04")"#),
    (r#"date("2020-02-29")"#, r#"date("2021-02-04")"#),
    (r#"time("10:11:12")"#, r#"time("10:11:13")"#),
    (r#"date and time("2021-02-03T10:11:12")"#, r#"date and time("2021-02-04T00:00:00")"#),
    (r#"duration("PT1H")"#, r#"duration("P1D")"#),
    (r#"duration("PT1H")"#, r#"duration("PT24H")"#),
    (r#"duration("P1M")"#, r#"duration("P1Y")"#),
    (r#"duration("P1M")"#, r#"duration("P12M")"#),
    ("1", r#""b""#),
  ];
  let mut out = vec![];
  for (k, (lo, hi)) in endpoints.iter().enumerate() {
    for (l, r) in [("[", "]"), ("(", "]"), ("[", ")"), ("(", ")")] {
      // `[1..2]` and `(1..2]` are in the fixed alphabet already
      if k == 0 && r == "]" {
        continue;
      }
      out.push(format!("{}{}..{}{}", l, lo, hi, r));
    }
    if k == 0 || k == 5 {
      for (l, r) in [("]", "]"), ("[", "["), ("]", "[")] {
        out.push(format!("{}{}..{}{}", l, lo, hi, r));
      }
    }
  }
  for t in ["[[1..2)]", "[(1..2)]", "[[1..2],[1..2)]", "{a:[1..2)}", "{a:[1..2]}"] {
    out.push(t.to_string());
  }
  out
}

/// The values `=` is defined on (Lean `Comparable`): no range, function or unary comparison inside, every time and
/// date-time with a position on the UTC line.  Read from the value alone.
fn comparable(v: &Value) -> bool {
  match v {
    Value::Null(_) | Value::Boolean(_) | Value::Number(_) | Value::String(_) | Value::Date(_) | Value::DaysAndTimeDuration(_) | Value::YearsAndMonthsDuration(_) => true,
    Value::Time(_) | Value::DateTime(_) => ordered_kind(v).is_some(),
    Value::List(items) => items.as_vec().iter().all(comparable),
    Value::Context(ctx) => ctx.get_entries().iter().all(|(_, x)| comparable(x)),
    _ => false,
  }
}

/// what kind of operand (for signatures that do not vary with the data)
fn operand_class(v: &Value) -> &'static str {
  match v {
    Value::Range(..) => "range",
    Value::UnaryLess(_) | Value::UnaryLessOrEqual(_) | Value::UnaryGreater(_) | Value::UnaryGreaterOrEqual(_) => "unary comparison",
    Value::List(_) => "list",
    Value::Context(_) => "context",
    Value::FunctionDefinition(..) => "function",
    Value::Null(_) => "null",
    _ => "simple value",
  }
}

/// the single item of a list of one item
fn single_item(v: &Value) -> Option<&Value> {
  match v {
    Value::List(items) if items.as_vec().len() == 1 => items.as_vec().first(),
    _ => None,
  }
}

pub fn run(cfg: &Cfg) -> Report {
  let mut rep = Report::new(
    "C09",
    "ordered pairs (quick and thorough) and triples (a sample in quick; in thorough all over a core of every third value, all of one ordered kind, and three million random ones) over a value alphabet of ~120 fixed values (null, booleans, numbers incl. equal values of different scale and 34+ digit ones, strings, dates, times, date-times, both duration kinds, lists, contexts, ranges, functions, a list of ONE item of every value kind, lists of one such list, contexts of one boolean entry), plus random numbers / strings / dates; not(a) and if a then b else c for every value; a singleton list in each position of between / in. Non-trivial: at least one operand is not null; distinct by rendered request. Family bound_operands: the same laws with the operands rebound under ONE built evaluator (endpoints computed from a variable by constructors and arithmetic; the variable bound by for / every / some / filters / a user function / a prepared evaluator over a sequence of scopes), each iteration judged by the agreement of the three forms, by a value computed in the harness and by a fresh evaluation.",
  );
  let mut model = Model::start(&cfg.driver);
  let mut rng = Rng::new(cfg.seed);
  let thorough = cfg.tier == "thorough";
  let empty = Scope::default();
  let mut alphabet: Vec<(String, Value)> = vec![];
  for t in alphabet_texts() {
    let v = eval_text(&empty, t);
    if let Value::Null(Some(_)) = v {
      rep.notes.push(format!("alphabet text {} evaluates to an error null", t));
    }
    alphabet.push((t.to_string(), v));
  }
  for t in range_texts() {
    let v = eval_text(&empty, &t);
    match v {
      Value::Null(_) => rep.notes.push(format!("range text {} evaluates to null", t)),
      _ => alphabet.push((t, v)),
    }
  }
  // unary comparisons as values (what `< 5` is inside a list of tests; `a in b` reads them), a range with a null
  // endpoint: constructed through the public API
  {
    let num = |n: i128| Value::Number(FeelNumber::new(n, 0));
    for (nm, x) in [("1", num(1)), ("2", num(2)), ("\"a\"", Value::String("a".into()))] {
      alphabet.push((format!("(< {})", nm), Value::UnaryLess(Box::new(x.clone()))));
      alphabet.push((format!("(<= {})", nm), Value::UnaryLessOrEqual(Box::new(x.clone()))));
      alphabet.push((format!("(> {})", nm), Value::UnaryGreater(Box::new(x.clone()))));
      alphabet.push((format!("(>= {})", nm), Value::UnaryGreaterOrEqual(Box::new(x.clone()))));
    }
    alphabet.push(("[null..2]".into(), Value::Range(Box::new(Value::Null(None)), true, Box::new(num(2)), true)));
    alphabet.push(("[1..null)".into(), Value::Range(Box::new(num(1)), true, Box::new(Value::Null(None)), false)));
  }
  // dates outside chrono's year range: constructed through the public API
  for (y, m, d) in [(999_999i32, 1u8, 1u8), (999_999, 1, 2), (-999_999, 12, 31), (262_143, 12, 31), (262_144, 1, 1)] {
    alphabet.push((format!("date({},{},{})", y, m, d), Value::Date(dmntk_feel::FeelDate::new(y, m, d))));
  }
  // random members of the ordered kinds
  let n_random = if thorough { 60 } else { 20 };
  for _ in 0..n_random {
    let digits = 1 + rng.below(34);
    let mut coeff: i128 = 0;
    for _ in 0..digits {
      coeff = coeff * 10 + rng.below(10) as i128;
    }
    if rng.chance(1, 2) {
      coeff = -coeff;
    }
    let scale = rng.range(-10, 40) as i32;
    let n = FeelNumber::new(coeff, scale);
    alphabet.push((n.to_string(), Value::Number(n)));
    let len = rng.below(4);
    let s: String = (0..len).map(|_| *rng.pick(&['a', 'b', 'B', 'é', 'z', ' ', '🙏'])).collect();
    alphabet.push((format!("{:?}", s), Value::String(s)));
    let (y, m, d) = (rng.range(-400_000, 400_000) as i32, 1 + rng.below(12) as u8, 1 + rng.below(28) as u8);
    alphabet.push((format!("date({},{},{})", y, m, d), Value::Date(dmntk_feel::FeelDate::new(y, m, d))));
  }
  rep.extra.insert("alphabet_size".into(), json!(alphabet.len()));
  // keep only encodable values
  let enc: Vec<Option<String>> = alphabet.iter().map(|(_, v)| value_sexp(v).map(|s| s.to_string())).collect();

  let ops: Vec<(&str, &str, Evaluator)> = vec![
    ("and", "a and b", prepared("a and b")),
    ("or", "a or b", prepared("a or b")),
    ("eq", "a = b", prepared("a = b")),
    ("nq", "a != b", prepared("a != b")),
    ("lt", "a < b", prepared("a < b")),
    ("le", "a <= b", prepared("a <= b")),
    ("gt", "a > b", prepared("a > b")),
    ("ge", "a >= b", prepared("a >= b")),
    // the right operand as it is: a list, a range or a unary comparison bound to a name, any other value
    ("in", "a in b", prepared("a in b")),
    // unary tests, positive and negated (decision table input entries)
    ("in_eq", "a in (b)", prepared_in("b")),
    ("in_lt", "a in (< b)", prepared_in("< b")),
    ("in_le", "a in (<= b)", prepared_in("<= b")),
    ("in_gt", "a in (> b)", prepared_in("> b")),
    ("in_ge", "a in (>= b)", prepared_in(">= b")),
    ("nin_eq", "a in not(b)", prepared_in("not(b)")),
    ("nin_lt", "a in not(< b)", prepared_in("not(< b)")),
    ("nin_le", "a in not(<= b)", prepared_in("not(<= b)")),
    ("nin_gt", "a in not(> b)", prepared_in("not(> b)")),
    ("nin_ge", "a in not(>= b)", prepared_in("not(>= b)")),
    ("nin_two", "a in not(< b, >= b)", prepared_in("not(< b, >= b)")),
    ("in_two", "a in (< b, >= b)", prepared_in("< b, >= b")),
  ];
  let ev_between = prepared("a between b and c");
  let ev_in = [
    (true, true, prepared("a in [b..c]")),
    (true, false, prepared("a in [b..c)")),
    (false, true, prepared("a in (b..c]")),
    (false, false, prepared("a in (b..c)")),
  ];

  // ------------------------------------------------------------------ pairs
  let mut reqs = vec![];
  let mut meta = vec![];
  let n = alphabet.len();
  // results[op][i][j]
  let mut results: Vec<Vec<Vec<Value>>> = vec![vec![vec![Value::Null(None); n]; n]; ops.len()];
  for i in 0..n {
    for j in 0..n {
      let scope = scope_of(&[("a", &alphabet[i].1), ("b", &alphabet[j].1)]);
      for (k, (name, _, ev)) in ops.iter().enumerate() {
        let r = match guarded(|| ev(&scope)) {
          Ok(v) => v,
          Err(m) => {
            rep.disagree(Kind::ImplVsSpec, name, &format!("panic in operator {}", name), &format!("a = {}, b = {}", alphabet[i].0, alphabet[j].0), &m, "a value");
            Value::Null(None)
          }
        };
        results[k][i][j] = r;
        if let (Some(ea), Some(eb)) = (&enc[i], &enc[j]) {
          reqs.push(format!("(c09 op2 {} {} {})", name, ea, eb));
          meta.push((k, i, j));
        }
      }
    }
  }
  let answers = model.ask_batch(&reqs);
  for ((req, ans), (k, i, j)) in reqs.iter().zip(answers.iter()).zip(meta.iter()) {
    let r = &results[*k][*i][*j];
    let nontrivial = !matches!(alphabet[*i].1, Value::Null(_)) || !matches!(alphabet[*j].1, Value::Null(_));
    rep.case(req, nontrivial);
    let shown = show(r);
    rep.hit(&format!("{}:{}", ops[*k].0, match r { Value::Boolean(true) => "true", Value::Boolean(false) => "false", _ => "null" }));
    if &shown != ans {
      rep.disagree(
        Kind::ImplVsModel,
        ops[*k].0,
        &format!("operator {} differs from model", ops[*k].0),
        &format!("{} with a = {}, b = {}", ops[*k].1, alphabet[*i].0, alphabet[*j].0),
        &shown,
        ans,
      );
    }
    if rep.samples.len() < 6 && nontrivial && *k >= 2 && matches!(r, Value::Boolean(true)) && i != j {
      rep.sample(json!({"request": req, "implementation": shown, "model": ans}));
    }
  }
  // ------------------------------------------------------------------ laws on pairs
  let idx = |name: &str| ops.iter().position(|o| o.0 == name).unwrap();
  let (i_and, i_or, i_eq, i_nq, i_lt, i_le, i_gt, i_ge) = (idx("and"), idx("or"), idx("eq"), idx("nq"), idx("lt"), idx("le"), idx("gt"), idx("ge"));
  for i in 0..n {
    for j in 0..n {
      let (a, b) = (&alphabet[i], &alphabet[j]);
      let txt = format!("a = {}, b = {}", a.0, b.0);
      let get = |k: usize, x: usize, y: usize| as_bool(&results[k][x][y]);
      if get(i_and, i, j) != kleene_and(kleene(&a.1), kleene(&b.1)) {
        rep.disagree(Kind::ImplVsSpec, "and_table", "'and' deviates from the three-valued truth table", &txt, &show(&results[i_and][i][j]), "Kleene and");
      }
      if get(i_or, i, j) != kleene_or(kleene(&a.1), kleene(&b.1)) {
        rep.disagree(Kind::ImplVsSpec, "or_table", "'or' deviates from the three-valued truth table", &txt, &show(&results[i_or][i][j]), "Kleene or");
      }
      if get(i_eq, i, j) != get(i_eq, j, i) {
        let kind = match (&a.1, &b.1) {
          (Value::Null(_), _) | (_, Value::Null(_)) => "equality not symmetric (null operand)",
          (Value::Context(_), Value::Context(_)) => "equality not symmetric (contexts)",
          (Value::Range(..), Value::Range(..)) => "equality not symmetric (ranges)",
          _ => "equality not symmetric",
        };
        rep.disagree(Kind::ImplVsSpec, "eq_symm", kind, &txt, &show(&results[i_eq][i][j]), &show(&results[i_eq][j][i]));
      }
      if get(i_nq, i, j) != get(i_eq, i, j).map(|x| !x) {
        rep.disagree(Kind::ImplVsSpec, "neq_is_not_eq", "a != b is not the negation of a = b", &txt, &show(&results[i_nq][i][j]), "not (a = b)");
      }
      if get(i_lt, i, j) != get(i_gt, j, i) {
        rep.disagree(Kind::ImplVsSpec, "lt_gt_mirror", "a < b differs from b > a", &txt, &show(&results[i_lt][i][j]), &show(&results[i_gt][j][i]));
      }
      if get(i_le, i, j) != get(i_ge, j, i) {
        rep.disagree(Kind::ImplVsSpec, "le_ge_mirror", "a <= b differs from b >= a", &txt, &show(&results[i_le][i][j]), &show(&results[i_ge][j][i]));
      }
      if let (Some(ka), Some(kb)) = (ordered_kind(&a.1), ordered_kind(&b.1)) {
        if ka == kb {
          let t = [get(i_lt, i, j), get(i_eq, i, j), get(i_gt, i, j)];
          let count = t.iter().filter(|x| **x == Some(true)).count();
          if count != 1 {
            rep.disagree(
              Kind::ImplVsSpec,
              "trichotomy",
              &format!("not exactly one of <, =, > holds ({})", ka),
              &txt,
              &format!("lt={:?} eq={:?} gt={:?}", t[0], t[1], t[2]),
              "exactly one true",
            );
          }
          let want = kleene_or(get(i_lt, i, j), get(i_eq, i, j));
          if get(i_le, i, j) != want {
            rep.disagree(Kind::ImplVsSpec, "le_iff_lt_or_eq", &format!("a <= b differs from (a < b or a = b) ({})", ka), &txt, &show(&results[i_le][i][j]), &format!("{:?}", want));
          }
        }
      }
    }
  }
  // ------------------------------------------------------------------ equality as an equivalence, on the implementation's answers
  // (whatever the model says of them: a kind of value that becomes comparable must obey the same laws)
  for i in 0..n {
    let a = &alphabet[i];
    let r = as_bool(&results[i_eq][i][i]);
    // a value is never unequal to itself; a comparable value equals itself.  A list or context that holds a value
    // `=` is not defined on (a range, a function) is outside both statements: the list arm reads the null of the
    // item comparison as false.
    if comparable(&a.1) {
      if r != Some(true) {
        rep.disagree(Kind::ImplVsSpec, "eq_refl", &format!("a comparable value is not equal to itself ({})", operand_class(&a.1)), &format!("a = {}, b = {}", a.0, a.0), &show(&results[i_eq][i][i]), "true");
      }
    } else if !matches!(a.1, Value::List(_) | Value::Context(_)) && r == Some(false) {
      rep.disagree(Kind::ImplVsSpec, "eq_refl", &format!("a = a is false ({})", operand_class(&a.1)), &format!("a = {}, b = {}", a.0, a.0), "false", "true (or null where = is not defined)");
    }
    rep.evaluations += 1;
  }
  {
    // transitivity over ALL triples of the alphabet, read off the table of pairs
    let eq_true: Vec<Vec<usize>> = (0..n).map(|i| (0..n).filter(|j| as_bool(&results[i_eq][i][*j]) == Some(true)).collect()).collect();
    let mut reported = 0;
    for i in 0..n {
      for &j in &eq_true[i] {
        for &k in &eq_true[j] {
          rep.evaluations += 1;
          if as_bool(&results[i_eq][i][k]) != Some(true) && reported < 20 {
            reported += 1;
            let cls = if operand_class(&alphabet[i].1) == operand_class(&alphabet[k].1) { operand_class(&alphabet[i].1) } else { "mixed" };
            rep.disagree(
              Kind::ImplVsSpec,
              "eq_trans",
              &format!("equality not transitive ({})", cls),
              &format!("a = {}, b = {}, c = {}: a = b and b = c are true", alphabet[i].0, alphabet[j].0, alphabet[k].0),
              &show(&results[i_eq][i][k]),
              "true",
            );
          }
        }
      }
    }
  }
  // ------------------------------------------------------------------ `<` and `<=` as orders, on the implementation's answers
  // (Lean: lt_trans, le_trans, le_antisymm, le_total, lt_of_lt_of_le - for all values)
  {
    let tr = |k: usize| -> Vec<Vec<usize>> { (0..n).map(|i| (0..n).filter(|j| as_bool(&results[k][i][*j]) == Some(true)).collect()).collect() };
    let (lt_true, le_true) = (tr(i_lt), tr(i_le));
    let mut reported = 0;
    let mut fail = |rep: &mut Report, fam: &str, sig: &str, i: usize, j: usize, k: Option<usize>, got: &Value| {
      if reported < 20 {
        reported += 1;
        let input = match k {
          Some(k) => format!("a = {}, b = {}, c = {}", alphabet[i].0, alphabet[j].0, alphabet[k].0),
          None => format!("a = {}, b = {}", alphabet[i].0, alphabet[j].0),
        };
        rep.disagree(Kind::ImplVsSpec, fam, sig, &input, &show(got), "true");
      }
    };
    for i in 0..n {
      for &j in &lt_true[i] {
        for &k in &lt_true[j] {
          rep.evaluations += 1;
          if as_bool(&results[i_lt][i][k]) != Some(true) {
            fail(&mut rep, "lt_trans", "a < b and b < c are true but a < c is not", i, j, Some(k), &results[i_lt][i][k]);
          }
        }
        for &k in &le_true[j] {
          if as_bool(&results[i_lt][i][k]) != Some(true) {
            fail(&mut rep, "lt_of_lt_of_le", "a < b and b <= c are true but a < c is not", i, j, Some(k), &results[i_lt][i][k]);
          }
        }
      }
      for &j in &le_true[i] {
        for &k in &le_true[j] {
          rep.evaluations += 1;
          if as_bool(&results[i_le][i][k]) != Some(true) {
            fail(&mut rep, "le_trans", "a <= b and b <= c are true but a <= c is not", i, j, Some(k), &results[i_le][i][k]);
          }
        }
        if as_bool(&results[i_le][j][i]) == Some(true) && as_bool(&results[i_eq][i][j]) != Some(true) {
          fail(&mut rep, "le_antisymm", "a <= b and b <= a are true but a = b is not", i, j, None, &results[i_eq][i][j]);
        }
      }
      for j in 0..n {
        if let (Some(ka), Some(kb)) = (ordered_kind(&alphabet[i].1), ordered_kind(&alphabet[j].1)) {
          if ka == kb && as_bool(&results[i_le][i][j]) != Some(true) && as_bool(&results[i_le][j][i]) != Some(true) {
            fail(&mut rep, "le_total", &format!("neither a <= b nor b <= a is true ({})", ka), i, j, None, &results[i_le][i][j]);
          }
        }
      }
    }
  }
  // ------------------------------------------------------------------ a range or a unary comparison bound to a name
  // `a in b` with b a range value is `a in <lo..hi>` written out with the same brackets; with b a unary comparison
  // it is that comparison.  (The written-out forms are judged against the comparisons by the triples below.)
  {
    let i_in = idx("in");
    let pos_of = |v: &Value| -> Option<usize> { let t = show(v); alphabet.iter().position(|(_, x)| show(x) == t) };
    for j in 0..n {
      match &alphabet[j].1 {
        Value::Range(lo, lc, hi, rc) => {
          let ev = &ev_in.iter().find(|(l, r, _)| l == lc && r == rc).unwrap().2;
          for i in 0..n {
            let scope = scope_of(&[("a", &alphabet[i].1), ("b", lo), ("c", hi)]);
            let lit = guarded(|| ev(&scope)).unwrap_or(Value::Null(Some("panic".into())));
            rep.evaluations += 1;
            if as_bool(&lit) != as_bool(&results[i_in][i][j]) {
              rep.disagree(
                Kind::ImplVsSpec,
                "in_range_value",
                "x in r with the range r bound to a name differs from x in the same range written out",
                &format!("a in b with a = {}, b = {}", alphabet[i].0, alphabet[j].0),
                &show(&results[i_in][i][j]),
                &show(&lit),
              );
            }
          }
        }
        Value::UnaryLess(x) | Value::UnaryLessOrEqual(x) | Value::UnaryGreater(x) | Value::UnaryGreaterOrEqual(x) => {
          let (op, name) = match &alphabet[j].1 {
            Value::UnaryLess(_) => (i_lt, "<"),
            Value::UnaryLessOrEqual(_) => (i_le, "<="),
            Value::UnaryGreater(_) => (i_gt, ">"),
            _ => (i_ge, ">="),
          };
          if let Some(k) = pos_of(x) {
            for i in 0..n {
              rep.evaluations += 1;
              let want = as_bool(&results[op][i][k]) == Some(true);
              if (as_bool(&results[i_in][i][j]) == Some(true)) != want {
                rep.disagree(
                  Kind::ImplVsSpec,
                  "in_unary_value",
                  &format!("x in ({} y) holds where x {} y does not (or the reverse)", name, name),
                  &format!("a in b with a = {}, b = {}", alphabet[i].0, alphabet[j].0),
                  &show(&results[i_in][i][j]),
                  &format!("{}", want),
                );
              }
            }
          }
        }
        _ => {}
      }
    }
  }
  // ------------------------------------------------------------------ negation and `if`: every value as the operand / condition
  {
    let ev_not = prepared("not(a)");
    let ev_not_named = prepared("not(negand: a)");
    let ev_if = prepared("if a then b else c");
    let mut ureqs = vec![];
    let mut umeta: Vec<(usize, Option<(usize, usize)>, Value)> = vec![];
    let branch_pairs: Vec<(usize, usize)> = {
      let pos = |t: &str| alphabet.iter().position(|(x, _)| x == t).unwrap_or(0);
      vec![(pos("1"), pos("2")), (pos("true"), pos("false")), (pos("[true]"), pos("null")), (pos("null"), pos("[false]"))]
    };
    for i in 0..n {
      let txt = format!("a = {}", alphabet[i].0);
      let scope = scope_of(&[("a", &alphabet[i].1)]);
      for (form, ev) in [("not(a)", &ev_not), ("not(negand: a)", &ev_not_named)] {
        let r = match guarded(|| ev(&scope)) {
          Ok(v) => v,
          Err(m) => {
            rep.disagree(Kind::ImplVsSpec, "not", "panic in operator not", &format!("{} with {}", form, txt), &m, "a value");
            Value::Null(None)
          }
        };
        rep.evaluations += 1;
        rep.hit(&format!("not:{}", match r { Value::Boolean(true) => "true", Value::Boolean(false) => "false", _ => "null" }));
        // the truth table: the negation of a boolean, null for every other operand
        if as_bool(&r) != kleene(&alphabet[i].1).map(|b| !b) {
          let sig = if single_item(&alphabet[i].1).is_some() { "'not' deviates from the three-valued truth table (a list of one item as the operand)" } else { "'not' deviates from the three-valued truth table" };
          rep.disagree(Kind::ImplVsSpec, "not_table", sig, &format!("{} with {}", form, txt), &show(&r), "Kleene not");
        }
        if form == "not(a)" {
          if let Some(ea) = &enc[i] {
            ureqs.push(format!("(c09 not {})", ea));
            umeta.push((i, None, r));
          }
        }
      }
      for &(j, k) in &branch_pairs {
        let scope = scope_of(&[("a", &alphabet[i].1), ("b", &alphabet[j].1), ("c", &alphabet[k].1)]);
        let r = match guarded(|| ev_if(&scope)) {
          Ok(v) => v,
          Err(m) => {
            rep.disagree(Kind::ImplVsSpec, "if", "panic in if", &format!("if a then b else c with {}, b = {}, c = {}", txt, alphabet[j].0, alphabet[k].0), &m, "a value");
            Value::Null(None)
          }
        };
        rep.evaluations += 1;
        // a condition that is true selects the first branch, one that is false the second (whatever else the
        // operands are): the part of `if` that the truth tables fix
        let want = match &alphabet[i].1 {
          Value::Boolean(true) => Some(&alphabet[j].1),
          Value::Boolean(false) => Some(&alphabet[k].1),
          _ => None,
        };
        if let Some(w) = want {
          if show(&r) != show(w) {
            rep.disagree(Kind::ImplVsSpec, "if_boolean", "'if' with a boolean condition does not return the selected branch", &format!("{}, b = {}, c = {}", txt, alphabet[j].0, alphabet[k].0), &show(&r), &show(w));
          }
        }
        if let (Some(ea), Some(eb), Some(ec)) = (&enc[i], &enc[j], &enc[k]) {
          ureqs.push(format!("(c09 if {} {} {})", ea, eb, ec));
          umeta.push((i, Some((j, k)), r));
        }
      }
    }
    let uanswers = model.ask_batch(&ureqs);
    for ((req, ans), (i, jk, r)) in ureqs.iter().zip(uanswers.iter()).zip(umeta.iter()) {
      rep.case(req, !matches!(alphabet[*i].1, Value::Null(_)));
      let shown = show(r);
      if &shown != ans {
        let (fam, sig) = if jk.is_none() { ("not", "operator not differs from model") } else { ("if", "if differs from model") };
        rep.disagree(Kind::ImplVsModel, fam, sig, &format!("{} with a = {}", req, alphabet[*i].0), &shown, ans);
      }
    }
  }
  // ------------------------------------------------------------------ a list of one item beside the item itself
  // Nothing in the operators takes the item out of a list of one item: where an operand is such a list, the
  // logical operators see a non-boolean (judged by the table laws above, which read the operand's kind from the
  // value itself), and equality / ordering treat it as any other list (judged by the symmetry and mirror laws and
  // by the model).  `singleton_of[i]` = the index of `[alphabet[i]]`, used for the triples below.
  let singleton_of: Vec<Option<usize>> = (0..n).map(|i| { let t = format!("[{}]", alphabet[i].0); alphabet.iter().position(|(x, _)| *x == t) }).collect();
  rep.extra.insert("alphabet_singleton_lists".into(), json!(singleton_of.iter().filter(|x| x.is_some()).count()));
  // ------------------------------------------------------------------ triples: between / in / and
  let mut triples: Vec<(usize, usize, usize)> = vec![];
  if thorough {
    // all triples over a core of the alphabet (every third value, so that every kind and every family of spellings
    // is in it: about a hundred values, a million triples), all triples of one ordered kind over the whole alphabet,
    // and three million random triples over the whole alphabet (n³ is over thirty million since the alphabet holds
    // ranges of every closedness and a singleton list of every kind: five model requests each did not fit the
    // tier's time limit)
    let core: Vec<usize> = (0..n).filter(|i| i % 3 == 0).collect();
    for &i in &core {
      for &j in &core {
        for &k in &core {
          triples.push((i, j, k));
        }
      }
    }
    let ordered: Vec<usize> = (0..n).filter(|i| ordered_kind(&alphabet[*i].1).is_some()).collect();
    for &i in &ordered {
      for &j in &ordered {
        for &k in &ordered {
          if ordered_kind(&alphabet[i].1) == ordered_kind(&alphabet[j].1) && ordered_kind(&alphabet[j].1) == ordered_kind(&alphabet[k].1) {
            triples.push((i, j, k));
          }
        }
      }
    }
    for _ in 0..3_000_000 {
      triples.push((rng.below(n as u64) as usize, rng.below(n as u64) as usize, rng.below(n as u64) as usize));
    }
  } else {
    // all triples of one ordered kind among the fixed alphabet, plus a random sample of all triples
    let ordered: Vec<usize> = (0..n).filter(|i| ordered_kind(&alphabet[*i].1).is_some()).collect();
    for &i in &ordered {
      for &j in &ordered {
        for &k in &ordered {
          if ordered_kind(&alphabet[i].1) == ordered_kind(&alphabet[j].1) && ordered_kind(&alphabet[j].1) == ordered_kind(&alphabet[k].1) && rng.chance(1, 3) {
            triples.push((i, j, k));
          }
        }
      }
    }
    for _ in 0..20_000 {
      triples.push((rng.below(n as u64) as usize, rng.below(n as u64) as usize, rng.below(n as u64) as usize));
    }
    // a list of one item in each of the three positions of between / in, beside items of its item's kind
    for i in 0..n {
      if let Some(si) = singleton_of[i] {
        for j in 0..n {
          let related = j == i || (ordered_kind(&alphabet[i].1).is_some() && ordered_kind(&alphabet[i].1) == ordered_kind(&alphabet[j].1) && rng.chance(1, 4));
          if related {
            let sj = singleton_of[j].unwrap_or(si);
            for t in [(si, j, j), (j, si, j), (j, j, si), (si, sj, sj), (i, sj, j), (i, j, sj), (si, i, j), (si, j, i)] {
              triples.push(t);
            }
          }
        }
      }
    }
  }
  // in chunks: the thorough tier has n³ (about two million) triples with five requests each
  for chunk in triples.chunks(20_000) {
  let mut treqs = vec![];
  let mut tmeta = vec![];
  let mut tresults = vec![];
  for (i, j, k) in chunk {
    let scope = scope_of(&[("a", &alphabet[*i].1), ("b", &alphabet[*j].1), ("c", &alphabet[*k].1)]);
    let txt = format!("a = {}, b = {}, c = {}", alphabet[*i].0, alphabet[*j].0, alphabet[*k].0);
    let bt = guarded(|| ev_between(&scope)).unwrap_or(Value::Null(Some("panic".into())));
    if let Value::Null(Some(m)) = &bt {
      if m == "panic" {
        rep.disagree(Kind::ImplVsSpec, "between", "panic in between", &txt, "panic", "a value");
      }
    }
    let ins: Vec<Value> = ev_in.iter().map(|(_, _, ev)| guarded(|| ev(&scope)).unwrap_or(Value::Null(None))).collect();
    if let (Some(x), Some(a), Some(b)) = (&enc[*i], &enc[*j], &enc[*k]) {
      treqs.push(format!("(c09 between {} {} {})", x, a, b));
      tmeta.push((tresults.len(), 0usize));
      for (q, (lc, rc, _)) in ev_in.iter().enumerate() {
        treqs.push(format!("(c09 inrange {} {} {} {} {})", x, a, lc, b, rc));
        tmeta.push((tresults.len(), q + 1));
      }
    }
    // the law: x between a and b == x in [a..b] == (a <= x and x <= b), open ends ↔ strict
    let same_kind = ordered_kind(&alphabet[*i].1).is_some()
      && ordered_kind(&alphabet[*i].1) == ordered_kind(&alphabet[*j].1)
      && ordered_kind(&alphabet[*j].1) == ordered_kind(&alphabet[*k].1);
    if same_kind {
      let kind = ordered_kind(&alphabet[*i].1).unwrap();
      let le = |x: usize, y: usize| as_bool(&results[i_le][x][y]);
      let lt = |x: usize, y: usize| as_bool(&results[i_lt][x][y]);
      for (q, (lc, rc, _)) in ev_in.iter().enumerate() {
        let l_ok = if *lc { le(*j, *i) } else { lt(*j, *i) };
        let r_ok = if *rc { le(*i, *k) } else { lt(*i, *k) };
        let want = kleene_and(l_ok, r_ok);
        if as_bool(&ins[q]) != want {
          rep.disagree(
            Kind::ImplVsSpec,
            "between_in_agree",
            &format!("x in interval differs from the conjunction of comparisons ({})", kind),
            &format!("{} brackets lc={} rc={}", txt, lc, rc),
            &show(&ins[q]),
            &format!("{:?}", want),
          );
        }
      }
      if as_bool(&bt) != as_bool(&ins[0]) {
        rep.disagree(Kind::ImplVsSpec, "between_in_agree", &format!("x between a and b differs from x in [a..b] ({})", kind), &txt, &show(&bt), &show(&ins[0]));
      }
    }
    tresults.push((bt, ins));
    rep.evaluations += 1;
  }
  let tanswers = model.ask_batch(&treqs);
  for ((req, ans), (ti, q)) in treqs.iter().zip(tanswers.iter()).zip(tmeta.iter()) {
    let r = if *q == 0 { &tresults[*ti].0 } else { &tresults[*ti].1[*q - 1] };
    rep.case(req, true);
    let shown = show(r);
    if &shown != ans {
      rep.disagree(
        Kind::ImplVsModel,
        if *q == 0 { "between" } else { "in_range" },
        if *q == 0 { "between differs from model" } else { "in range differs from model" },
        req,
        &shown,
        ans,
      );
    }
  }
  }
  bound_operands(&mut rep, cfg.seed, thorough);
  rep.exhaustive = thorough;
  rep.model_requests = model.requests;
  rep
}

// ====================================================================== operands bound by iteration / rebinding
// The laws above are evaluated with one scope per operand tuple and (for literal endpoints) one evaluator per
// tuple.  Here the operands are *computed from a variable that is rebound while one built evaluator is reused*:
// the body of `for` / `every` / `some`, a filter over a list (of contexts, of items), a user function invoked
// several times, and one prepared evaluator evaluated over a sequence of scopes (A, B, A, …).  Endpoints are made
// from the variable by constructors and arithmetic (`date(y,1,1)`, `duration("P" + string(y) + "D")`, `-y`,
// `y + 1`, `string(y)` …), so that the interval differs between iterations.
// Oracle: (a) the law on the implementation's answers of one iteration (`x in [f..g]` = `x between f and g` =
// `f <= x and x <= g`, open ends ↔ strict), (b) a written-out expectation computed here from integer keys of the
// operands, (c) a fresh parse + build + evaluation in the scope of that iteration.

struct BoundTpl {
  kind: &'static str,
  /// f and g may stand as interval endpoints as they are written (the grammar allows names and literals only)
  simple: bool,
  f: fn(&str) -> String,
  g: fn(&str) -> String,
  fk: fn(i64) -> i64,
  gk: fn(i64) -> i64,
  ys: (i64, i64),
  /// the text of the value with the key k
  x: fn(i64) -> String,
  /// keys at and around the ends of the interval of y
  near: fn(i64) -> Vec<i64>,
}

fn bound_templates() -> Vec<BoundTpl> {
  vec![
    BoundTpl {
      kind: "date",
      simple: true,
      f: |v| format!("date({},1,1)", v),
      g: |v| format!("date({},12,31)", v),
      fk: |y| y * 10000 + 101,
      gk: |y| y * 10000 + 1231,
      ys: (2016, 2026),
      x: |k| format!("date(\"{:04}-{:02}-{:02}\")", k / 10000, k / 100 % 100, k % 100),
      near: |y| vec![y * 10000 + 101, y * 10000 + 1231, y * 10000 + 615, (y - 1) * 10000 + 1231, (y + 1) * 10000 + 101, y * 10000 + 102],
    },
    BoundTpl {
      kind: "date",
      simple: true,
      f: |v| format!("date(2021,{},1)", v),
      g: |v| format!("date(2021,{} + 1,1)", v),
      fk: |y| y * 100 + 1,
      gk: |y| (y + 1) * 100 + 1,
      ys: (1, 11),
      x: |k| format!("date(\"2021-{:02}-{:02}\")", k / 100, k % 100),
      near: |y| vec![y * 100 + 1, (y + 1) * 100 + 1, y * 100 + 15, y * 100 + 28, (y + 1) * 100 + 2, y * 100 + 2],
    },
    BoundTpl {
      kind: "number",
      simple: false,
      f: |v| format!("-{}", v),
      g: |v| format!("{} + 1", v),
      fk: |y| -y,
      gk: |y| y + 1,
      ys: (0, 7),
      x: |k| format!("({})", k),
      near: |y| vec![-y, y + 1, 0, -y - 1, y + 2, y],
    },
    BoundTpl {
      kind: "number",
      simple: false,
      f: |v| format!("{} * 3", v),
      g: |v| format!("{} * 3 + 2.0", v),
      fk: |y| y * 3,
      gk: |y| y * 3 + 2,
      ys: (-4, 4),
      x: |k| format!("({})", k),
      near: |y| vec![y * 3, y * 3 + 2, y * 3 + 1, y * 3 - 1, y * 3 + 3],
    },
    BoundTpl {
      kind: "days and time duration",
      simple: true,
      f: |v| format!("duration(\"P\" + string({}) + \"D\")", v),
      g: |v| format!("duration(\"P\" + string({} + 3) + \"D\")", v),
      fk: |y| y,
      gk: |y| y + 3,
      ys: (1, 9),
      x: |k| format!("duration(\"P{}D\")", k),
      near: |y| vec![y, y + 3, y + 1, y - 1, y + 4],
    },
    BoundTpl {
      kind: "years and months duration",
      simple: true,
      f: |v| format!("duration(\"P\" + string({}) + \"M\")", v),
      g: |v| format!("duration(\"P1Y\" + string({}) + \"M\")", v),
      fk: |y| y,
      gk: |y| y + 12,
      ys: (1, 9),
      x: |k| format!("duration(\"P{}M\")", k),
      near: |y| vec![y, y + 12, y + 5, y - 1, y + 13],
    },
    BoundTpl {
      kind: "time",
      simple: true,
      f: |v| format!("time({},0,0)", v),
      g: |v| format!("time({} + 1,30,0)", v),
      fk: |y| y * 3600,
      gk: |y| (y + 1) * 3600 + 1800,
      ys: (1, 21),
      x: |k| format!("time(\"{:02}:{:02}:{:02}\")", k / 3600, k / 60 % 60, k % 60),
      near: |y| vec![y * 3600, (y + 1) * 3600 + 1800, y * 3600 + 1800, y * 3600 - 1, (y + 1) * 3600 + 1801],
    },
    BoundTpl {
      kind: "date and time",
      simple: true,
      f: |v| format!("date and time(date(2021,{},1), time(0,0,0))", v),
      g: |v| format!("date and time(date(2021,{},28), time(12,0,0))", v),
      fk: |y| y * 1000000 + 10000,
      gk: |y| y * 1000000 + 281200,
      ys: (1, 12),
      x: |k| format!("date and time(\"2021-{:02}-{:02}T{:02}:{:02}:00\")", k / 1000000, k / 10000 % 100, k / 100 % 100, k % 100),
      near: |y| vec![y * 1000000 + 10000, y * 1000000 + 281200, y * 1000000 + 150600, y * 1000000 + 281201, y * 1000000 + 10001],
    },
    BoundTpl {
      kind: "string",
      simple: false,
      f: |v| format!("string({})", v),
      g: |v| format!("string({} + 2)", v),
      fk: |y| y,
      gk: |y| y + 2,
      // one digit: the order of the strings is the order of the keys
      ys: (1, 6),
      x: |k| format!("\"{}\"", k),
      near: |y| vec![y, y + 2, y + 1, y - 1, y + 3],
    },
  ]
}

fn list_items(v: &Value) -> Vec<Value> {
  match v {
    Value::List(items) => items.as_vec().clone(),
    other => vec![other.clone()],
  }
}

fn is_parse_error(v: &Value) -> bool {
  matches!(v, Value::Null(Some(m)) if m == "parse error" || m == "build error")
}

fn bound_operands(rep: &mut Report, seed: u64, thorough: bool) {
  let mut rng = Rng::new(seed ^ 0x09b0_77d0);
  let rounds = if thorough { 40 } else { 5 };
  let empty = Scope::default();
  let num = |n: i64| Value::Number(FeelNumber::new(n as i128, 0));
  let b3 = |b: Option<bool>| match b { Some(true) => "true", Some(false) => "false", None => "null" };
  let mut evaluated = 0usize;
  for tpl in bound_templates() {
    for _ in 0..rounds {
      // values of the bound variable: A, B, A, then one or two more (the interval differs between neighbours)
      let ya = rng.range(tpl.ys.0, tpl.ys.1);
      let mut yb = rng.range(tpl.ys.0, tpl.ys.1);
      if yb == ya {
        yb = if ya < tpl.ys.1 { ya + 1 } else { ya - 1 };
      }
      let mut ys = vec![ya, yb, ya];
      for _ in 0..rng.below(3) {
        ys.push(rng.range(tpl.ys.0, tpl.ys.1));
      }
      let y0 = *rng.pick(&ys);
      let xk = *rng.pick(&(tpl.near)(y0));
      let x = (tpl.x)(xk);
      let ys_txt = ys.iter().map(|y| y.to_string()).collect::<Vec<_>>().join(", ");
      for (lc, rc) in [(true, true), (true, false), (false, true), (false, false)] {
        let (lb, rb) = (if lc { "[" } else { "(" }, if rc { "]" } else { ")" });
        let (lo, ro) = (if lc { "<=" } else { "<" }, if rc { "<=" } else { "<" });
        let by_names = !tpl.simple || rng.chance(1, 4);
        let by_function = by_names && rng.chance(1, 2);
        // the three forms over the variable v
        let e_in = |v: &str| -> String {
          let (f, g) = ((tpl.f)(v), (tpl.g)(v));
          if !by_names {
            format!("{} in {}{}..{}{}", x, lb, f, g, rb)
          } else if by_function {
            format!("{{q_: function(lo_, hi_) {} in {}lo_..hi_{}, r_: q_({}, {})}}.r_", x, lb, rb, f, g)
          } else {
            format!("{{lo_: {}, hi_: {}, r_: {} in {}lo_..hi_{}}}.r_", f, g, x, lb, rb)
          }
        };
        let e_cmp = |v: &str| format!("{} {} {} and {} {} {}", (tpl.f)(v), lo, x, x, ro, (tpl.g)(v));
        let e_bt = |v: &str| format!("{} between {} and {}", x, (tpl.f)(v), (tpl.g)(v));
        let closed = lc && rc;
        let expect = |y: i64| -> bool {
          let (f, g) = ((tpl.fk)(y), (tpl.gk)(y));
          (if lc { f <= xk } else { f < xk }) && (if rc { xk <= g } else { xk < g })
        };
        let expected: Vec<bool> = ys.iter().map(|y| expect(*y)).collect();
        // per-iteration answers [in, cmp, between?] of every wrapper
        let mut per_wrapper: Vec<(&str, String, Vec<Vec<Value>>)> = vec![];
        // for
        {
          let forms = if closed { format!("[{}, {}, {}]", e_in("y"), e_cmp("y"), e_bt("y")) } else { format!("[{}, {}]", e_in("y"), e_cmp("y")) };
          let text = format!("for y in [{}] return {}", ys_txt, forms);
          let r = guarded(|| eval_text(&empty, &text)).unwrap_or(Value::Null(Some("panic".into())));
          per_wrapper.push(("for", text, list_items(&r).iter().map(list_items).collect()));
        }
        // a user function invoked once per value
        {
          let forms = if closed { format!("[{}, {}, {}]", e_in("y"), e_cmp("y"), e_bt("y")) } else { format!("[{}, {}]", e_in("y"), e_cmp("y")) };
          let calls = ys.iter().map(|y| format!("w_({})", y)).collect::<Vec<_>>().join(", ");
          let text = format!("{{w_: function(y) {}, s_: [{}]}}.s_", forms, calls);
          let r = guarded(|| eval_text(&empty, &text)).unwrap_or(Value::Null(Some("panic".into())));
          per_wrapper.push(("function", text, list_items(&r).iter().map(list_items).collect()));
        }
        // one prepared evaluator per form, evaluated over the sequence of scopes
        {
          let names = scope_of(&[("y", &Value::Null(None))]);
          let mut forms = vec![e_in("y"), e_cmp("y")];
          if closed {
            forms.push(e_bt("y"));
          }
          let mut evs: Vec<Option<Evaluator>> = vec![];
          for t in &forms {
            crate::util::note_case(t);
            evs.push(dmntk_feel_parser::parse_expression(&names, t, false).ok().and_then(|n| dmntk_feel_evaluator::prepare(&n).ok()));
          }
          let text = format!("prepared once: {} over y = {}", forms.join(" ; "), ys_txt);
          let rows: Vec<Vec<Value>> = ys
            .iter()
            .map(|y| {
              let scope = scope_of(&[("y", &num(*y))]);
              evs.iter().map(|e| match e {
                Some(e) => guarded(|| e(&scope)).unwrap_or(Value::Null(Some("panic".into()))),
                None => Value::Null(Some("parse error".into())),
              }).collect()
            })
            .collect();
          per_wrapper.push(("prepared", text, rows));
        }
        for (wrapper, text, rows) in &per_wrapper {
          if rows.iter().flatten().any(is_parse_error) || rows.len() != ys.len() {
            rep.hit(&format!("bound:{}:{}:not evaluated", tpl.kind, wrapper));
            if rep.notes.len() < 40 {
              rep.notes.push(format!("bound operands: {} does not parse / build or is not a list of {} answers", text, ys.len()));
            }
            continue;
          }
          rep.case(text, true);
          evaluated += 1;
          rep.hit(&format!("bound:{}:{}", tpl.kind, wrapper));
          for (n, row) in rows.iter().enumerate() {
            let y = ys[n];
            let got: Vec<Option<bool>> = row.iter().map(as_bool).collect();
            let input = format!("{} — iteration {} (y = {})", text, n + 1, y);
            let shown = format!("in={} comparisons={}{}", b3(got[0]), b3(*got.get(1).unwrap_or(&None)), if closed { format!(" between={}", b3(*got.get(2).unwrap_or(&None))) } else { String::new() });
            // (a) the law on the implementation's answers
            if got.iter().any(|g| *g != got[0]) {
              rep.disagree(
                Kind::ImplVsSpec,
                "bound_operands",
                &format!("x in interval, x between and the comparisons disagree when the endpoints are computed from a variable bound by {} ({})", wrapper, tpl.kind),
                &input,
                &shown,
                "the three forms agree",
              );
            }
            // (b) the written-out expectation
            if got.iter().any(|g| *g != Some(expected[n])) {
              rep.disagree(
                Kind::ImplVsSpec,
                "bound_operands",
                &format!("interval membership with endpoints computed from a variable bound by {} differs from the written-out answer ({})", wrapper, tpl.kind),
                &input,
                &shown,
                &format!("{} ({} {} {} and {} {} {} on the keys)", expected[n], (tpl.fk)(y), lo, xk, xk, ro, (tpl.gk)(y)),
              );
            }
            // (c) a fresh evaluation in the scope of this iteration
            let scope = scope_of(&[("y", &num(y))]);
            let fresh = guarded(|| eval_text(&scope, &e_in("y"))).unwrap_or(Value::Null(Some("panic".into())));
            rep.evaluations += 1;
            if as_bool(&fresh) != got[0] {
              rep.disagree(
                Kind::ImplVsSpec,
                "bound_operands",
                &format!("x in interval inside {} differs from a fresh evaluation in the scope of that iteration ({})", wrapper, tpl.kind),
                &input,
                b3(got[0]),
                b3(as_bool(&fresh)),
              );
            }
          }
        }
        // quantifiers and filters: one answer for the whole sequence
        let all = expected.iter().all(|b| *b);
        let any = expected.iter().any(|b| *b);
        let ctxs = ys.iter().enumerate().map(|(i, y)| format!("{{y: {}, i: {}}}", y, i)).collect::<Vec<_>>().join(", ");
        let idx_true: Vec<Value> = expected.iter().enumerate().filter(|(_, b)| **b).map(|(i, _)| num(i as i64)).collect();
        let ys_true: Vec<Value> = expected.iter().enumerate().filter(|(_, b)| **b).map(|(i, _)| num(ys[i])).collect();
        let lst = |v: &[Value]| format!("[{}]", v.iter().map(show).collect::<Vec<_>>().join(" "));
        let whole: Vec<(&str, String, String)> = vec![
          ("every", format!("every y in [{}] satisfies ({}) = ({})", ys_txt, e_in("y"), e_cmp("y")), "true".into()),
          ("some", format!("some y in [{}] satisfies ({}) != ({})", ys_txt, e_in("y"), if closed { e_bt("y") } else { e_cmp("y") }), "false".into()),
          ("every", format!("every y in [{}] satisfies {}", ys_txt, e_in("y")), all.to_string()),
          ("some", format!("some y in [{}] satisfies {}", ys_txt, e_in("y")), any.to_string()),
          ("a filter over contexts", format!("[{}][{}]", ctxs, e_in("y")), lst(&idx_true)),
          ("a filter over items", format!("[{}][{}]", ys_txt, e_in("item")), lst(&ys_true)),
          ("a filter over items", format!("count([{}][{}]) = count([{}][{}])", ys_txt, e_in("item"), ys_txt, e_cmp("item")), "true".into()),
        ];
        for (wrapper, text, want) in &whole {
          // (the entries of the filtered contexts are no names for the parser: `y + 1` would be read as one name;
          // the name y is made known by an outer scope that binds it to null, the entry of the item shadows it)
          let outer = if *wrapper == "a filter over contexts" { scope_of(&[("y", &Value::Null(None))]) } else { Scope::default() };
          let r = guarded(|| eval_text(&outer, text)).unwrap_or(Value::Null(Some("panic".into())));
          if is_parse_error(&r) {
            rep.hit(&format!("bound:{}:{}:not evaluated", tpl.kind, wrapper));
            if rep.notes.len() < 40 {
              rep.notes.push(format!("bound operands: {} does not parse / build", text));
            }
            continue;
          }
          rep.case(text, true);
          evaluated += 1;
          rep.hit(&format!("bound:{}:{}", tpl.kind, wrapper));
          // a filter answers with the selected items (a single selected item may come without its list); of a
          // selected context the entry `i` is read here
          let got = match &r {
            Value::Boolean(b) => b.to_string(),
            other => lst(
              &list_items(other)
                .iter()
                .map(|v| match v {
                  Value::Context(ctx) => ctx.get_entries().iter().find(|(k, _)| k.to_string() == "i").map(|(_, x)| (*x).clone()).unwrap_or(Value::Null(None)),
                  x => x.clone(),
                })
                .collect::<Vec<_>>(),
            ),
          };
          if &got != want {
            rep.disagree(
              Kind::ImplVsSpec,
              "bound_operands",
              &format!("interval membership with endpoints computed from a variable bound by {} differs from the written-out answer ({})", wrapper, tpl.kind),
              text,
              &got,
              want,
            );
          }
        }
      }
      // equality and ordering of the computed operand with the variable bound by `for`
      {
        let (f, text_x) = ((tpl.f)("y"), &x);
        let text = format!(
          "for y in [{}] return [{f} < {x}, {x} > {f}, {f} = {x}, {x} = {f}, {f} <= {x}, {x} >= {f}, {f} != {x}, {f} > {x}, {x} < {f}]",
          ys_txt,
          f = f,
          x = text_x
        );
        let r = guarded(|| eval_text(&empty, &text)).unwrap_or(Value::Null(Some("panic".into())));
        let rows: Vec<Vec<Value>> = list_items(&r).iter().map(list_items).collect();
        if is_parse_error(&r) || rows.len() != ys.len() {
          rep.hit(&format!("bound:{}:order:not evaluated", tpl.kind));
          if rep.notes.len() < 40 {
            rep.notes.push(format!("bound operands: {} does not parse / build", text));
          }
        } else {
          rep.case(&text, true);
          evaluated += 1;
          rep.hit(&format!("bound:{}:order", tpl.kind));
          for (n, row) in rows.iter().enumerate() {
            let fkey = (tpl.fk)(ys[n]);
            let want = [fkey < xk, fkey < xk, fkey == xk, fkey == xk, fkey <= xk, fkey <= xk, fkey != xk, fkey > xk, fkey > xk];
            let got: Vec<Option<bool>> = row.iter().map(as_bool).collect();
            if got.len() != want.len() || got.iter().zip(want.iter()).any(|(g, w)| *g != Some(*w)) {
              rep.disagree(
                Kind::ImplVsSpec,
                "bound_operands",
                &format!("equality / ordering of an operand computed from a variable bound by for differs from the written-out answer ({})", tpl.kind),
                &format!("{} — iteration {} (y = {})", text, n + 1, ys[n]),
                &format!("{:?}", got),
                &format!("{:?} (keys {} and {})", want, fkey, xk),
              );
            }
          }
        }
      }
    }
  }
  rep.extra.insert("bound_operand_expressions".into(), json!(evaluated));
}
