//! C05 (parser side) — FEEL parsing is total: a result or an error, never a crash.
//!
//! Families
//! * `lexer-tokens`   impl = model: the hook's token stream against `Dmn.Lexer.tokenize` on
//!                    arbitrary Unicode fragments, random scope keys, random lexer flags.
//! * `lexer-no-panic` impl ⊨ spec: the lexer answers with a token or an error (the property on
//!                    the implementation alone); `lexer-progress`: every token other than
//!                    YyUndef / YyEof moves the cursor forward.
//! * `lalr-trace`     impl = model: the traced run of the real parser (states entered, tokens
//!                    fetched, rules reduced, goto states, outcome) against the model of the
//!                    driver loop over the regenerated tables (`Dmn.Lalr.step`).
//! * `temporal-extreme` impl = model (`Dmn.TemporalMachine.run`, checked mode: the harness build has
//!                    overflow checks on): every temporal operation, through FEEL text, on operands at
//!                    and next to the ends of `i64` months / `i128` nanoseconds / `u64` literal
//!                    components / the year range; a panic of the implementation is a disagreement
//!                    with the property (impl ⊨ spec), a panic site of the model must be a panic of
//!                    the implementation and vice versa, values must be equal otherwise.
//! * `string-index`   impl = model (`Dmn.StringIndex.run`, checked mode): `substring`, `substring before`, `substring after`,
//!                    `split`, `replace` through FEEL text on strings of 1-, 2-, 3- and 4-byte characters (and the empty
//!                    string), start positions and lengths at and next to 0, ±len, ±(len+1), the ends of i32 / u32 /
//!                    isize / usize, non-integers, huge numbers, null and non-numbers; needles / delimiters / patterns
//!                    that are parts of the string, single characters of every width, absent, empty, longer than the
//!                    string, self-overlapping. The converted arguments the model is given (`to_isize`, `to_usize`,
//!                    `< 1`, `trunc`) are computed by the harness from the digits it wrote. A panic of the implementation
//!                    is a disagreement with the property; values must be equal to the model's otherwise.
//! * `scope-ops`      impl = model (`Dmn.ScopeCell.execTrace`) at value level: random sequences of the operations of the real
//!                    `dmntk_feel::Scope` (`push`, `pop`, `peek`, `get_entry`, `search_deep`, `set_entry`, `insert_null`,
//!                    `flatten_keys`) from `Scope::new()` and `Scope::default()`, contexts with nested contexts, lists of
//!                    contexts, rebinding of bound names; every answer (value found / none, context popped / peeked as a
//!                    map, the set of flattened keys) and, through final pops, the whole stack is compared.
//! * `longest-name`   impl = model (`Dmn.LongestName`): the real `parse_longest_name` in-process on names with additional
//!                    symbols, inner and outer white space of every kind, keywords, Unicode name characters, digits first,
//!                    the empty text, symbols only, very long names. Where the model's tokens are one name and the end the
//!                    answer must be `Ok` with exactly that (normalised) name; where the model's lexer reports an error or
//!                    its driver loop rejects the tokens the answer must be `Err`; never a panic.
//! * `process`        VALIDATION, not proof: all parser entry points and `evaluate` (empty
//!                    scope) in child processes with a wall-clock limit, on grammar-derived
//!                    inputs, mutations of the string literals of the repository's own tests,
//!                    arbitrary Unicode and nesting up to depth 200. A panic (site = file:line
//!                    from the panic location), a process death or a timeout is a disagreement
//!                    with the property.
//!                    Sub-families added for holes found by seeded changes: `scoped` / `context-key` — all entry
//!                    points (and evaluation) in parsing scopes whose entries are named "", " ", a single additional
//!                    symbol, with an inner run of blanks, or very long, and context literals whose string keys
//!                    put such entries into the scope themselves; `bif-extreme` — EVERY name of the regenerated
//!                    table of built-in names (`(c10 bifnames)`, translate/bifnames.py) invoked positionally with
//!                    0..4 arguments and by name (parameter names read from bifs/named.rs) over a pool of extreme
//!                    values (empty list, lists of nulls, nested empty lists, 0, -1, huge numbers, NaN / Infinity,
//!                    empty string, null, contexts, ranges, functions).
//! * `qualified-names` impl ⊨ spec, in-process with located panics (a third of the cases also through all entry points
//!                    in child processes, family `qualified` of the process runner): scopes of 0..3 stacked contexts
//!                    (fixed shapes and generated trees of numbers, contexts and other values), names of 1..7 segments
//!                    that resolve fully, to a context, to another value, with the first segment bound and the tail
//!                    unresolved, or not at all, in 64 operand positions (endpoints of every interval form, unary
//!                    comparisons, every type position, paths in every expression position). Specification:
//!                    `q_resolve` (topmost binding of the first segment decides); where the name resolves to a number
//!                    the value is written out, otherwise the answer must be a value (no panic).
//! * `long-history`   impl ⊨ spec, one thread: ≈ 48 000 evaluations whose texts differ pairwise in patterns, flags,
//!                    literals, names, keys, parameter names and types (`history_batch(k)`), then the same again, shuffled,
//!                    alternating old and new, and single expressions with 65 / 130 / 300 distinct patterns; every answer
//!                    against the value written next to the text (any bounded per-thread cache must evict).
//! * `reentrant`      impl ⊨ spec, in-process with located panics: built-ins invoked WHILE a built-in or an iteration
//!                    construct is running. `sort` inside the ordering function of `sort`, two and three levels deep, on
//!                    lists of 0..3 items at every level (expected order computed here from the generated numbers), the
//!                    same inside `for` / `some` / `every` / filter / `if` / list / user-function bodies and ordering
//!                    functions (positional and named `sort`); recursion through a user function that sorts; and EVERY name
//!                    of the regenerated table of built-in names × 34 argument shapes (small valid arguments of every kind)
//!                    × 3 lists inside 12 drivers (ordering function of `sort`, positional / named / nested; `for`, `some`,
//!                    `every`, filter, function literal, context function, and mixtures), each driver written so that its
//!                    value does not depend on what the inner built-in returns, only on its returning: the value is
//!                    written next to the text. A panic (located) or another answer is a disagreement with the property.

use crate::c10::{compare_streams, impl_tokens, tokenize_request};
use crate::model::Model;
use crate::report::{Kind, Report};
use crate::rng::Rng;
use crate::util;
use crate::Cfg;
use dmntk_feel::values::Value;
use dmntk_feel::{FeelNumber, Name, Scope};
use dmntk_feel_parser::VerifTokenType as TT;
use serde_json::json;
use std::collections::HashSet;
use std::sync::Mutex;

static LAST_PANIC: Mutex<Option<String>> = Mutex::new(None);

fn install_hook() {
  std::panic::set_hook(Box::new(|info| {
    let loc = info.location().map(|l| format!("{}:{}", l.file(), l.line())).unwrap_or_else(|| "unknown".to_string());
    if std::env::var("VHARNESS_DEBUG").is_ok() {
      eprintln!("panic: {}", info);
    }
    if let Ok(mut g) = LAST_PANIC.lock() {
      *g = Some(loc);
    }
  }));
}

/// Runs `f`; a panic becomes `Err(file:line)` of the panic location (path relative to /repo).
fn located<T>(f: impl FnOnce() -> T) -> Result<T, String> {
  if let Ok(mut g) = LAST_PANIC.lock() {
    *g = None;
  }
  match util::guarded(f) {
    Ok(v) => Ok(v),
    Err(_) => {
      let loc = LAST_PANIC.lock().ok().and_then(|g| g.clone()).unwrap_or_else(|| "unknown".to_string());
      Err(loc.trim_start_matches("/repo/").to_string())
    }
  }
}

pub const ENTRIES: [&str; 8] = [
  "parse_expression",
  "parse_textual_expression",
  "parse_textual_expressions",
  "parse_boxed_expression",
  "parse_context",
  "parse_unary_tests",
  "parse_name",
  "parse_longest_name",
];

/// Marks an input of the process family that carries a parsing scope: `MARK json-array-of-names MARK text`.
const SCOPE_MARK: char = '\u{1}';

/// An input of the process family together with the names of the entries of the parsing scope it is parsed (and
/// evaluated) in; every entry is made with `Name::from(name)` and bound to the number 1.
fn scoped_input(names: &[&str], text: &str) -> String {
  format!("{}{}{}{}", SCOPE_MARK, serde_json::to_string(names).unwrap_or_else(|_| "[]".into()), SCOPE_MARK, text)
}

/// The scope names and the text of an input of the process family (no names for a plain input).
fn split_scoped(input: &str) -> (Vec<String>, &str) {
  if let Some(rest) = input.strip_prefix(SCOPE_MARK) {
    if let Some(k) = rest.find(SCOPE_MARK) {
      if let Ok(names) = serde_json::from_str::<Vec<String>>(&rest[..k]) {
        return (names, &rest[k + SCOPE_MARK.len_utf8()..]);
      }
    }
  }
  (vec![], input)
}

/// The input as shown in a report (the replay): the scope written out, then the text.
fn shown_input(input: &str) -> String {
  let (names, text) = split_scoped(input);
  if input.starts_with(SCOPE_MARK) && names.iter().any(|n| n.starts_with(CTX_MARK)) {
    let ctxs: Vec<&str> = names.iter().filter_map(|n| n.strip_prefix(CTX_MARK)).collect();
    format!("scope (contexts, bottom first): [{}] ;; {}", ctxs.join(", "), text)
  } else if input.starts_with(SCOPE_MARK) {
    let names: Vec<String> = names.iter().map(|n| if n.chars().count() > 60 { format!("{:?}… ({} characters)", n.chars().take(20).collect::<String>(), n.chars().count()) } else { format!("{:?}", n) }).collect();
    format!("parsing scope with the entries Name::from of [{}] (each bound to 1), text: {}", names.join(", "), text)
  } else {
    text.to_string()
  }
}

fn run_entry(scope: &Scope, entry: &str, input: &str, trace: bool) -> Result<Option<dmntk_feel::AstNode>, String> {
  let r = match entry {
    "parse_expression" => dmntk_feel_parser::parse_expression(scope, input, trace).map(Some),
    "parse_textual_expression" => dmntk_feel_parser::parse_textual_expression(scope, input, trace).map(Some),
    "parse_textual_expressions" => dmntk_feel_parser::parse_textual_expressions(scope, input, trace).map(Some),
    "parse_boxed_expression" => dmntk_feel_parser::parse_boxed_expression(scope, input, trace).map(Some),
    "parse_context" => dmntk_feel_parser::parse_context(scope, input, trace).map(Some),
    "parse_unary_tests" => dmntk_feel_parser::parse_unary_tests(scope, input, trace).map(Some),
    "parse_name" => dmntk_feel_parser::parse_name(scope, input, trace).map(|_| None),
    "parse_longest_name" => dmntk_feel_parser::parse_longest_name(input).map(|_| None),
    _ => return Err("unknown entry".into()),
  };
  r.map_err(|e| e.to_string())
}

/// Integer literals ≥ 1000 together with an iteration construct: evaluation may legitimately
/// take long (the property excludes large iteration domains), so it is not attempted.
fn evaluation_may_be_long(input: &str) -> bool {
  // an input marked by the harness as iterating over a handful of elements, whatever its numerals look like
  if input.starts_with("/*small*/") {
    return false;
  }
  let iterates = input.contains("..") || input.contains("for ") || input.contains("some ") || input.contains("every ");
  let mut run = 0;
  let mut big = false;
  for c in input.chars() {
    if c.is_ascii_digit() {
      run += 1;
      if run >= 4 {
        big = true;
      }
    } else {
      run = 0;
    }
  }
  (iterates && big) || input.contains("**")
}

/// One input in the child: every entry point, then `evaluate` of what `parse_expression`
/// built. One result word per step.
fn observe(raw: &str) -> Vec<String> {
  let mut out = vec![];
  let mut node = None;
  let (names, input) = split_scoped(raw);
  // a fresh scope for every entry point (a failed parse may leave what it pushed)
  let make_scope = || {
    let scope = Scope::default();
    for n in &names {
      // an entry bound to 1, or (family `qualified`) a whole context pushed on the scope
      if let Some(ctx_text) = n.strip_prefix(CTX_MARK) {
        if let Ok(ctx) = dmntk_feel_evaluator::evaluate_context(&Scope::default(), ctx_text) {
          scope.push(ctx);
        }
      } else {
        scope.set_entry(&Name::from(n.as_str()), Value::Number(FeelNumber::from_i128(1)));
      }
    }
    scope
  };
  for e in ENTRIES {
    let scope = make_scope();
    match located(|| run_entry(&scope, e, input, false)) {
      Ok(Ok(n)) => {
        if e == "parse_expression" {
          node = n;
        }
        out.push("ok".to_string());
      }
      Ok(Err(_)) => out.push("err".to_string()),
      Err(loc) => out.push(format!("panic@{}", loc)),
    }
  }
  match node {
    Some(n) if !evaluation_may_be_long(input) => {
      let scope = make_scope();
      match located(|| dmntk_feel_evaluator::evaluate(&scope, &n)) {
        Ok(Ok(v)) => out.push(if matches!(v, Value::Null(_)) { "null".to_string() } else { "value".to_string() }),
        Ok(Err(_)) => out.push("err".to_string()),
        Err(loc) => out.push(format!("panic@{}", loc)),
      }
    }
    Some(_) => out.push("skipped".to_string()),
    None => out.push("none".to_string()),
  }
  out
}

/// `vharness child c05 batch|trace …` (called from `main.rs::child_main`).
pub fn child(args: &[String], stdin: &str) -> i32 {
  install_hook();
  match args.first().map(|s| s.as_str()) {
    Some("batch") => {
      use std::io::Write;
      let inputs: Vec<String> = serde_json::from_str(stdin).unwrap_or_default();
      let so = std::io::stdout();
      for (i, inp) in inputs.iter().enumerate() {
        // announce first: when the process dies the parent knows which input was running
        {
          let mut h = so.lock();
          let _ = writeln!(h, "B {}", i);
          let _ = h.flush();
        }
        let r = observe(inp);
        let mut h = so.lock();
        let _ = writeln!(h, "R {} {}", i, r.join(" "));
        let _ = h.flush();
      }
      0
    }
    Some("trace") => {
      let entry = args.get(1).cloned().unwrap_or_default();
      let r = located(|| run_entry(&Scope::default(), &entry, stdin, true));
      match r {
        Ok(Ok(_)) => println!("\n#RESULT ok"),
        Ok(Err(_)) => println!("\n#RESULT err"),
        Err(loc) => println!("\n#RESULT panic@{}", loc),
      }
      0
    }
    _ => 2,
  }
}

// ------------------------------------------------------------------------------------------
// input generation
// ------------------------------------------------------------------------------------------

const NAMES: [&str; 10] = ["a", "b", "x", "y", "Full Name", "n-1", "item", "i", "k", "é"];
const BIFS: [&str; 28] = [
  "abs", "sum", "mean", "min", "max", "count", "substring", "string length", "upper case", "contains", "sublist", "append", "list contains", "flatten", "date", "time",
  "date and time", "duration", "years and months duration", "number", "string", "floor", "decimal", "not", "sort", "get value", "is defined", "index of",
];
const TYPES: [&str; 9] = ["number", "string", "boolean", "date", "Any", "list<number>", "context<a: number>", "function<number> -> string", "range<number>"];

fn gen_literal(rng: &mut Rng) -> String {
  match rng.below(12) {
    0 => format!("{}", rng.below(20)),
    1 => format!("{}.{}", rng.below(100), rng.below(100)),
    2 => format!(".{}", rng.below(10)),
    3 => "true".into(),
    4 => "false".into(),
    5 => "null".into(),
    6 => format!("\"{}\"", rng.pick(&["", "a", "a b", "é", "\\u00e9", "\\\"", "\\n", "\\uD83D\\uDC0E", "2021-01-01"])),
    7 => format!("date(\"{}\")", rng.pick(&["2021-01-01", "2021-02-30", "-0001-01-01", "999999999-12-31", "x"])),
    8 => format!("@\"{}\"", rng.pick(&["2021-01-01", "P1D", "10:00:00", "2021-01-01T10:00:00", "P1Y2M"])),
    9 => format!("duration(\"{}\")", rng.pick(&["P1D", "P1Y", "PT1H", "-P1M", "P"])),
    10 => format!("time(\"{}\")", rng.pick(&["10:00:00", "25:00:00", "10:00:00Z", "10:00:00+01:00", "10:00:00@Europe/Warsaw"])),
    _ => format!("{}", rng.below(3)),
  }
}

/// A string literal made of escape sequences around the boundaries `consume_unicode` distinguishes.
fn gen_escape_string(rng: &mut Rng) -> String {
  const U4: [&str; 16] = ["0000", "0041", "00e9", "007F", "0080", "07FF", "0800", "D7FF", "D800", "D801", "DBFF", "DC00", "DC01", "DFFF", "E000", "FFFF"];
  const U6: [&str; 9] = ["000000", "00D800", "00DFFF", "00FFFF", "010000", "01F40E", "10FFFF", "110000", "FFFFFF"];
  let mut s = String::from("\"");
  for _ in 0..(1 + rng.below(4)) {
    match rng.below(10) {
      0..=4 => {
        s.push_str("\\u");
        if rng.chance(1, 4) {
          s.push_str(&format!("{:04X}", rng.below(0x10000)));
        } else {
          s.push_str(*rng.pick(&U4));
        }
      }
      5 => {
        s.push_str("\\U");
        s.push_str(*rng.pick(&U6));
      }
      6 => s.push_str(*rng.pick(&["\\n", "\\t", "\\r", "\\\"", "\\'", "\\\\", "\\b", "\\f", "\\x", "\\u00", "\\uD83", "\\U01F4", "\\uZZZZ", "\\"])),
      7 => s.push_str(*rng.pick(&["a", " ", "é", "𝒳", "\u{D7FF}"])),
      8 => {
        // a high surrogate followed by an arbitrary escape
        s.push_str("\\u");
        s.push_str(*rng.pick(&["D800", "D801", "D83D", "DBFF"]));
        s.push_str("\\u");
        s.push_str(&format!("{:04X}", rng.below(0x10000)));
      }
      _ => {
        s.push_str("\\u");
        s.push_str(*rng.pick(&["D800", "D83D", "DBFF"]));
        s.push_str(*rng.pick(&["", "A", "\\n", "\\U01F40E", "\\u"]));
      }
    }
  }
  if !rng.chance(1, 10) {
    s.push('"');
  }
  s
}

/// The names `Bif::from_str` accepts, read from /repo/feel/src/bif.rs (empty when the file cannot be read).
fn bif_names() -> Vec<String> {
  let src = std::fs::read_to_string("/repo/feel/src/bif.rs").unwrap_or_default();
  let mut out = vec![];
  for line in src.lines() {
    let t = line.trim();
    if t.starts_with('"') && t.contains("=> Ok(Self::") {
      if let Some(end) = t[1..].find('"') {
        out.push(t[1..1 + end].to_string());
      }
    }
  }
  out
}

fn sexp_text(x: &crate::sexp::Sexp) -> Option<String> {
  let xs = x.as_list()?;
  if xs.first()?.as_atom()? != "s" {
    return None;
  }
  let mut s = String::new();
  for c in &xs[1..] {
    s.push(char::from_u32(c.as_atom()?.parse::<u32>().ok()?)?);
  }
  Some(s)
}

/// String literals of one line of Rust source (no escapes expected in parameter names).
fn quoted(line: &str) -> Vec<String> {
  let mut out = vec![];
  let mut rest = line;
  while let Some(i) = rest.find('"') {
    let after = &rest[i + 1..];
    match after.find('"') {
      Some(j) => {
        out.push(after[..j].to_string());
        rest = &after[j + 1..];
      }
      None => break,
    }
  }
  out
}

/// The identifiers `NAME_…` of a source fragment, in the order of their first occurrence.
fn name_constants(src: &str) -> Vec<String> {
  let mut out: Vec<String> = vec![];
  let b = src.as_bytes();
  let mut i = 0;
  while let Some(k) = src[i..].find("NAME_") {
    let start = i + k;
    let mut end = start;
    while end < b.len() && (b[end].is_ascii_uppercase() || b[end].is_ascii_digit() || b[end] == b'_') {
      end += 1;
    }
    let id = src[start..end].to_string();
    if !out.contains(&id) {
      out.push(id);
    }
    i = end.max(start + 1);
  }
  out
}

/// The parameter names of the named front end of every built-in, read from the sources of /repo:
/// feel/src/bif.rs (FEEL name → variant), feel-evaluator/src/bifs/named.rs (variant → function → the `NAME_…`
/// constants it looks up → their texts). Second component: all parameter names there are.
fn bif_parameter_names() -> (std::collections::HashMap<String, Vec<String>>, Vec<String>) {
  use std::collections::HashMap;
  let bif_src = std::fs::read_to_string("/repo/feel/src/bif.rs").unwrap_or_default();
  let named = std::fs::read_to_string("/repo/feel-evaluator/src/bifs/named.rs").unwrap_or_default();
  let mut variant_of: Vec<(String, String)> = vec![];
  for line in bif_src.lines() {
    let t = line.trim();
    if t.starts_with('"') {
      if let (Some(n), Some(k)) = (quoted(t).first(), t.find("=> Ok(Self::")) {
        let v: String = t[k + "=> Ok(Self::".len()..].chars().take_while(|c| c.is_alphanumeric() || *c == '_').collect();
        variant_of.push((n.clone(), v));
      }
    }
  }
  let mut constant: HashMap<String, String> = HashMap::new();
  let mut fn_of: HashMap<String, String> = HashMap::new();
  for line in named.lines() {
    let t = line.trim();
    if let Some(r) = t.strip_prefix("static ref NAME_") {
      let id: String = format!("NAME_{}", r.chars().take_while(|c| c.is_ascii_uppercase() || c.is_ascii_digit() || *c == '_').collect::<String>());
      let parts = quoted(t);
      if !parts.is_empty() {
        constant.insert(id, parts.join(" "));
      }
    } else if let Some(r) = t.strip_prefix("Bif::") {
      if let Some(k) = r.find("=>") {
        let v = r[..k].trim().to_string();
        let f: String = r[k + 2..].trim().chars().take_while(|c| c.is_alphanumeric() || *c == '_').collect();
        fn_of.insert(v, f);
      }
    }
  }
  let mut body_of: HashMap<String, String> = HashMap::new();
  let mut rest = named.as_str();
  while let Some(k) = rest.find("\nfn ") {
    let after = &rest[k + 4..];
    let name: String = after.chars().take_while(|c| c.is_alphanumeric() || *c == '_').collect();
    let end = after.find("\nfn ").or_else(|| after.find("\npub fn ")).unwrap_or(after.len());
    body_of.insert(name, after[..end].to_string());
    rest = &after[end.min(after.len())..];
    if end == after.len() {
      break;
    }
  }
  let mut out: HashMap<String, Vec<String>> = HashMap::new();
  for (feel_name, variant) in &variant_of {
    if let Some(body) = fn_of.get(variant).and_then(|f| body_of.get(f)) {
      let ps: Vec<String> = name_constants(body).iter().filter_map(|id| constant.get(id).cloned()).collect();
      out.insert(feel_name.clone(), ps);
    }
  }
  let mut all: Vec<String> = constant.values().cloned().collect();
  all.sort();
  all.dedup();
  (out, all)
}

/// The pool of extreme argument values of the family `bif-extreme` (FEEL text). The first `EXTREME_CORE` are the
/// ones every pair is formed of.
const EXTREME_CORE: usize = 14;
const EXTREME: [&str; 52] = [
  "[]",
  "[null]",
  "[[]]",
  "null",
  "0",
  "-1",
  "99999999999999999999999999999999999",
  "(exp(100000)-exp(100000))",
  "exp(100000)",
  "\"\"",
  "{}",
  "[1..2]",
  "function(x) x",
  "[1, 2, 3]",
  // the rest
  "[null, null]",
  "[[], []]",
  "[[[]]]",
  "[[null]]",
  "[[1], []]",
  "[\"\"]",
  "[\"a\", 1]",
  "[0]",
  "[{}]",
  "1",
  "2",
  "0.5",
  "-0.5",
  "-0",
  "-99999999999999999999999999999999999",
  "0.0000000000000000000000000000000001",
  "-exp(100000)",
  "9223372036854775807",
  "9223372036854775808",
  "-9223372036854775809",
  "18446744073709551616",
  "2147483648",
  "\"a\"",
  "\" \"",
  "\"\\u0000\"",
  "\"🙏é\"",
  "true",
  "{a: 1}",
  "{a: null, b: {}}",
  "(1..2)",
  "[\"a\"..\"b\"]",
  "[2..1]",
  "function() 1",
  "abs",
  "date(\"2021-02-03\")",
  "time(\"10:11:12\")",
  "duration(\"PT1H\")",
  "duration(\"-P1Y2M\")",
];

/// Every way the family `bif-extreme` invokes one built-in: positionally with 0..4 arguments and by name with the
/// parameter names of its named front end (and with names from the whole pool of parameter names), the arguments
/// drawn from `EXTREME`: all single values, all pairs of the core values, random triples and quadruples.
fn bif_systematic(rng: &mut Rng, b: &str, own: &[String], all_params: &[String], thorough: bool) -> Vec<String> {
  const FALLBACK: [&str; 12] = ["list", "n", "string", "from", "to", "date", "match", "input", "pattern", "range", "value", "position"];
  let mut out = vec![];
  let x = |rng: &mut Rng| -> &'static str {
    if rng.chance(2, 3) {
      EXTREME[rng.below(EXTREME_CORE as u64) as usize]
    } else {
      *rng.pick(&EXTREME)
    }
  };
  // positional
  out.push(format!("{}()", b));
  for a in EXTREME {
    out.push(format!("{}({})", b, a));
  }
  for a in &EXTREME[..EXTREME_CORE] {
    for c in &EXTREME[..EXTREME_CORE] {
      out.push(format!("{}({}, {})", b, a, c));
    }
  }
  for _ in 0..(if thorough { 600 } else { 40 }) {
    out.push(format!("{}({}, {})", b, x(rng), x(rng)));
  }
  for _ in 0..(if thorough { 2000 } else { 70 }) {
    out.push(format!("{}({}, {}, {})", b, x(rng), x(rng), x(rng)));
  }
  for _ in 0..(if thorough { 1000 } else { 30 }) {
    out.push(format!("{}({}, {}, {}, {})", b, x(rng), x(rng), x(rng), x(rng)));
  }
  // named: the parameters the front end of this built-in looks up
  let own: Vec<&str> = if own.is_empty() { vec!["list"] } else { own.iter().map(|s| s.as_str()).collect() };
  for p in &own {
    for a in EXTREME {
      out.push(format!("{}({}: {})", b, p, a));
    }
  }
  if own.len() >= 2 {
    // every prefix of the parameter list and every pair of parameters
    for k in 2..=own.len().min(4) {
      for _ in 0..(if thorough { 400 } else { 40 }) {
        let args: Vec<String> = own[..k].iter().map(|p| format!("{}: {}", p, x(rng))).collect();
        out.push(format!("{}({})", b, args.join(", ")));
      }
    }
    for i in 0..own.len() {
      for j in 0..own.len() {
        if i != j {
          for _ in 0..(if thorough { 40 } else { 4 }) {
            out.push(format!("{}({}: {}, {}: {})", b, own[i], x(rng), own[j], x(rng)));
          }
        }
      }
    }
    if own.len() == 2 {
      for a in &EXTREME[..EXTREME_CORE] {
        for c in &EXTREME[..EXTREME_CORE] {
          out.push(format!("{}({}: {}, {}: {})", b, own[0], a, own[1], c));
        }
      }
    }
  }
  // named: parameter names of other built-ins (a front end that forgets to look at the name)
  for _ in 0..(if thorough { 200 } else { 12 }) {
    let p: &str = if all_params.is_empty() { *rng.pick(&FALLBACK) } else { rng.pick(all_params).as_str() };
    out.push(format!("{}({}: {})", b, p, x(rng)));
  }
  out.push(format!("{}(list: [])", b));
  out
}

/// An argument for the built-in stress family: values at the edges of what the built-ins convert
/// (fractions beyond nanoseconds, 35-digit numbers, zero, negative, temporal values, nesting).
fn gen_stress_arg(rng: &mut Rng) -> String {
  const A: [&str; 47] = [
    "exp(100000)", "-exp(100000)", "(exp(100000)-exp(100000))",
    "0", "1", "-1", "2", "3", "11", "12", "13", "23", "24", "59", "60", "0.5", "-0.5", "1.5", "45.1234567891", "59.9999999999", "10/3", "-10/3", "0.0000000001", "-0.0000000001",
    "99999999999999999999999999999999999", "-99999999999999999999999999999999999", "1000000", "2021", "-2021", "null", "true", "\"\"", "\"abc\"", "\"2021-02-03\"", "\"10:11:12\"",
    "\"P1D\"", "[]", "[1, 2, 3]", "[null]", "[[1], [2, [3]]]", "{}", "{a: 1}", "date(\"2021-02-03\")", "time(\"10:11:12\")", "date and time(\"2021-02-03T10:11:12\")", "duration(\"PT1H\")",
    "duration(\"P1Y2M\")",
  ];
  rng.pick(&A).to_string()
}

fn gen_expr(rng: &mut Rng, depth: u32) -> String {
  if depth == 0 {
    return if rng.chance(1, 3) { rng.pick(&NAMES).to_string() } else { gen_literal(rng) };
  }
  let d = depth - 1;
  match rng.below(30) {
    0 | 1 => format!("{} {} {}", gen_expr(rng, d), rng.pick(&["+", "-", "*", "/", "**"]), gen_expr(rng, d)),
    2 => format!("{}{}{}", gen_expr(rng, d), rng.pick(&["+", "-", "*", "/"]), gen_expr(rng, d)),
    3 => format!("{} {} {}", gen_expr(rng, d), rng.pick(&["=", "!=", "<", "<=", ">", ">="]), gen_expr(rng, d)),
    4 => format!("{} {} {}", gen_expr(rng, d), rng.pick(&["and", "or"]), gen_expr(rng, d)),
    5 => format!("-{}", gen_expr(rng, d)),
    6 => format!("({})", gen_expr(rng, d)),
    7 => format!("if {} then {} else {}", gen_expr(rng, d), gen_expr(rng, d), gen_expr(rng, d)),
    8 => format!("for {} in {} return {}", rng.pick(&["i", "x y", "k"]), gen_expr(rng, d), gen_expr(rng, d)),
    9 => format!("for i in {}..{}, k in [{}] return {}", rng.below(4), rng.below(6), gen_expr(rng, d), gen_expr(rng, d)),
    10 => format!("{} {} in {} satisfies {}", rng.pick(&["some", "every"]), rng.pick(&["i", "x y"]), gen_expr(rng, d), gen_expr(rng, d)),
    11 => format!("[{}]", (0..rng.below(4)).map(|_| gen_expr(rng, d)).collect::<Vec<_>>().join(", ")),
    12 => format!("{}[{}]", gen_expr(rng, d), gen_expr(rng, d)),
    13 => format!("{}[item {} {}]", gen_expr(rng, d), rng.pick(&["<", ">", "="]), gen_expr(rng, d)),
    14 => format!(
      "{{{}}}",
      (0..rng.below(4))
        .map(|_| format!("{}: {}", rng.pick(&["a", "b", "Full Name", "\"s\"", "\"\"", "\" \"", "\"+\"", "\"a  b\"", "\"a+b\"", "\"\\t\"", "x"]), gen_expr(rng, d)))
        .collect::<Vec<_>>()
        .join(", ")
    ),
    15 => format!("{}.{}", gen_expr(rng, d), rng.pick(&["a", "b", "year", "Full Name"])),
    16 | 17 => {
      let n = rng.below(4);
      format!("{}({})", rng.pick(&BIFS), (0..n).map(|_| gen_expr(rng, d)).collect::<Vec<_>>().join(", "))
    }
    18 => format!("{}({}: {})", rng.pick(&BIFS), rng.pick(&["list", "n", "string", "from", "start position", "date"]), gen_expr(rng, d)),
    19 => format!("function({}) {}", rng.pick(&["", "x", "x, y", "x: number", "x y: string, k"]), gen_expr(rng, d)),
    20 => format!("(function(x) {})({})", gen_expr(rng, d), gen_expr(rng, d)),
    21 => format!("{} between {} and {}", gen_expr(rng, d), gen_expr(rng, d), gen_expr(rng, d)),
    22 => format!("{} in {}", gen_expr(rng, d), gen_unary_tests(rng, d)),
    23 => format!("{} instance of {}", gen_expr(rng, d), rng.pick(&TYPES)),
    24 => format!("{}{}..{}{}", rng.pick(&["[", "(", "]"]), gen_expr(rng, d), gen_expr(rng, d), rng.pick(&["]", ")", "["])),
    25 => format!("{} /* c */ {}", gen_expr(rng, d), rng.pick(&["", "// x"])),
    26 => format!("{}, {}", gen_expr(rng, d), gen_expr(rng, d)),
    27 => format!("function({}) external {{java: {{class: \"c\", method signature: \"m\"}}}}", rng.pick(&["", "x"])),
    _ => gen_literal(rng),
  }
}

fn gen_unary_tests(rng: &mut Rng, depth: u32) -> String {
  let one = |rng: &mut Rng| match rng.below(6) {
    0 => format!("{} {}", rng.pick(&["<", "<=", ">", ">=", "="]), gen_expr(rng, depth)),
    1 => format!("[{}..{}]", gen_expr(rng, depth), gen_expr(rng, depth)),
    2 => format!("({}..{}]", gen_expr(rng, depth), gen_expr(rng, depth)),
    3 => "-".to_string(),
    4 => format!("not({})", gen_expr(rng, depth)),
    _ => gen_expr(rng, depth),
  };
  let n = 1 + rng.below(3);
  let body = (0..n).map(|_| one(rng)).collect::<Vec<_>>().join(", ");
  if rng.chance(1, 2) {
    format!("({})", body)
  } else {
    body
  }
}

/// String literals (plain and raw) of a Rust source text.
fn rust_string_literals(src: &str) -> Vec<String> {
  let cs: Vec<char> = src.chars().collect();
  let mut out = vec![];
  let mut i = 0;
  while i < cs.len() {
    let c = cs[i];
    if c == '/' && i + 1 < cs.len() && cs[i + 1] == '/' {
      while i < cs.len() && cs[i] != '\n' {
        i += 1;
      }
    } else if c == 'r' && i + 1 < cs.len() && (cs[i + 1] == '"' || cs[i + 1] == '#') && (i == 0 || !(cs[i - 1].is_alphanumeric() || cs[i - 1] == '_')) {
      let mut j = i + 1;
      let mut hashes = 0;
      while j < cs.len() && cs[j] == '#' {
        hashes += 1;
        j += 1;
      }
      if j < cs.len() && cs[j] == '"' {
        j += 1;
        let start = j;
        let mut end = None;
        while j < cs.len() {
          if cs[j] == '"' && (1..=hashes).all(|k| j + k < cs.len() && cs[j + k] == '#') {
            end = Some(j);
            break;
          }
          j += 1;
        }
        if let Some(e) = end {
          out.push(cs[start..e].iter().collect());
          i = e + 1 + hashes;
          continue;
        }
      }
      i += 1;
    } else if c == '\'' {
      // char literal or lifetime: skip 'x' / '\x'
      if i + 2 < cs.len() && cs[i + 1] == '\\' {
        i += 3;
        while i < cs.len() && cs[i] != '\'' {
          i += 1;
        }
        i += 1;
      } else if i + 2 < cs.len() && cs[i + 2] == '\'' {
        i += 3;
      } else {
        i += 1;
      }
    } else if c == '"' {
      let mut j = i + 1;
      let mut s = String::new();
      while j < cs.len() && cs[j] != '"' {
        if cs[j] == '\\' && j + 1 < cs.len() {
          match cs[j + 1] {
            'n' => s.push('\n'),
            't' => s.push('\t'),
            'r' => s.push('\r'),
            '\\' => s.push('\\'),
            '"' => s.push('"'),
            '\'' => s.push('\''),
            '0' => s.push('\0'),
            'u' => {
              // \u{XXXX}
              let mut k = j + 2;
              let mut hex = String::new();
              if k < cs.len() && cs[k] == '{' {
                k += 1;
                while k < cs.len() && cs[k] != '}' {
                  hex.push(cs[k]);
                  k += 1;
                }
                if let Some(ch) = u32::from_str_radix(&hex, 16).ok().and_then(char::from_u32) {
                  s.push(ch);
                }
                j = k - 1;
              }
            }
            '\n' => {
              // line continuation
              let mut k = j + 2;
              while k < cs.len() && cs[k].is_whitespace() {
                k += 1;
              }
              j = k - 2;
            }
            other => {
              s.push('\\');
              s.push(other);
            }
          }
          j += 2;
        } else {
          s.push(cs[j]);
          j += 1;
        }
      }
      out.push(s);
      i = j + 1;
      continue;
    } else {
      i += 1;
    }
  }
  out
}

fn scan_dir(dir: &str, out: &mut Vec<String>) {
  if let Ok(rd) = std::fs::read_dir(dir) {
    let mut paths: Vec<_> = rd.filter_map(|e| e.ok()).map(|e| e.path()).collect();
    paths.sort();
    for p in paths {
      if p.is_dir() {
        scan_dir(&p.to_string_lossy(), out);
      } else if p.extension().map(|e| e == "rs").unwrap_or(false) {
        if let Ok(src) = std::fs::read_to_string(&p) {
          for l in rust_string_literals(&src) {
            if !l.is_empty() && l.chars().count() <= 300 && !l.contains('├') && !l.contains('└') {
              out.push(l);
            }
          }
        }
      }
    }
  }
}

const MUT_POOL: [&str; 40] = [
  "(", ")", "[", "]", "{", "}", ",", ":", "\"", "\\", "'", "+", "-", "*", "/", "**", "..", ".", "=", "<", ">", "!=", "@", "#", " in ", " then ", " else ", " return ", " satisfies ", "for ",
  "if ", "function(", "not(", " between ", " and ", "\\u", "\\uD83D", "𝒳", "\u{FEFF}", "\u{0}",
];

fn mutate(rng: &mut Rng, s: &str, others: &[String]) -> String {
  let mut cs: Vec<char> = s.chars().collect();
  let n = 1 + rng.below(3);
  for _ in 0..n {
    let len = cs.len();
    match rng.below(9) {
      0 if len > 0 => {
        cs.remove(rng.below(len as u64) as usize);
      }
      1 if len > 0 => {
        let i = rng.below(len as u64) as usize;
        let c = cs[i];
        cs.insert(i, c);
      }
      2 if len > 1 => {
        let i = rng.below(len as u64 - 1) as usize;
        cs.swap(i, i + 1);
      }
      3 if len > 0 => {
        let i = rng.below(len as u64) as usize;
        let rep: Vec<char> = rng.pick(&MUT_POOL).chars().collect();
        cs.splice(i..i + 1, rep);
      }
      4 => {
        let i = rng.below(len as u64 + 1) as usize;
        let ins: Vec<char> = rng.pick(&MUT_POOL).chars().collect();
        cs.splice(i..i, ins);
      }
      5 if len > 0 => {
        cs.truncate(rng.below(len as u64) as usize);
      }
      6 if len > 0 => {
        let i = rng.below(len as u64) as usize;
        cs.drain(..i);
      }
      7 if !others.is_empty() => {
        let o: Vec<char> = rng.pick(others).chars().collect();
        let op: Vec<char> = rng.pick(&[" + ", " - ", ".", " in ", ", ", "(", "[", " "]).chars().collect();
        cs.extend(op);
        cs.extend(o);
      }
      _ if len > 0 => {
        // digit bump: numbers become other (small) numbers
        let i = rng.below(len as u64) as usize;
        if cs[i].is_ascii_digit() {
          cs[i] = char::from(b'0' + rng.below(10) as u8);
        }
      }
      _ => {}
    }
  }
  cs.into_iter().collect()
}

fn random_unicode(rng: &mut Rng) -> String {
  let n = 1 + rng.below(24);
  let mut s = String::new();
  for _ in 0..n {
    let c = match rng.below(12) {
      0 => rng.range(0, 0x7F) as u32,
      1 => rng.range(0x80, 0x7FF) as u32,
      2 => rng.range(0x800, 0xFFFF) as u32,
      3 => rng.range(0x10000, 0x10FFFF) as u32,
      4 => *rng.pick(&[0x09u32, 0x0A, 0x0B, 0x0C, 0x0D, 0x20, 0x85, 0xA0, 0x1680, 0x180E, 0x2000, 0x200B, 0x200C, 0x200D, 0x2028, 0x2029, 0x202F, 0x205F, 0x3000, 0xFEFF]),
      5 => *rng.pick(&[0xB7u32, 0x300, 0x36F, 0x203F, 0x2040, 0x37E, 0xD7, 0xF7, 0x2FF, 0x370, 0x1FFF, 0x2070, 0x218F, 0x2C00, 0x2FEF, 0x3001, 0xD7FF, 0xF900, 0xFDCF, 0xFDF0, 0xFFFD, 0xEFFFF, 0xF0000]),
      6 => *rng.pick(&['"', '\\', '/', '*', '.', '-', '+', '\'', '(', '[', '{', '?', '_']) as u32,
      7 => rng.range('0' as i64, '9' as i64) as u32,
      _ => rng.range('a' as i64, 'z' as i64) as u32,
    };
    if let Some(ch) = char::from_u32(c) {
      s.push(ch);
    }
  }
  s
}

fn deep_inputs(depth: usize) -> Vec<(String, String)> {
  let d = depth;
  let rep = |s: &str, n: usize| s.repeat(n);
  vec![
    ("parens".into(), format!("{}1{}", rep("(", d), rep(")", d))),
    ("lists".into(), format!("{}1{}", rep("[", d), rep("]", d))),
    ("contexts".into(), format!("{}1{}", rep("{a: ", d), rep("}", d))),
    ("if".into(), format!("{}1{}", rep("if true then ", d), rep(" else 0", d))),
    ("negation".into(), format!("{}1", rep("-", d))),
    ("negation-paren".into(), format!("{}1{}", rep("-(", d), rep(")", d))),
    ("not".into(), format!("{}true{}", rep("not(", d), rep(")", d))),
    ("addition-right".into(), format!("{}1{}", rep("1+(", d), rep(")", d))),
    ("addition-left".into(), format!("1{}", rep("+1", d))),
    ("exponent".into(), format!("1{}", rep("**1", d))),
    ("calls".into(), format!("{}1{}", rep("abs(", d), rep(")", d))),
    ("path".into(), format!("x{}", rep(".a", d))),
    ("filters".into(), format!("[1]{}", rep("[1]", d))),
    ("for".into(), format!("{}1", rep("for i in [1] return ", d))),
    ("some".into(), format!("{}true", rep("some i in [1] satisfies ", d))),
    ("functions".into(), format!("{}1", rep("function(x) ", d))),
    ("invocations".into(), format!("{}1{}", rep("(function(x) x)(", d), rep(")", d))),
    ("context-chain".into(), format!("{{a0: 1{}}}", (1..d).map(|i| format!(", a{}: a{} + 1", i, i - 1)).collect::<String>())),
    ("open-parens".into(), rep("(", d)),
    ("open-brackets".into(), rep("[", d)),
    ("open-braces".into(), rep("{a:", d)),
    ("quotes".into(), rep("\"", d)),
    ("comment-open".into(), format!("/*{}", rep("*", d))),
    ("between".into(), format!("1{}", rep(" between 0 and 2", d))),
    ("in-tests".into(), format!("1 in {}1{}", rep("(", d), rep(")", d))),
    ("range-nest".into(), format!("{}1..2{}", rep("[", d), rep("]", d))),
    ("instance-of".into(), format!("1 instance of {}number{}", rep("list<", d), rep(">", d))),
    // deeply nested *values* under the operations that look at the type or the shape of a value
    ("lists-instance-of".into(), format!("{}1{} instance of list<number>", rep("[", d), rep("]", d))),
    ("lists-instance-of-deep-type".into(), format!("{}1{} instance of {}number{}", rep("[", d), rep("]", d), rep("list<", d), rep(">", d))),
    ("lists-typed-parameter".into(), format!("(function(x: list<number>) 1)({}1{})", rep("[", d), rep("]", d))),
    ("lists-equal".into(), format!("{}1{} = {}1{}", rep("[", d), rep("]", d), rep("[", d), rep("]", d))),
    ("lists-in".into(), format!("{}1{} in [{}1{}]", rep("[", d), rep("]", d), rep("[", d), rep("]", d))),
    ("lists-string".into(), format!("string({}1{})", rep("[", d), rep("]", d))),
    ("lists-flatten".into(), format!("flatten({}1{})", rep("[", d), rep("]", d))),
    ("lists-distinct".into(), format!("distinct values([{}1{}, {}1{}])", rep("[", d), rep("]", d), rep("[", d), rep("]", d))),
    ("lists-index-of".into(), format!("index of([{}1{}], {}1{})", rep("[", d), rep("]", d), rep("[", d), rep("]", d))),
    ("contexts-instance-of".into(), format!("{}1{} instance of context<a: number>", rep("{a: ", d), rep("}", d))),
    ("contexts-equal".into(), format!("{}1{} = {}1{}", rep("{a: ", d), rep("}", d), rep("{a: ", d), rep("}", d))),
    ("contexts-typed-parameter".into(), format!("(function(x: context<a: number>) 1)({}1{})", rep("{a: ", d), rep("}", d))),
    ("lists-of-two-instance-of".into(), format!("{}1{} instance of list<Any>", rep("[1, ", d), rep("]", d))),
    ("name-parts".into(), rep("a ", d)),
    ("name-symbols".into(), format!("a{}", rep("-a", d))),
    ("unicode-escapes".into(), format!("\"{}\"", rep("\\uD83D\\uDC0E", d))),
  ]
}

struct Obs {
  input: String,
  family: String,
  /// one word per entry point + evaluation, or the way the child ended
  words: Vec<String>,
  death: Option<String>,
}

/// Runs the inputs through batch children on `workers` threads.
fn run_batches(inputs: &[(String, String)], workers: usize, batch: usize, per_input_ms: u64) -> Vec<Obs> {
  let chunks: Vec<&[(String, String)]> = inputs.chunks(batch).collect();
  let next = std::sync::atomic::AtomicUsize::new(0);
  let results: Mutex<Vec<(usize, Vec<Obs>)>> = Mutex::new(vec![]);
  std::thread::scope(|sc| {
    for _ in 0..workers {
      sc.spawn(|| loop {
        let ci = next.fetch_add(1, std::sync::atomic::Ordering::SeqCst);
        if ci >= chunks.len() {
          break;
        }
        let chunk = chunks[ci];
        let mut obs: Vec<Obs> = vec![];
        let mut start = 0;
        while start < chunk.len() {
          let rest = &chunk[start..];
          let payload = serde_json::to_string(&rest.iter().map(|(_, s)| s.clone()).collect::<Vec<String>>()).unwrap();
          let (desc, out) = util::child(&["c05", "batch"], &payload, per_input_ms * rest.len() as u64 + 5000);
          let mut done = 0;
          let mut begun: Option<usize> = None;
          for line in out.lines() {
            let mut it = line.split(' ');
            match it.next() {
              Some("B") => begun = it.next().and_then(|x| x.parse().ok()),
              Some("R") => {
                let i: usize = it.next().and_then(|x| x.parse().ok()).unwrap_or(usize::MAX);
                if i == done && i < rest.len() {
                  obs.push(Obs { input: rest[i].1.clone(), family: rest[i].0.clone(), words: it.map(|s| s.to_string()).collect(), death: None });
                  done += 1;
                }
              }
              _ => {}
            }
          }
          if desc == "ok" && done == rest.len() {
            break;
          }
          if desc == "timeout" {
            // the output of a killed child is lost: run this batch's inputs one by one
            for (fam, inp) in rest {
              let payload = serde_json::to_string(&vec![inp.clone()]).unwrap();
              let (d1, o1) = util::child(&["c05", "batch"], &payload, per_input_ms + 5000);
              let words: Vec<String> = o1.lines().find(|l| l.starts_with("R 0 ")).map(|l| l[4..].split(' ').map(|s| s.to_string()).collect()).unwrap_or_default();
              let death = if d1 == "ok" { None } else { Some(d1) };
              obs.push(Obs { input: inp.clone(), family: fam.clone(), words, death });
            }
            break;
          }
          // the child died while working on input `done` (announced by `B done`)
          let culprit = begun.unwrap_or(done).max(done).min(rest.len() - 1);
          obs.push(Obs { input: rest[culprit].1.clone(), family: rest[culprit].0.clone(), words: vec![], death: Some(desc.clone()) });
          start += culprit + 1;
        }
        results.lock().unwrap().push((ci, obs));
      });
    }
  });
  let mut r = results.into_inner().unwrap();
  r.sort_by_key(|(i, _)| *i);
  r.into_iter().flat_map(|(_, o)| o).collect()
}

/// Traced run of one entry point in a child whose stdout goes to a file.
fn traced(entry: &str, input: &str, file: &str, timeout_ms: u64) -> Option<String> {
  use std::io::Write;
  use std::process::{Command, Stdio};
  let exe = std::env::current_exe().ok()?;
  let out = std::fs::File::create(file).ok()?;
  let mut ch = Command::new(exe).args(["child", "c05", "trace", entry]).stdin(Stdio::piped()).stdout(Stdio::from(out)).stderr(Stdio::null()).spawn().ok()?;
  {
    let mut si = ch.stdin.take()?;
    let _ = si.write_all(input.as_bytes());
  }
  let start = std::time::Instant::now();
  loop {
    match ch.try_wait() {
      Ok(Some(_)) => break,
      Ok(None) => {
        if start.elapsed().as_millis() as u64 > timeout_ms {
          let _ = ch.kill();
          let _ = ch.wait();
          return None;
        }
        std::thread::sleep(std::time::Duration::from_millis(1));
      }
      Err(_) => return None,
    }
  }
  std::fs::read(file).ok().map(|b| String::from_utf8_lossy(&b).to_string())
}

/// Events of a trace in the driver model's notation, the lexer answers and the index of the
/// failing reduce action.
fn trace_events(text: &str) -> (Vec<String>, Vec<String>, i64, String) {
  let mut ev = vec![];
  let mut toks = vec![];
  let mut reductions: i64 = 0;
  let mut result = String::new();
  let mut ended = None;
  for line in text.lines() {
    if let Some(r) = line.strip_prefix("NEW-STATE: ") {
      ev.push(format!("(S {})", r.trim()));
    } else if let Some(r) = line.strip_prefix("  lexer: yy_char=") {
      ev.push(format!("(T {})", r.trim()));
      toks.push(r.trim().to_string());
    } else if let Some(r) = line.strip_prefix("  reducing_using_rule = ") {
      ev.push(format!("(R {})", r.trim()));
      reductions += 1;
    } else if let Some(r) = line.strip_prefix("  new_state = ") {
      ev.push(format!("(N {})", r.trim()));
    } else if line == "ERROR 1" {
      ev.push("(E1)".to_string());
      ended = Some("syntaxError");
    } else if line == "ERROR" {
      ev.push("(E)".to_string());
      ended = Some("syntaxError");
    } else if line == "* ACCEPT *" {
      ended = Some("accept");
    } else if let Some(r) = line.strip_prefix("#RESULT ") {
      result = r.trim().to_string();
    }
  }
  let mut fail_at = -1;
  let outcome = match ended {
    Some(e) => e.to_string(),
    None => {
      if result.starts_with("panic") {
        "panic".to_string()
      } else if ev.last().map(|e| e.starts_with("(R")).unwrap_or(false) {
        fail_at = reductions - 1;
        "actionError".to_string()
      } else {
        toks.push("err".to_string());
        "lexerError".to_string()
      }
    }
  };
  ev.push(format!("(result {})", outcome));
  (ev, toks, fail_at, result)
}

fn rel(loc: &str) -> String {
  loc.trim_start_matches("/repo/").to_string()
}

pub fn run(cfg: &Cfg) -> Report {
  let mut rep = Report::new(
    "C05",
    "process family: an input is non-trivial when at least one parser entry point accepts it (a syntax tree is built, reduce actions and — for parse_expression — the evaluator run) or when it belongs to the deep-nesting family; lexer family: the fragment yields at least two tokens before the end; trace family: the traced run performs at least one reduction",
  );
  install_hook();
  let thorough = cfg.tier == "thorough";
  let mut rng = Rng::new(cfg.seed);
  let mut model = Model::start(&cfg.driver);
  let scratch = std::path::Path::new(&cfg.report).parent().map(|p| p.to_path_buf()).unwrap_or_else(std::env::temp_dir);

  // development aid: `VHARNESS_C05_ONLY=string-index,scope-ops,longest-name` runs the named in-process families alone
  if let Ok(only) = std::env::var("VHARNESS_C05_ONLY") {
    for f in only.split(',') {
      match f {
        "string-index" => string_index(&mut rep, &mut model, &mut rng, thorough),
        "scope-ops" => scope_ops(&mut rep, &mut model, &mut rng, thorough),
        "longest-name" => longest_name(&mut rep, &mut model, &mut rng, thorough),
        "temporal-extreme" => temporal_extreme(&mut rep, &mut model, &mut rng, thorough),
        "reentrant" => reentrant(&mut rep, &mut model, &mut rng, thorough),
        _ => {}
      }
    }
    return rep;
  }

  // tables as the driver sees them (regenerated by translate/lalr.py in this run)
  let tables = model.ask("(c05 tables)");
  rep.extra.insert("lalr_tables".into(), json!(tables));
  if !tables.contains("(ok true)") {
    rep.disagree(Kind::ImplVsModel, "lalr-tables", "regenerated LALR tables violate the linear safety conditions", &tables, "tablesOk = false", "tablesOk = true");
  }

  // ------------------------------------------------------------------ lexer: tokens / no panic / progress
  {
    struct C {
      input: String,
      keys: Vec<String>,
      flags: (bool, bool, bool, bool),
      imp: Result<Vec<(i32, String, usize)>, String>,
    }
    let mut cases: Vec<C> = vec![];
    let n = if thorough { 200000 } else { 6000 };
    let words = ["a", "in", "item", "x", "é", "b c", "a-b", "date", "time", "number", "date and time", "duration", "in+x", "for", "return"];
    // entries whose name is empty, blank, a single additional symbol, or has an inner run of white space (the name
    // of an entry is whatever the caller — or a context literal with a string key — made it)
    let odd_keys = ["", " ", "+", "-", ".", "/", "*", "'", "a  b", "a +", "+ a", "\t", "a.b", "a . b"];
    let long_key: String = "n".repeat(3000);
    let mut fixed: Vec<(&str, (bool, bool, bool, bool))> = vec![
      ("in+x in [1] return 1", (false, false, false, true)),
      ("in", (false, false, false, true)),
      ("x in", (false, false, false, true)),
      ("a in in", (false, false, false, true)),
      ("item", (false, false, false, true)),
      ("\"\\uD83D\\uDE4F\"", (false, false, false, false)),
      ("\"\\uD83D\\uDC0E\"", (false, false, false, false)),
      ("\"\\uD83D", (false, false, false, false)),
      ("\"\\U10FFFF\\U110000\"", (false, false, false, false)),
      ("/* never closed", (false, false, false, false)),
      ("/* a */ /* b */ 1 // c\n // d\n /* e */ + /**//**/ 2", (false, false, false, false)),
      ("/* a */ // b", (false, false, false, false)),
      ("// only a comment", (false, false, false, false)),
      ("", (false, false, false, false)),
      ("            ", (false, false, false, false)),
      ("#", (false, false, false, false)),
    ];
    fixed.push(("not(1) and 1 and 2", (true, true, false, false)));
    for (inp, flags) in &fixed {
      let scope = Scope::default();
      let imp = impl_tokens(&scope, inp, *flags, 64);
      cases.push(C { input: inp.to_string(), keys: vec![], flags: *flags, imp });
    }
    for key in odd_keys.iter().copied().chain(std::iter::once(long_key.as_str())) {
      for inp in ["a + b", "hello", "x, > 10", "a  b", "a b c", "item", "+", "a+b-c", "for x in y return z", " ", ""] {
        for other in [None, Some("a")] {
          let scope = Scope::default();
          scope.set_entry(&Name::from(key), Value::Number(FeelNumber::from_i128(1)));
          if let Some(o) = other {
            scope.set_entry(&Name::from(o), Value::Number(FeelNumber::from_i128(1)));
          }
          let mut keys: Vec<String> = scope.flatten_keys().into_iter().collect();
          keys.sort();
          let flags = (false, false, false, false);
          let imp = impl_tokens(&scope, inp, flags, 64);
          cases.push(C { input: inp.to_string(), keys, flags, imp });
        }
      }
    }
    for i in 0..n {
      let scope = Scope::default();
      for _ in 0..rng.below(4) {
        let w = rng.pick(&words);
        let parts: Vec<&str> = w.split(' ').collect();
        scope.set_entry(&Name::new(&parts), Value::Number(FeelNumber::from_i128(1)));
      }
      if i % 3 == 0 {
        for _ in 0..(1 + rng.below(2)) {
          let k = if rng.chance(1, 12) { long_key.as_str() } else { *rng.pick(&odd_keys) };
          scope.set_entry(&Name::from(k), Value::Number(FeelNumber::from_i128(1)));
        }
      }
      let mut keys: Vec<String> = scope.flatten_keys().into_iter().collect();
      keys.sort();
      let input = match i % 5 {
        4 => {
          let mut s = gen_escape_string(&mut rng);
          if rng.chance(1, 3) {
            s.push_str(" + ");
            s.push_str(&gen_escape_string(&mut rng));
          }
          s
        }
        0 => random_unicode(&mut rng),
        1 => {
          let mut s = String::new();
          for _ in 0..(1 + rng.below(8)) {
            s.push_str(*rng.pick(&words));
            s.push_str(*rng.pick(&[" ", "  ", "", "-", "+", ".", "/", "*", "'", "\t", "(", "[", ":", " in ", "\u{A0}"]));
          }
          s
        }
        2 => {
          let e = gen_expr(&mut rng, 2);
          if rng.chance(1, 3) {
            mutate(&mut rng, &e, &[])
          } else {
            e
          }
        }
        _ => {
          let mut s = random_unicode(&mut rng);
          s.push_str(*rng.pick(&["\"", "\\u", "\\uD83D\\uDE4F", "/*", "//", "*/", "\\U0001F40E", "\"\\u00e9\""]));
          s.push_str(&random_unicode(&mut rng));
          s
        }
      };
      let flags = (rng.chance(1, 4), rng.chance(1, 4), rng.chance(1, 4), rng.chance(1, 3));
      let imp = impl_tokens(&scope, &input, flags, 64);
      cases.push(C { input, keys, flags, imp });
    }
    let reqs: Vec<String> = cases.iter().map(|c| tokenize_request(&c.keys, &c.input, c.flags, 64)).collect();
    let answers = model.ask_batch(&reqs);
    for (c, a) in cases.iter().zip(answers.iter()) {
      let ntok = c.imp.as_ref().map(|t| t.len()).unwrap_or(0);
      rep.case(&format!("lexer|{:?}|{:?}|{}", c.keys, c.flags, c.input), ntok >= 3 || c.imp.is_err());
      rep.hit("lexer:cases");
      let shown = format!("keys={:?} flags(unary_tests,between,type_name,till_in)={:?} input={:?}", c.keys, c.flags, c.input);
      if let Err((what, imp, exp)) = compare_streams(&c.imp, a) {
        rep.disagree(Kind::ImplVsModel, "lexer-tokens", &format!("lexer token stream: {}", what), &shown, &imp, &exp);
      }
      match &c.imp {
        Err(_) => {
          rep.hit("lexer:panic");
          let loc = LAST_PANIC.lock().ok().and_then(|g| g.clone()).map(|l| rel(&l)).unwrap_or_default();
          // the location of the *last* panic is only reliable right after the call; re-run
          crate::util::note_case(&c.input);
          let loc = match located(|| dmntk_feel_parser::verif::tokenize(&scope_with(&c.keys), TT::StartExpression, &c.input, c.flags, 64)) {
            Err(l) => l,
            Ok(_) => loc,
          };
          rep.disagree(Kind::ImplVsSpec, "lexer-no-panic", &format!("panic {} (lexer)", loc), &shown, "panic", "a token or a lexer error");
        }
        Ok(toks) => {
          if toks.last().map(|t| t.0 == -1).unwrap_or(false) {
            rep.hit("lexer:error");
          }
          // progress: every token other than YyUndef / YyEof / error moves the cursor forward
          let mut prev = 0usize;
          for (k, t) in toks.iter().enumerate() {
            if k == 0 {
              continue; // the start token
            }
            let stalls = t.2 <= prev && t.0 != TT::YyUndef as i32 && t.0 != TT::YyEof as i32 && t.0 != -1;
            if t.2 < prev || stalls {
              rep.disagree(Kind::ImplVsSpec, "lexer-progress", "a token does not advance the cursor", &shown, &format!("{:?}", toks), "positions strictly increasing");
              break;
            }
            prev = t.2;
          }
        }
      }
      if rep.samples.len() < 3 {
        rep.sample(json!({"family": "lexer-tokens", "request": tokenize_request(&c.keys, &c.input, c.flags, 64), "model": a, "implementation": format!("{:?}", c.imp)}));
      }
    }
  }

  // ------------------------------------------------------------------ inputs for the parser
  let mut literals: Vec<String> = vec![];
  scan_dir("/repo/feel-parser/src/tests", &mut literals);
  scan_dir("/repo/feel-evaluator/src/tests", &mut literals);
  let mut seen = HashSet::new();
  literals.retain(|l| seen.insert(l.clone()));
  rep.extra.insert("test_literals_found".into(), json!(literals.len()));
  if literals.is_empty() {
    rep.notes.push("no string literals found under /repo/feel-parser/src/tests and /repo/feel-evaluator/src/tests".into());
  }

  let mut inputs: Vec<(String, String)> = vec![];
  // known crashers and near misses first (corpus)
  for s in [
    "for in+x in [1] return 1",
    "some in-x in [1] satisfies true",
    "every in in [1] satisfies true",
    "for in in [1] return 1",
    "{f: function(n) f(n), r: f(1)}.r",
    "number(\"1\\u00002\", \",\", \".\")",
    "sort([43, 22, 38, 45, 17, 47, 31, 1, 37, 3, 43, 1, 23, 16, 40, 29, 19, 37, 38, 2, 9, 14, 33, 8, 21, 5], function(x,y) x != y)",
    // iteration domains of two or three elements at the ends of the machine integers
    "/*small*/ for i in 9223372036854775806..9223372036854775807 return i",
    "/*small*/ for i in 9223372036854775807..9223372036854775805 return i",
    "/*small*/ for i in -9223372036854775807..-9223372036854775808 return i",
    "/*small*/ for i in -9223372036854775808..-9223372036854775806 return i",
    "/*small*/ some i in 9223372036854775806..9223372036854775807 satisfies i < 0",
    "/*small*/ every i in -9223372036854775807..-9223372036854775808 satisfies i < 0",
    "/*small*/ for i in 9223372036854775806..9223372036854775807, j in 1..2 return j",
    "/*small*/ for i in 18446744073709551614..18446744073709551615 return i",
    "/*small*/ for i in 9223372036854775807..9223372036854775808 return i",
    // years and months durations at the ends of i64 (D1, D2)
    "@\"P768614336404564650Y\" + @\"P768614336404564650Y\"",
    "@\"-P768614336404564650Y\" - @\"P768614336404564650Y\"",
    "-(@\"-P768614336404564650Y\" - @\"P8M\")",
    "string((@\"-P768614336404564650Y\" - @\"P7M\") - @\"P1M\")",
    // seconds that are not a number (D3)
    "time(1, 1, exp(100000)-exp(100000))",
    "time(1, 1, exp(100000)-exp(100000), null)",
    "time(1, 1, exp(100000)-exp(100000), @\"PT1H\")",
    "time(hour: 1, minute: 1, second: exp(100000)-exp(100000), offset: @\"-PT1H\")",
    "for in.x in [1,2,3] return 1",
    "some in+y in [1,2] satisfies true",
    "",
    " ",
    "\"",
    "(",
    "1 +",
    "{",
    "function(",
    "@",
    "1 in",
  ] {
    inputs.push(("corpus".into(), s.to_string()));
  }
  // ---- parsing scopes with entries whose names no grammar-derived scope has: empty, blank, a single additional
  // symbol, an inner run of white space, very long; every entry point, then evaluation in the same scope
  {
    let long_a: String = "n".repeat(5000);
    let long_b: String = (0..800).map(|i| format!("w{}", i)).collect::<Vec<_>>().join(" ");
    let scopes: Vec<Vec<&str>> = vec![
      vec![""],
      vec![" "],
      vec!["\t\n"],
      vec!["", "a"],
      vec!["", "hello"],
      vec![" ", "x"],
      vec!["+"],
      vec!["-"],
      vec!["."],
      vec!["/"],
      vec!["*"],
      vec!["'"],
      vec!["+", "a"],
      vec!["a  b"],
      vec!["a  b", "a"],
      vec!["a +"],
      vec!["+ a"],
      vec!["a+b"],
      vec!["a + b"],
      vec!["a.b", "a"],
      vec!["in"],
      vec!["item"],
      vec![long_a.as_str()],
      vec![long_b.as_str()],
      vec![long_a.as_str(), ""],
      vec!["", " ", "+", "a  b", "a", "b"],
    ];
    let mut texts: Vec<String> = [
      "a + b",
      "hello",
      "x, > 10",
      "a",
      "b",
      "a  b",
      "a  b + 1",
      "a b",
      "a+b",
      "a + b - c",
      "+",
      "+ a",
      "-a",
      ".a",
      "a.b",
      "a . b",
      " ",
      "",
      "{a: b}",
      "{\"\": 1, a: b}",
      "{\" \": 1, a: b}",
      "{a: 1, b: a}",
      "[a, b, c]",
      "for x in [1, 2] return x + y",
      "some x in [1] satisfies x = y",
      "function(p, q) p + q + r",
      "f(a, b)",
      "f(p: a)",
      "[1, 2, 3][item > y]",
      "a instance of number",
      "a between b and c",
      "a in (b, c)",
      "< a, [b..c]",
      "not(a)",
      "if a then b else c",
      "a.b.c",
      "@\"P1D\" + d",
      "date and time",
      "item",
      "in",
      "nnnn",
      "w0 w1 w2",
    ]
    .iter()
    .map(|t| t.to_string())
    .collect();
    texts.push(long_a.clone());
    texts.push(format!("{} + 1", long_b));
    for sc in &scopes {
      for t in &texts {
        inputs.push(("scoped".into(), scoped_input(sc, t)));
      }
      for _ in 0..(if thorough { 400 } else { 12 }) {
        let d = 1 + rng.below(3) as u32;
        let e = if rng.chance(1, 4) { gen_unary_tests(&mut rng, d) } else { gen_expr(&mut rng, d) };
        inputs.push(("scoped".into(), scoped_input(sc, &e)));
      }
    }
    // context literals whose string keys put such entries into the parsing scope themselves
    let keys = ["\"\"", "\" \"", "\"\\t\"", "\"+\"", "\"-\"", "\"a  b\"", "\"a +\"", "\"a+b\"", "\".\"", "\"'\"", "a", "a b", "a+b"];
    let tails = ["a: b", "a: 1, b: a", "x: y + z", "r: a + b", "r: for i in [1] return i + k", "r: function(p) p + q", "r: [1, 2][item > u]", "\"\": 2, r: s", "\" \": 2, r: s", "r: {\"\": 3, t: u}", "r: hello world"];
    for k in keys {
      for t in tails {
        let lit = format!("{{{}: 1, {}}}", k, t);
        inputs.push(("context-key".into(), lit.clone()));
        inputs.push(("context-key".into(), format!("{}.r", lit)));
        inputs.push(("context-key".into(), format!("[{}, nothing]", lit)));
        inputs.push(("context-key".into(), format!("{{outer: {}, after: unknown name}}", lit)));
      }
    }
  }
  let n_grammar = if thorough { 250000 } else { 2500 };
  for _ in 0..n_grammar {
    let d = 1 + rng.below(4) as u32;
    let e = match rng.below(8) {
      0 => gen_unary_tests(&mut rng, d),
      1 => format!("{{{}: {}}}", rng.pick(&NAMES), gen_expr(&mut rng, d)),
      _ => gen_expr(&mut rng, d),
    };
    inputs.push(("grammar".into(), e));
  }
  if !literals.is_empty() {
    let per = if thorough { 100 } else { 1 };
    for l in &literals {
      inputs.push(("test-literal".into(), l.clone()));
      for _ in 0..per {
        inputs.push(("mutation".into(), mutate(&mut rng, l, &literals)));
      }
    }
  }
  for _ in 0..(if thorough { 60000 } else { 800 }) {
    inputs.push(("unicode".into(), random_unicode(&mut rng)));
  }
  for _ in 0..(if thorough { 40000 } else { 1500 }) {
    inputs.push(("escapes".into(), gen_escape_string(&mut rng)));
  }
  // every built-in name with edge-case arguments, positional and (for the date/time constructors) named
  // The names come from the table REGENERATED from feel/src/bif.rs (`Dmn.Gen.bifNames`, translate/bifnames.py, asked
  // from the driver): every name `Bif::from_str` accepts is stressed, also the ones implemented after this was written.
  let table: Vec<String> = crate::sexp::Sexp::parse(&model.ask("(c10 bifnames)"))
    .and_then(|x| x.as_list().map(|l| l.iter().filter_map(sexp_text).collect()))
    .unwrap_or_default();
  let mut bifs = bif_names();
  rep.extra.insert("bif_names_found".into(), json!(bifs.len()));
  rep.extra.insert("bif_names_in_regenerated_table".into(), json!(table.len()));
  if table.len() < 20 {
    rep.disagree(Kind::ImplVsModel, "bif-stress", "the regenerated table of built-in function names is unreadable", "(c10 bifnames)", &format!("{:?}", table), "the names Bif::from_str accepts");
  }
  for t in &table {
    if !bifs.contains(t) {
      bifs.push(t.clone());
    }
  }
  let (params_of, all_params) = bif_parameter_names();
  rep.extra.insert("bif_named_front_ends_read".into(), json!(params_of.len()));
  rep.extra.insert("bif_parameter_names_read".into(), json!(all_params.len()));
  if all_params.len() < 20 {
    rep.notes.push("the parameter names of the named front end (feel-evaluator/src/bifs/named.rs) could not be read; a built-in list of parameter names is used".into());
  }
  // every name × both call forms × 0..4 arguments from the pool of extreme values
  for b in &bifs {
    let own: Vec<String> = params_of.get(b).cloned().unwrap_or_default();
    for e in bif_systematic(&mut rng, b, &own, &all_params, thorough) {
      inputs.push(("bif-extreme".into(), format!("/*small*/ {}", e)));
    }
  }
  for b in &bifs {
    for _ in 0..(if thorough { 600 } else { 30 }) {
      let n = rng.below(5);
      let args: Vec<String> = (0..n).map(|_| gen_stress_arg(&mut rng)).collect();
      inputs.push(("bif-stress".into(), format!("{}({})", b, args.join(", "))));
    }
  }
  for _ in 0..(if thorough { 20000 } else { 400 }) {
    let e = match rng.below(4) {
      0 => format!("time({}, {}, {})", gen_stress_arg(&mut rng), gen_stress_arg(&mut rng), gen_stress_arg(&mut rng)),
      1 => format!("time(hour: {}, minute: {}, second: {}, offset: {})", gen_stress_arg(&mut rng), gen_stress_arg(&mut rng), gen_stress_arg(&mut rng), gen_stress_arg(&mut rng)),
      2 => format!("date({}, {}, {})", gen_stress_arg(&mut rng), gen_stress_arg(&mut rng), gen_stress_arg(&mut rng)),
      _ => format!("date and time({}, {})", gen_stress_arg(&mut rng), gen_stress_arg(&mut rng)),
    };
    inputs.push(("bif-stress".into(), e));
  }
  // list and string built-ins with every small position / length against short operands
  for _ in 0..(if thorough { 30000 } else { 600 }) {
    let n = rng.below(7);
    let items: Vec<String> = (1..=n).map(|i| i.to_string()).collect();
    let list = format!("[{}]", items.join(", "));
    let text: String = (0..n).map(|i| ['a', 'é', 'b', '🙏', 'c', 'd'][i as usize % 6]).collect();
    let (p, l) = (rng.range(-8, 9), rng.range(-2, 9));
    let e = match rng.below(8) {
      0 => format!("sublist({}, {}, {})", list, p, l),
      1 => format!("sublist({}, {})", list, p),
      2 => format!("substring(\"{}\", {}, {})", text, p, l),
      3 => format!("substring(\"{}\", {})", text, p),
      4 => format!("insert before({}, {}, 0)", list, p),
      5 => format!("remove({}, {})", list, p),
      6 => format!("{}[{}]", list, p),
      _ => format!("sublist(list: {}, start position: {}, length: {})", list, p, l),
    };
    inputs.push(("bif-stress".into(), e));
  }
  // string built-ins taking a second string: every sub-string of a text mixing 1-, 2-, 3- and 4-byte characters as
  // the match / pattern / delimiter (byte offsets against character counts)
  for _ in 0..(if thorough { 20000 } else { 500 }) {
    let chars = ['a', 'é', 'ł', '€', '語', '🙏', 'b', ' ', '.', 'ß'];
    let n = 1 + rng.below(7) as usize;
    let text: Vec<char> = (0..n).map(|_| *rng.pick(&chars)).collect();
    let (i, j) = {
      let i = rng.below(n as u64) as usize;
      let j = i + 1 + rng.below((n - i) as u64) as usize;
      (i, j.min(n))
    };
    let needle: String = if rng.chance(1, 6) { rng.pick(&chars).to_string() } else { text[i..j].iter().collect() };
    let text: String = text.iter().collect();
    let e = match rng.below(9) {
      0 => format!("substring before(\"{}\", \"{}\")", text, needle),
      1 => format!("substring after(\"{}\", \"{}\")", text, needle),
      2 => format!("contains(\"{}\", \"{}\")", text, needle),
      3 => format!("starts with(\"{}\", \"{}\")", text, needle),
      4 => format!("ends with(\"{}\", \"{}\")", text, needle),
      5 => format!("split(\"{}\", \"{}\")", text, needle.replace('.', "\\\\.")),
      6 => format!("replace(\"{}\", \"{}\", \"{}\")", text, needle.replace('.', "\\\\."), rng.pick(&chars)),
      7 => format!("matches(\"{}\", \"{}\")", text, needle.replace('.', "\\\\.")),
      _ => format!("substring after(string: \"{}\", match: \"{}\")", text, needle),
    };
    inputs.push(("bif-stress".into(), e));
  }
  // temporal literals with offsets of any two digits, read, printed and compared
  for _ in 0..(if thorough { 20000 } else { 400 }) {
    let any_hour = rng.below(100);
    let hour = *rng.pick(&[0u64, 1, 13, 14, 15, 23, 24, 25, 27, 59, 99, any_hour]);
    let minute = *rng.pick(&[0u64, 30, 59, 60, 99]);
    let off = format!("{}{:02}:{:02}", if rng.chance(1, 2) { "+" } else { "-" }, hour, minute);
    let e = match rng.below(6) {
      0 => format!("time(\"10:00:00{}\")", off),
      1 => format!("date and time(\"2020-01-01T10:00:00{}\")", off),
      2 => format!("date and time(\"2020-01-01T10:00:00{}\") = date and time(\"2020-01-01T10:00:00Z\")", off),
      3 => format!("date and time(\"2020-01-01T10:00:00{}\") < date and time(\"2020-01-01T10:00:00Z\")", off),
      4 => format!("string(time(\"23:59:59{}\"))", off),
      _ => format!("date and time(\"2020-01-01T10:00:00{}\") - date and time(\"2020-01-01T10:00:00Z\")", off),
    };
    inputs.push(("bif-stress".into(), e));
  }
  // typed formal parameters and result types with every kind of argument (coercion: singleton lists, empty lists, nulls)
  for _ in 0..(if thorough { 20000 } else { 500 }) {
    let ty = *rng.pick(&["number", "string", "boolean", "date", "Any", "Null", "list<number>", "list<Any>", "list<list<number>>", "context<a: number>", "range<number>", "function<number> -> number", "days and time duration", "years and months duration", "date and time", "time"]);
    let arg = match rng.below(14) {
      0 => "[]".to_string(),
      1 => "[[]]".to_string(),
      2 => "[[[]]]".to_string(),
      3 => "[null]".to_string(),
      4 => "null".to_string(),
      5 => "[1]".to_string(),
      6 => "[1, 2]".to_string(),
      7 => "{}".to_string(),
      8 => "{a: []}".to_string(),
      9 => "[{a: 1}]".to_string(),
      10 => "[[1], []]".to_string(),
      _ => gen_stress_arg(&mut rng),
    };
    let e = match rng.below(4) {
      0 => format!("(function(a: {}) a)({})", ty, arg),
      1 => format!("(function(a: {}, b: {}) [a, b])({}, {})", ty, ty, arg, gen_stress_arg(&mut rng)),
      2 => format!("(function(a: {}) a)(a: {})", ty, arg),
      _ => format!("{} instance of {}", arg, ty),
    };
    inputs.push(("bif-stress".into(), e));
  }
  // dates at the ends of the year range in every date function and operator
  for _ in 0..(if thorough { 12000 } else { 700 }) {
    let mut d = |rng: &mut Rng| -> String {
      match rng.below(13) {
        // date and time values without a zone, with a named zone, with an offset, at and beyond the years chrono knows
        8 => "date and time(\"999999999-12-31T23:59:59\")".to_string(),
        9 => "date and time(\"-999999999-01-01T00:00:00\")".to_string(),
        10 => format!("date and time(\"{}-06-15T12:00:00{}\")", rng.pick(&["262143", "262144", "300000", "-262144", "-262145", "-300000", "2021"]), rng.pick(&["", "@Europe/Warsaw", "@Etc/UTC", "+01:00", "Z"])),
        11 => format!("date and time(date({}, 3, 4), time(\"10:11:12{}\"))", rng.pick(&["262144", "-262145", "999999999", "2021"]), rng.pick(&["", "Z", "@America/New_York"])),
        12 => "date and time(\"2021-01-01T00:00:00\")".to_string(),
        0 => "date(\"-999999999-01-01\")".to_string(),
        1 => "date(\"999999999-12-31\")".to_string(),
        2 => "date(\"0000-01-01\")".to_string(),
        3 => "date(\"-0001-12-31\")".to_string(),
        4 => format!("date({}, {}, {})", rng.range(-999_999_999, 1_000_000_000), 1 + rng.below(12), 1 + rng.below(28)),
        5 => "date and time(\"999999999-12-31T23:59:59Z\")".to_string(),
        6 => "date and time(\"-999999999-01-01T00:00:00+14:00\")".to_string(),
        _ => format!("date(\"{}-02-28\")", 1900 + rng.below(300)),
      }
    };
    let (a, b) = (d(&mut rng), d(&mut rng));
    let e = match rng.below(17) {
      12 => format!("{} > {}", a, b),
      13 => format!("{} between {} and {}", a, b, a),
      14 => format!("{} in [{}..{}]", a, b, a),
      15 => format!("{} in ({}..{})", b, a, b),
      16 => format!("[{}, {}] = [{}, {}]", a, b, b, a),
      0 => format!("years and months duration({}, {})", a, b),
      1 => format!("{} - {}", a, b),
      2 => format!("{} < {}", a, b),
      3 => format!("{} = {}", a, b),
      4 => format!("day of week({})", a),
      5 => format!("day of year({})", a),
      6 => format!("week of year({})", a),
      7 => format!("month of year({})", a),
      8 => format!("{} + duration(\"P{}M\")", a, rng.range(-30_000_000_000, 30_000_000_000)),
      9 => format!("{} + duration(\"P{}D\")", a, rng.range(-400_000_000_000, 400_000_000_000)),
      10 => format!("string({})", a),
      _ => format!("({}).weekday", a),
    };
    inputs.push(("bif-stress".into(), e));
  }
  // strings with control characters (NUL included) handed to the conversions
  for _ in 0..(if thorough { 4000 } else { 120 }) {
    let t = *rng.pick(&["\\u0000", "1\\u00002", "\\u0000 1", "12\\u0000", "\\u0001", "\\u007F", "\\n1", "1\\t", "\\uFEFF1", "1e\\u00005"]);
    let e = match rng.below(8) {
      0 => format!("number(\"{}\", \",\", \".\")", t),
      1 => format!("number(\"{}\", null, null)", t),
      2 => format!("date(\"{}\")", t),
      3 => format!("time(\"{}\")", t),
      4 => format!("duration(\"{}\")", t),
      5 => format!("date and time(\"{}\")", t),
      6 => format!("matches(\"{}\", \"{}\")", t, t),
      _ => format!("replace(\"a{}b\", \"{}\", \"{}\")", t, t, t),
    };
    inputs.push(("bif-stress".into(), e));
  }
  // sort with ordering functions that are not total orders, on lists long enough for the library sort to notice
  for _ in 0..(if thorough { 3000 } else { 80 }) {
    let n = 2 + rng.below(60) as usize;
    let items: Vec<String> = (0..n).map(|_| format!("{}", rng.below(50))).collect();
    let cmp = *rng.pick(&["x != y", "true", "false", "x > y or x = 3", "y < x", "x <= y", "x = y", "x < y", "x + y > 40", "null", "x", "x - y"]);
    inputs.push(("bif-stress".into(), format!("sort([{}], function(x, y) {})", items.join(", "), cmp)));
  }
  // statistics and order built-ins over lists long enough for the library sort to notice an inconsistent
  // comparison, with values that are not numbers (NaN, the infinities) among the items
  for _ in 0..(if thorough { 3000 } else { 120 }) {
    let n = 2 + rng.below(45) as usize;
    let mut items: Vec<String> = (0..n).map(|_| format!("{}", rng.below(50))).collect();
    for _ in 0..(1 + rng.below(4)) {
      let k = rng.below(n as u64) as usize;
      items[k] = rng.pick(&["(exp(100000)-exp(100000))", "exp(100000)", "-exp(100000)", "0/1", "-0"]).to_string();
    }
    let f = *rng.pick(&["median", "mode", "median", "mode", "min", "max", "sum", "mean", "stddev", "product", "distinct values", "sort"]);
    let e = if f == "sort" { format!("sort([{}], function(x, y) x < y)", items.join(", ")) } else { format!("{}([{}])", f, items.join(", ")) };
    inputs.push(("bif-stress".into(), e));
  }
  // time / date constructors with components inside their ranges and seconds of arbitrary precision
  for _ in 0..(if thorough { 20000 } else { 300 }) {
    let frac_digits = rng.below(20) as usize;
    let frac: String = (0..frac_digits).map(|_| char::from(b'0' + rng.below(10) as u8)).collect();
    let sec = if frac.is_empty() { format!("{}", rng.below(60)) } else { format!("{}.{}", rng.below(60), frac) };
    let sec = match rng.below(6) {
      0 => format!("{}/3", rng.below(180)),
      1 => format!("{} + 0.{}1", rng.below(59), "0".repeat(rng.below(12) as usize)),
      _ => sec,
    };
    let e = match rng.below(5) {
      0 | 1 => format!("time({}, {}, {})", rng.below(24), rng.below(60), sec),
      2 => format!("time({}, {}, {}, duration(\"{}PT{}H{}M\"))", rng.below(24), rng.below(60), sec, if rng.chance(1, 2) { "-" } else { "" }, rng.below(15), rng.below(60)),
      3 => format!("time(hour: {}, minute: {}, second: {}, offset: duration(\"PT{}H\"))", rng.below(24), rng.below(60), sec, rng.below(15)),
      _ => format!("date and time(date({}, {}, {}), time({}, {}, {}))", 1 + rng.below(3000), 1 + rng.below(12), 1 + rng.below(28), rng.below(24), rng.below(60), sec),
    };
    inputs.push(("bif-stress".into(), e));
  }
  for d in [1usize, 2, 10, 50, 100, 150, 200] {
    for (fam, s) in deep_inputs(d) {
      inputs.push((format!("deep:{}", fam), s));
    }
  }
  // ------------------------------------------------------------------ names that resolve partially, in every position
  qualified_names(&mut rep, &mut rng, thorough, &mut inputs);
  let mut seen = HashSet::new();
  inputs.retain(|(_, s)| seen.insert(s.clone()));

  // ------------------------------------------------------------------ one thread, a long history of distinct texts
  long_history(&mut rep, &mut rng, thorough);

  // ------------------------------------------------------------------ temporal-extreme: impl = model
  temporal_extreme(&mut rep, &mut model, &mut rng, thorough);

  // ------------------------------------------------------------------ string-index: impl = model
  string_index(&mut rep, &mut model, &mut rng, thorough);

  // ------------------------------------------------------------------ scope-ops: impl = model, at value level
  scope_ops(&mut rep, &mut model, &mut rng, thorough);

  // ------------------------------------------------------------------ longest-name: impl = model
  longest_name(&mut rep, &mut model, &mut rng, thorough);

  // ------------------------------------------------------------------ reentrant: built-ins invoked while a built-in / an iteration runs
  reentrant(&mut rep, &mut model, &mut rng, thorough);

  // ------------------------------------------------------------------ process-level runner (validation)
  let workers = std::thread::available_parallelism().map(|n| n.get()).unwrap_or(4).min(12);
  let t0 = std::time::Instant::now();
  let obs = run_batches(&inputs, workers, 100, if thorough { 4000 } else { 2000 });
  rep.extra.insert("process_runner_wall_s".into(), json!(t0.elapsed().as_secs_f64()));
  rep.extra.insert("process_runner_workers".into(), json!(workers));
  let entry_names: Vec<&str> = ENTRIES.iter().copied().chain(std::iter::once("evaluate")).collect();
  for o in &obs {
    let fam = o.family.split(':').next().unwrap_or("").to_string();
    let accepted = o.words.iter().take(ENTRIES.len()).any(|w| w == "ok");
    rep.case(&format!("process|{}", o.input), accepted || fam == "deep");
    rep.hit(&format!("process:family={}", fam));
    if accepted {
      rep.hit("process:accepted-by-some-entry");
    }
    if let Some(w) = o.words.last() {
      rep.hit(&format!("process:evaluate={}", if w.starts_with("panic") { "panic" } else { w }));
    }
    if let Some(d) = &o.death {
      let phase = if o.words.is_empty() { "parse-or-evaluate" } else { "after-results" };
      rep.disagree(
        Kind::ImplVsSpec,
        "process",
        &format!("process death {} during {} (family {})", d, phase, fam),
        &shown_input(&o.input),
        &format!("child process ended with {}", d),
        "every entry point returns a tree or an error; evaluation returns a value",
      );
      continue;
    }
    for (k, w) in o.words.iter().enumerate() {
      if let Some(loc) = w.strip_prefix("panic@") {
        let entry = entry_names.get(k).copied().unwrap_or("?");
        let who = if entry == "evaluate" { "evaluate" } else { "parser" };
        rep.disagree(
          Kind::ImplVsSpec,
          "process",
          &format!("panic {} ({})", loc, who),
          &shown_input(&o.input),
          &format!("{} panicked at {}", entry, loc),
          "a tree, a value or an error",
        );
      }
    }
    if rep.samples.len() < 8 && accepted {
      rep.sample(json!({"family": format!("process:{}", o.family), "input": shown_input(&o.input), "entries": ENTRIES, "observed": o.words}));
    }
  }
  if obs.len() != inputs.len() {
    rep.notes.push(format!("process runner: {} inputs, {} observations", inputs.len(), obs.len()));
  }

  // ------------------------------------------------------------------ lalr-trace: impl = model
  {
    let n = if thorough { 3000 } else { 250 };
    let mut picks: Vec<(String, String)> = vec![];
    for (k, e) in ENTRIES.iter().take(6).enumerate() {
      picks.push((e.to_string(), ["1 + 2 * 3", "x", "1, 2", "[1, 2]", "{a: 1}", "< 5, [1..2]"][k].to_string()));
    }
    picks.push(("parse_expression".into(), "for in+x in [1] return 1".into()));
    picks.push(("parse_expression".into(), "\"\\uD83D\\uDE4F\"".into()));
    picks.push(("parse_expression".into(), "1 +".into()));
    let pool: Vec<&(String, String)> = inputs.iter().filter(|(f, s)| (f == "grammar" || f == "mutation" || f == "test-literal") && s.chars().count() < 120).collect();
    for _ in 0..n {
      if pool.is_empty() {
        break;
      }
      let (_, s) = rng.pick(&pool);
      picks.push((rng.pick(&ENTRIES[..6]).to_string(), s.clone()));
    }
    let file = scratch.join(format!("c05-trace-{}.txt", std::process::id()));
    let file = file.to_string_lossy().to_string();
    let mut reqs = vec![];
    let mut expected = vec![];
    let mut shown = vec![];
    for (entry, input) in &picks {
      match traced(entry, input, &file, 10000) {
        None => {
          rep.disagree(Kind::ImplVsSpec, "lalr-trace", "timeout or process death in a traced parse", &format!("{} {:?}", entry, input), "no trace", "a trace ending in #RESULT");
        }
        Some(text) => {
          let (ev, toks, fail_at, result) = trace_events(&text);
          if result.starts_with("panic") {
            rep.hit("trace:panic");
            continue; // judged by the process family
          }
          if result.is_empty() {
            rep.disagree(Kind::ImplVsSpec, "lalr-trace", "traced parse ended without a result", &format!("{} {:?}", entry, input), "no #RESULT line", "#RESULT ok|err");
            continue;
          }
          let fuel = 3 * ev.len() + 16;
          reqs.push(format!("(c05 drive ({}) {} {})", toks.join(" "), fail_at, fuel));
          let reductions = ev.iter().filter(|e| e.starts_with("(R")).count();
          expected.push((ev, reductions));
          shown.push(format!("{} {:?}", entry, input));
        }
      }
    }
    let _ = std::fs::remove_file(&file);
    let answers = model.ask_batch(&reqs);
    for ((a, (ev, reductions)), s) in answers.iter().zip(expected.iter()).zip(shown.iter()) {
      rep.case(&format!("trace|{}", s), *reductions > 0);
      rep.hit("trace:cases");
      rep.hit(&format!("trace:{}", ev.last().cloned().unwrap_or_default()));
      let want = format!("({})", ev.join(" "));
      if &want != a {
        // first differing event
        let am: Vec<&str> = a.trim_matches(|c| c == '(' || c == ')').split(") (").collect();
        let wm: Vec<&str> = want.trim_matches(|c| c == '(' || c == ')').split(") (").collect();
        let k = am.iter().zip(wm.iter()).position(|(x, y)| x != y).unwrap_or(am.len().min(wm.len()));
        rep.disagree(
          Kind::ImplVsModel,
          "lalr-trace",
          "LALR driver: the traced run of the parser differs from the model of the loop",
          s,
          &format!("event {}: {:?}", k, wm.get(k)),
          &format!("event {}: {:?}", k, am.get(k)),
        );
      }
      if rep.samples.len() < 11 {
        rep.sample(json!({"family": "lalr-trace", "input": s, "events": ev.len(), "model": a.chars().take(300).collect::<String>()}));
      }
    }
  }

  rep.model_requests = model.requests;
  rep
}

fn scope_with(keys: &[String]) -> Scope {
  let scope = Scope::default();
  for k in keys {
    scope.set_entry(&Name::from(k.as_str()), Value::Number(FeelNumber::from_i128(1)));
  }
  scope
}


// ------------------------------------------------------------------------------------------
// temporal-extreme: the temporal operations on operands at the ends of the machine integers
// ------------------------------------------------------------------------------------------

/// The largest days and time duration a single literal can denote here: (2^64 - 1) days and 86399.999999999 s.
const DAY_NS: i128 = 86_400_000_000_000;

/// FEEL text denoting the years and months duration of `n` months.
fn ym_expr(rng: &mut Rng, n: i64) -> String {
  if n == i64::MIN {
    return "(@\"-P9223372036854775807M\" - @\"P1M\")".to_string();
  }
  let (sign, a) = (if n < 0 { "-" } else { "" }, n.unsigned_abs());
  match rng.below(3) {
    0 if a % 12 == 0 && a > 0 => format!("@\"{}P{}Y\"", sign, a / 12),
    1 if a >= 12 => format!("@\"{}P{}Y{}M\"", sign, a / 12, a % 12),
    2 => format!("duration(\"{}P{}M\")", sign, a),
    _ => format!("@\"{}P{}M\"", sign, a),
  }
}

/// A literal for `|n| <= (2^64 - 1) days + 86399.999999999 s`, with the sign given.
fn dtd_literal(neg: bool, a: u128) -> String {
  let (d, r) = (a / DAY_NS as u128, a % DAY_NS as u128);
  let (secs, frac) = (r / 1_000_000_000, r % 1_000_000_000);
  let sign = if neg { "-" } else { "" };
  if d > 0 {
    format!("@\"{}P{}DT{}.{:09}S\"", sign, d, secs, frac)
  } else {
    format!("@\"{}PT{}.{:09}S\"", sign, secs, frac)
  }
}

/// FEEL text denoting the days and time duration of `n` nanoseconds: a literal, or — beyond what a literal can
/// denote — a context that doubles a literal and adds the remainder (all intermediate sums are exact).
fn dtd_expr(n: i128) -> String {
  let neg = n < 0;
  let a = n.unsigned_abs();
  let lit_max: u128 = (u64::MAX as u128) * (DAY_NS as u128) + (DAY_NS as u128 - 1);
  if a <= lit_max {
    return dtd_literal(neg, a);
  }
  let mut k = 0u32;
  while (a >> k) > lit_max {
    k += 1;
  }
  let c = a >> k;
  let rem = a - (c << k);
  let mut entries = vec![format!("a0: {}", dtd_literal(neg, c))];
  for i in 1..=k {
    entries.push(format!("a{}: a{} + a{}", i, i - 1, i - 1));
  }
  if rem > 0 {
    entries.push(format!("x: a{} + {}", k, dtd_literal(neg, rem)));
  } else {
    entries.push(format!("x: a{}", k));
  }
  format!("{{{}}}.x", entries.join(", "))
}

fn pick_i64(rng: &mut Rng) -> i64 {
  const E: [i64; 24] = [
    0, 1, -1, 11, 12, -12, 13, i64::MAX, i64::MAX - 1, i64::MAX - 11, i64::MIN, i64::MIN + 1, i64::MIN + 8, i64::MAX / 2, i64::MAX / 2 + 1, i64::MIN / 2, i64::MIN / 2 - 1,
    9223372036854775800, -9223372036854775800, 768614336404564650, 2147483647, -2147483648, 4294967296, 120,
  ];
  match rng.below(6) {
    0 => rng.next() as i64,
    1 => (rng.next() as i64) >> (rng.below(63) as u32),
    _ => *rng.pick(&E),
  }
}

fn pick_i128(rng: &mut Rng) -> i128 {
  let two64: i128 = 1 << 64;
  let e: [i128; 30] = [
    0, 1, 999_999_999, 1_000_000_000, DAY_NS, DAY_NS - 1, 3_600_000_000_000, i64::MAX as i128, (i64::MAX as i128) + 1, two64 - 1, two64, 53_999 * 1_000_000_000, 53_999 * 1_000_000_000 + 999_999_999, 54_000 * 1_000_000_000,
    two64 * 1_000_000_000, (two64 + 1) * 1_000_000_000, (two64 - 1) * 1_000_000_000, (1i128 << 63) * 1_000_000_000, ((1i128 << 63) - 53_999) * 1_000_000_000, (two64 - 53_999) * 1_000_000_000,
    (u64::MAX as i128) * DAY_NS, (u64::MAX as i128) * DAY_NS + DAY_NS - 1, two64 * DAY_NS, (two64 + 5) * DAY_NS + 3_600_000_000_001, 1i128 << 100, 1i128 << 110, 1i128 << 126, i128::MAX, i128::MAX - 1, i128::MAX / 2 + 1,
  ];
  let v = match rng.below(8) {
    0 => {
      let bits = 1 + rng.below(126) as u32;
      let x = ((rng.next() as u128) << 64 | rng.next() as u128) >> (128 - bits);
      x as i128
    }
    1 => i128::MIN,
    2 => i128::MIN + 1,
    _ => *rng.pick(&e),
  };
  if v != i128::MIN && rng.chance(1, 2) {
    -v
  } else {
    v
  }
}

/// A component of a duration literal: `None` (absent) or a value around the ends of `i64` / `u64`.
fn pick_component(rng: &mut Rng, top: u128) -> Option<u128> {
  match rng.below(7) {
    0 | 1 => None,
    2 => Some(rng.below(100) as u128),
    3 => Some(top),
    4 => Some(top - rng.below(13) as u128),
    5 => Some(top / *rng.pick(&[12u128, 24, 60, 2, 3600])),
    _ => Some(top / *rng.pick(&[12u128, 24, 60, 2, 3600]) + 1),
  }
}

struct TCase {
  op: &'static str,
  request: String,
  feel: String,
}

fn opt_atom(c: &Option<u128>) -> String {
  c.map(|v| v.to_string()).unwrap_or_else(|| "none".to_string())
}

fn gen_temporal_case(rng: &mut Rng) -> TCase {
  let k = rng.below(22);
  let ctx1 = |a: &str, body: &str| format!("{{A: {}, r: {}}}.r", a, body);
  let ctx2 = |a: &str, b: &str, body: &str| format!("{{A: {}, B: {}, r: {}}}.r", a, b, body);
  match k {
    0 | 1 => {
      let (a, b) = (pick_i64(rng), pick_i64(rng));
      let (op, sym) = if k == 0 { ("ymAdd", "+") } else { ("ymSub", "-") };
      let (ea, eb) = (ym_expr(rng, a), ym_expr(rng, b));
      TCase { op, request: format!("(c05 temporal checked {} {} {})", op, a, b), feel: ctx2(&ea, &eb, &format!("A {} B", sym)) }
    }
    2..=5 => {
      let a = pick_i64(rng);
      let (op, body) = [("ymNeg", "-A"), ("ymYears", "A.years"), ("ymMonths", "A.months"), ("ymPrint", "string(A)")][(k - 2) as usize];
      let ea = ym_expr(rng, a);
      TCase { op, request: format!("(c05 temporal checked {} {})", op, a), feel: ctx1(&ea, body) }
    }
    6 | 7 => {
      let (a, b) = (pick_i128(rng), pick_i128(rng));
      let (op, sym) = if k == 6 { ("dtdAdd", "+") } else { ("dtdSub", "-") };
      TCase { op, request: format!("(c05 temporal checked {} {} {})", op, a, b), feel: ctx2(&dtd_expr(a), &dtd_expr(b), &format!("A {} B", sym)) }
    }
    8..=14 => {
      let a = pick_i128(rng);
      let (op, body) = [
        ("dtdNeg", "-A"),
        ("dtdDays", "A.days"),
        ("dtdHours", "A.hours"),
        ("dtdMinutes", "A.minutes"),
        ("dtdSeconds", "A.seconds"),
        ("dtdPrint", "string(A)"),
        ("time4Offset", "time(1, 2, 3, A)"),
      ][(k - 8) as usize];
      TCase { op, request: format!("(c05 temporal checked {} {})", op, a), feel: ctx1(&dtd_expr(a), body) }
    }
    15 | 16 => {
      let top = i64::MAX as u128;
      let (mut y, mo) = (pick_component(rng, top), pick_component(rng, top));
      if y.is_none() && mo.is_none() {
        y = Some(top / 12);
      }
      let neg = rng.chance(1, 2);
      let text = format!("{}P{}{}", if neg { "-" } else { "" }, y.map(|v| format!("{}Y", v)).unwrap_or_default(), mo.map(|v| format!("{}M", v)).unwrap_or_default());
      let feel = if rng.chance(1, 2) { format!("@\"{}\"", text) } else { format!("duration(\"{}\")", text) };
      TCase { op: "ymLit", request: format!("(c05 temporal checked ymLit {} {} {})", opt_atom(&y), opt_atom(&mo), neg), feel }
    }
    17 | 18 => {
      let top = u64::MAX as u128;
      let (mut d, h, mi, s) = (pick_component(rng, top), pick_component(rng, top), pick_component(rng, top), pick_component(rng, top));
      if d.is_none() && h.is_none() && mi.is_none() && s.is_none() {
        d = Some(top);
      }
      let f = if s.is_some() && rng.chance(1, 2) { Some(*rng.pick(&[0u128, 1, 999_999_999, 500_000_000])) } else { None };
      let neg = rng.chance(1, 2);
      let mut text = format!("{}P{}", if neg { "-" } else { "" }, d.map(|v| format!("{}D", v)).unwrap_or_default());
      if h.is_some() || mi.is_some() || s.is_some() {
        text.push('T');
        text.push_str(&h.map(|v| format!("{}H", v)).unwrap_or_default());
        text.push_str(&mi.map(|v| format!("{}M", v)).unwrap_or_default());
        if let Some(v) = s {
          text.push_str(&match f {
            Some(fr) => format!("{}.{:09}S", v, fr),
            None => format!("{}S", v),
          });
        }
      }
      let feel = if rng.chance(1, 2) { format!("@\"{}\"", text) } else { format!("duration(\"{}\")", text) };
      TCase { op: "dtLit", request: format!("(c05 temporal checked dtLit {} {} {} {} {} {})", opt_atom(&d), opt_atom(&h), opt_atom(&mi), opt_atom(&s), opt_atom(&f), neg), feel }
    }
    _ => {
      let mut date = |rng: &mut Rng| -> (i64, u64, u64) {
        let y = match rng.below(4) {
          0 => rng.range(-999_999_999, 1_000_000_000),
          1 => *rng.pick(&[-999_999_999i64, 999_999_999, -262_144, -262_143, 262_142, 262_143, 0, -1, 1, 1970, 2000, 1900]),
          2 => 1582 + rng.range(0, 900),
          _ => *rng.pick(&[-999_999_999i64, 999_999_999]) / (1 + rng.below(3) as i64),
        };
        (y, 1 + rng.below(12), 1 + rng.below(28))
      };
      let (a, b) = (date(rng), date(rng));
      if k == 19 || k == 20 {
        // `years and months duration(from, to)` is `to.ym_duration(from)`: `self` is the second argument
        TCase {
          op: "dateYm",
          request: format!("(c05 temporal checked dateYm {} {} {} {} {} {})", a.0, a.1, a.2, b.0, b.1, b.2),
          feel: format!("years and months duration(date({}, {}, {}), date({}, {}, {}))", b.0, b.1, b.2, a.0, a.1, a.2),
        }
      } else {
        TCase { op: "dateWeekday", request: format!("(c05 temporal checked dateWeekday {} {} {})", a.0, a.1, a.2), feel: format!("date({}, {}, {}).weekday", a.0, a.1, a.2) }
      }
    }
  }
}

/// The observable form of a value for the comparison with the model's answer.
fn temporal_observed(v: &Value) -> String {
  match v {
    Value::Null(_) => "(ok null)".to_string(),
    Value::Number(n) => format!("(ok (int {}))", n),
    Value::String(s) => format!("(ok {})", crate::sexp::Sexp::str(s)),
    Value::YearsAndMonthsDuration(d) => format!("(ok (int {}))", d.as_months()),
    // the nanoseconds are private: they are read from the derived `Debug` form `FeelDaysAndTimeDuration(n)`
    Value::DaysAndTimeDuration(d) => {
      let t = format!("{:?}", d);
      let n = t.trim_start_matches("FeelDaysAndTimeDuration(").trim_end_matches(')').to_string();
      format!("(ok (int {}))", n)
    }
    Value::Time(t) => match t.feel_time_offset() {
      Some(o) => format!("(ok (int {}))", o),
      None => "(ok local)".to_string(),
    },
    other => format!("(other {:?})", other),
  }
}

fn temporal_extreme(rep: &mut Report, model: &mut Model, rng: &mut Rng, thorough: bool) {
  let n = if thorough { 60000 } else { 1500 };
  let mut cases: Vec<TCase> = vec![];
  // the reported witnesses and the ends of every operation first
  let fixed: [(&'static str, String, String); 10] = [
    ("ymAdd", "(c05 temporal checked ymAdd 9223372036854775800 9223372036854775800)".into(), "@\"P768614336404564650Y\" + @\"P768614336404564650Y\"".into()),
    ("ymSub", "(c05 temporal checked ymSub -9223372036854775800 9223372036854775800)".into(), "@\"-P768614336404564650Y\" - @\"P768614336404564650Y\"".into()),
    ("ymNeg", "(c05 temporal checked ymNeg -9223372036854775808)".into(), "-(@\"-P768614336404564650Y\" - @\"P8M\")".into()),
    ("ymPrint", "(c05 temporal checked ymPrint -9223372036854775808)".into(), "string((@\"-P768614336404564650Y\" - @\"P7M\") - @\"P1M\")".into()),
    ("dtdAdd", format!("(c05 temporal checked dtdAdd {} 1)", i128::MAX), format!("{{A: {}, B: @\"PT0.000000001S\", r: A + B}}.r", dtd_expr(i128::MAX))),
    ("dtdNeg", format!("(c05 temporal checked dtdNeg {})", i128::MIN), format!("{{A: {}, r: -A}}.r", dtd_expr(i128::MIN))),
    ("dtdPrint", format!("(c05 temporal checked dtdPrint {})", i128::MIN), format!("{{A: {}, r: string(A)}}.r", dtd_expr(i128::MIN))),
    ("dtdDays", format!("(c05 temporal checked dtdDays {})", i128::MIN), format!("{{A: {}, r: A.days}}.r", dtd_expr(i128::MIN))),
    ("time4Offset", format!("(c05 temporal checked time4Offset {})", (1i128 << 64) * 1_000_000_000), format!("time(1, 2, 3, {})", dtd_expr((1i128 << 64) * 1_000_000_000))),
    ("dtdPrint", format!("(c05 temporal checked dtdPrint {})", i128::MAX), format!("string({})", dtd_expr(i128::MAX))),
  ];
  for (op, request, feel) in fixed {
    cases.push(TCase { op, request, feel });
  }
  for _ in 0..n {
    cases.push(gen_temporal_case(rng));
  }
  let reqs: Vec<String> = cases.iter().map(|c| c.request.clone()).collect();
  let answers = model.ask_batch(&reqs);
  let scope = Scope::default();
  for (c, want) in cases.iter().zip(answers.iter()) {
    crate::util::note_case(&c.feel);
    let got = located(|| dmntk_feel_parser::parse_expression(&scope, &c.feel, false).map(|node| dmntk_feel_evaluator::evaluate(&scope, &node)));
    let shown = format!("{}   [{}]", c.feel, c.request);
    let model_panics = want.starts_with("(panic ");
    rep.case(&format!("temporal|{}", c.request), !want.starts_with("(ok null)"));
    rep.hit(&format!("temporal:op={}", c.op));
    rep.hit(&format!("temporal:model={}", if model_panics { "panic" } else if want.starts_with("(ok null)") { "null" } else { "value" }));
    if want.starts_with("(error") {
      rep.disagree(Kind::ImplVsModel, "temporal-extreme", "temporal-extreme: the driver rejects a request", &shown, "-", want);
      continue;
    }
    match got {
      Err(loc) => {
        let file = loc.split(':').next().unwrap_or("").to_string();
        let model_site = want.trim_start_matches("(panic ").trim_end_matches(')').to_string();
        // `i128::abs` is not `#[track_caller]`: its overflow is located inside the standard library
        if model_panics && (model_site == file || file.starts_with("/rustc/")) {
          // the panic site the model has: a violation of the property by the unchanged code that the model mirrors
          rep.disagree(
            Kind::ImplVsSpec,
            "temporal-extreme",
            &format!("panic {} (temporal-extreme: unchecked i128 arithmetic of days and time durations, as modelled)", model_site),
            &shown,
            &format!("panicked at {}", loc),
            "a value or null",
          );
        } else {
          rep.disagree(Kind::ImplVsSpec, "temporal-extreme", &format!("panic {} (temporal-extreme {})", file, c.op), &shown, &format!("panicked at {}", loc), "a value or null");
          rep.disagree(Kind::ImplVsModel, "temporal-extreme", &format!("temporal-extreme {}: the implementation panics where the model returns", c.op), &shown, &format!("panicked at {}", loc), want);
        }
      }
      Ok(Err(e)) => {
        rep.disagree(Kind::ImplVsModel, "temporal-extreme", &format!("temporal-extreme {}: the generated expression is not accepted", c.op), &shown, &e.to_string(), want);
      }
      Ok(Ok(Err(e))) => {
        rep.disagree(Kind::ImplVsModel, "temporal-extreme", &format!("temporal-extreme {}: evaluation is an error", c.op), &shown, &e.to_string(), want);
      }
      Ok(Ok(Ok(v))) => {
        let obs = temporal_observed(&v);
        if model_panics {
          rep.disagree(Kind::ImplVsModel, "temporal-extreme", &format!("temporal-extreme {}: the model has a panic site the implementation does not reach", c.op), &shown, &obs, want);
        } else if &obs != want {
          rep.disagree(Kind::ImplVsModel, "temporal-extreme", &format!("temporal-extreme {}: the value differs from the model", c.op), &shown, &obs, want);
        }
      }
    }
    if rep.samples.len() < 14 && rng.chance(1, 40) {
      rep.sample(json!({"family": "temporal-extreme", "feel": c.feel, "request": c.request, "model": want}));
    }
  }
}

// ------------------------------------------------------------------------------------------
// family `qualified-names`: names that resolve partially, in every operand position
// ------------------------------------------------------------------------------------------

/// A value bound in a generated scope: a number, a context, or a value of another kind (FEEL text).
#[derive(Clone, Debug)]
enum QTree {
  Num(i64),
  Ctx(Vec<(String, QTree)>),
  Other(&'static str),
}

const Q_SEGMENTS: [&str; 14] = ["a", "b", "c", "d", "e", "n", "l", "s", "z", "fn", "lc", "q", "Full Name", "Last Name"];
const Q_OTHERS: [&str; 10] = ["[1, 2]", "\"x\"", "null", "true", "function(x) x", "date(\"2020-01-02\")", "[{b: 1}, {b: 2}]", "@\"P1D\"", "[]", "[1..3]"];

impl QTree {
  fn text(&self) -> String {
    match self {
      QTree::Num(k) => k.to_string(),
      QTree::Other(t) => t.to_string(),
      QTree::Ctx(es) => format!("{{{}}}", es.iter().map(|(k, v)| format!("{}: {}", k, v.text())).collect::<Vec<_>>().join(", ")),
    }
  }
  fn gen_ctx(rng: &mut Rng, depth: u32) -> QTree {
    let n = if depth == 0 { 2 + rng.below(4) } else { rng.below(4) };
    let mut es: Vec<(String, QTree)> = vec![];
    for _ in 0..n {
      let k = rng.pick(&Q_SEGMENTS).to_string();
      if es.iter().any(|(x, _)| *x == k) {
        continue;
      }
      let v = match rng.below(8) {
        0..=2 => QTree::Num(rng.below(10) as i64),
        3 | 4 => QTree::Other(*rng.pick(&Q_OTHERS)),
        _ if depth < 4 => QTree::gen_ctx(rng, depth + 1),
        _ => QTree::Num(rng.below(10) as i64),
      };
      es.push((k, v));
    }
    QTree::Ctx(es)
  }
}

/// The specification of name resolution: the topmost context of the stack that binds the first segment decides; every
/// further segment must be an entry of the context reached so far.
fn q_resolve<'a>(stack: &'a [QTree], path: &[String]) -> Option<&'a QTree> {
  let first = path.first()?;
  let mut cur: Option<&QTree> = None;
  for ctx in stack.iter().rev() {
    if let QTree::Ctx(es) = ctx {
      if let Some((_, v)) = es.iter().find(|(k, _)| k == first) {
        cur = Some(v);
        break;
      }
    }
  }
  let mut cur = cur?;
  for seg in &path[1..] {
    match cur {
      QTree::Ctx(es) => cur = &es.iter().find(|(k, _)| k == seg)?.1,
      _ => return None,
    }
  }
  Some(cur)
}

/// A path over the stack: guided along the bound entries and then left at a random point, or random segments.
fn q_path(rng: &mut Rng, stack: &[QTree]) -> Vec<String> {
  let mut path: Vec<String> = vec![];
  if !stack.is_empty() && rng.chance(3, 4) {
    let mut cur: Option<&QTree> = Some(rng.pick(stack));
    loop {
      match cur {
        Some(QTree::Ctx(es)) if !es.is_empty() && path.len() < 5 => {
          if !path.is_empty() && rng.chance(1, 5) {
            break;
          }
          let (k, v) = rng.pick(es);
          path.push(k.clone());
          cur = Some(v);
        }
        _ => break,
      }
    }
    // leave the bound part: one or two segments more (past a leaf, or not an entry of the context reached)
    if path.is_empty() || rng.chance(1, 2) {
      for _ in 0..(1 + rng.below(2)) {
        path.push(rng.pick(&Q_SEGMENTS).to_string());
      }
    }
  } else {
    for _ in 0..(1 + rng.below(4)) {
      path.push(rng.pick(&Q_SEGMENTS).to_string());
    }
  }
  path
}

type QExpect = fn(i64, i64) -> bool;

/// Operand positions: `Q`, `R` are replaced by two names, `V` by a number 0..9. With an expectation where the value is
/// determined by the number `Q` resolves to (intervals reach from -1 and up to 10, the numbers bound are 0..9).
const Q_POSITIONS: [(&str, Option<QExpect>); 64] = [
  // endpoints of intervals and of unary comparisons (grammar: qualified_name)
  ("V in [Q..10]", Some(|v, k| k <= v)),
  ("V in (Q..10]", Some(|v, k| k < v)),
  ("V in ]Q..10]", Some(|v, k| k < v)),
  ("V in [-1..Q]", Some(|v, k| v <= k)),
  ("V in [-1..Q)", Some(|v, k| v < k)),
  ("V in [-1..Q[", Some(|v, k| v < k)),
  ("V in < Q", Some(|v, k| v < k)),
  ("V in <= Q", Some(|v, k| v <= k)),
  ("V in > Q", Some(|v, k| v > k)),
  ("V in >= Q", Some(|v, k| v >= k)),
  ("V in (< Q)", Some(|v, k| v < k)),
  ("V in [Q..R]", None),
  ("V in (Q..R)", None),
  ("[Q..R]", None),
  ("(Q..R]", None),
  ("V in (< Q, > R)", None),
  ("V in (<= Q, [R..10], >= R)", None),
  ("[1, 2, 3][item in [Q..R]]", None),
  ("{r: < Q}.r", None),
  ("for i in [V] return i in [Q..R]", None),
  // types
  ("V instance of Q", None),
  ("V instance of list<Q>", None),
  ("[V] instance of list<Q>", None),
  ("{k: V} instance of context<k: Q>", None),
  ("V instance of context<k: Q, m: R>", None),
  ("V instance of function<Q> -> R", None),
  ("V instance of function<Q, R> -> Q", None),
  ("[1..2] instance of range<Q>", None),
  ("(function(p: Q) p)(V)", None),
  ("(function(p: Q, r: R) [p, r])(V, V)", None),
  ("(function(p: list<Q>) p)([V])", None),
  ("(function(p: Q) p)(p: V)", None),
  ("function(p: Q) p", None),
  // paths in expression positions
  ("Q", Some(|_, _| true)),
  ("Q + 1", Some(|_, _| true)),
  ("Q = R", None),
  ("[Q, R]", None),
  ("{r: Q, s: R}", None),
  ("{r: Q}.r", None),
  ("abs(Q)", None),
  ("abs(n: Q)", None),
  ("if Q then 1 else 2", None),
  ("if true then Q else R", None),
  ("for i in Q return i", None),
  ("for i in [1, 2] return Q", None),
  ("for i in Q..R return i", None),
  ("some i in Q satisfies i = R", None),
  ("every i in [1] satisfies Q", None),
  ("Q[1]", None),
  ("Q[item = R]", None),
  ("[1, 2][item > Q]", None),
  ("Q(1)", None),
  ("Q(p: 1)", None),
  ("-Q", None),
  ("Q between R and 9", None),
  ("V between Q and R", None),
  ("Q instance of number", None),
  ("string(Q)", None),
  ("V in Q", None),
  ("V in (Q, R)", None),
  ("Q ** 2", None),
  ("not(Q)", None),
  ("Q and R", None),
  ("Q or R", None),
];

/// The value in the spelling the expectations of the families `qualified-names` and `long-history` are written in.
fn plain(v: &Value) -> String {
  match v {
    Value::Null(_) => "null".to_string(),
    Value::Boolean(b) => b.to_string(),
    Value::Number(n) => n.to_string(),
    Value::String(s) => format!("{:?}", s),
    Value::List(items) => format!("[{}]", items.as_vec().iter().map(plain).collect::<Vec<_>>().join(", ")),
    Value::Context(ctx) => format!("{{{}}}", ctx.iter().map(|(k, x)| format!("{}: {}", k, plain(x))).collect::<Vec<_>>().join(", ")),
    other => format!("<{}>", other),
  }
}

/// A scope made of the contexts denoted by the texts (bottom first); `None` when a text is not a context.
fn q_scope(texts: &[String]) -> Option<Scope> {
  let scope = Scope::new();
  for t in texts {
    let ctx = dmntk_feel_evaluator::evaluate_context(&Scope::default(), t).ok()?;
    scope.push(ctx);
  }
  Some(scope)
}

/// Marks a context text among the scope names of an input of the process family.
const CTX_MARK: char = '\u{2}';

fn qualified_names(rep: &mut Report, rng: &mut Rng, thorough: bool, inputs: &mut Vec<(String, String)>) {
  let fixed = QTree::Ctx(vec![
    (
      "a".into(),
      QTree::Ctx(vec![
        ("b".into(), QTree::Num(1)),
        ("c".into(), QTree::Ctx(vec![("d".into(), QTree::Num(2)), ("e".into(), QTree::Ctx(vec![("n".into(), QTree::Num(3))]))])),
        ("z".into(), QTree::Other("null")),
        ("e".into(), QTree::Ctx(vec![])),
      ]),
    ),
    ("n".into(), QTree::Num(5)),
    ("l".into(), QTree::Other("[1, 2]")),
    ("s".into(), QTree::Other("\"x\"")),
    ("z".into(), QTree::Other("null")),
    ("fn".into(), QTree::Other("function(x) x")),
    ("lc".into(), QTree::Other("[{b: 1}, {b: 2}]")),
    ("e".into(), QTree::Ctx(vec![])),
    ("Full Name".into(), QTree::Ctx(vec![("b".into(), QTree::Num(4)), ("Last Name".into(), QTree::Num(6))])),
  ]);
  let mut stacks: Vec<Vec<QTree>> = vec![
    vec![fixed.clone()],
    vec![fixed.clone(), QTree::Ctx(vec![("a".into(), QTree::Num(7))])],
    vec![QTree::Ctx(vec![("a".into(), QTree::Num(7))]), fixed.clone()],
    vec![fixed.clone(), QTree::Ctx(vec![("a".into(), QTree::Ctx(vec![]))])],
    vec![fixed.clone(), QTree::Ctx(vec![]), QTree::Ctx(vec![("n".into(), QTree::Ctx(vec![("a".into(), QTree::Num(8))]))])],
    vec![QTree::Ctx(vec![])],
    vec![],
  ];
  for _ in 0..(if thorough { 400 } else { 30 }) {
    let k = 1 + rng.below(3);
    stacks.push((0..k).map(|_| QTree::gen_ctx(rng, 0)).collect());
  }
  let per_stack = if thorough { 600 } else { 90 };
  let mut done = 0u64;
  for stack in &stacks {
    let texts: Vec<String> = stack.iter().map(|t| t.text()).collect();
    let scope_shown = format!("scope (contexts, bottom first): [{}]", texts.join(", "));
    if q_scope(&texts).is_none() {
      rep.disagree(Kind::ImplVsModel, "qualified-names", "qualified-names: a generated scope text is not a context", &scope_shown, "error", "a context");
      continue;
    }
    for i in 0..per_stack {
      let (pos, expect) = Q_POSITIONS[(i + rng.below(2) as usize * 31) % Q_POSITIONS.len()];
      let (q, r) = (q_path(rng, stack), q_path(rng, stack));
      let v = rng.below(10) as i64;
      let text = pos.replace('Q', "\u{3}").replace('R', &r.join(".")).replace('V', &v.to_string()).replace('\u{3}', &q.join("."));
      let class = |p: &[String]| match q_resolve(stack, p) {
        Some(QTree::Num(_)) => "number",
        Some(QTree::Ctx(_)) => "context",
        Some(QTree::Other(_)) => "other-value",
        None => {
          if q_resolve(stack, &p[..1]).is_some() {
            "first-segment-bound-tail-unresolved"
          } else {
            "first-segment-unbound"
          }
        }
      };
      let (cq, cr) = (class(&q), class(&r));
      rep.hit(&format!("qualified-names:Q={}", cq));
      rep.hit(&format!("qualified-names:segments={}", q.len()));
      let shown = format!("{} ;; {}", scope_shown, text);
      rep.case(&format!("qualified|{}", shown), cq != "first-segment-unbound" || cr != "first-segment-unbound");
      done += 1;
      // a third of the cases goes through all entry points in a child process as well
      if i % 3 == 0 {
        let marked: Vec<String> = texts.iter().map(|t| format!("{}{}", CTX_MARK, t)).collect();
        let refs: Vec<&str> = marked.iter().map(|s| s.as_str()).collect();
        inputs.push(("qualified".into(), scoped_input(&refs, &format!("/*small*/ {}", text))));
      }
      // a fresh scope for parsing and for evaluation
      let observed = located(|| {
        let scope = q_scope(&texts).ok_or_else(|| "scope".to_string())?;
        let node = dmntk_feel_parser::parse_expression(&scope, &text, false).map_err(|e| format!("parse: {}", e))?;
        let scope = q_scope(&texts).ok_or_else(|| "scope".to_string())?;
        dmntk_feel_evaluator::evaluate(&scope, &node).map_err(|e| format!("evaluate: {}", e))
      });
      match observed {
        Err(loc) => {
          let file = loc.split(':').next().unwrap_or("").to_string();
          rep.disagree(Kind::ImplVsSpec, "qualified-names", &format!("panic {} (qualified-names)", file), &shown, &format!("panicked at {}", loc), "a value (null when the name has no value)");
        }
        Ok(Err(e)) => {
          rep.hit(if e.starts_with("parse") { "qualified-names:syntax-error" } else { "qualified-names:evaluation-error" });
        }
        Ok(Ok(val)) => {
          let got = plain(&val);
          rep.hit(&format!("qualified-names:answer={}", if got == "null" { "null" } else { "value" }));
          // written-out expectation where the name resolves to a number
          if let (Some(f), Some(QTree::Num(k))) = (expect, q_resolve(stack, &q)) {
            let want = match pos {
              "Q" => k.to_string(),
              "Q + 1" => (k + 1).to_string(),
              _ => f(v, *k).to_string(),
            };
            rep.hit("qualified-names:resolved-number-judged");
            if got != want {
              rep.disagree(
                Kind::ImplVsSpec,
                "qualified-names",
                &format!("qualified-names: a name that resolves to a number does not denote it in the position {}", pos),
                &shown,
                &got,
                &want,
              );
            }
          }
        }
      }
    }
  }
  rep.extra.insert("qualified_names_cases".into(), json!(done));
}

// ------------------------------------------------------------------------------------------
// family `long-history`: one thread, hundreds of distinct patterns / literals / names
// ------------------------------------------------------------------------------------------

/// The k-th batch of expressions of a history with their written-out values: every text contains the number k, so that
/// patterns, literals, names, keys, function bodies and types of different batches are pairwise different.
fn history_batch(k: u64) -> Vec<(String, String)> {
  let q = |s: String| format!("{:?}", s);
  vec![
    (format!("matches(\"order {k}\", \"^order {k}$\")", k = k), "true".into()),
    (format!("matches(\"order {k}\", \"^order {j}$\")", k = k, j = k + 1), "false".into()),
    (format!("matches(\"ORDER {k}\", \"^order {k}$\", \"i\")", k = k), "true".into()),
    (format!("matches(\"x\\ny{k}\", \"^y{k}$\", \"m\")", k = k), "true".into()),
    (format!("matches(\"a{k}b\", \"a {k} b\", \"x\")", k = k), "true".into()),
    (format!("matches(\"a\\n{k}\", \"a.{k}\", \"s\")", k = k), "true".into()),
    (format!("replace(\"item-{k}-end\", \"-{k}-\", \"+\")", k = k), q("item+end".into())),
    (format!("replace(\"aXb\", \"x\", \"<{k}>\", \"i\")", k = k), q(format!("a<{}>b", k))),
    (format!("replace(\"v{k}v{k}\", \"v({k})\", \"$1w\")", k = k), q(format!("{k}w{k}w", k = k))),
    (format!("split(\"left#{k}#right\", \"#{k}#\")", k = k), "[\"left\", \"right\"]".into()),
    (format!("split(\"p{k}q{k}r\", \"{k}\")", k = k), "[\"p\", \"q\", \"r\"]".into()),
    (format!("contains(\"abc{k}def\", \"c{k}d\")", k = k), "true".into()),
    (format!("substring before(\"abc{k}def\", \"{k}\")", k = k), q("abc".into())),
    (format!("string length(\"{k}\")", k = k), k.to_string().len().to_string()),
    (format!("\"text {k}\" + \"!\"", k = k), q(format!("text {}!", k))),
    (format!("{{name {k}: {k}, r: name {k} + 1}}.r", k = k), (k + 1).to_string()),
    (format!("{{\"key {k}\": {k}}}.key {k}", k = k), k.to_string()),
    (format!("get value({{key{k}: {k}}}, \"key{k}\")", k = k), k.to_string()),
    (format!("({{outer{k}: {{inner{k}: {k}}}}}.outer{k}).inner{k}", k = k), k.to_string()),
    (format!("(function(x{k}) x{k} + {k})(1)", k = k), (k + 1).to_string()),
    (format!("(function(p: number) p)({k})", k = k), k.to_string()),
    (format!("{k} in [{k}..{j}]", k = k, j = k + 1), "true".into()),
    (format!("{k} in (< {k}, > {k})", k = k), "false".into()),
    (format!("{k}.5 + 0.5", k = k), (k + 1).to_string()),
    (format!("{k} instance of number", k = k), "true".into()),
    (format!("{{t{k}: {k}}} instance of context<t{k}: number>", k = k), "true".into()),
    (format!("for i{k} in 1..3 return i{k} * {k}", k = k), format!("[{}, {}, {}]", k, 2 * k, 3 * k)),
    (format!("[{k}, {j}, {m}][item > {k}]", k = k, j = k + 1, m = k + 2), format!("[{}, {}]", k + 1, k + 2)),
    (format!("some e{k} in [{k}] satisfies e{k} = {k}", k = k), "true".into()),
    (format!("duration(\"P{k}D\").days", k = k), k.to_string()),
    (format!("duration(\"P{k}M\").months", k = k), (k % 12).to_string()),
    (format!("duration(\"P{k}M\").years", k = k), (k / 12).to_string()),
    (format!("@\"PT{k}S\".seconds", k = k), (k % 60).to_string()),
    (format!("date(\"{y}-03-04\").year", y = 1000 + k), (1000 + k).to_string()),
    (format!("@\"{y}-03-04\".month", y = 1000 + k), "3".into()),
    (format!("time(\"10:{m:02}:{s:02}\").second", m = (k / 60) % 60, s = k % 60), (k % 60).to_string()),
    (format!("date and time(\"{y}-03-04T05:06:07\").hour", y = 1000 + k), "5".into()),
    (format!("number(\"{k}\", \",\", \".\")", k = k), k.to_string()),
    (format!("string({k})", k = k), q(k.to_string())),
    (format!("if {k} > 0 then \"pos{k}\" else \"neg{k}\"", k = k), q(format!("pos{}", k))),
  ]
}

fn long_history(rep: &mut Report, rng: &mut Rng, thorough: bool) {
  // the history runs on this thread only; every answer is judged by the value written next to the text
  let batches: u64 = if thorough { 3000 } else { 330 };
  let offset = 1 + rng.below(50);
  let mut history: Vec<(String, String)> = vec![];
  for k in 0..batches {
    history.extend(history_batch(offset + k));
  }
  let first_pass = history.len();
  // again, in the same order (everything seen before, long ago), then in a random order, then alternating old and new
  let again: Vec<(String, String)> = history.clone();
  history.extend(again);
  for _ in 0..first_pass {
    let k = rng.below(first_pass as u64) as usize;
    let e = history[k].clone();
    history.push(e);
  }
  for k in 0..(batches / 3) {
    history.extend(history_batch(offset + batches + k));
    history.extend(history_batch(offset + k));
  }
  // one expression with hundreds of distinct patterns / names / literals
  for n in [65usize, 130, 300] {
    let items: Vec<String> = (0..n).map(|i| format!("matches(\"big {i}\", \"^big {i}$\")", i = 7000 + i)).collect();
    history.push((format!("[{}]", items.join(", ")), format!("[{}]", vec!["true"; n].join(", "))));
    let entries: Vec<String> = (0..n).map(|i| format!("entry {i}: {i}", i = 8000 + i)).collect();
    history.push((format!("{{{}}}.entry {}", entries.join(", "), 8000 + n - 1), (8000 + n - 1).to_string()));
    let items: Vec<String> = (0..n).map(|i| format!("replace(\"r{i}\", \"{i}\", \"\")", i = 9000 + i)).collect();
    history.push((format!("[{}]", items.join(", ")), format!("[{}]", vec!["\"r\""; n].join(", "))));
  }
  let scope = Scope::default();
  let mut reported = 0;
  for (i, (text, want)) in history.iter().enumerate() {
    let observed = located(|| {
      let node = dmntk_feel_parser::parse_expression(&scope, text, false).map_err(|e| format!("parse: {}", e))?;
      dmntk_feel_evaluator::evaluate(&scope, &node).map_err(|e| format!("evaluate: {}", e))
    });
    let shown = |text: &str| {
      let t: String = text.chars().take(300).collect();
      format!("evaluation {} of a history of {} evaluations on one thread (history_batch({}..), then again, shuffled, alternating, big expressions; seed-independent texts): {}", i + 1, history.len(), offset, t)
    };
    rep.case(&format!("history|{}|{}", i, text.chars().take(200).collect::<String>()), i > 0);
    let got = match observed {
      Err(loc) => {
        let file = loc.split(':').next().unwrap_or("").to_string();
        rep.hit("long-history:panic");
        if reported < 20 {
          rep.disagree(Kind::ImplVsSpec, "long-history", &format!("panic {} (long-history)", file), &shown(text), &format!("panicked at {}", loc), want);
          reported += 1;
        }
        continue;
      }
      Ok(Err(e)) => format!("error: {}", e),
      Ok(Ok(v)) => plain(&v),
    };
    if &got == want {
      rep.hit("long-history:as-written");
    } else {
      rep.hit("long-history:other-answer");
      if reported < 20 {
        rep.disagree(Kind::ImplVsSpec, "long-history", "long-history: an evaluation late in a single-thread history does not return the written-out value", &shown(text), &got, want);
        reported += 1;
      }
    }
  }
  rep.extra.insert("long_history_evaluations".into(), json!(history.len()));
}

// ------------------------------------------------------------------------------------------
// family `string-index`: the machine-integer / byte index arithmetic of the string built-ins
// ------------------------------------------------------------------------------------------

/// A number written by the generator: sign, integer digits, fraction digits ("" = none). Never negative zero.
#[derive(Clone)]
struct SNum {
  neg: bool,
  mag: u128,
  frac: &'static str,
}

impl SNum {
  fn int(v: i128) -> SNum {
    SNum { neg: v < 0, mag: v.unsigned_abs(), frac: "" }
  }
  fn text(&self) -> String {
    let mut t = String::new();
    if self.neg {
      t.push('-');
    }
    t.push_str(&self.mag.to_string());
    if !self.frac.is_empty() {
      t.push('.');
      t.push_str(self.frac);
    }
    t
  }
  fn integral(&self) -> bool {
    self.frac.chars().all(|c| c == '0')
  }
  /// `FeelNumber::to_isize`: the integral values of `isize`, nothing else.
  fn as_isize(&self) -> Option<i128> {
    if !self.integral() {
      return None;
    }
    let v: i128 = if self.neg { -(self.mag as i128) } else { self.mag as i128 };
    if v >= i64::MIN as i128 && v <= i64::MAX as i128 {
      Some(v)
    } else {
      None
    }
  }
  /// `value < 1`
  fn below_one(&self) -> bool {
    self.neg || self.mag == 0
  }
  /// `trunc().to_usize()` of a value that is at least 1
  fn trunc_usize(&self) -> Option<u128> {
    if self.mag <= u64::MAX as u128 {
      Some(self.mag)
    } else {
      None
    }
  }
}

const SI_ALPHABET: [char; 20] = [
  'a', 'b', 'c', ' ', ',', '\u{E9}', '\u{DF}', '\u{20AC}', '\u{D55C}', '\u{1F600}', '\u{1F40E}', '\u{A0}', '\u{3000}', '\u{80}', '\u{7FF}', '\u{800}', '\u{FFFD}',
  '\u{10000}', '\u{10FFFF}', 'a',
];
/// characters that stand for themselves in a regular expression (and are not white space)
const SI_LITERALS: [char; 12] = ['a', 'b', ',', '\u{E9}', '\u{DF}', '\u{20AC}', '\u{D55C}', '\u{1F600}', '\u{1F40E}', '\u{7FF}', '\u{800}', '\u{10000}'];

fn si_string(rng: &mut Rng, max: u64) -> String {
  let n = rng.below(max + 1);
  (0..n).map(|_| *rng.pick(&SI_ALPHABET)).collect()
}

fn si_literal(rng: &mut Rng) -> String {
  match rng.below(6) {
    0 => {
      // a self-overlapping pattern
      let c = *rng.pick(&SI_LITERALS);
      std::iter::repeat(c).take(2 + rng.below(2) as usize).collect()
    }
    1 | 2 => rng.pick(&SI_LITERALS).to_string(),
    _ => (0..(1 + rng.below(3))).map(|_| *rng.pick(&SI_LITERALS)).collect(),
  }
}

fn si_number(rng: &mut Rng, len: i128) -> SNum {
  let ends: [i128; 30] = [
    0,
    1,
    -1,
    2,
    -2,
    len,
    -len,
    len + 1,
    -(len + 1),
    len - 1,
    -(len - 1),
    i32::MAX as i128,
    i32::MIN as i128,
    u32::MAX as i128,
    u32::MAX as i128 + 1,
    i64::MAX as i128,
    i64::MAX as i128 - 1,
    i64::MAX as i128 + 1,
    i64::MIN as i128,
    i64::MIN as i128 + 1,
    i64::MIN as i128 - 1,
    u64::MAX as i128,
    u64::MAX as i128 - 1,
    u64::MAX as i128 + 1,
    -(u64::MAX as i128),
    1_000_000_000_000_000_000_000_000_000_000,
    -1_000_000_000_000_000_000_000_000_000_000,
    i64::MAX as i128 - len,
    u64::MAX as i128 - len + 1,
    u64::MAX as i128 - len,
  ];
  match rng.below(10) {
    0..=3 => SNum::int(rng.range(-(len as i64) - 2, len as i64 + 2) as i128),
    4..=6 => {
      let v = *rng.pick(&ends);
      SNum::int(if v == 0 && rng.chance(1, 2) { 0 } else { v })
    }
    7 => {
      // an integral value written with a fraction
      let v = rng.range(-(len as i64) - 1, len as i64 + 1) as i128;
      SNum { neg: v < 0, mag: v.unsigned_abs(), frac: *rng.pick(&["0", "00", "000"]) }
    }
    _ => {
      // not an integer
      let mags: [u128; 9] = [0, 1, 2, len.unsigned_abs(), len.unsigned_abs() + 1, i64::MAX as u128, i64::MAX as u128 + 1, u64::MAX as u128, u64::MAX as u128 + 1];
      SNum { neg: rng.chance(1, 3), mag: *rng.pick(&mags), frac: *rng.pick(&["5", "99", "01", "000001", "9999999"]) }
    }
  }
}

struct SCase {
  op: &'static str,
  request: String,
  feel: String,
}

fn si_lit(s: &str) -> String {
  format!("\"{}\"", s)
}

fn gen_string_case(rng: &mut Rng) -> SCase {
  use crate::sexp::Sexp;
  match rng.below(10) {
    0..=4 => {
      let s = si_string(rng, 7);
      let len = s.chars().count() as i128;
      let start = si_number(rng, len);
      let start_atom = start.as_isize().map(|v| v.to_string()).unwrap_or_else(|| "none".to_string());
      let (len_text, len_atom): (Option<String>, String) = match rng.below(12) {
        0 => (None, "toEnd".to_string()),
        1 => (Some("null".to_string()), "toEnd".to_string()),
        2 => (Some(rng.pick(&["\"x\"", "true", "[1]", "@\"P1D\""]).to_string()), "other".to_string()),
        _ => {
          let n = si_number(rng, len);
          let atom = if n.below_one() { "below1".to_string() } else { n.trunc_usize().map(|v| v.to_string()).unwrap_or_else(|| "none".to_string()) };
          (Some(n.text()), atom)
        }
      };
      let feel = match &len_text {
        Some(l) => format!("substring({}, {}, {})", si_lit(&s), start.text(), l),
        None => format!("substring({}, {})", si_lit(&s), start.text()),
      };
      SCase { op: "substring", request: format!("(c05 strindex checked substring {} {} {})", Sexp::str(&s), start_atom, len_atom), feel }
    }
    5 | 6 => {
      let s = si_string(rng, 8);
      let cs: Vec<char> = s.chars().collect();
      let needle: String = match rng.below(8) {
        0 => String::new(),
        1 => s.clone(),
        2 => {
          let mut t = s.clone();
          t.push(*rng.pick(&SI_ALPHABET));
          t
        }
        3 => rng.pick(&SI_ALPHABET).to_string(),
        4 => si_string(rng, 2),
        _ => {
          if cs.is_empty() {
            String::new()
          } else {
            let a = rng.below(cs.len() as u64) as usize;
            let b = a + 1 + rng.below((cs.len() - a).min(3) as u64) as usize;
            cs[a..b.min(cs.len())].iter().collect()
          }
        }
      };
      let (op, name) = if rng.chance(1, 2) { ("before", "substring before") } else { ("after", "substring after") };
      SCase { op, request: format!("(c05 strindex checked {} {} {})", op, Sexp::str(&s), Sexp::str(&needle)), feel: format!("{}({}, {})", name, si_lit(&s), si_lit(&needle)) }
    }
    _ => {
      // a string made of pieces around a delimiter that denotes itself
      let d = if rng.chance(1, 15) { String::new() } else { si_literal(rng) };
      let mut s = String::new();
      for i in 0..rng.below(5) {
        if i > 0 || rng.chance(1, 4) {
          s.push_str(&d);
          if rng.chance(1, 5) {
            s.push_str(&d);
          }
        }
        s.push_str(&si_string(rng, 3));
      }
      if rng.chance(1, 4) {
        s.push_str(&d);
      }
      if rng.chance(1, 2) {
        SCase { op: "split", request: format!("(c05 strindex checked split {} {})", Sexp::str(&s), Sexp::str(&d)), feel: format!("split({}, {})", si_lit(&s), si_lit(&d)) }
      } else {
        let r = si_string(rng, 3);
        SCase {
          op: "replace",
          request: format!("(c05 strindex checked replace {} {} {})", Sexp::str(&s), Sexp::str(&d), Sexp::str(&r)),
          feel: format!("replace({}, {}, {})", si_lit(&s), si_lit(&d), si_lit(&r)),
        }
      }
    }
  }
}

fn string_observed(v: &Value) -> String {
  use crate::sexp::Sexp;
  match v {
    Value::Null(_) => "(ok null)".to_string(),
    Value::String(s) => format!("(ok {})", Sexp::str(s)),
    Value::List(items) => {
      let mut t = "(ok (list".to_string();
      for item in items.as_vec() {
        match item {
          Value::String(s) => {
            t.push(' ');
            t.push_str(&Sexp::str(s).to_string());
          }
          other => t.push_str(&format!(" (other {:?})", other)),
        }
      }
      t.push_str("))");
      t
    }
    other => format!("(other {:?})", other),
  }
}

fn string_index(rep: &mut Report, model: &mut Model, rng: &mut Rng, thorough: bool) {
  let n = if thorough { 80000 } else { 3000 };
  let mut cases: Vec<SCase> = vec![];
  // the ends of the machine types and the boundaries of every character width first
  let four = "a\u{E9}\u{20AC}\u{1F600}";
  let four_s = crate::sexp::Sexp::str(four).to_string();
  let fixed: [(&'static str, String, String); 12] = [
    ("substring", format!("(c05 strindex checked substring {} -9223372036854775808 18446744073709551615)", four_s), format!("substring(\"{}\", -9223372036854775808, 18446744073709551615)", four)),
    ("substring", format!("(c05 strindex checked substring {} 9223372036854775807 toEnd)", four_s), format!("substring(\"{}\", 9223372036854775807)", four)),
    ("substring", format!("(c05 strindex checked substring {} 2 18446744073709551615)", four_s), format!("substring(\"{}\", 2, 18446744073709551615)", four)),
    ("substring", format!("(c05 strindex checked substring {} -4 4)", four_s), format!("substring(\"{}\", -4, 4)", four)),
    ("substring", format!("(c05 strindex checked substring {} -5 1)", four_s), format!("substring(\"{}\", -5, 1)", four)),
    ("substring", format!("(c05 strindex checked substring {} 4 1)", four_s), format!("substring(\"{}\", 4, 1.9)", four)),
    ("substring", format!("(c05 strindex checked substring {} none 1)", four_s), format!("substring(\"{}\", 9223372036854775808, 1)", four)),
    ("substring", "(c05 strindex checked substring (s) 1 toEnd)".to_string(), "substring(\"\", 1)".to_string()),
    ("before", format!("(c05 strindex checked before {} (s 128512))", four_s), format!("substring before(\"{}\", \"\u{1F600}\")", four)),
    ("after", format!("(c05 strindex checked after {} (s 233))", four_s), format!("substring after(\"{}\", \"\u{E9}\")", four)),
    ("split", format!("(c05 strindex checked split {} (s 8364))", four_s), format!("split(\"{}\", \"\u{20AC}\")", four)),
    ("replace", format!("(c05 strindex checked replace {} (s 8364) (s 32))", four_s), format!("replace(\"{}\", \"\u{20AC}\", \" \")", four)),
  ];
  for (op, request, feel) in fixed {
    cases.push(SCase { op, request, feel });
  }
  for _ in 0..n {
    cases.push(gen_string_case(rng));
  }
  let reqs: Vec<String> = cases.iter().map(|c| c.request.clone()).collect();
  let answers = model.ask_batch(&reqs);
  let scope = Scope::default();
  for (c, want) in cases.iter().zip(answers.iter()) {
    crate::util::note_case(&c.feel);
    let got = located(|| dmntk_feel_parser::parse_expression(&scope, &c.feel, false).map(|node| dmntk_feel_evaluator::evaluate(&scope, &node)));
    let shown = format!("{}   [{}]", c.feel, c.request);
    let model_panics = want.starts_with("(panic ");
    rep.case(&format!("strindex|{}", c.request), !want.starts_with("(ok null)"));
    rep.hit(&format!("string-index:op={}", c.op));
    rep.hit(&format!("string-index:model={}", if model_panics { "panic" } else if want.starts_with("(ok null)") { "null" } else { "value" }));
    if want.starts_with("(error") {
      rep.disagree(Kind::ImplVsModel, "string-index", "string-index: the driver rejects a request", &shown, "-", want);
      continue;
    }
    match got {
      Err(loc) => {
        let file = loc.split(':').next().unwrap_or("").to_string();
        // the property forbids the panic, whatever the model says
        rep.disagree(Kind::ImplVsSpec, "string-index", &format!("panic {} (string-index {})", file, c.op), &shown, &format!("panicked at {}", loc), "a value or null");
        if !model_panics {
          rep.disagree(Kind::ImplVsModel, "string-index", &format!("string-index {}: the implementation panics where the model returns", c.op), &shown, &format!("panicked at {}", loc), want);
        }
      }
      Ok(Err(e)) => {
        rep.disagree(Kind::ImplVsModel, "string-index", &format!("string-index {}: the generated expression is not accepted", c.op), &shown, &e.to_string(), want);
      }
      Ok(Ok(Err(e))) => {
        rep.disagree(Kind::ImplVsModel, "string-index", &format!("string-index {}: evaluation is an error", c.op), &shown, &e.to_string(), want);
      }
      Ok(Ok(Ok(v))) => {
        let obs = string_observed(&v);
        if model_panics {
          rep.disagree(Kind::ImplVsModel, "string-index", &format!("string-index {}: the model has a panic site the implementation does not reach", c.op), &shown, &obs, want);
        } else if &obs != want {
          rep.disagree(Kind::ImplVsModel, "string-index", &format!("string-index {}: the value differs from the model", c.op), &shown, &obs, want);
        }
      }
    }
    if rng.chance(1, 400) {
      rep.sample(json!({"family": "string-index", "feel": c.feel, "request": c.request, "model": want}));
    }
  }
}

// ------------------------------------------------------------------------------------------
// family `scope-ops`: the operations of `Scope` against `Dmn.ScopeCell`, at value level
// ------------------------------------------------------------------------------------------

#[derive(Clone, Debug)]
enum SV {
  Num(i64),
  Str(String),
  Null,
  Other,
  Ctx(Vec<(String, SV)>),
  List(Vec<SV>),
}

const SC_NAMES: [&str; 8] = ["a", "b", "c", "d", "Full Name", "x y", "\u{E9}", "n-1"];

fn sv_gen(rng: &mut Rng, depth: u32) -> SV {
  match rng.below(if depth == 0 { 4 } else { 8 }) {
    0 | 1 => SV::Num(rng.range(-3, 9)),
    2 => SV::Str(rng.pick(&["", "x", "a . b"]).to_string()),
    3 => {
      if rng.chance(1, 2) {
        SV::Null
      } else {
        SV::Other
      }
    }
    4 | 5 | 6 => sv_ctx(rng, depth - 1),
    _ => SV::List((0..rng.below(3)).map(|_| sv_gen(rng, depth - 1)).collect()),
  }
}

/// mostly one of three names, so that lookups meet bindings
fn sc_name(rng: &mut Rng) -> String {
  if rng.chance(3, 4) {
    rng.pick(&SC_NAMES[..3]).to_string()
  } else {
    rng.pick(&SC_NAMES).to_string()
  }
}

/// a context with pairwise distinct names
fn sv_ctx(rng: &mut Rng, depth: u32) -> SV {
  let mut es: Vec<(String, SV)> = vec![];
  for _ in 0..rng.below(4) {
    let k = sc_name(rng);
    if es.iter().all(|(n, _)| n != &k) {
      es.push((k, sv_gen(rng, depth)));
    }
  }
  SV::Ctx(es)
}

fn sv_sexp(v: &SV) -> String {
  use crate::sexp::Sexp;
  match v {
    SV::Num(n) => format!("(num {})", n),
    SV::Str(s) => format!("(str {})", Sexp::str(s)),
    SV::Null => "null".to_string(),
    SV::Other => "other".to_string(),
    SV::Ctx(es) => format!("(ctx{})", es.iter().map(|(k, v)| format!(" ({} {})", Sexp::str(k), sv_sexp(v))).collect::<String>()),
    SV::List(vs) => format!("(list{})", vs.iter().map(|v| format!(" {}", sv_sexp(v))).collect::<String>()),
  }
}

fn sv_value(v: &SV) -> Value {
  match v {
    SV::Num(n) => Value::Number(FeelNumber::from_i128(*n as i128)),
    SV::Str(s) => Value::String(s.clone()),
    SV::Null => Value::Null(None),
    SV::Other => Value::Boolean(true),
    SV::Ctx(_) => Value::Context(sv_context(v)),
    SV::List(vs) => Value::List(dmntk_feel::values::Values::new(vs.iter().map(sv_value).collect())),
  }
}

fn sv_context(v: &SV) -> dmntk_feel::context::FeelContext {
  let mut ctx = dmntk_feel::context::FeelContext::default();
  if let SV::Ctx(es) = v {
    for (k, v) in es {
      ctx.set_entry(&Name::from(k.as_str()), sv_value(v));
    }
  }
  ctx
}

/// canonical text of a real value: contexts as maps (entries in the order of their names)
fn canon_value(v: &Value) -> String {
  match v {
    Value::Number(n) => format!("num:{}", n),
    Value::String(s) => format!("str:{:?}", s),
    Value::Null(_) => "null".to_string(),
    Value::Boolean(true) => "other".to_string(),
    Value::Context(c) => canon_context(c),
    Value::List(items) => format!("[{}]", items.as_vec().iter().map(canon_value).collect::<Vec<String>>().join(",")),
    other => format!("unexpected:{:?}", other),
  }
}

fn canon_context(c: &dmntk_feel::context::FeelContext) -> String {
  let mut es: Vec<(String, String)> = c.get_entries().iter().map(|(k, v)| (k.to_string(), canon_value(v))).collect();
  es.sort();
  format!("{{{}}}", es.iter().map(|(k, v)| format!("{:?}={}", k, v)).collect::<Vec<String>>().join(","))
}

/// canonical text of a value in an answer of the model
fn canon_model(x: &crate::sexp::Sexp) -> String {
  if let Some(a) = x.as_atom() {
    return a.to_string();
  }
  let xs = x.as_list().unwrap_or(&[]);
  match xs.first().and_then(|h| h.as_atom()) {
    Some("num") => format!("num:{}", xs.get(1).and_then(|n| n.as_atom()).unwrap_or("?")),
    Some("str") => format!("str:{:?}", xs.get(1).and_then(sexp_text).unwrap_or_default()),
    Some("ctx") => {
      let mut es: Vec<(String, String)> = xs[1..]
        .iter()
        .map(|e| {
          let kv = e.as_list().unwrap_or(&[]);
          (kv.first().and_then(sexp_text).unwrap_or_default(), kv.get(1).map(canon_model).unwrap_or_default())
        })
        .collect();
      es.sort();
      format!("{{{}}}", es.iter().map(|(k, v)| format!("{:?}={}", k, v)).collect::<Vec<String>>().join(","))
    }
    Some("list") => format!("[{}]", xs[1..].iter().map(canon_model).collect::<Vec<String>>().join(",")),
    _ => format!("unexpected:{}", x),
  }
}

/// canonical text of one answer of the model
fn canon_answer(x: &crate::sexp::Sexp) -> String {
  if let Some(a) = x.as_atom() {
    return a.to_string();
  }
  let xs = x.as_list().unwrap_or(&[]);
  match xs.first().and_then(|h| h.as_atom()) {
    Some("ctx") | Some("val") => match xs.get(1) {
      Some(v) if v.as_atom() == Some("none") => "none".to_string(),
      Some(v) => format!("some {}", canon_model(v)),
      None => "?".to_string(),
    },
    Some("keys") => {
      let mut ks: Vec<String> = xs[1..].iter().map(|k| sexp_text(k).unwrap_or_default()).collect();
      ks.sort();
      ks.dedup();
      format!("keys {:?}", ks)
    }
    _ => format!("unexpected:{}", x),
  }
}

#[derive(Clone, Debug)]
enum SOp {
  Push(SV),
  Pop,
  Peek,
  Get(String),
  Deep(Vec<String>),
  Set(String, SV),
  Null(String),
  Keys,
}

fn sop_sexp(op: &SOp) -> String {
  use crate::sexp::Sexp;
  match op {
    SOp::Push(c) => format!("(push {})", sv_sexp(c)),
    SOp::Pop => "(pop)".to_string(),
    SOp::Peek => "(peek)".to_string(),
    SOp::Get(k) => format!("(get {})", Sexp::str(k)),
    SOp::Deep(ks) => format!("(deep{})", ks.iter().map(|k| format!(" {}", Sexp::str(k))).collect::<String>()),
    SOp::Set(k, v) => format!("(set {} {})", Sexp::str(k), sv_sexp(v)),
    SOp::Null(k) => format!("(null {})", Sexp::str(k)),
    SOp::Keys => "(keys)".to_string(),
  }
}

fn sop_name(op: &SOp) -> &'static str {
  match op {
    SOp::Push(_) => "push",
    SOp::Pop => "pop",
    SOp::Peek => "peek",
    SOp::Get(_) => "get_entry",
    SOp::Deep(_) => "search_deep",
    SOp::Set(_, _) => "set_entry",
    SOp::Null(_) => "insert_null",
    SOp::Keys => "flatten_keys",
  }
}

/// what the real scope answers, in the canonical text
fn sop_apply(scope: &Scope, op: &SOp) -> String {
  match op {
    SOp::Push(c) => {
      scope.push(sv_context(c));
      "unit".to_string()
    }
    SOp::Pop => scope.pop().map(|c| format!("some {}", canon_context(&c))).unwrap_or_else(|| "none".to_string()),
    SOp::Peek => format!("some {}", canon_context(&scope.peek())),
    SOp::Get(k) => scope.get_entry(&Name::from(k.as_str())).map(|v| format!("some {}", canon_value(&v))).unwrap_or_else(|| "none".to_string()),
    SOp::Deep(ks) => {
      let names: Vec<Name> = ks.iter().map(|k| Name::from(k.as_str())).collect();
      scope.search_deep(&names).map(|v| format!("some {}", canon_value(&v))).unwrap_or_else(|| "none".to_string())
    }
    SOp::Set(k, v) => {
      scope.set_entry(&Name::from(k.as_str()), sv_value(v));
      "unit".to_string()
    }
    SOp::Null(k) => {
      scope.insert_null(Name::from(k.as_str()));
      "unit".to_string()
    }
    SOp::Keys => {
      let mut ks: Vec<String> = scope.flatten_keys().into_iter().collect();
      ks.sort();
      format!("keys {:?}", ks)
    }
  }
}

fn scope_ops(rep: &mut Report, model: &mut Model, rng: &mut Rng, thorough: bool) {
  let n = if thorough { 20000 } else { 1200 };
  let mut runs: Vec<(bool, Vec<SOp>)> = vec![];
  for _ in 0..n {
    let from_default = rng.chance(2, 3);
    let mut depth: i64 = if from_default { 1 } else { 0 };
    let mut ops: Vec<SOp> = vec![];
    for _ in 0..(3 + rng.below(20)) {
      let name = sc_name(rng);
      let op = match rng.below(17) {
        0 | 1 => {
          depth += 1;
          SOp::Push(sv_ctx(rng, 2))
        }
        2 | 3 => {
          depth = (depth - 1).max(0);
          SOp::Pop
        }
        4 => SOp::Peek,
        5 | 6 | 7 => SOp::Get(name),
        8 | 9 | 10 => SOp::Deep((0..rng.below(4)).map(|_| sc_name(rng)).collect()),
        11 | 12 | 13 => SOp::Set(name, sv_gen(rng, 2)),
        14 => SOp::Null(name),
        _ => SOp::Keys,
      };
      ops.push(op);
    }
    // the whole stack at the end: pop until nothing is left, and once more
    for _ in 0..(depth + 1) {
      ops.push(SOp::Pop);
    }
    ops.push(SOp::Peek);
    runs.push((from_default, ops));
  }
  let reqs: Vec<String> =
    runs.iter().map(|(d, ops)| format!("(c05 scopeops {} ({}))", if *d { "default" } else { "new" }, ops.iter().map(sop_sexp).collect::<Vec<String>>().join(" "))).collect();
  let answers = model.ask_batch(&reqs);
  for (((from_default, ops), req), want) in runs.iter().zip(reqs.iter()).zip(answers.iter()) {
    crate::util::note_case(req);
    let parsed = crate::sexp::Sexp::parse(want);
    let items: Vec<String> = match parsed.as_ref().and_then(|p| p.as_list()) {
      Some(xs) if !want.starts_with("(error") => xs.iter().map(canon_answer).collect(),
      _ => {
        rep.disagree(Kind::ImplVsModel, "scope-ops", "scope-ops: the driver rejects a request", req, "-", want);
        continue;
      }
    };
    let got = located(|| {
      let scope = if *from_default { Scope::default() } else { Scope::new() };
      ops.iter().map(|op| sop_apply(&scope, op)).collect::<Vec<String>>()
    });
    let found = ops.iter().zip(items.iter()).filter(|(op, a)| matches!(op, SOp::Get(_) | SOp::Deep(_)) && a.starts_with("some")).count();
    rep.case(&format!("scopeops|{}", req), found > 0);
    rep.hit(&format!("scope-ops:lookups-found={}", found.min(5)));
    match got {
      Err(loc) => {
        let file = loc.split(':').next().unwrap_or("").to_string();
        rep.disagree(Kind::ImplVsSpec, "scope-ops", &format!("panic {} (scope-ops)", file), req, &format!("panicked at {}", loc), "every operation returns");
      }
      Ok(real) => {
        if items.len() != real.len() {
          rep.disagree(Kind::ImplVsModel, "scope-ops", "scope-ops: the model stops before the end of the sequence", req, &format!("{} answers", real.len()), want);
          continue;
        }
        for (i, ((op, m), r)) in ops.iter().zip(items.iter()).zip(real.iter()).enumerate() {
          rep.hit(&format!("scope-ops:op={}", sop_name(op)));
          if m != r {
            rep.disagree(
              Kind::ImplVsModel,
              "scope-ops",
              &format!("scope-ops {}: the answer differs from the model", sop_name(op)),
              &format!("operation {} ({}) of {}", i, sop_sexp(op), req),
              r,
              m,
            );
            break;
          }
        }
      }
    }
    if rng.chance(1, 600) {
      rep.sample(json!({"family": "scope-ops", "request": req, "model": want}));
    }
  }
}

// ------------------------------------------------------------------------------------------
// family `longest-name`: `parse_longest_name` against the lexer + driver loop models
// ------------------------------------------------------------------------------------------

fn gen_name_text(rng: &mut Rng) -> String {
  let words = [
    "a", "b", "x1", "Full", "Name", "item", "in", "for", "if", "then", "else", "true", "false", "null", "and", "or", "not", "date", "time", "date and time", "duration",
    "between", "instance", "of", "function", "some", "every", "satisfies", "return", "\u{E9}t\u{E9}", "\u{3B1}\u{3B2}", "\u{4E2D}\u{6587}", "_u", "n\u{30A}", "\u{1F40E}", "?x",
    "1", "12ab", "9",
  ];
  let seps = [" ", "  ", "\t", "\n", "\u{A0}", "+", "-", "*", "/", ".", "'", " + ", " - ", " . ", "..", "", "_", "(", ")", "\"", ",", ":", "\u{2028}", "\u{FEFF}"];
  match rng.below(12) {
    0 => String::new(),
    1 => (0..(1 + rng.below(3))).map(|_| *rng.pick(&["+", "-", "*", "/", ".", "'", " ", "(", ")"])).collect(),
    2 => {
      // long, now and then very long (the lexer's model walks the name part by part: kept to a few per run)
      let w = *rng.pick(&words);
      let sep = *rng.pick(&[" ", "+", "-", ".", ""]);
      let mut s = String::new();
      let count = if rng.chance(1, 40) { 150 + rng.below(150) } else { 8 + rng.below(24) };
      for _ in 0..count {
        s.push_str(w);
        s.push_str(sep);
      }
      s
    }
    3 => random_unicode(rng),
    _ => {
      let mut s = String::new();
      if rng.chance(1, 4) {
        s.push_str(*rng.pick(&seps));
      }
      for i in 0..(1 + rng.below(5)) {
        if i > 0 {
          s.push_str(*rng.pick(&seps));
        }
        s.push_str(*rng.pick(&words));
      }
      if rng.chance(1, 4) {
        s.push_str(*rng.pick(&seps));
      }
      s
    }
  }
}

fn longest_name(rep: &mut Report, model: &mut Model, rng: &mut Rng, thorough: bool) {
  let n = if thorough { 40000 } else { 2500 };
  let mut texts: Vec<String> = vec!["a".into(), " Full   Name ".into(), "a+b".into(), "a - b".into(), "in".into(), "date and time".into(), "1a".into(), "(a)".into(), "a.b".into(), "a . b".into()];
  for _ in 0..n {
    texts.push(gen_name_text(rng));
  }
  let reqs: Vec<String> = texts.iter().map(|t| format!("(c05 longestname {})", crate::sexp::Sexp::str(t))).collect();
  let answers = model.ask_batch(&reqs);
  for (text, want) in texts.iter().zip(answers.iter()) {
    crate::util::note_case(text);
    let got = located(|| dmntk_feel_parser::parse_longest_name(text).map(|name| name.to_string()).map_err(|e| e.to_string()));
    let shown: String = format!("parse_longest_name({:?})", text.chars().take(300).collect::<String>());
    let parsed = crate::sexp::Sexp::parse(want);
    let items = parsed.as_ref().and_then(|p| p.as_list()).map(|l| l.to_vec()).unwrap_or_default();
    let tag = items.first().and_then(|h| h.as_atom()).unwrap_or("").to_string();
    rep.case(&format!("longest-name|{}", text), tag == "name");
    let class = if tag == "name" { "name".to_string() } else { want.trim_start_matches("(other ").trim_end_matches(')').to_string() };
    rep.hit(&format!("longest-name:model={}", class));
    match got {
      Err(loc) => {
        let file = loc.split(':').next().unwrap_or("").to_string();
        rep.disagree(Kind::ImplVsSpec, "longest-name", &format!("panic {} (longest-name)", file), &shown, &format!("panicked at {}", loc), "Ok or Err");
      }
      Ok(r) => match tag.as_str() {
        "name" => {
          let expected = items.get(1).and_then(sexp_text).unwrap_or_default();
          match r {
            Ok(name) if name == expected => {}
            Ok(name) => rep.disagree(Kind::ImplVsModel, "longest-name", "longest-name: the name differs from the model", &shown, &format!("Ok({:?})", name), &format!("Ok({:?})", expected)),
            Err(e) => rep.disagree(Kind::ImplVsModel, "longest-name", "longest-name: an error where the model has a name", &shown, &format!("Err({})", e), &format!("Ok({:?})", expected)),
          }
        }
        "other" => {
          // the tokens are not a lone name; where the model's lexer or loop rejects them outright, so must the code
          if (class == "lexerError" || class == "syntaxError") && r.is_ok() {
            rep.disagree(Kind::ImplVsModel, "longest-name", "longest-name: a name where the model rejects the tokens", &shown, &format!("{:?}", r), want);
          }
        }
        _ => rep.disagree(Kind::ImplVsModel, "longest-name", "longest-name: the driver rejects a request", &shown, "-", want),
      },
    }
    if rng.chance(1, 500) {
      rep.sample(json!({"family": "longest-name", "text": text.chars().take(200).collect::<String>(), "model": want}));
    }
  }
}

// ------------------------------------------------------------------------------------------
// family `reentrant`: built-ins invoked while a built-in (or an iteration construct) is running
// ------------------------------------------------------------------------------------------

/// Argument shapes of a built-in invoked inside an ordering function / body: `X` and `Y` stand for the two
/// bound names. Small valid arguments for every kind of built-in (numbers, strings, lists, ranges, temporal
/// values, contexts, functions); a shape that does not fit a built-in gives null, which is an answer too.
const RE_SHAPES: [&str; 34] = [
  "()",
  "(X)",
  "(X, Y)",
  "(X, Y, 1)",
  "(X, Y, X)",
  "([X, Y])",
  "([X, Y], X)",
  "([X, Y], 1)",
  "([X, Y], 1, 1)",
  "([X, Y], [Y, X])",
  "([[X], [Y, X]])",
  "([Y, X], function(p, q) p < q)",
  "([Y, X, Y], function(p, q) string(p) < string(q))",
  "(string(X))",
  "(string(X), string(Y))",
  "(\"abc\", \"b\")",
  "(\"abc\", \"b\", \"c\")",
  "(\"abc\", 1, 1)",
  "(\"1 000,5\", \" \", \",\")",
  "(1.5, 1)",
  "(7, 2)",
  "(true)",
  "([true, false])",
  "(2020, 1, 2)",
  "(\"2020-01-02\")",
  "(\"12:00:00\")",
  "(\"2020-01-02T12:00:00\")",
  "(\"P1D\")",
  "(date(\"2020-01-02\"))",
  "(date(\"2020-01-02\"), date(\"2021-03-04\"))",
  "(1, [1..3])",
  "([1..2], [2..3])",
  "({a: X, b: Y})",
  "({a: X, b: Y}, \"a\")",
];

/// The lists the drivers iterate over / sort, the ordering of their items in FEEL (over `x`, `y`) and the sorted
/// list written out.
const RE_LISTS: [(&str, &str, &str); 3] = [
  ("[3, 1, 2]", "x < y", "[1, 2, 3]"),
  ("[\"b\", \"a\", \"c\"]", "x < y", "[\"a\", \"b\", \"c\"]"),
  ("[[3, 9], [2, 5], [7, 1]]", "x[1] < y[1]", "[[2, 5], [3, 9], [7, 1]]"),
];

/// Drivers: constructs that evaluate a user expression (over `x` and `y`, or `item`) while they run. `BODY` is
/// the user expression, `L` the list, `ORD` the ordering of the items; the value is written next to the text
/// (`SORTED` = the sorted list) and does not depend on what `BODY` returns, only on `BODY` returning.
const RE_DRIVERS: [(&str, &str, &str); 12] = [
  ("sort", "sort(L, function(x, y) if (BODY) = null then ORD else ORD)", "SORTED"),
  ("sort-named", "sort(precedes: function(x, y) if (BODY) = null then ORD else ORD, list: L)", "SORTED"),
  ("sort-in-sort", "sort(L, function(x, y) if sort([y, x, y], function(x, y) if (BODY) = null then ORD else ORD) = null then ORD else ORD)", "SORTED"),
  ("for", "count(for x in L, y in L return BODY)", "9"),
  ("some", "some x in L, y in L satisfies if (BODY) = null then false else false", "false"),
  ("every", "every x in L, y in L satisfies if (BODY) = null then true else true", "true"),
  ("filter", "count(L[if (BODY_ITEM) = null then true else true])", "3"),
  ("function", "(function(x, y) if (BODY) = null then 1 else 1)(L[1], L[2])", "1"),
  ("context-function", "{f: function(x, y) if (BODY) = null then 1 else 1, r: f(L[1], L[2]) + f(L[2], L[3])}.r", "2"),
  ("sort-of-for", "sort(for x in L, y in [L[1]] return if (BODY) = null then x else x, function(x, y) ORD)", "SORTED"),
  ("for-in-sort", "sort(L, function(x, y) if (for i in [x, y] return BODY) = null then ORD else ORD)", "SORTED"),
  ("filter-in-sort", "sort(L, function(x, y) if [x, y][if (BODY_ITEM) = null then true else true] = null then ORD else ORD)", "SORTED"),
];

fn re_fill(template: &str, list: &str, ord: &str, body: &str) -> String {
  let body_item = body.replace('X', "item").replace('Y', "item");
  let body_xy = body.replace('X', "x").replace('Y', "y");
  template.replace('L', list).replace("ORD", ord).replace("BODY_ITEM", &body_item).replace("BODY", &body_xy)
}

fn re_list(items: &[i64]) -> String {
  format!("[{}]", items.iter().map(|n| n.to_string()).collect::<Vec<_>>().join(", "))
}

fn re_lists(items: &[Vec<i64>]) -> String {
  format!("[{}]", items.iter().map(|l| re_list(l)).collect::<Vec<_>>().join(", "))
}

/// `k` lists of 0..=3 numbers, all numbers distinct (1..=60), so that the least items differ.
fn re_gen_lists(rng: &mut Rng, k: usize, pool: &mut Vec<i64>) -> Vec<Vec<i64>> {
  (0..k)
    .map(|_| {
      let m = rng.below(4) as usize;
      (0..m).filter_map(|_| if pool.is_empty() { None } else { Some(pool.swap_remove(rng.below(pool.len() as u64) as usize)) }).collect()
    })
    .collect()
}

/// Nested sorts with their values written out: (sub-family, text, value). The key of a list of numbers is its least
/// item (100 for the empty list), found by sorting it INSIDE the ordering function of the outer sort; the key of
/// a list of lists is the least key of its items, found by sorting it (with the two-level ordering) inside the
/// ordering function of the outermost sort. The expected order is computed here from the numbers generated.
fn re_nested(rng: &mut Rng, rounds: usize) -> Vec<(String, String, String)> {
  let key2 = |v: &str| format!("concatenate(sort({}, function(p, q) p < q), [100])[1]", v);
  let ord2 = format!("function(a, b) {} < {}", key2("a"), key2("b"));
  let key3 = |v: &str| format!("concatenate(sort(concatenate(sort({}, {}), [[]])[1], function(p, q) p < q), [100])[1]", v, ord2);
  let ord3 = format!("function(u, v) {} < {}", key3("u"), key3("v"));
  let k2 = |l: &Vec<i64>| l.iter().copied().min().unwrap_or(100);
  let k3 = |a: &Vec<Vec<i64>>| a.iter().map(k2).min().unwrap_or(100);
  let mut out = vec![];
  for round in 0..rounds {
    // two levels: every outer size 0..=3 (the first rounds: every inner size as well)
    for k in 0..=3usize {
      let mut pool: Vec<i64> = (1..=60).collect();
      let mut lists = re_gen_lists(rng, k, &mut pool);
      if round < 4 {
        for l in lists.iter_mut() {
          l.truncate(round);
          while l.len() < round {
            l.push(pool.pop().unwrap_or(0));
          }
        }
      }
      let mut keys: Vec<i64> = lists.iter().map(k2).collect();
      keys.sort();
      keys.dedup();
      if keys.len() < lists.len() {
        // equal keys (two empty lists): the order among them is not stated; the lists are equal then, except at round 0
        if lists.iter().filter(|l| l.is_empty()).count() != lists.len() - keys.len() + 1 {
          continue;
        }
      }
      let mut sorted = lists.clone();
      sorted.sort_by_key(k2);
      let text = format!("sort({}, {})", re_lists(&lists), ord2);
      out.push(("nested-2".to_string(), text, re_lists(&sorted)));
      // the inner sort alone, on every size
      for l in &lists {
        let mut s = l.clone();
        s.sort();
        out.push(("plain".to_string(), format!("sort({}, function(p, q) p < q)", re_list(l)), re_list(&s)));
        s.reverse();
        out.push(("sort-of-sort".to_string(), format!("sort(sort({}, function(p, q) p < q), function(p, q) p > q)", re_list(l)), re_list(&s)));
      }
    }
    // three levels
    for k in 0..=3usize {
      let mut pool: Vec<i64> = (1..=60).collect();
      let groups: Vec<Vec<Vec<i64>>> = (0..k)
        .map(|_| {
          let n = if round < 4 { round } else { rng.below(4) as usize };
          re_gen_lists(rng, n, &mut pool)
        })
        .collect();
      let mut keys: Vec<i64> = groups.iter().map(k3).collect();
      keys.sort();
      keys.dedup();
      if keys.len() < groups.len() {
        continue;
      }
      // inside a group the lists must have distinct keys too (the ordering of the middle sort)
      if groups.iter().any(|g| {
        let mut ks: Vec<i64> = g.iter().map(k2).collect();
        ks.sort();
        ks.dedup();
        ks.len() < g.len()
      }) {
        continue;
      }
      let mut sorted = groups.clone();
      sorted.sort_by_key(k3);
      let shown = |gs: &Vec<Vec<Vec<i64>>>| format!("[{}]", gs.iter().map(|g| re_lists(g)).collect::<Vec<_>>().join(", "));
      out.push(("nested-3".to_string(), format!("sort({}, {})", shown(&groups), ord3), shown(&sorted)));
    }
  }
  out
}

/// The nested sort `e` (value `v`) inside the bodies of the other constructs, values written out.
fn re_wrapped(e: &str, v: &str) -> Vec<(String, String, String)> {
  vec![
    ("in-for".to_string(), format!("for i in [1, 2] return {}", e), format!("[{}, {}]", v, v)),
    ("in-some".to_string(), format!("some i in [1, 2] satisfies {} = {}", e, v), "true".to_string()),
    ("in-every".to_string(), format!("every i in [1, 2] satisfies {} = {}", e, v), "true".to_string()),
    ("in-filter".to_string(), format!("[1, 2][{} = {}]", e, v), "[1, 2]".to_string()),
    ("in-function".to_string(), format!("(function(i) {})(1)", e), v.to_string()),
    ("in-context-function".to_string(), format!("{{f: function(i) {}, r: [f(1), f(2)]}}.r", e), format!("[{}, {}]", v, v)),
    ("in-ordering-function".to_string(), format!("sort([2, 1], function(m, n) if {} = {} then m < n else m > n)", e, v), "[1, 2]".to_string()),
    ("in-named-sort".to_string(), format!("sort(precedes: function(m, n) if {} = {} then m < n else m > n, list: [2, 3, 1])", e, v), "[1, 2, 3]".to_string()),
    ("in-if".to_string(), format!("if {} = {} then 1 else 2", e, v), "1".to_string()),
    ("in-list".to_string(), format!("[{}, {}]", e, e), format!("[{}, {}]", v, v)),
  ]
}

fn reentrant(rep: &mut Report, model: &mut Model, rng: &mut Rng, thorough: bool) {
  // every name of the regenerated table of built-in names, and the ones read from the source now
  let mut bifs: Vec<String> = crate::sexp::Sexp::parse(&model.ask("(c10 bifnames)"))
    .and_then(|x| x.as_list().map(|l| l.iter().filter_map(sexp_text).collect()))
    .unwrap_or_default();
  for b in bif_names() {
    if !bifs.contains(&b) {
      bifs.push(b);
    }
  }
  rep.extra.insert("reentrant_bif_names".into(), json!(bifs.len()));
  // (sub-family, text, written-out value or "" when only an answer is demanded)
  let mut cases: Vec<(String, String, String)> = vec![];
  // 1. nested sorts, two and three levels, 0..3 items at every level; the same inside other constructs
  let nested = re_nested(rng, if thorough { 400 } else { 24 });
  for (i, (fam, e, v)) in nested.iter().enumerate() {
    cases.push((fam.clone(), e.clone(), v.clone()));
    if fam.starts_with("nested") && (thorough || i % 3 == 0) {
      for (w, text, value) in re_wrapped(e, v) {
        cases.push((format!("{}:{}", fam, w), text, value));
      }
    }
  }
  // 2. recursion through a user function that sorts (an answer is demanded, whatever the evaluator makes of the recursion)
  for n in 0..=3 {
    cases.push((
      "recursive-function".to_string(),
      format!("{{f: function(l, n) if n <= 0 then l else sort(f(l, n - 1), function(x, y) if count(f([y, x], n - 1)) = 2 then x < y else x < y), r: f([3, 1, 2], {})}}.r", n),
      String::new(),
    ));
    cases.push((
      "function-chain".to_string(),
      format!("{{s: function(l) sort(l, function(x, y) x < y), g: function(l, n) if n <= 0 then s(l) else sort(l, function(x, y) s([y, x])[1] = x and s([x, y, {}])[1] = x), r: g([3, 1, 2], {})}}.r", 9 + n, n),
      // the value is demanded where the sorting function is called directly; whether the ordering function inside `g`
      // sees the entry `s` is a matter of closures, not of this property: an answer is demanded there
      if n == 0 { "[1, 2, 3]".to_string() } else { String::new() },
    ));
  }
  // 3. every built-in × every argument shape inside every driver
  for b in &bifs {
    for shape in RE_SHAPES {
      let body = format!("{}{}", b, shape);
      for (li, (list, ord, sorted)) in RE_LISTS.iter().enumerate() {
        let extra = 1 + rng.below(RE_DRIVERS.len() as u64 - 1) as usize;
        for (di, (driver, template, value)) in RE_DRIVERS.iter().enumerate() {
          // quick tier: the ordering function of `sort` always, one more driver by lot; the list of numbers with every driver for `sort` itself
          if !(thorough || di == 0 || di == extra || (b == "sort" && li == 0)) {
            continue;
          }
          cases.push((format!("bif-in-{}", driver), re_fill(template, list, ord, &body), value.replace("SORTED", sorted)));
        }
      }
    }
  }
  let scope = Scope::default();
  let mut reported = 0;
  for (fam, text, want) in &cases {
    let observed = located(|| {
      let node = dmntk_feel_parser::parse_expression(&scope, text, false).map_err(|e| format!("parse: {}", e))?;
      dmntk_feel_evaluator::evaluate(&scope, &node).map_err(|e| format!("evaluate: {}", e))
    });
    rep.case(&format!("reentrant|{}", text), true);
    rep.hit(&format!("reentrant:{}", fam.split(':').next().unwrap_or("")));
    let got = match observed {
      Err(loc) => {
        let file = loc.split(':').next().unwrap_or("").to_string();
        rep.hit("reentrant:panic");
        if reported < 20 {
          rep.disagree(Kind::ImplVsSpec, "reentrant", &format!("panic {} (reentrant)", file), text, &format!("panicked at {}", loc), if want.is_empty() { "a value or an error" } else { want });
          reported += 1;
        }
        continue;
      }
      Ok(Err(e)) => format!("error: {}", e),
      Ok(Ok(v)) => plain(&v),
    };
    if want.is_empty() {
      rep.hit("reentrant:answered");
    } else if &got == want {
      rep.hit("reentrant:as-written");
    } else {
      rep.hit("reentrant:other-answer");
      if reported < 20 {
        let sub = fam.split(':').next().unwrap_or("");
        let sig = if sub.starts_with("bif-in-") { "reentrant: a construct whose body invokes a built-in does not return the written-out value".to_string() } else { format!("reentrant: {} does not return the written-out value", sub) };
        rep.disagree(Kind::ImplVsSpec, "reentrant", &sig, text, &got, want);
        reported += 1;
      }
    }
  }
  rep.extra.insert("reentrant_evaluations".into(), json!(cases.len()));
}
