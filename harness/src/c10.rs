//! C10 — names with spaces and symbols resolve to their bound value (longest match).
//!
//! Implementation under test: the lexer of dmntk-feel-parser (through the hook
//! `verif::tokenize`), `Name::new`, and end to end `parse_expression` + `evaluate` against a
//! scope built programmatically from `(Name, Value)` pairs.
//!
//! Families
//! * `tokens`   impl = model: the whole token stream (type, value text, cursor) of the hook
//!              against `Dmn.Lexer.tokenize` (generated scopes × name occurrences × followers,
//!              whole expressions, random fragments with random lexer flags).
//! * `resolve`  impl ⊨ spec: at a name occurrence the lexer's token is the longest bound name
//!              (`Dmn.Lexer.specResolve`: structural splitter + `Name::new` normalisation) and
//!              the cursor stands just after it.
//! * `evaluate` impl ⊨ spec: `evaluate(parse_expression(scope, e))` equals the value of `e`
//!              with every name occurrence replaced (as the specification resolves it) by the
//!              literal of its bound value, evaluated in an empty scope.
//! * `namenew`  impl = model: `Name::new` against `Dmn.Lexer.nameNew`.
//! * `evaluate-words`     impl ⊨ spec: every `evaluate` text is parsed on the same thread (i) first in a scope that binds
//!              nothing, (ii) then in its own scope (`evaluate`), (iii) then in a scope that binds the *words* of its
//!              names of several parts but none of those names; (iii) must give the value of the text with every word
//!              replaced by its own literal (the specification resolves every word to itself there).
//! * `evaluate-bracketed` impl ⊨ spec: every `evaluate` expression again before / inside / after a construct that brackets
//!              a parsing context (`function ()`, `function (p)`, `for`, `some`, `every`, `{…}`, filter; nested twice);
//!              the expectation is a function of the value the specification gave for the expression alone.
//! * `bif-named` impl ⊨ spec: a bound function / number / context entry / formal parameter / iteration variable named like
//!              every built-in function (`Dmn.Gen.bifNames`, regenerated from feel/src/bif.rs) used as callee
//!              (positional, named) and as operand denotes the bound value; expectations known outright.
//! * `name-char-ranges` impl ⊨ spec: the first, last, just-before and just-after code point of every range of name
//!              characters (tables regenerated from lexer.rs by translate/namechars.py AND the grammar's tables written
//!              out in `Dmn.NameGrammar`), random code points inside and between the ranges: where a name starts,
//!              continues and ends (the hook), and the value of bound and introduced names written with the character
//!              alone, at the start, inside and at the end of a word (expectations known outright).
//! * `declared` impl ⊨ spec: every way a name gets into the scope besides `Name::new`: `parse_longest_name`, the keys of
//!              a context text (`evaluate_context`) and of a context literal, the `name` attributes of a DMN model (input
//!              data, required decision, item component) — every spelling of the declaration × every spelling of the
//!              reference; the declared value must come out.
//! * `flagged`  impl ⊨ spec: bound names of several words / joined by symbols FOLLOWED by an operator, a number, a path or a
//!              keyword, as operands of arithmetic chains (`+ - * / **` with and without blanks, unary minus, parentheses,
//!              the path into a bound context) inside every construct that sets a lexer flag or mode: `between … and`
//!              (14 shapes: both bounds, in if / list / filter / context / for / function, two clauses in a row),
//!              `for / some / every … in` (12 shapes, ranges, two iteration contexts, a variable that continues a bound
//!              name), `instance of` and the type positions (10), unary tests inside an expression (10: intervals in all
//!              bracket spellings, comparison signs, in-lists) and as start symbol (14, evaluated as `input value in
//!              <tests>` the way a decision table does), `function(…)` with typed and untyped parameters and named
//!              arguments (8), plus 8 shapes without a flag; scopes closed under prefixes and operator-joined
//!              combinations, sometimes with a bound name that continues another by an operator and a number
//!              (`base pay-100`). The expectation is written out: the harness resolves every run of name parts by the
//!              longest-match rule (its own walk over the parts the text was made of), computes the arithmetic with
//!              exact rationals and the construct by its FEEL meaning. (Seeded change C10-18.)
//! * `history`  impl ⊨ spec: at the end of the run texts are evaluated again in their own scope (the specification's value
//!              must come out again) and in the scope of another case, on this thread and on a fresh thread (equal).

use crate::model::Model;
use crate::report::{Kind, Report};
use crate::rng::Rng;
use crate::sexp::Sexp;
use crate::util::guarded;
use crate::Cfg;
use dmntk_feel::context::FeelContext;
use dmntk_feel::values::Value;
use dmntk_feel::{FeelNumber, Name, Scope};
use dmntk_feel_parser::VerifTokenType as TT;
use serde_json::json;

const WORDS: [&str; 17] = ["a", "b", "c", "ab", "abc", "x1", "é", "żółw", "日本", "Δx", "n_1", "?q", "Z", "ba", "date", "time", "duration"];
/// words that may only follow another word (they start with a digit / a combining part char)
const LATER_WORDS: [&str; 3] = ["2", "10", "·k"];
const SYMBOLS: [&str; 6] = [".", "/", "-", "'", "+", "*"];
const BLANKS: [&str; 6] = [" ", "  ", "\t", "\n", "\u{00A0}", " \u{2003}"];
const PRIMES: [i128; 8] = [2, 3, 5, 7, 11, 13, 17, 19];

/// Token type code → `Debug` text of the payload-free `TokenValue`.
fn simple_value_name(code: i32) -> Option<&'static str> {
  let table: [(TT, &str); 57] = [
    (TT::YyEof, "YyEof"),
    (TT::YyError, "YyError"),
    (TT::YyUndef, "YyUndef"),
    (TT::StartExpression, "StartExpression"),
    (TT::StartBoxedExpression, "StartBoxedExpression"),
    (TT::StartContext, "StartBoxedExpression"),
    (TT::StartTextualExpression, "StartTextualExpression"),
    (TT::StartTextualExpressions, "StartTextualExpressions"),
    (TT::StartUnaryTests, "StartUnaryTests"),
    (TT::At, "At"),
    (TT::Not, "Not"),
    (TT::Colon, "Colon"),
    (TT::Comma, "Comma"),
    (TT::Every, "Every"),
    (TT::For, "For"),
    (TT::LeftBrace, "LeftBrace"),
    (TT::Null, "Null"),
    (TT::RightArrow, "RightArrow"),
    (TT::Of, "Of"),
    (TT::List, "List"),
    (TT::Range, "Range"),
    (TT::Context, "Context"),
    (TT::Then, "Then"),
    (TT::Function, "Function"),
    (TT::External, "External"),
    (TT::If, "If"),
    (TT::RightBrace, "RightBrace"),
    (TT::RightBracket, "RightBracket"),
    (TT::RightParen, "RightParen"),
    (TT::Return, "Return"),
    (TT::Ellipsis, "Ellipsis"),
    (TT::Some, "Some"),
    (TT::Satisfies, "Satisfies"),
    (TT::Else, "Else"),
    (TT::Or, "Or"),
    (TT::And, "And"),
    (TT::Eq, "Eq"),
    (TT::Nq, "Nq"),
    (TT::Lt, "Lt"),
    (TT::Le, "Le"),
    (TT::Gt, "Gt"),
    (TT::Ge, "Ge"),
    (TT::Between, "Between"),
    (TT::BetweenAnd, "BetweenAnd"),
    (TT::In, "In"),
    (TT::Minus, "Minus"),
    (TT::Plus, "Plus"),
    (TT::Mul, "Mul"),
    (TT::Div, "Div"),
    (TT::Exp, "Exp"),
    (TT::Instance, "Instance"),
    (TT::LeftParen, "LeftParen"),
    (TT::LeftBracket, "LeftBracket"),
    (TT::Dot, "Dot"),
    (TT::Numeric, "#payload"),
    (TT::String, "#payload"),
    (TT::Boolean, "#payload"),
  ];
  table.iter().find(|(t, _)| t.clone() as i32 == code).map(|(_, n)| *n)
}

fn cps_to_string(x: &Sexp) -> Option<String> {
  let xs = x.as_list()?;
  if xs.first()?.as_atom()? != "s" {
    return None;
  }
  let mut s = String::new();
  for c in &xs[1..] {
    s.push(char::from_u32(c.as_atom()?.parse::<u32>().ok()?)?);
  }
  Some(s)
}

fn chr(x: &Sexp) -> Option<char> {
  char::from_u32(x.as_atom()?.parse::<u32>().ok()?)
}

/// One item of the model's answer rendered the way the hook reports it:
/// `(type code, Debug text of the value or error message, Some(position))`;
/// a panic is `(-2, site, None)`.
pub fn model_item(x: &Sexp) -> Option<(i32, String, Option<usize>)> {
  let xs = x.as_list()?;
  match xs.first()?.as_atom()? {
    "tok" => {
      let code: i32 = xs.get(1)?.as_atom()?.parse().ok()?;
      let pos: usize = xs.get(3)?.as_atom()?.parse().ok()?;
      let text = match xs.get(2)? {
        Sexp::Atom(a) if a == "none" => simple_value_name(code)?.to_string(),
        Sexp::List(p) => match p.first()?.as_atom()? {
          "b" => format!("Boolean({})", p.get(1)?.as_atom()?),
          "num" => format!("Numeric({:?}, {:?})", cps_to_string(p.get(1)?)?, cps_to_string(p.get(2)?)?),
          "str" => format!("String({:?})", cps_to_string(p.get(1)?)?),
          "name" => {
            let n = cps_to_string(p.get(1)?)?;
            if code == TT::Name as i32 {
              format!("Name(Name({:?}))", n)
            } else if code == TT::NameDateTime as i32 {
              format!("NameDateTime(Name({:?}))", n)
            } else if code == TT::BuiltInTypeName as i32 {
              format!("BuiltInTypeName(Name({:?}))", n)
            } else {
              return None;
            }
          }
          _ => return None,
        },
        _ => return None,
      };
      Some((code, text, Some(pos)))
    }
    "err" => {
      let kind = xs.get(1)?.as_atom()?;
      let pos: usize = xs.last()?.as_atom()?.parse().ok()?;
      let msg = match kind {
        "unexpectedEof" => "unexpected end of file".to_string(),
        "expectedCharacter" => format!("expected '{}' character but encountered '{}'", chr(xs.get(2)?)?, chr(xs.get(3)?)?),
        "expectedCharacters" => format!("expected '{:?}' characters but encountered '{}'", vec!['u', 'U'], chr(xs.get(2)?)?),
        "expectedHexDigit" => format!("expected hex digit but encountered '{}'", chr(xs.get(2)?)?),
        "unicodeValueOutOfRange" => format!(
          "Unicode value is out of allowed range 0x0000..0x10FFFF : {:X}",
          xs.get(2)?.as_atom()?.parse::<u64>().ok()?
        ),
        "unicodeSurrogateOutOfRange" => format!(
          "UTF-16 surrogate value is out of allowed range 0xD800..0xDFFF : {:X}",
          xs.get(2)?.as_atom()?.parse::<u64>().ok()?
        ),
        "unicodeConversionFailed" => format!(
          "conversion of the value {:X} to Unicode character has failed.",
          xs.get(2)?.as_atom()?.parse::<u64>().ok()?
        ),
        _ => return None,
      };
      Some((-1, format!("LexerError: {}", msg), Some(pos)))
    }
    "panic" => Some((-2, xs.get(1)?.as_atom()?.to_string(), None)),
    "fuelout" => Some((-3, "fuelout".to_string(), None)),
    _ => None,
  }
}

/// Request line for the model's tokenizer.
pub fn tokenize_request(keys: &[String], input: &str, flags: (bool, bool, bool, bool), limit: usize) -> String {
  Sexp::list(vec![
    Sexp::atom("c10"),
    Sexp::atom("tokenize"),
    Sexp::list(vec![Sexp::bool(flags.0), Sexp::bool(flags.1), Sexp::bool(flags.2), Sexp::bool(flags.3)]),
    Sexp::list(keys.iter().map(|k| Sexp::str(k)).collect()),
    Sexp::str(input),
    Sexp::int(limit),
  ])
  .to_string()
}

/// The hook, with a panic of the lexer as an observation.
pub fn impl_tokens(scope: &Scope, input: &str, flags: (bool, bool, bool, bool), limit: usize) -> Result<Vec<(i32, String, usize)>, String> {
  crate::util::note_case(input);
  guarded(|| dmntk_feel_parser::verif::tokenize(scope, TT::StartExpression, input, flags, limit))
}

/// Compares the hook's stream with the model's answer; returns a description of the first
/// difference. A model panic must coincide with a caught panic of the implementation.
pub fn compare_streams(imp: &Result<Vec<(i32, String, usize)>, String>, model_answer: &str) -> Result<(), (String, String, String)> {
  let parsed = Sexp::parse(model_answer).and_then(|s| s.as_list().map(|l| l.to_vec()));
  let items = match parsed {
    Some(items) => items,
    None => return Err(("model answer unreadable".into(), format!("{:?}", imp), model_answer.to_string())),
  };
  let mut model: Vec<(i32, String, Option<usize>)> = vec![];
  for it in &items {
    match model_item(it) {
      Some(m) => model.push(m),
      None => return Err(("model item unreadable".into(), format!("{:?}", imp), model_answer.to_string())),
    }
  }
  let model_panics = model.last().map(|m| m.0 == -2).unwrap_or(false);
  match imp {
    Err(msg) => {
      if model_panics {
        Ok(())
      } else {
        Err(("implementation panics, model does not".into(), format!("panic: {}", msg), format!("{:?}", model)))
      }
    }
    Ok(toks) => {
      if model_panics {
        return Err(("model panics, implementation does not".into(), format!("{:?}", toks), format!("{:?}", model)));
      }
      if model.iter().any(|m| m.0 == -3) {
        return Err(("model ran out of fuel".into(), format!("{:?}", toks), format!("{:?}", model)));
      }
      for (i, t) in toks.iter().enumerate() {
        match model.get(i) {
          None => return Err(("model stream shorter".into(), format!("{:?}", toks), format!("{:?}", model))),
          Some(m) => {
            if m.0 != t.0 {
              return Err(("token type differs".into(), format!("{:?}", t), format!("{:?}", m)));
            }
            if m.1 != t.1 {
              return Err(("token value differs".into(), format!("{:?}", t), format!("{:?}", m)));
            }
            if m.2 != Some(t.2) {
              return Err(("cursor position differs".into(), format!("{:?}", t), format!("{:?}", m)));
            }
          }
        }
      }
      if model.len() != toks.len() {
        return Err(("model stream longer".into(), format!("{:?}", toks), format!("{:?}", model)));
      }
      Ok(())
    }
  }
}

/// A bound name: its parts (words and symbols), its `Name`, its value and the literal text
/// of the value.
#[derive(Clone, Debug)]
pub struct Bound {
  pub parts: Vec<String>,
  pub name: Name,
  pub value: Value,
  pub literal: String,
  /// outside "words joined by symbols": adjacent additional symbols or a trailing one
  pub exotic: bool,
}

/// What is needed to build the same scope on another thread: (parts, literal of the value, parts of the extra key
/// of `zlist`'s later item).
type Plain = (Vec<String>, String, Vec<String>);

fn plain_of(bound: &[Bound], local0: &[String]) -> Vec<Plain> {
  bound.iter().map(|b| (b.parts.clone(), b.literal.clone(), if b.literal == "zlist" { local0.to_vec() } else { vec![] })).collect()
}

fn name_of(parts: &[String]) -> Name {
  Name::new(&parts.iter().map(|s| s.as_str()).collect::<Vec<&str>>())
}

fn zlist_value(local0: &Name) -> Value {
  let mut first = FeelContext::default();
  first.set_entry(&Name::from("fld"), Value::Number(FeelNumber::from_i128(1)));
  let mut second = FeelContext::default();
  second.set_entry(&Name::from("fld"), Value::Number(FeelNumber::from_i128(2)));
  second.set_entry(local0, Value::Number(FeelNumber::from_i128(3)));
  Value::List(dmntk_feel::values::Values::new(vec![Value::Context(first), Value::Context(second)]))
}

/// The value a literal text denotes: numbers directly, everything else (context and function literals) by
/// evaluating the literal in a scope that binds nothing.
fn value_of_literal(literal: &str, aux: &[String]) -> Value {
  if literal == "zlist" {
    return zlist_value(&name_of(aux));
  }
  if let Ok(n) = literal.parse::<i128>() {
    return Value::Number(FeelNumber::from_i128(n));
  }
  let s = Scope::default();
  match guarded(|| dmntk_feel_parser::parse_expression(&s, literal, false).and_then(|n| dmntk_feel_evaluator::evaluate(&s, &n))) {
    Ok(Ok(v)) => v,
    _ => Value::Null(None),
  }
}

fn scope_of_plain(plain: &[Plain]) -> Scope {
  let scope = Scope::default();
  for (parts, literal, aux) in plain {
    scope.set_entry(&name_of(parts), value_of_literal(literal, aux));
  }
  scope
}

/// `evaluate(parse_expression(scope, text))` on a thread that has parsed nothing before.
fn fresh_thread_eval(plain: &[Plain], text: &str) -> String {
  let plain = plain.to_vec();
  let text = text.to_string();
  crate::util::beat();
  match std::thread::spawn(move || eval_text(&scope_of_plain(&plain), &text)).join() {
    Ok(s) => s,
    Err(_) => "panic: thread".to_string(),
  }
}

/// `ok` / `parse-error` / `panic` of `parse_expression` alone.
fn parse_status(scope: &Scope, text: &str) -> &'static str {
  crate::util::note_case(text);
  match guarded(|| dmntk_feel_parser::parse_expression(scope, text, false).is_ok()) {
    Ok(true) => "ok",
    Ok(false) => "parse-error",
    Err(_) => "panic",
  }
}

/// The specification's answer `(some name len)` read back.
fn spec_some(a: &str) -> Option<(String, usize)> {
  let spec = Sexp::parse(a)?;
  let l = spec.as_list()?;
  if l.first()?.as_atom()? == "some" {
    Some((cps_to_string(l.get(1)?)?, l.get(2)?.as_atom()?.parse::<usize>().ok()?))
  } else {
    None
  }
}

fn resolve_request(names: &[String], rest: &str) -> String {
  Sexp::list(vec![Sexp::atom("c10"), Sexp::atom("resolve"), Sexp::list(names.iter().map(|k| Sexp::str(k)).collect()), Sexp::str(rest)]).to_string()
}

/// Values of the words of a name when they are bound one by one (scope (iii) of a case).
const WORD_VALUES: [i128; 14] = [23, 29, 31, 37, 41, 43, 47, 53, 59, 61, 67, 71, 73, 79];

/// The same text in a scope that binds the *words* of the chosen names, each to a number of its own, and none of
/// the names of several parts.
struct PartsCase {
  words: Vec<(String, i128)>,
  /// char offset and text of every word occurrence
  word_starts: Vec<(usize, String)>,
  /// the text with every word replaced by the literal of its value
  expected_text: String,
  impl_value: String,
}

fn parts_case(text: &str, n_parts: &[(usize, String)]) -> Option<PartsCase> {
  // `a.b` with `a` bound to a number is a path into a number; outside of what the literal substitution can say
  if n_parts.iter().any(|(_, p)| p == ".") {
    return None;
  }
  let mut words: Vec<(String, i128)> = vec![];
  for (_, p) in n_parts {
    if !is_symbol(p) && !LATER_WORDS.contains(&p.as_str()) && !words.iter().any(|(w, _)| w == p) {
      if words.len() == WORD_VALUES.len() {
        return None;
      }
      words.push((p.clone(), WORD_VALUES[words.len()]));
    }
  }
  let chars: Vec<char> = text.chars().collect();
  let mut expected_text = String::new();
  let mut word_starts = vec![];
  let mut cursor = 0usize;
  for (off, p) in n_parts {
    if let Some((_, v)) = words.iter().find(|(w, _)| w == p) {
      expected_text.extend(chars[cursor..*off].iter());
      expected_text.push_str(&v.to_string());
      cursor = off + p.chars().count();
      word_starts.push((*off, p.clone()));
    }
  }
  expected_text.extend(chars[cursor..].iter());
  let scope = Scope::default();
  for (w, v) in &words {
    scope.set_entry(&Name::from(w.as_str()), Value::Number(FeelNumber::from_i128(*v)));
  }
  let impl_value = eval_text(&scope, text);
  Some(PartsCase { words, word_starts, expected_text, impl_value })
}

/// How the value of a wrapped expression follows from the value `v` of the expression.
#[derive(Clone, Copy)]
enum Expect {
  /// `v`
  Same,
  /// the format with `{}` replaced by `v`
  Fmt(&'static str),
  /// the wrapper compares the expression with the literal of `v` (`{}` in prefix / suffix): the fixed value
  Eq(&'static str),
}

/// A construct that makes the parser push and pop a parsing context (`function`, `for`, `some`, `every`, `{…}`) or
/// the evaluator a local one (filter), placed before, around and after an expression that uses bound names.
struct Wrapper {
  name: &'static str,
  prefix: &'static str,
  suffix: &'static str,
  expect: Expect,
}

fn wrappers() -> Vec<Wrapper> {
  use Expect::*;
  let w = |name, prefix, suffix, expect| Wrapper { name, prefix, suffix, expect };
  vec![
    // the bound names are used AFTER the construct has been closed
    w("after function()", "[function () 12, ", "][2]", Same),
    w("after function() invoked", "[(function () 12)(), ", "]", Fmt("[12, {}]")),
    w("after function(p)", "[(function (w9) w9 + 1)(11), ", "]", Fmt("[12, {}]")),
    w("after function(p: T, q: T)", "[(function (w9: number, w8: number) w9 + w8)(5, 7), ", "]", Fmt("[12, {}]")),
    w("after for", "[for w9 in [12] return w9, ", "]", Fmt("[[12], {}]")),
    w("after some", "[some w9 in [12] satisfies w9 = 12, ", "]", Fmt("[true, {}]")),
    w("after every", "[every w9 in [12] satisfies w9 = 1, ", "]", Fmt("[false, {}]")),
    w("after context", "[{w9: 12}.w9, ", "]", Fmt("[12, {}]")),
    w("after context of two entries", "[{w9: 1, w8: w9 + 11}.w8, ", "]", Fmt("[12, {}]")),
    w("after filter", "[[12, 13, 1][item > 1], ", "]", Fmt("[[12, 13], {}]")),
    w("after function() in condition", "if (function () true)() then (", ") else 0", Same),
    // … INSIDE the construct
    w("inside function()", "(function () ", ")()", Same),
    w("inside function(p)", "(function (w9) ", ")(1)", Same),
    w("inside for", "for w9 in [1] return ", "", Fmt("[{}]")),
    w("inside some", "some w9 in [1] satisfies (", ") = {}", Eq("true")),
    w("inside every", "every w9 in [1, 2] satisfies (", ") = {}", Eq("true")),
    w("inside context", "{w9: ", "}.w9", Same),
    w("inside context, second entry", "{w8: 1, w9: ", "}.w9", Same),
    w("inside filter", "[0, 0][(", ") = {}]", Eq("[0, 0]")),
    // … BEFORE the construct
    w("before function()", "[", ", (function () 12)()]", Fmt("[{}, 12]")),
    w("before for", "[", ", for w9 in [12] return w9]", Fmt("[{}, [12]]")),
    w("before context", "[", ", {w9: 12}.w9]", Fmt("[{}, 12]")),
    w("between function() and function()", "[(function () 1)(), ", ", (function () 2)()]", Fmt("[1, {}, 2]")),
    // nested twice
    w("after function() in function()", "[(function () (function () 12)())(), ", "]", Fmt("[12, {}]")),
    w("inside function() in function()", "(function () (function () ", ")())()", Same),
    w("after function() in context", "[{w9: function () 12, w8: w9()}.w8, ", "]", Fmt("[12, {}]")),
    w("after function() in for", "[for w9 in [12] return (function () w9)(), ", "]", Fmt("[[12], {}]")),
    w("inside for in function()", "(function () for w9 in [1] return ", ")()", Fmt("[{}]")),
    w("inside context in context", "{w9: {w8: ", "}.w8}.w9", Same),
    w("inside for in for", "for w9 in [1] return for w8 in [2] return ", "", Fmt("[[{}]]")),
    w("after some in every", "[every w9 in [1] satisfies some w8 in [1] satisfies w8 = w9, ", "]", Fmt("[true, {}]")),
    w("after function(), context and for", "[(function () 1)(), {w9: 2}.w9, for w8 in [3] return w8, ", "]", Fmt("[1, 2, [3], {}]")),
    w("inside filter in filter", "[0, 0][[true, true][(", ") = {}][1]]", Eq("[0, 0]")),
    w("after function() in function(p)", "[(function (w9) (function () w9)())(12), ", "]", Fmt("[12, {}]")),
  ]
}

/// A value text that can be written back as a literal: numbers, booleans, null and lists of them.
fn writable(v: &str) -> bool {
  !v.is_empty() && v != "null" && !v.contains("null") && v.chars().all(|c| c.is_ascii_digit() || "-.[], ".contains(c)) || v == "true" || v == "false"
}

fn is_symbol(p: &str) -> bool {
  SYMBOLS.contains(&p)
}

fn gen_parts(rng: &mut Rng) -> Vec<String> {
  let n_words = 1 + rng.below(4) as usize;
  let mut parts = vec![rng.pick(&WORDS).to_string()];
  for _ in 1..n_words {
    if rng.chance(2, 5) {
      parts.push(rng.pick(&SYMBOLS).to_string());
      parts.push(rng.pick(&WORDS).to_string());
    } else if rng.chance(1, 6) {
      parts.push(rng.pick(&LATER_WORDS).to_string());
    } else {
      parts.push(rng.pick(&WORDS).to_string());
    }
  }
  parts
}

/// 1..6 bound names, closed (with some probability) under "prefix of" and
/// "operator-joined combination of".
pub fn gen_bound(rng: &mut Rng, exotic: bool) -> Vec<Bound> {
  let target = 1 + rng.below(6) as usize;
  let mut sets: Vec<Vec<String>> = vec![];
  let mut push = |sets: &mut Vec<Vec<String>>, p: Vec<String>| {
    let n = Name::new(&p.iter().map(|s| s.as_str()).collect::<Vec<&str>>());
    if !p.is_empty() && !sets.iter().any(|q| Name::new(&q.iter().map(|s| s.as_str()).collect::<Vec<&str>>()) == n) {
      sets.push(p);
    }
  };
  let mut guard = 0;
  while sets.len() < target && guard < 50 {
    guard += 1;
    let choice = rng.below(10);
    if sets.is_empty() || choice < 4 {
      push(&mut sets, gen_parts(rng));
    } else if choice < 6 {
      // a prefix (ending on a word) of an existing name
      let p = rng.pick(&sets).clone();
      let mut k = 1 + rng.below(p.len() as u64) as usize;
      while k > 1 && is_symbol(&p[k - 1]) {
        k -= 1;
      }
      push(&mut sets, p[..k].to_vec());
    } else if choice < 8 {
      // two existing names joined by a symbol
      let a = rng.pick(&sets).clone();
      let b = rng.pick(&sets).clone();
      if !LATER_WORDS.contains(&b[0].as_str()) {
        let mut p = a;
        p.push(rng.pick(&SYMBOLS).to_string());
        p.extend(b);
        if p.len() <= 9 {
          push(&mut sets, p);
        }
      }
    } else if choice < 9 {
      // two existing names side by side
      let a = rng.pick(&sets).clone();
      let b = rng.pick(&sets).clone();
      let mut p = a;
      p.extend(b);
      if p.len() <= 9 {
        push(&mut sets, p);
      }
    } else {
      // the single words of an existing name
      let p = rng.pick(&sets).clone();
      for w in p {
        if !is_symbol(&w) && !LATER_WORDS.contains(&w.as_str()) {
          push(&mut sets, vec![w]);
        }
      }
    }
  }
  if exotic {
    // names outside "words joined by symbols": adjacent symbols, trailing symbol
    let mut p = gen_parts(rng);
    if rng.chance(1, 2) {
      p.push(rng.pick(&SYMBOLS).to_string());
    } else {
      p.push(rng.pick(&SYMBOLS).to_string());
      p.push(rng.pick(&SYMBOLS).to_string());
      p.push(rng.pick(&WORDS).to_string());
    }
    push(&mut sets, p);
  }
  sets.truncate(7);
  sets
    .into_iter()
    .enumerate()
    .map(|(i, parts)| {
      let name = Name::new(&parts.iter().map(|s| s.as_str()).collect::<Vec<&str>>());
      let n = PRIMES[i % PRIMES.len()];
      let exotic = parts.last().map(|p| is_symbol(p)).unwrap_or(false) || parts.windows(2).any(|w| is_symbol(&w[0]) && is_symbol(&w[1]));
      Bound {
        exotic,
        parts,
        name,
        value: Value::Number(FeelNumber::from_i128(n)),
        literal: format!("{}", n),
      }
    })
    .collect()
}

/// A literal number in the place of a bound name.
fn lit_bound(n: i128) -> Bound {
  Bound { parts: vec![], name: Name::from("w0"), value: Value::Number(FeelNumber::from_i128(n)), literal: n.to_string(), exotic: false }
}

pub fn scope_of(bound: &[Bound]) -> Scope {
  let scope = Scope::default();
  for b in bound {
    scope.set_entry(&b.name, b.value.clone());
  }
  scope
}

pub fn sorted_keys(scope: &Scope) -> Vec<String> {
  let mut keys: Vec<String> = scope.flatten_keys().into_iter().collect();
  keys.sort();
  keys
}

/// One way of writing the name: blanks between words, optional blanks around symbols.
pub fn render(rng: &mut Rng, parts: &[String]) -> String {
  render_off(rng, parts).0
}

/// `render` together with the character offset (inside the rendered text) at which every part starts.
pub fn render_off(rng: &mut Rng, parts: &[String]) -> (String, Vec<usize>) {
  let mut s = String::new();
  let mut offsets = vec![];
  for (i, p) in parts.iter().enumerate() {
    if i > 0 {
      let around_symbol = is_symbol(p) || is_symbol(&parts[i - 1]);
      if around_symbol {
        match rng.below(4) {
          0 => s.push(' '),
          1 => s.push_str(*rng.pick(&BLANKS)),
          _ => {}
        }
      } else if rng.chance(3, 4) {
        s.push(' ');
      } else {
        s.push_str(*rng.pick(&BLANKS));
      }
    }
    offsets.push(s.chars().count());
    s.push_str(p);
  }
  (s, offsets)
}

fn canon(v: &Value) -> String {
  match v {
    Value::Null(_) => "null".to_string(),
    Value::List(items) => format!("[{}]", items.as_vec().iter().map(canon).collect::<Vec<String>>().join(", ")),
    other => other.to_string(),
  }
}

fn eval_text(scope: &Scope, text: &str) -> String {
  crate::util::note_case(text);
  match guarded(|| match dmntk_feel_parser::parse_expression(scope, text, false) {
    Ok(node) => match dmntk_feel_evaluator::evaluate(scope, &node) {
      Ok(v) => canon(&v),
      Err(e) => format!("evaluate-error: {}", e),
    },
    Err(e) => format!("parse-error: {}", e),
  }) {
    Ok(s) => s,
    Err(p) => format!("panic: {}", p),
  }
}

/// A piece of an expression template.
#[derive(Clone, Debug)]
#[allow(dead_code)]
enum Piece {
  T(&'static str),
  /// occurrence of the i-th chosen bound name
  N(usize),
  /// binding site / occurrence of the j-th local name
  L(usize),
  /// occurrence of the scope's context-valued bound name (value `{fld: 2}`)
  C,
  /// binding site / inner occurrence of a local name that shadows the i-th chosen bound name
  S(usize),
  /// the j-th local name in its canonical spelling (inside a string literal used as a context key)
  Q(usize),
  /// the bound name `zlist`: a list of contexts whose *later* item has the 0-th local name as a key
  Z,
}

use Piece::{C, L, N, Q, S, T, Z};

fn templates() -> Vec<(&'static str, Vec<Piece>)> {
  vec![
    ("operand", vec![N(0)]),
    ("operand", vec![N(0), T(" + 1")]),
    ("operand", vec![T("1 + "), N(0)]),
    ("operand", vec![N(0), T("+1")]),
    ("operand", vec![N(0), T(" - 1")]),
    ("operand", vec![N(0), T("-1")]),
    ("operand", vec![N(0), T(" * 2")]),
    ("operand", vec![N(0), T("/2")]),
    ("operand", vec![N(0), T(" ** 2")]),
    ("operand", vec![T("-"), N(0)]),
    ("operand", vec![T("("), N(0), T(")")]),
    ("operator-joined", vec![N(0), T("+"), N(1)]),
    ("operator-joined", vec![N(0), T(" + "), N(1)]),
    ("operator-joined", vec![N(0), T("-"), N(1)]),
    ("operator-joined", vec![N(0), T(" - "), N(1)]),
    ("operator-joined", vec![N(0), T("*"), N(1)]),
    ("operator-joined", vec![N(0), T(" * "), N(1)]),
    ("operator-joined", vec![N(0), T("/"), N(1)]),
    ("operator-joined", vec![N(0), T(" / "), N(1)]),
    ("operator-joined", vec![N(0), T(" -"), N(1), T("+ "), N(2)]),
    ("side-by-side", vec![T("["), N(0), T(", "), N(1), T("]")]),
    ("comparison", vec![N(0), T(" < "), N(1)]),
    ("comparison", vec![N(0), T("="), N(1)]),
    ("comparison", vec![N(0), T(" != "), N(1)]),
    ("argument", vec![T("abs("), N(0), T(")")]),
    ("argument", vec![T("max("), N(0), T(", "), N(1), T(")")]),
    ("argument", vec![T("sum(["), N(0), T(","), N(1), T("])")]),
    ("argument", vec![T("decimal(n: "), N(0), T(", scale: 1)")]),
    ("if", vec![T("if "), N(0), T(" > 0 then "), N(1), T(" else "), N(2)]),
    ("if", vec![T("if "), N(0), T(" < 0 then "), N(1), T(" else "), N(2)]),
    ("if", vec![T("if "), N(0), T(" = "), N(0), T(" then "), N(1), T(" else 0")]),
    ("for", vec![T("for i in ["), N(0), T(", "), N(1), T("] return i + "), N(2)]),
    ("for", vec![T("for i in 1.."), N(0), T(" return "), N(1)]),
    ("for-local", vec![T("for "), L(0), T(" in [1, 2] return "), L(0), T(" + "), N(0)]),
    ("for-local", vec![T("for "), L(0), T(" in ["), N(0), T("] return "), L(0), T(" * 2")]),
    ("some", vec![T("some i in [1, "), N(0), T("] satisfies i = "), N(0)]),
    ("every", vec![T("every i in ["), N(0), T("] satisfies i > "), N(1)]),
    ("some-local", vec![T("some "), L(0), T(" in [1, 2] satisfies "), L(0), T(" = "), N(0), T(" - "), N(0), T(" + 2")]),
    ("filter", vec![T("[1, 2, 3, 5, 7, 11, 13][item > "), N(0), T("]")]),
    ("filter", vec![T("["), N(0), T(", "), N(1), T("][1]")]),
    ("filter", vec![T("["), N(0), T(", "), N(1), T("][item = "), N(1), T("]")]),
    ("context-entry", vec![T("{k: "), N(0), T("}.k")]),
    ("context-entry", vec![T("{k: "), N(0), T(", j: k + "), N(1), T("}.j")]),
    ("context-local", vec![T("{"), L(0), T(": "), N(0), T(", j: "), L(0), T(" + 1}.j")]),
    ("context-local", vec![T("{"), L(0), T(": 1, "), L(1), T(": "), L(0), T(" + "), N(0), T("}."), L(1)]),
    ("followed-by-in", vec![N(0), T(" in ["), N(0), T(", 1]")]),
    ("followed-by-in", vec![N(0), T(" in (1.."), N(1), T(")")]),
    ("followed-by-between", vec![N(0), T(" between 1 and "), N(1)]),
    ("followed-by-between", vec![N(0), T(" between "), N(1), T(" and "), N(2)]),
    ("followed-by-bracket", vec![T("["), N(0), T("]["), T("1]")]),
    ("instance-of", vec![N(0), T(" instance of number")]),
    ("conjunction", vec![N(0), T(" > 0 and "), N(1), T(" > 0")]),
    ("disjunction", vec![N(0), T(" < 0 or "), N(1), T(" > 0")]),
    ("path-head", vec![T("{p: "), N(0), T("}.p")]),
    ("path-head", vec![C, T(".fld")]),
    ("path-head", vec![T("("), C, T(" . fld) + "), N(0)]),
    ("path-head", vec![N(0), T(" * "), C, T(".fld")]),
    ("path-head", vec![T("["), C, T("][1].fld")]),
    // a local name shadows a bound name; the bound name is used again after the inner construct has ended
    ("shadow-for", vec![T("sum(for "), S(0), T(" in [1, 2] return "), S(0), T(" * 2) + "), N(0), T(" * 3")]),
    ("shadow-for", vec![T("(for "), S(0), T(" in [1, 2] return "), S(0), T(")[1] + "), N(0), T("-1")]),
    ("shadow-for", vec![T("["), N(0), T(" + 1, sum(for "), S(0), T(" in [5] return "), S(0), T("), "), N(0), T(" + 2, "), N(1), T(" - 1]")]),
    ("shadow-some", vec![T("if (some "), S(0), T(" in [1, 2] satisfies "), S(0), T(" > 1) then "), N(0), T(" + 1 else 0")]),
    ("shadow-every", vec![T("if (every "), S(0), T(" in [1, 2] satisfies "), S(0), T(" > 0) then "), N(0), T(" * 2 else 0")]),
    ("shadow-function", vec![T("(function("), S(0), T(") "), S(0), T(" + 1)(5) + "), N(0), T(" * 3")]),
    ("shadow-function", vec![T("{f: function("), S(0), T(": number, "), S(1), T(") "), S(0), T(" + "), S(1), T(", r: f(1, 2) + "), N(0), T(" - "), N(1), T(" + 1}.r")]),
    ("shadow-context", vec![T("{k: {"), S(0), T(": 1, j: "), S(0), T(" + 1}.j, m: "), N(0), T(" * 3}.m")]),
    ("shadow-context", vec![T("{k: {"), S(0), T(": 1}, m: "), N(0), T(" + 1}.m")]),
    ("shadow-nested", vec![T("sum(for "), S(0), T(" in [1, 2] return sum(for "), S(1), T(" in [3] return "), S(1), T(" + "), S(0), T(") + "), S(0), T(" * 2) + "), N(0), T(" * 3 + "), N(1), T(" - 1")]),
    // a context key written as a string literal is a name for the entries that follow
    ("string-key", vec![T("{\""), Q(0), T("\": "), N(0), T(", j: "), L(0), T(" * 2}.j")]),
    ("string-key", vec![T("{\""), Q(0), T("\": 1, \""), Q(1), T("\": "), L(0), T(" + 1, j: "), L(1), T(" - "), L(0), T("}.j")]),
    // an entry bound to null shadows an outer binding of the same name
    ("null-shadow", vec![T("{"), S(0), T(": null, j: "), S(0), T("}.j")]),
    ("null-shadow", vec![T("[{"), S(0), T(": null, j: "), S(0), T("}.j, "), N(0), T(" + 1]")]),
    // a name used after an indexed filter over contexts that have it as a key still is the outer binding
    ("filter-then-name", vec![T("([{"), S(0), T(": 1}, {"), S(0), T(": 2}][2]."), S(0), T(") + "), N(0)]),
    ("filter-then-name", vec![T("[[{"), S(0), T(": 1}, {"), S(0), T(": 2}][1]."), S(0), T(", "), N(0), T(" - 1]")]),
    // the keys of every item of a list of contexts in the scope are names (not only those of the first item)
    ("list-item-key", vec![Z, T("["), L(0), T(" - 1 > 0].fld")]),
    // parameters declared in one order, arguments named in the other: each name resolves to its own argument
    ("function-named-args", vec![T("(function("), L(1), T(", "), L(0), T(") ["), L(1), T(", "), L(0), T("])("), L(0), T(": 1, "), L(1), T(": 2)")]),
    ("function-named-args", vec![T("(function("), L(0), T(", "), L(1), T(") ["), L(1), T(", "), L(0), T("])("), L(1), T(": 2, "), L(0), T(": 1)")]),
    // a bound list of contexts as the head of a path: the path, not an (unbound) name `zlist.fld`
    ("list-path-head", vec![Z, T(".fld")]),
    ("list-path-head", vec![T("sum("), Z, T(" . fld) + count("), Z, T(".fld)")]),
    ("list-item-key", vec![T("(for e in "), Z, T(" return e.fld)[2] + "), Z, T("["), L(0), T(" * 2 > 0].fld")]),
    ("comment", vec![N(0), T(" /* c */ + "), N(1)]),
    ("comment", vec![N(0), T(" /* c */ /* d */ // e\n /* f */ + "), N(1)]),
    ("comment", vec![T("/* a */ /* b */ "), N(0), T(" /* c *//* d */")]),
    ("comment", vec![N(0), T(" // c\n + "), N(1)]),
  ]
}

const LOCALS: [&[&str]; 6] = [&["i"], &["j", "k"], &["t", "-", "u"], &["row", "no"], &["j", "2"], &["ü", "/", "w"]];

pub fn run(cfg: &Cfg) -> Report {
  let mut rep = Report::new(
    "C10",
    "a case is non-trivial when the input contains a name occurrence with at least two parts (a space or an additional symbol inside the name) or when at least two bound names compete (one is a prefix / operator-joined combination of another); trivial = single-word name in a scope without competing names",
  );
  let mut rng = Rng::new(cfg.seed);
  let mut model = Model::start(&cfg.driver);
  let thorough = cfg.tier == "thorough";
  let n_scopes = if thorough { 60000 } else { 1200 };
  let templates = templates();

  // ---------------------------------------------------------------- corpus (always first)
  let mut corpus: Vec<(Vec<Vec<&str>>, &str, (bool, bool, bool, bool))> = vec![
    (vec![], "for in+x in [1] return 1", (false, false, false, false)),
    (vec![], "in+x in [1]", (false, false, false, true)),
    (vec![], "in", (false, false, false, true)),
    (vec![vec!["a"], vec!["b"], vec!["a", "-", "b"]], "a - b+a-b * a", (false, false, false, false)),
    (vec![vec!["a"], vec!["a", "b"]], "a  b c", (false, false, false, false)),
    (vec![vec!["a", "+", "-", "b"]], "a+-b + 1", (false, false, false, false)),
    (vec![vec!["a", "+"]], "a+ (1)", (false, false, false, false)),
    (vec![vec!["item"], vec!["item", "x"]], "item x", (false, false, false, false)),
    (vec![], "date and time(\"2021-01-01T00:00:00\") date: time : duration", (false, false, true, false)),
    (vec![], "\"\\uD83D\\uDE4F\" \"\\uD83D\\uDC0E\" \"\\U01F40E\" \"\\u00e9\\n\" \"\\uD83D\" \"\\uDC0E\" \"\\uZ\" \"", (false, false, false, false)),
    (vec![], "not (1) and 2 between 1 and 3 // x\n /* y */ .5 1.5. 1..2 **->", (true, true, false, false)),
  ];
  corpus.push((vec![vec!["x", "y"]], "x   y in [1]", (false, false, false, true)));

  struct TokCase {
    input: String,
    keys: Vec<String>,
    flags: (bool, bool, bool, bool),
    imp: Result<Vec<(i32, String, usize)>, String>,
    nontrivial: bool,
    family: &'static str,
  }
  let mut tok_cases: Vec<TokCase> = vec![];
  for (names, input, flags) in &corpus {
    let scope = Scope::default();
    for p in names {
      scope.set_entry(&Name::new(p), Value::Number(FeelNumber::from_i128(1)));
    }
    let keys = sorted_keys(&scope);
    let imp = impl_tokens(&scope, input, *flags, 200);
    tok_cases.push(TokCase { input: input.to_string(), keys, flags: *flags, imp, nontrivial: true, family: "corpus" });
  }

  // ---------------------------------------------------------------- generated scopes
  struct ResolveCase {
    input: String,
    bound: Vec<String>,
    imp: Result<Vec<(i32, String, usize)>, String>,
    nontrivial: bool,
    exotic: bool,
    exotic_names: Vec<String>,
  }
  struct EvalCase {
    text: String,
    all_bound: Vec<Bound>,
    /// (start, end) char offsets of every name occurrence, in order
    occurrences: Vec<(usize, usize)>,
    locals: Vec<Vec<String>>,
    /// per occurrence: the identifier that replaces it when it is a shadowing local
    forced: Vec<Option<(String, String)>>,
    family: &'static str,
    impl_value: String,
    nontrivial: bool,
    exotic: bool,
    /// the same text in the scope of the words (parsed after the parse in the case's own scope)
    parts: Option<PartsCase>,
    /// index of the wrapper this case is repeated with
    wrapper: usize,
    local0: Vec<String>,
  }
  let wrappers = wrappers();
  let mut resolve_cases: Vec<ResolveCase> = vec![];
  let mut eval_cases: Vec<EvalCase> = vec![];
  let followers = ["", " ", " in [1]", " between 1 and 2", "[1]", "(1)", ".x", " . x", " + 1", "+1", "-1", " - 1", "*2", "/2", "'", ")", " then 1", " else 1", ", 1", ": 1", " 1", " q", "..3", " instance of number", "}", "]", " = 1", "<1", " and true", "\n"];

  // regression witnesses of F19 (repaired by b9aabe3; always run): a bound name with adjacent additional symbols,
  // one with a trailing symbol, each followed by ` + 1`
  for parts in [vec!["a", "+", "-", "b"], vec!["a", "+"]] {
    let parts: Vec<String> = parts.iter().map(|s| s.to_string()).collect();
    let name = Name::new(&parts.iter().map(|s| s.as_str()).collect::<Vec<&str>>());
    let b = Bound { parts: parts.clone(), name, value: Value::Number(FeelNumber::from_i128(2)), literal: "2".into(), exotic: true };
    let occ = parts.concat();
    let text = format!("{} + 1", occ);
    let impl_value = eval_text(&scope_of(&[b.clone()]), &text);
    eval_cases.push(EvalCase { text, all_bound: vec![b], occurrences: vec![(0, occ.chars().count())], locals: vec![], forced: vec![None], family: "operand", impl_value, nontrivial: true, exotic: true, parts: None, wrapper: 0, local0: vec![] });
  }

  for si in 0..n_scopes {
    let exotic = si % 10 == 9;
    let mut bound = gen_bound(&mut rng, exotic);
    if si % 3 == 0 {
      // a context-valued bound name (flatten_keys then also has `fld` and `<name> . fld`)
      let parts = gen_parts(&mut rng);
      let name = Name::new(&parts.iter().map(|s| s.as_str()).collect::<Vec<&str>>());
      if !bound.iter().any(|b| b.name == name) {
        let mut ctx = FeelContext::default();
        ctx.set_entry(&Name::from("fld"), Value::Number(FeelNumber::from_i128(2)));
        bound.push(Bound { parts, name, value: Value::Context(ctx), literal: "{fld: 2}".into(), exotic: false });
      }
    }
    let scope = scope_of(&bound);
    let keys = sorted_keys(&scope);
    let competing = bound.iter().any(|a| bound.iter().any(|b| a.parts.len() < b.parts.len() && b.parts[..a.parts.len()] == a.parts[..]));
    rep.hit(&format!("scope:names={}", bound.len()));
    if competing {
      rep.hit("scope:has-prefix-competition");
    }
    if exotic {
      rep.hit("scope:exotic(adjacent/trailing symbol)");
    }
    let bound_texts: Vec<String> = bound.iter().map(|b| b.name.to_string()).collect();
    let exotic_names: Vec<String> = bound.iter().filter(|b| b.exotic).map(|b| b.name.to_string()).collect();

    // (1) single occurrences with followers: token stream + resolution
    for _ in 0..6 {
      let b = rng.pick(&bound).clone();
      let follower = *rng.pick(&followers);
      let lead = if rng.chance(1, 5) { " " } else { "" };
      let input = format!("{}{}{}", lead, render(&mut rng, &b.parts), follower);
      let flags = if rng.chance(1, 8) { (rng.chance(1, 2), rng.chance(1, 2), rng.chance(1, 2), rng.chance(1, 2)) } else { (false, false, false, false) };
      let imp = impl_tokens(&scope, &input, flags, 200);
      let nontrivial = b.parts.len() > 1 || competing;
      rep.hit(&format!("occurrence:parts={}", b.parts.len()));
      rep.hit(&format!("follower:{:?}", follower));
      if flags == (false, false, false, false) && lead.is_empty() {
        resolve_cases.push(ResolveCase { input: input.clone(), bound: bound_texts.clone(), imp: imp.clone(), nontrivial, exotic: b.exotic, exotic_names: exotic_names.clone() });
      }
      tok_cases.push(TokCase { input, keys: keys.clone(), flags, imp, nontrivial, family: "occurrence" });
    }

    // (2) whole expressions: evaluation + token stream
    for _ in 0..4 {
      let numeric: Vec<Bound> = bound.iter().filter(|b| matches!(b.value, Value::Number(_))).cloned().collect();
      let ctx_bound: Option<Bound> = bound.iter().find(|b| matches!(b.value, Value::Context(_))).cloned();
      let (family, tpl) = loop {
        let t = rng.pick(&templates).clone();
        if ctx_bound.is_some() || !t.1.iter().any(|p| matches!(p, C)) {
          break t;
        }
      };
      let mut chosen: Vec<Bound> = (0..3).map(|_| rng.pick(&numeric).clone()).collect();
      if tpl.iter().any(|p| matches!(p, S(1))) {
        // two shadowing locals must be different names
        match numeric.iter().find(|b| b.name != chosen[0].name) {
          Some(other) if chosen[1].name == chosen[0].name => chosen[1] = other.clone(),
          Some(_) => {}
          None => continue,
        }
      }
      let mut locals: Vec<Vec<String>> = vec![];
      let l0 = rng.below(LOCALS.len() as u64) as usize;
      locals.push(LOCALS[l0].iter().map(|s| s.to_string()).collect());
      locals.push(LOCALS[(l0 + 1 + rng.below(LOCALS.len() as u64 - 1) as usize) % LOCALS.len()].iter().map(|s| s.to_string()).collect());
      let mut text = String::new();
      let mut occurrences = vec![];
      let mut forced: Vec<Option<(String, String)>> = vec![];
      let mut multi = false;
      // (char offset, part) of every part of every occurrence of a chosen bound name
      let mut n_parts: Vec<(usize, String)> = vec![];
      let tn_only = tpl.iter().all(|p| matches!(p, T(_) | N(_)));
      for piece in &tpl {
        match piece {
          T(t) => text.push_str(t),
          N(i) => {
            let start = text.chars().count();
            multi |= chosen[*i].parts.len() > 1;
            let (r, offs) = render_off(&mut rng, &chosen[*i].parts);
            for (o, p) in offs.iter().zip(chosen[*i].parts.iter()) {
              n_parts.push((start + o, p.clone()));
            }
            text.push_str(&r);
            occurrences.push((start, text.chars().count()));
            forced.push(None);
          }
          S(i) => {
            let start = text.chars().count();
            multi |= chosen[*i].parts.len() > 1;
            text.push_str(&render(&mut rng, &chosen[*i].parts));
            occurrences.push((start, text.chars().count()));
            forced.push(Some((format!("w{}", i), chosen[*i].name.to_string())));
          }
          C => {
            let cb = ctx_bound.as_ref().unwrap();
            let start = text.chars().count();
            multi |= cb.parts.len() > 1;
            text.push_str(&render(&mut rng, &cb.parts));
            occurrences.push((start, text.chars().count()));
            forced.push(None);
          }
          L(j) => {
            let start = text.chars().count();
            multi = true;
            text.push_str(&render(&mut rng, &locals[*j]));
            occurrences.push((start, text.chars().count()));
            forced.push(None);
          }
          Q(j) => {
            let start = text.chars().count();
            multi = true;
            text.push_str(&Name::new(&locals[*j].iter().map(|s| s.as_str()).collect::<Vec<&str>>()).to_string());
            occurrences.push((start, text.chars().count()));
            forced.push(None);
          }
          Z => {
            let start = text.chars().count();
            text.push_str("zlist");
            occurrences.push((start, text.chars().count()));
            forced.push(None);
          }
        }
      }
      // `zlist`: bound in this case's scope only; its later item carries the 0-th local name as a key
      let mut bound = bound.clone();
      let (mut scope, mut keys) = (scope_of(&bound), keys.clone());
      if tpl.iter().any(|p| matches!(p, Z)) {
        let local0 = Name::new(&locals[0].iter().map(|s| s.as_str()).collect::<Vec<&str>>());
        if bound.iter().any(|b| b.name.to_string() == "zlist" || b.name == local0) {
          continue;
        }
        let value = zlist_value(&local0);
        // in the expected text the name stays (a literal list would hide its keys from the lexer); the expected
        // text is evaluated in a scope that binds `zlist` to the same list with the key renamed to `v0`
        bound.push(Bound { parts: vec!["zlist".into()], name: Name::from("zlist"), value, literal: "zlist".into(), exotic: false });
        scope = scope_of(&bound);
        keys = sorted_keys(&scope);
      }
      // The tree is a function of (scope, text): the same text is parsed on this thread (i) first in a scope that
      // binds nothing, (ii) then in its own scope, (iii) then in a scope that binds the words of its names of
      // several parts but not those names; (ii) and (iii) are each judged by the specification for THAT scope.
      rep.hit(&format!("sequence:(i) scope that binds nothing: parse {}", parse_status(&Scope::default(), &text)));
      // a fresh scope per evaluation: a failed parse leaves its pushed contexts in the scope
      let impl_value = eval_text(&scope_of(&bound), &text);
      let parts = if tn_only && multi { parts_case(&text, &n_parts) } else { None };
      rep.hit(if parts.is_some() { "sequence:(iii) scope of the words: explored" } else { "sequence:(iii) scope of the words: not applicable" });
      let wrapper = rng.below(wrappers.len() as u64) as usize;
      rep.hit(&format!("position:{}", family));
      let imp = impl_tokens(&scope, &text, (false, false, false, false), 400);
      tok_cases.push(TokCase { input: text.clone(), keys: keys.clone(), flags: (false, false, false, false), imp, nontrivial: multi || competing, family: "expression" });
      let exotic_case = chosen.iter().any(|b| b.exotic);
      let local0 = locals[0].clone();
      eval_cases.push(EvalCase { text, all_bound: bound.clone(), occurrences, locals, forced, family, impl_value, nontrivial: multi || competing, exotic: exotic_case, parts, wrapper, local0 });
    }

    // (3) a random fragment over the lexer's alphabet, random flags
    if si % 2 == 0 {
      let alphabet: Vec<String> = {
        let mut a: Vec<String> = vec![
          " ", " ", "\t", "\n", "+", "-", "*", "/", "'", ".", "..", "**", "(", ")", "[", "]", "{", "}", ",", ":", "=", "!=", "<", "<=", ">", ">=", "->", "@", "\"", "\\", "\\u00e9",
          "\\uD83D\\uDE4F", "\\U01F40E", "\\n", "//", "/*", "*/", "1", "23", "4.5", ".", "#", "%", "if", "then", "else", "for", "in", "return", "some", "every", "satisfies", "and", "or",
          "not", "true", "false", "null", "function", "external", "instance", "of", "between", "item", "date", "time", "date and time", "duration", "list", "range", "context", "number",
          "years and months duration", "\u{00A0}", "\u{FEFF}", "\u{200B}", "\u{200C}", "é", "𝒳", "\u{0300}", "\u{B7}",
        ]
        .iter()
        .map(|s| s.to_string())
        .collect();
        for b in &bound {
          a.extend(b.parts.iter().cloned());
        }
        a
      };
      let n = 1 + rng.below(14) as usize;
      let mut input = String::new();
      for _ in 0..n {
        input.push_str(rng.pick(&alphabet).as_str());
        if rng.chance(1, 3) {
          input.push(' ');
        }
      }
      let flags = (rng.chance(1, 4), rng.chance(1, 4), rng.chance(1, 4), rng.chance(1, 4));
      let imp = impl_tokens(&scope, &input, flags, 200);
      tok_cases.push(TokCase { input, keys: keys.clone(), flags, imp, nontrivial: true, family: "fragment" });
    }
  }

  // ---------------------------------------------------------------- tokens: impl = model
  let reqs: Vec<String> = tok_cases.iter().map(|c| tokenize_request(&c.keys, &c.input, c.flags, if c.family == "expression" { 400 } else { 200 })).collect();
  let answers = model.ask_batch(&reqs);
  for (c, a) in tok_cases.iter().zip(answers.iter()) {
    rep.case(&format!("tokens|{:?}|{:?}|{}", c.keys, c.flags, c.input), c.nontrivial);
    rep.hit(&format!("tokens:{}", c.family));
    match &c.imp {
      Err(_) => rep.hit("tokens:impl-panic"),
      Ok(t) => {
        if t.last().map(|x| x.0 == -1).unwrap_or(false) {
          rep.hit("tokens:lexer-error");
        }
      }
    }
    if let Err((what, imp, exp)) = compare_streams(&c.imp, a) {
      rep.disagree(
        Kind::ImplVsModel,
        "tokens",
        &format!("lexer token stream: {}", what),
        &format!("keys={:?} flags={:?} input={:?}", c.keys, c.flags, c.input),
        &imp,
        &exp,
      );
    }
    if rep.samples.len() < 4 && c.family != "corpus" {
      rep.sample(json!({"family": "tokens", "request": tokenize_request(&c.keys, &c.input, c.flags, 200), "model": a, "implementation": format!("{:?}", c.imp)}));
    }
  }

  // ---------------------------------------------------------------- resolve: impl ⊨ spec
  let reqs: Vec<String> = resolve_cases
    .iter()
    .map(|c| Sexp::list(vec![Sexp::atom("c10"), Sexp::atom("resolve"), Sexp::list(c.bound.iter().map(|k| Sexp::str(k)).collect()), Sexp::str(&c.input)]).to_string())
    .collect();
  let answers = model.ask_batch(&reqs);
  for (c, a) in resolve_cases.iter().zip(answers.iter()) {
    rep.case(&format!("resolve|{:?}|{}", c.bound, c.input), c.nontrivial);
    let spec = Sexp::parse(a);
    let expected = spec.as_ref().and_then(|s| s.as_list()).and_then(|l| {
      if l.first()?.as_atom()? == "some" {
        Some((cps_to_string(l.get(1)?)?, l.get(2)?.as_atom()?.parse::<usize>().ok()?))
      } else {
        None
      }
    });
    let (name, len) = match expected {
      Some(x) => x,
      None => {
        rep.hit("resolve:spec-none");
        continue;
      }
    };
    rep.hit("resolve:checked");
    let got = match &c.imp {
      Ok(t) if t.len() >= 2 => format!("{:?}", t[1]),
      other => format!("{:?}", other),
    };
    let want = format!("{:?}", (TT::Name as i32, format!("Name(Name({:?}))", name), len));
    if got != want {
      let sig = if c.exotic || c.exotic_names.contains(&name) {
        "longest bound name not chosen (name with adjacent or trailing additional symbols)"
      } else {
        "longest bound name not chosen at a name occurrence"
      };
      rep.disagree(Kind::ImplVsSpec, "resolve", sig, &format!("bound={:?} input={:?}", c.bound, c.input), &got, &want);
    }
    if rep.samples.len() < 8 {
      rep.sample(json!({"family": "resolve", "bound": c.bound, "input": c.input, "spec": a, "implementation": got}));
    }
  }

  // ---------------------------------------------------------------- evaluate: impl ⊨ spec
  // Every occurrence is resolved by the specification against (bound names ∪ local names);
  // the occurrence's range is replaced by the literal of the bound value (or by a fresh plain
  // identifier for a local name); the result is evaluated in an empty scope.
  let mut reqs = vec![];
  for c in &eval_cases {
    let chars: Vec<char> = c.text.chars().collect();
    let mut names: Vec<String> = c.all_bound.iter().map(|b| b.name.to_string()).collect();
    for l in &c.locals {
      names.push(Name::new(&l.iter().map(|s| s.as_str()).collect::<Vec<&str>>()).to_string());
    }
    for (start, _) in &c.occurrences {
      let rest: String = chars[*start..].iter().collect();
      reqs.push(Sexp::list(vec![Sexp::atom("c10"), Sexp::atom("resolve"), Sexp::list(names.iter().map(|k| Sexp::str(k)).collect()), Sexp::str(&rest)]).to_string());
    }
  }
  let answers = model.ask_batch(&reqs);
  let mut ai = 0;
  // (index of the case, its value) of every case that was judged and found right
  let mut judged: Vec<(usize, String)> = vec![];
  for (ci, c) in eval_cases.iter().enumerate() {
    rep.case(&format!("evaluate|{:?}|{}", c.all_bound.iter().map(|b| b.name.to_string()).collect::<Vec<String>>(), c.text), c.nontrivial);
    let chars: Vec<char> = c.text.chars().collect();
    let mut expected_text = String::new();
    let mut cursor = 0usize;
    let mut ok = true;
    let mut resolved = vec![];
    let mut partial = false;
    for (oi, (start, _)) in c.occurrences.iter().enumerate() {
      let a = &answers[ai];
      ai += 1;
      if *start < cursor || !ok {
        continue; // inside a longer match
      }
      let spec = Sexp::parse(a);
      let r = spec.as_ref().and_then(|s| s.as_list()).and_then(|l| {
        if l.first()?.as_atom()? == "some" {
          Some((cps_to_string(l.get(1)?)?, l.get(2)?.as_atom()?.parse::<usize>().ok()?))
        } else {
          None
        }
      });
      match r {
        None => ok = false,
        Some((name, len)) => {
          expected_text.extend(chars[cursor..*start].iter());
          if let Some((id, _)) = c.forced[oi].as_ref().filter(|(_, local)| *local == name) {
            // a shadowing local: same text as a bound name, replaced by a fresh identifier (only when the
            // occurrence resolves to that name: a longer bound name that starts here wins over the local)
            expected_text.push_str(id);
          } else if let Some(b) = c.all_bound.iter().find(|b| b.name.to_string() == name) {
            expected_text.push_str(&b.literal);
          } else if let Some(j) = c.locals.iter().position(|l| Name::new(&l.iter().map(|s| s.as_str()).collect::<Vec<&str>>()).to_string() == name) {
            expected_text.push_str(&format!("v{}", j));
          } else {
            ok = false;
          }
          resolved.push(name);
          cursor = start + len;
          if !c.occurrences.iter().any(|(_, e)| *e == cursor) {
            // the longest match ends inside a later occurrence: the rest of that occurrence is
            // not a recorded name start; such a case is not judged
            partial = true;
          }
        }
      }
    }
    if !ok {
      rep.hit("evaluate:spec-none");
      continue;
    }
    if partial {
      rep.hit("evaluate:not-judged(match ends inside a later occurrence)");
      continue;
    }
    expected_text.extend(chars[cursor..].iter());
    let expected = if c.all_bound.iter().any(|b| b.literal == "zlist") {
      let mut first = FeelContext::default();
      first.set_entry(&Name::from("fld"), Value::Number(FeelNumber::from_i128(1)));
      let mut second = FeelContext::default();
      second.set_entry(&Name::from("fld"), Value::Number(FeelNumber::from_i128(2)));
      second.set_entry(&Name::from("v0"), Value::Number(FeelNumber::from_i128(3)));
      let mut ctx = FeelContext::default();
      ctx.set_entry(&Name::from("zlist"), Value::List(dmntk_feel::values::Values::new(vec![Value::Context(first), Value::Context(second)])));
      let s: Scope = ctx.into();
      // what these two templates denote is known outright (the later item is the only one with the key, its
      // value 3 satisfies both filters): the expectation does not go through the implementation's own
      // treatment of list items
      let _ = eval_text(&s, &expected_text);
      if c.text == "zlist.fld" {
        "[1, 2]".to_string()
      } else if c.text.starts_with("sum(zlist") {
        "5".to_string()
      } else if c.text.starts_with("zlist[") {
        "2".to_string()
      } else {
        "4".to_string()
      }
    } else if c.family == "function-named-args" {
      // known outright: the list of the second and the first parameter's arguments
      let _ = eval_text(&Scope::default(), &expected_text);
      "[2, 1]".to_string()
    } else {
      eval_text(&Scope::default(), &expected_text)
    };
    rep.hit("evaluate:checked");
    if expected == "null" || expected.starts_with("parse-error") {
      rep.hit("evaluate:expected-null-or-error");
    }
    let bound_text = format!("{:?}", c.all_bound.iter().map(|b| (b.name.to_string(), b.literal.clone())).collect::<Vec<_>>());
    let plain = plain_of(&c.all_bound, &c.local0);
    if expected != c.impl_value {
      let involves_exotic = c.exotic || c.all_bound.iter().any(|b| b.exotic && resolved.contains(&b.name.to_string()));
      // the same (scope, text) on a thread that has parsed nothing: when that is right, the answer depended on history
      let fresh = fresh_thread_eval(&plain, &c.text);
      let sig = if fresh == expected {
        "the value of a text depends on the scopes the same text was parsed in before on the thread (own scope after a scope that binds nothing)".to_string()
      } else if involves_exotic {
        "bound name does not evaluate to its bound value (scope with a name with adjacent or trailing additional symbols)".to_string()
      } else {
        format!("bound name does not evaluate to its bound value: position {}", c.family)
      };
      rep.disagree(
        Kind::ImplVsSpec,
        "evaluate",
        &sig,
        &format!("bound={} expression={:?} (parsed before on the same thread in a scope that binds nothing)", bound_text, c.text),
        &c.impl_value,
        &format!("{} (value of {:?}; occurrences resolve to {:?}; on a fresh thread: {})", expected, expected_text, resolved, fresh),
      );
    } else {
      judged.push((ci, expected.clone()));
    }

    // -------- (iii) the same text where only the words are bound
    if let Some(pc) = &c.parts {
      let names3: Vec<String> = pc.words.iter().map(|(w, _)| w.clone()).collect();
      let reqs: Vec<String> = pc.word_starts.iter().map(|(off, _)| resolve_request(&names3, &chars[*off..].iter().collect::<String>())).collect();
      let answers3 = model.ask_batch(&reqs);
      let spec_agrees = pc.word_starts.iter().zip(answers3.iter()).all(|((_, w), a)| spec_some(a) == Some((w.clone(), w.chars().count())));
      rep.case(&format!("evaluate-words|{:?}|{}", pc.words, c.text), true);
      if !spec_agrees {
        rep.hit("evaluate-words:not-judged(specification resolves a word differently)");
      } else {
        let expected3 = eval_text(&Scope::default(), &pc.expected_text);
        rep.hit("evaluate-words:checked");
        let agree = if expected3.starts_with("parse-error") {
          rep.hit("evaluate-words:expected-parse-error");
          pc.impl_value.starts_with("parse-error")
        } else {
          expected3 == pc.impl_value
        };
        if !agree {
          let plain3: Vec<Plain> = pc.words.iter().map(|(w, v)| (vec![w.clone()], v.to_string(), vec![])).collect();
          let fresh = fresh_thread_eval(&plain3, &c.text);
          let fresh_agrees = if expected3.starts_with("parse-error") { fresh.starts_with("parse-error") } else { fresh == expected3 };
          let sig = if fresh_agrees {
            "the value of a text depends on the scopes the same text was parsed in before on the thread (scope of the words after the scope of the names)".to_string()
          } else {
            format!("words bound one by one do not evaluate to their own values: position {}", c.family)
          };
          rep.disagree(
            Kind::ImplVsSpec,
            "evaluate-words",
            &sig,
            &format!("bound={:?} expression={:?} (parsed before on the same thread with bound={})", pc.words, c.text, bound_text),
            &pc.impl_value,
            &format!("{} (value of {:?}; on a fresh thread: {})", expected3, pc.expected_text, fresh),
          );
        }
      }
    }

    // -------- the same expression before / inside / after a construct that brackets a parsing context
    if !(expected.starts_with("parse-error") || expected.starts_with("evaluate-error") || expected.starts_with("panic")) && expected == c.impl_value {
      let mut wi = c.wrapper;
      if matches!(wrappers[wi].expect, Expect::Eq(_)) && !writable(&expected) {
        wi = (wi + 7) % wrappers.len();
        while matches!(wrappers[wi].expect, Expect::Eq(_)) {
          wi = (wi + 1) % wrappers.len();
        }
      }
      let w = &wrappers[wi];
      let wrapped = format!("{}{}{}", w.prefix.replace("{}", &expected), c.text, w.suffix.replace("{}", &expected));
      let want = match w.expect {
        Expect::Same => expected.clone(),
        Expect::Fmt(f) => f.replace("{}", &expected),
        Expect::Eq(v) => v.to_string(),
      };
      let got = eval_text(&scope_of_plain(&plain), &wrapped);
      rep.case(&format!("evaluate-bracketed|{}|{}", bound_text, wrapped), c.nontrivial);
      rep.hit(&format!("bracket:{}", w.name));
      if got != want {
        rep.disagree(
          Kind::ImplVsSpec,
          "evaluate-bracketed",
          &format!("bound name does not evaluate to its bound value when the expression stands {}", w.name),
          &format!("bound={} expression={:?}", bound_text, wrapped),
          &got,
          &format!("{} (the value of {:?} alone is {})", want, c.text, expected),
        );
      }
    }
    if rep.samples.len() < 12 {
      rep.sample(json!({"family": "evaluate", "bound": c.all_bound.iter().map(|b| (b.name.to_string(), b.literal.clone())).collect::<Vec<_>>(),
        "expression": c.text, "implementation": c.impl_value, "specification": expected, "substituted": expected_text}));
    }
  }

  // ---------------------------------------------------------------- built-in names: impl ⊨ spec
  // A bound name resolves to its bound value also when the name is the name of a built-in function: the bound value
  // has priority wherever the name stands (callee of a positional or a named invocation, operand). The names come
  // from the table regenerated from feel/src/bif.rs (`Bif::from_str`); the expectations are known outright
  // (the bound function is `function (p, q) 1000 + p * 10 + q`, the bound number is 7).
  let bif_names: Vec<String> = Sexp::parse(&model.ask("(c10 bifnames)"))
    .and_then(|x| x.as_list().map(|l| l.iter().filter_map(cps_to_string).collect()))
    .unwrap_or_default();
  if bif_names.len() < 20 {
    rep.disagree(Kind::ImplVsModel, "bif-named", "the table of built-in function names is unreadable", "(c10 bifnames)", &format!("{:?}", bif_names), "the names Bif::from_str accepts");
  }
  const FUN: &str = "function (p, q) 1000 + p * 10 + q";
  let fun_literal = format!("({})", FUN);
  let rounds = if thorough { 12 } else { 2 };
  for round in 0..rounds {
    for nm in &bif_names {
      let parts: Vec<String> = nm.split(' ').map(|w| w.to_string()).collect();
      // `not` is a keyword of FEEL (outside the property's quantifier: names whose words are keywords)
      if nm == "not" {
        rep.hit("bif-named:skipped(keyword not)");
        continue;
      }
      // other bound names next to it: numbers, used as arguments
      let others = gen_bound(&mut rng, false);
      let others: Vec<Bound> = others.into_iter().filter(|b| matches!(b.value, Value::Number(_)) && !bif_names.contains(&b.name.to_string()) && !b.parts.iter().any(|p| parts.contains(p))).take(if round == 0 { 0 } else { 3 }).collect();
      let (x, y) = if others.len() >= 2 { (others[0].clone(), others[1].clone()) } else { (lit_bound(2), lit_bound(5)) };
      let (xv, yv): (i128, i128) = (x.literal.parse().unwrap_or(0), y.literal.parse().unwrap_or(0));
      let call = 1000 + xv * 10 + yv;
      let mut r = |rng: &mut Rng, b: &Bound| if b.parts.is_empty() { b.literal.clone() } else { render(rng, &b.parts) };
      let f = if round == 0 { nm.clone() } else { render(&mut rng, &parts) };
      let (xs, ys) = (r(&mut rng, &x), r(&mut rng, &y));
      // (what is bound to the name, expression, expected value)
      let mut cases: Vec<(&str, String, String, &str)> = vec![
        ("function", format!("{}({}, {})", f, xs, ys), call.to_string(), "positional invocation"),
        ("function", format!("{} ({},{})", f, xs, ys), call.to_string(), "positional invocation"),
        ("function", format!("{}({}, {}) + {}(1, 1)", f, xs, ys, f), (call + 1011).to_string(), "positional invocation"),
        ("function", format!("[{}({}, {}), {}]", f, ys, xs, xs), format!("[{}, {}]", 1000 + yv * 10 + xv, xv), "positional invocation"),
        ("function", format!("{}(p: {}, q: {})", f, xs, ys), call.to_string(), "named invocation"),
        ("function", format!("{}(q: {}, p: {})", f, ys, xs), call.to_string(), "named invocation"),
        ("function", format!("for w9 in [1, 2] return {}(w9, {})", f, ys), format!("[{}, {}]", 1010 + yv, 1020 + yv), "positional invocation"),
        ("function", format!("(function () {}({}, {}))()", f, xs, ys), call.to_string(), "positional invocation"),
        ("function", format!("{}({}({}, {}), 1)", f, f, xs, ys), (1000 + call * 10 + 1).to_string(), "positional invocation"),
        ("function", format!("[{}][1](1, 1)", f), "1011".to_string(), "operand"),
        ("number", format!("{} + 1", f), "8".to_string(), "operand"),
        ("number", format!("[{}, {} * 2]", f, f), "[7, 14]".to_string(), "operand"),
        ("number", format!("if {} > 1 then {} else 0", f, f), "7".to_string(), "operand"),
        ("number", format!("{}-{}", f, f), "0".to_string(), "operand"),
        ("number", format!("-{}", f), "-7".to_string(), "operand"),
        ("number", format!("{}({}, {})", f, xs, ys), "null".to_string(), "positional invocation of a number"),
        // the name is introduced by the text itself
        ("nothing", format!("{{{}: {}, r: {}({}, {})}}.r", nm, FUN, f, xs, ys), call.to_string(), "positional invocation, context entry"),
        ("nothing", format!("{{{}: {}, r: {}(q: {}, p: {})}}.r", nm, FUN, f, ys, xs), call.to_string(), "named invocation, context entry"),
        ("nothing", format!("{{{}: 7, r: {} + 1}}.r", nm, f), "8".to_string(), "operand, context entry"),
      ];
      if parts.len() == 1 {
        cases.push(("nothing", format!("(function ({}) {}(2, 5))({})", nm, f, FUN), "1025".to_string(), "positional invocation, formal parameter"));
        cases.push(("nothing", format!("for {} in [7] return {} + 1", nm, f), "[8]".to_string(), "operand, iteration variable"));
      }
      // observed on the unchanged tree (reported, not judged here): some of the names the lexer hands out as date/time
      // literal names cannot be introduced by the text itself: `duration` and `date and time` as a context key, `date`,
      // `time` and `duration` as a formal parameter (syntax error)
      for (what, text, want, form) in cases {
        let unwritable = (form.ends_with("context entry") && ["duration", "date and time"].contains(&nm.as_str())) || (form.ends_with("formal parameter") && ["date", "time", "duration"].contains(&nm.as_str()));
        if what == "nothing" && unwritable {
          rep.hit("bif-named:not-judged(date/time literal name introduced by the text)");
          continue;
        }
        let mut bound: Vec<Bound> = others.clone();
        match what {
          "function" => bound.push(Bound { parts: parts.clone(), name: name_of(&parts), value: value_of_literal(&fun_literal, &[]), literal: fun_literal.clone(), exotic: false }),
          "number" => bound.push(Bound { parts: parts.clone(), name: name_of(&parts), value: Value::Number(FeelNumber::from_i128(7)), literal: "7".into(), exotic: false }),
          _ => {}
        }
        let got = eval_text(&scope_of(&bound), &text);
        rep.case(&format!("bif-named|{}|{}", what, text), true);
        rep.hit(&format!("bif-named:{} bound, {}", what, form));
        if got != want {
          rep.disagree(
            Kind::ImplVsSpec,
            "bif-named",
            &format!("a bound name that is also the name of a built-in function does not resolve to its bound value: {}", form),
            &format!("bound={:?} expression={:?}", bound.iter().map(|b| (b.name.to_string(), b.literal.clone())).collect::<Vec<_>>(), text),
            &got,
            &want,
          );
        }
      }
    }
  }

  // ---------------------------------------------------------------- history: impl ⊨ spec
  // At the end of the run every text has been parsed under several scopes on this thread. (a) Texts are evaluated
  // once more in their own scope: the value the specification gave must come out again. (b) Pairs of earlier cases:
  // the text of one in the scope of the other, on this thread and on a thread that has parsed nothing; a tree (hence
  // a value) is a function of (scope, text), so the two must agree.
  if !judged.is_empty() {
    let n_again = if thorough { 6000 } else { 500 };
    for _ in 0..n_again {
      let (ci, expected) = rng.pick(&judged).clone();
      let c = &eval_cases[ci];
      let plain = plain_of(&c.all_bound, &c.local0);
      let got = eval_text(&scope_of_plain(&plain), &c.text);
      rep.case(&format!("history-again|{}|{}", ci, c.text), c.nontrivial);
      rep.hit("history:own scope again");
      if got != expected {
        rep.disagree(
          Kind::ImplVsSpec,
          "history",
          "the value of a text depends on the scopes the same text was parsed in before on the thread (own scope again at the end of the run)",
          &format!("bound={:?} expression={:?} (parsed before on the same thread in other scopes)", c.all_bound.iter().map(|b| (b.name.to_string(), b.literal.clone())).collect::<Vec<_>>(), c.text),
          &got,
          &format!("{} (the specification's value, which the first evaluation in this scope gave)", expected),
        );
      }
    }
    let n_pairs = if thorough { 4000 } else { 400 };
    for k in 0..n_pairs {
      let (ai, _) = rng.pick(&judged).clone();
      // every other pair: a case from the neighbourhood (same or next generated scope: the names overlap)
      let bi = if k % 2 == 0 { rng.pick(&judged).0 } else { judged[(judged.iter().position(|j| j.0 == ai).unwrap_or(0) + 1 + rng.below(6) as usize) % judged.len()].0 };
      let (a, b) = (&eval_cases[ai], &eval_cases[bi]);
      let plain = plain_of(&b.all_bound, &b.local0);
      let here = eval_text(&scope_of_plain(&plain), &a.text);
      let fresh = fresh_thread_eval(&plain, &a.text);
      rep.case(&format!("history-pair|{}|{}", ai, bi), true);
      rep.hit("history:text of one case in the scope of another");
      if here != fresh && !(here.starts_with("parse-error") && fresh.starts_with("parse-error")) {
        rep.disagree(
          Kind::ImplVsSpec,
          "history",
          "the value of a text depends on the scopes the same text was parsed in before on the thread (text of one case in the scope of another)",
          &format!("bound={:?} expression={:?} (parsed before on the same thread in other scopes)", b.all_bound.iter().map(|x| (x.name.to_string(), x.literal.clone())).collect::<Vec<_>>(), a.text),
          &here,
          &format!("{} (the same scope and text on a thread that has parsed nothing)", fresh),
        );
      }
    }
  }

  // ---------------------------------------------------------------- namenew: impl = model
  let mut part_lists: Vec<Vec<String>> = vec![];
  let junk = ["a", "b c", " a ", "", ".", " . ", "-", "+", "*", "/", "'", "\t x", "é", "..", "a.b", "\u{00A0}z\u{2003}"];
  for _ in 0..(if thorough { 20000 } else { 3000 }) {
    let n = rng.below(6) as usize;
    part_lists.push((0..n).map(|_| rng.pick(&junk).to_string()).collect());
  }
  for _ in 0..(if thorough { 5000 } else { 1000 }) {
    part_lists.push(gen_parts(&mut rng));
  }
  let reqs: Vec<String> = part_lists
    .iter()
    .map(|p| Sexp::list(vec![Sexp::atom("c10"), Sexp::atom("namenew"), Sexp::list(p.iter().map(|k| Sexp::str(k)).collect())]).to_string())
    .collect();
  let answers = model.ask_batch(&reqs);
  for (p, a) in part_lists.iter().zip(answers.iter()) {
    rep.case(&format!("namenew|{:?}", p), p.len() > 1);
    let imp = Name::new(&p.iter().map(|s| s.as_str()).collect::<Vec<&str>>()).to_string();
    let m = Sexp::parse(a).and_then(|s| s.as_list().and_then(|l| cps_to_string(l.first()?)));
    if m.as_deref() != Some(imp.as_str()) {
      rep.disagree(Kind::ImplVsModel, "namenew", "Name::new differs from the model", &format!("{:?}", p), &imp, &format!("{:?}", m));
    }
  }

  lexfix_families(&mut rep, &mut model);
  keyword_family(&mut rep, &mut model);
  flagged_family(&mut rep, &mut model, &mut rng, thorough);
  namechar_family(&mut rep, &mut model, &mut rng, thorough);
  declared_family(&mut rep, &mut rng, thorough);
  positions_family(cfg, &mut rep, &mut model);

  rep.model_requests = model.requests;
  rep
}

// ------------------------------------------------------------------------------------------
// flagged: bound names followed by an operator, a number, a path or a keyword inside every construct that sets a
// lexer flag or mode (`between … and`, `for … in`, `instance of`, unary tests, `function(…)`, type positions)
// ------------------------------------------------------------------------------------------
//
// The expectation is written out: the harness resolves every run of name parts by the longest-match rule of the
// property (its own walk over the parts the text was made of, never over the text), computes the arithmetic with exact
// rationals and the construct around it by its FEEL meaning (`x between a and b` = a <= x and x <= b, …).

const SIG_FLAGGED: &str = "a bound name followed by an operator, a number, a path or a keyword does not evaluate to its bound value";

/// An exact rational (always normalised, denominator > 0).
#[derive(Clone, Copy, Debug, PartialEq)]
struct Rat(i128, i128);

fn gcd(a: i128, b: i128) -> i128 {
  if b == 0 {
    a.abs()
  } else {
    gcd(b, a % b)
  }
}

impl Rat {
  fn new(n: i128, d: i128) -> Option<Rat> {
    if d == 0 || n.abs() > (1i128 << 60) || d.abs() > (1i128 << 60) {
      return None;
    }
    let g = gcd(n, d).max(1);
    let s = if d < 0 { -1 } else { 1 };
    Some(Rat(s * n / g, s * d / g))
  }
  fn int(self) -> Option<i128> {
    if self.1 == 1 {
      Some(self.0)
    } else {
      None
    }
  }
}

/// What a text is made of, in order; the text itself is never read back.
#[derive(Clone, Debug, PartialEq)]
enum At {
  Word(String),
  Sym(String),
  Num(String),
  Open,
  Close,
}

#[derive(Clone, Debug, PartialEq)]
enum FTk {
  Val(Rat),
  Ctx,
  Plus,
  Minus,
  Mul,
  Div,
  Exp,
  Dot,
  Seg(String),
  Open,
  Close,
}

/// A bound value of the family: a number or the context `{fld: 2}`.
#[derive(Clone, Debug)]
enum FVal {
  Num(i128),
  Ctx,
}

fn atoms_of_parts(parts: &[String]) -> Vec<At> {
  parts
    .iter()
    .map(|p| {
      if is_symbol(p) {
        At::Sym(p.clone())
      } else if p.chars().next().map_or(false, |c| c.is_ascii_digit()) {
        At::Num(p.clone())
      } else {
        At::Word(p.clone())
      }
    })
    .collect()
}

fn atom_text(a: &At) -> Option<&str> {
  match a {
    At::Word(s) | At::Sym(s) | At::Num(s) => Some(s.as_str()),
    _ => None,
  }
}

/// The longest-match rule: at the start of a run of name parts the longest prefix that is a bound name is the name;
/// what is left of the run is read again (operators, numbers, the next name). `None`: the rule gives no reading
/// (no bound name starts the run).
fn resolve_atoms(atoms: &[At], bound: &[(Vec<String>, FVal)]) -> Option<Vec<FTk>> {
  let mut out: Vec<FTk> = vec![];
  let mut i = 0;
  while i < atoms.len() {
    match &atoms[i] {
      At::Open => {
        out.push(FTk::Open);
        i += 1;
      }
      At::Close => {
        out.push(FTk::Close);
        i += 1;
      }
      At::Num(n) => {
        out.push(FTk::Val(Rat::new(n.parse::<i128>().ok()?, 1)?));
        i += 1;
      }
      At::Sym(s) => {
        match s.as_str() {
          "*" if atoms.get(i + 1) == Some(&At::Sym("*".into())) => {
            out.push(FTk::Exp);
            i += 1;
          }
          "*" => out.push(FTk::Mul),
          "+" => out.push(FTk::Plus),
          "-" => out.push(FTk::Minus),
          "/" => out.push(FTk::Div),
          "." => out.push(FTk::Dot),
          _ => return None,
        }
        i += 1;
      }
      At::Word(w) => {
        if out.last() == Some(&FTk::Dot) {
          out.push(FTk::Seg(w.clone()));
          i += 1;
          continue;
        }
        let run: Vec<&str> = atoms[i..].iter().map_while(atom_text).collect();
        let mut best: Option<(usize, &FVal)> = None;
        for (parts, v) in bound {
          let k = parts.len();
          if k <= run.len() && parts.iter().zip(run.iter()).all(|(a, b)| a == b) && best.map_or(true, |(bk, _)| k > bk) {
            best = Some((k, v));
          }
        }
        let (k, v) = best?;
        out.push(match v {
          FVal::Num(n) => FTk::Val(Rat::new(*n, 1)?),
          FVal::Ctx => FTk::Ctx,
        });
        i += k;
      }
    }
  }
  Some(out)
}

/// Arithmetic of FEEL over the resolved tokens: `+ -` below `* /` below `**` (all left-associative), unary minus,
/// parentheses, the path `<context> . fld`.
struct FParser<'a> {
  ts: &'a [FTk],
  i: usize,
}

impl<'a> FParser<'a> {
  fn peek(&self) -> Option<&FTk> {
    self.ts.get(self.i)
  }
  fn sum(&mut self) -> Option<Rat> {
    let mut a = self.product()?;
    loop {
      match self.peek() {
        Some(FTk::Plus) => {
          self.i += 1;
          let b = self.product()?;
          a = Rat::new(a.0 * b.1 + b.0 * a.1, a.1 * b.1)?;
        }
        Some(FTk::Minus) => {
          self.i += 1;
          let b = self.product()?;
          a = Rat::new(a.0 * b.1 - b.0 * a.1, a.1 * b.1)?;
        }
        _ => return Some(a),
      }
    }
  }
  fn product(&mut self) -> Option<Rat> {
    let mut a = self.power()?;
    loop {
      match self.peek() {
        Some(FTk::Mul) => {
          self.i += 1;
          let b = self.power()?;
          a = Rat::new(a.0 * b.0, a.1 * b.1)?;
        }
        Some(FTk::Div) => {
          self.i += 1;
          let b = self.power()?;
          a = Rat::new(a.0 * b.1, a.1 * b.0)?;
        }
        _ => return Some(a),
      }
    }
  }
  fn power(&mut self) -> Option<Rat> {
    let mut a = self.unary()?;
    while self.peek() == Some(&FTk::Exp) {
      self.i += 1;
      let b = self.unary()?.int()?;
      if !(0..=3).contains(&b) {
        return None;
      }
      let mut r = Rat(1, 1);
      for _ in 0..b {
        r = Rat::new(r.0 * a.0, r.1 * a.1)?;
      }
      a = r;
    }
    Some(a)
  }
  fn unary(&mut self) -> Option<Rat> {
    if self.peek() == Some(&FTk::Minus) {
      self.i += 1;
      let a = self.unary()?;
      return Rat::new(-a.0, a.1);
    }
    self.primary()
  }
  fn primary(&mut self) -> Option<Rat> {
    match self.peek()?.clone() {
      FTk::Val(q) => {
        self.i += 1;
        Some(q)
      }
      FTk::Ctx => {
        // `<context> . fld`
        if self.ts.get(self.i + 1) == Some(&FTk::Dot) && self.ts.get(self.i + 2) == Some(&FTk::Seg("fld".into())) {
          self.i += 3;
          Some(Rat(2, 1))
        } else {
          None
        }
      }
      FTk::Open => {
        self.i += 1;
        let a = self.sum()?;
        if self.peek() == Some(&FTk::Close) {
          self.i += 1;
          Some(a)
        } else {
          None
        }
      }
      _ => None,
    }
  }
}

fn value_of_atoms(atoms: &[At], bound: &[(Vec<String>, FVal)]) -> Option<i128> {
  let ts = resolve_atoms(atoms, bound)?;
  let mut p = FParser { ts: &ts, i: 0 };
  let v = p.sum()?;
  if p.i == ts.len() {
    v.int()
  } else {
    None
  }
}

/// An arithmetic chain of one to three operands (bound names in any spelling, numbers, the path into the bound
/// context, a parenthesised chain) joined by `+ - * / **` written with and without blanks, optionally negated:
/// the text and what it is made of.
fn gen_chain(rng: &mut Rng, numeric: &[Bound], ctx: Option<&Bound>, depth: u32) -> (String, Vec<At>) {
  let n = 1 + rng.below(3) as usize;
  let forced = rng.below(n as u64) as usize;
  let mut text = String::new();
  let mut atoms: Vec<At> = vec![];
  let mut ops: Vec<&'static str> = vec![];
  for _ in 1..n {
    let op = *rng.pick(&["+", "-", "*", "/", "**", "+", "-"]);
    // at most one `**` (its associativity is C06's business)
    ops.push(if op == "**" && ops.contains(&"**") { "*" } else { op });
  }
  let additive_only = ops.iter().all(|o| *o == "+" || *o == "-");
  if additive_only && depth == 0 && rng.chance(1, 8) {
    text.push('-');
    if rng.chance(1, 3) {
      text.push(' ');
    }
    atoms.push(At::Sym("-".into()));
  }
  for k in 0..n {
    if k > 0 {
      let op = ops[k - 1];
      if rng.chance(2, 3) {
        text.push(' ');
      }
      text.push_str(op);
      if rng.chance(2, 3) {
        text.push(' ');
      }
      for c in op.chars() {
        atoms.push(At::Sym(c.to_string()));
      }
    }
    let divisor = k > 0 && (ops[k - 1] == "/" || ops[k - 1] == "**");
    let choice = if divisor { 100 } else if k == forced { 0 } else { rng.below(10) };
    match choice {
      100 => {
        text.push('2');
        atoms.push(At::Num("2".into()));
      }
      0..=5 => {
        let b = rng.pick(numeric);
        text.push_str(&render(rng, &b.parts));
        atoms.extend(atoms_of_parts(&b.parts));
      }
      6 | 7 => {
        let lit = *rng.pick(&["1", "2", "3", "10", "100"]);
        text.push_str(lit);
        atoms.push(At::Num(lit.into()));
      }
      8 if ctx.is_some() => {
        let c = ctx.unwrap();
        text.push_str(&render(rng, &c.parts));
        text.push_str(*rng.pick(&[".fld", " . fld", ". fld"]));
        atoms.extend(atoms_of_parts(&c.parts));
        atoms.push(At::Sym(".".into()));
        atoms.push(At::Word("fld".into()));
      }
      9 if depth == 0 => {
        let (t, a) = gen_chain(rng, numeric, ctx, 1);
        text.push('(');
        text.push_str(&t);
        text.push(')');
        atoms.push(At::Open);
        atoms.extend(a);
        atoms.push(At::Close);
      }
      _ => {
        let b = rng.pick(numeric);
        text.push_str(&render(rng, &b.parts));
        atoms.extend(atoms_of_parts(&b.parts));
      }
    }
  }
  (text, atoms)
}

fn fb(b: bool) -> String {
  b.to_string()
}

fn flist(xs: &[String]) -> String {
  format!("[{}]", xs.join(", "))
}

/// Every construct of the family over six chains `e`, three bare names `m` and two local names (declaration and
/// two later spellings each): (class, text, expected value).
#[allow(clippy::too_many_arguments)]
fn flagged_constructs(e: &[(String, i128)], hi: &Option<(String, i128)>, m: &[(String, i128)], l: &[[String; 3]; 2], xvar: &str, rng: &mut Rng) -> Vec<(&'static str, String, String)> {
  let (t0, v0) = (&e[0].0, e[0].1);
  let (t1, v1) = (&e[1].0, e[1].1);
  let (t2, v2) = (&e[2].0, e[2].1);
  let (t3, v3) = (&e[3].0, e[3].1);
  let (t4, v4) = (&e[4].0, e[4].1);
  let (t5, v5) = (&e[5].0, e[5].1);
  let (m0, n0) = (&m[0].0, m[0].1);
  let (m1, n1) = (&m[1].0, m[1].1);
  let (m2, n2) = (&m[2].0, m[2].1);
  let [l0d, l0a, l0b] = &l[0];
  let [l1d, l1a, l1b] = &l[1];
  let btw = |x: i128, a: i128, b: i128| a <= x && x <= b;
  let s = |v: i128| v.to_string();
  let mut out: Vec<(&'static str, String, String)> = vec![];
  // ---- `between … and`: the flag `between` is set from the keyword up to the `and` of the clause
  out.push(("between", format!("{} between {} and {}", t0, t1, t2), fb(btw(v0, v1, v2))));
  out.push(("between", format!("[{} between {} and {}, {}]", t0, t1, t2, t3), flist(&[fb(btw(v0, v1, v2)), s(v3)])));
  out.push(("between", format!("if {} between {} and {} then {} else {}", t0, t1, t2, t3, t4), s(if btw(v0, v1, v2) { v3 } else { v4 })));
  out.push(("between", format!("{} between {} and {} and {} > 0", t0, t1, t2, t3), fb(btw(v0, v1, v2) && v3 > 0)));
  out.push(("between", format!("for {} in [{}] return {} between {} and {}", l0d, t0, l0a, t1, t2), flist(&[fb(btw(v0, v1, v2))])));
  out.push(("between", format!("{} between {} and {} or {} between {} and {}", t0, t1, t2, t3, t4, t5), fb(btw(v0, v1, v2) || btw(v3, v4, v5))));
  out.push(("between", format!("({} between {} and {}) = ({} between {} and {})", t0, t1, t2, t3, t4, t5), fb(btw(v0, v1, v2) == btw(v3, v4, v5))));
  out.push(("between", format!("{} between {} and {}", m0, t1, m1), fb(btw(n0, v1, n1))));
  out.push(("between", format!("{} between {} and {}", t0, m0, m1), fb(btw(v0, n0, n1))));
  out.push(("between", format!("{} between {} and {}", m2, m0, m1), fb(btw(n2, n0, n1))));
  out.push((
    "between",
    format!("max([{}, {}][item between {} and {}])", t0, t3, t1, t2),
    [v0, v3].iter().filter(|x| btw(**x, v1, v2)).max().map_or("null".to_string(), |x| s(*x)),
  ));
  out.push(("between", format!("{{w9: {} between {} and {}, w8: {}}}.w8", t0, t1, t2, t3), s(v3)));
  out.push(("between", format!("{{w8: {}, w9: {} between {} and {}}}.w9", t3, t0, t1, t2), fb(btw(v0, v1, v2))));
  out.push(("between", format!("(function({}) {} between {} and {})({})", l0d, l0a, t1, t2, t0), fb(btw(v0, v1, v2))));
  // ---- `for / some / every … in`: the flag `till_in` is set from the keyword (and every comma) up to `in`
  out.push(("iteration", format!("for {} in [{}, {}] return {} + {}", l0d, t0, t1, l0a, t2), flist(&[s(v0 + v2), s(v1 + v2)])));
  if let Some((hi_text, hi)) = hi {
    // the upper bound is the chain continued by ` + 2`, judged by the longest-match rule as a whole
    out.push(("iteration", format!("for {} in {}..{} return {} * {}", l0d, t0, hi_text, l0a, m0), flist(&(v0..=*hi).map(|x| s(x * n0)).collect::<Vec<_>>())));
  }
  out.push(("iteration", format!("for {} in {}..{} return {}", l0d, m0, m0, l0a), flist(&[s(n0)])));
  out.push(("iteration", format!("for {} in [{}], {} in [{}] return {} * {} + {}", l0d, t0, l1d, t1, l0a, l1a, t2), flist(&[s(v0 * v1 + v2)])));
  out.push(("iteration", format!("some {} in [{}, {}] satisfies {} = {}", l0d, t0, t1, l0a, t2), fb(v0 == v2 || v1 == v2)));
  out.push(("iteration", format!("some {} in [{}, {}] satisfies {} = {}", l0d, t0, t1, l0a, t0), fb(true)));
  out.push(("iteration", format!("every {} in [{}, {}] satisfies {} >= {}", l0d, t0, t1, l0a, t2), fb(v0 >= v2 && v1 >= v2)));
  out.push(("iteration", format!("some {} in [{}], {} in [{}] satisfies {} + {} > {}", l0d, t0, l1d, t1, l0a, l1a, t2), fb(v0 + v1 > v2)));
  out.push(("iteration", format!("for {} in [1, 2] return {} + {}", xvar, xvar, t0), flist(&[s(1 + v0), s(2 + v0)])));
  out.push(("iteration", format!("for {} in [{}] return {}", l0d, m0, m1), flist(&[s(n1)])));
  out.push((
    "iteration",
    format!("for {} in [{}] return for {} in [{}] return {} - {} + {}", l0d, t0, l1d, t1, l0a, l1a, t2),
    format!("[[{}]]", v0 - v1 + v2),
  ));
  out.push(("iteration", format!("for {} in [{}, {}] return {} in [{}, {}]", l0d, t0, t1, l0b, t2, t0), flist(&[fb(true), fb(v1 == v2 || v1 == v0)])));
  // ---- `instance of` and the type positions: the flag `type_name` is set where a type is expected
  out.push(("instance-of", format!("[{} instance of number, {}]", m0, t0), flist(&[fb(true), s(v0)])));
  out.push(("instance-of", format!("[({}) instance of number, {}]", t0, t1), flist(&[fb(true), s(v1)])));
  out.push(("instance-of", format!("[{} instance of list<number>, {}]", m0, t0), flist(&[fb(false), s(v0)])));
  out.push(("instance-of", format!("if {} instance of list<number> then {} else {}", m0, t0, t1), s(v1)));
  out.push(("instance-of", format!("[{} instance of function<number, number> -> number, {}]", m0, t0), flist(&[fb(false), s(v0)])));
  out.push(("instance-of", format!("[{} instance of context<fld: number>, {}]", m0, t0), flist(&[fb(false), s(v0)])));
  out.push(("instance-of", format!("[{} instance of range<number>, {}]", m0, t0), flist(&[fb(false), s(v0)])));
  out.push(("instance-of", format!("({} instance of number) and {} > {}", m0, t0, t1), fb(v0 > v1)));
  out.push(("instance-of", format!("[[{}] instance of list<number>, {}]", t0, t1), flist(&[fb(true), s(v1)])));
  out.push(("instance-of", format!("[{} instance of string, {} instance of number]", m0, m1), flist(&[fb(false), fb(true)])));
  // ---- unary tests inside an expression
  let (ob, cb, lo_strict, hi_strict) = *rng.pick(&[("[", "]", false, false), ("(", ")", true, true), ("]", "[", true, true), ("(", "]", true, false), ("[", ")", false, true), ("]", "]", true, false), ("[", "[", false, true)]);
  let in_iv = |x: i128, a: i128, b: i128| (if lo_strict { a < x } else { a <= x }) && (if hi_strict { x < b } else { x <= b });
  out.push(("unary-test", format!("{} in {}{}..{}{}", t0, ob, m0, m1, cb), fb(in_iv(v0, n0, n1))));
  out.push(("unary-test", format!("{} in ({}{}..{}{})", m2, ob, m0, m1, cb), fb(in_iv(n2, n0, n1))));
  out.push(("unary-test", format!("{} in (< {}, > {})", t0, m0, m1), fb(v0 < n0 || v0 > n1)));
  out.push(("unary-test", format!("{} in (<= {})", t0, m0), fb(v0 <= n0)));
  out.push(("unary-test", format!("{} in (>={}, <{})", t0, m0, m1), fb(v0 >= n0 || v0 < n1)));
  out.push(("unary-test", format!("{} in ({}, {})", t0, t1, t2), fb(v0 == v1 || v0 == v2)));
  out.push(("unary-test", format!("{} in [{}, {}]", t0, t1, t2), fb(v0 == v1 || v0 == v2)));
  out.push(("unary-test", format!("{} in ({}, {})", t0, t1, t0), fb(true)));
  out.push(("unary-test", format!("[{} in (< {}), {}]", m2, m0, t0), flist(&[fb(n2 < n0), s(v0)])));
  out.push(("unary-test", format!("if {} in [{}..{}] then {} else {}", m2, m0, m1, t0, t1), s(if btw(n2, n0, n1) { v0 } else { v1 })));
  // ---- `function(…)`: formal parameters (a parsing context is pushed), typed parameters, named arguments
  out.push(("function", format!("(function({}, {}) {} * {} + {})({}, {})", l0d, l1d, l0a, l1a, t0, t1, t2), s(v1 * v2 + v0)));
  out.push(("function", format!("(function({}: number, {}: number) {} - {} + {})({}, {})", l0d, l1d, l0a, l1a, t0, t1, t2), s(v1 - v2 + v0)));
  out.push((
    "function",
    format!("{{f: function({}: list<number>, {}) {}[1] + {} + {}, r: f([{}], {})}}.r", l0d, l1d, l0a, l1a, t0, t1, t2),
    s(v1 + v2 + v0),
  ));
  out.push(("function", format!("{{f: function({}, {}) {} - {}, r: f({}: {}, {}: {})}}.r", l0d, l1d, l0a, l1a, l1b, t0, l0b, t1), s(v1 - v0)));
  out.push(("function", format!("(function({}: range<number>, {}: number) {} + {})([1..2], {})", l0d, l1d, l1a, t0, t1), s(v1 + v0)));
  out.push(("function", format!("(function() {})()", t0), s(v0)));
  out.push(("function", format!("[(function({}: number) {})({}), {}]", l0d, l0a, t0, t1), flist(&[s(v0), s(v1)])));
  out.push(("function", format!("(function({}) {} between {} and {})({})", l0d, t0, l0a, t1, t2), fb(btw(v0, v2, v1))));
  // ---- the same chains where no flag is involved
  out.push(("plain", format!("if {} > {} then {} else {}", t0, t1, t2, t3), s(if v0 > v1 { v2 } else { v3 })));
  // (the maximum of the items: whether a filter that keeps one item gives the item or a list of it is not this property's business)
  out.push(("plain", format!("max([{}, {}][item > {}])", t0, t1, t2), [v0, v1].iter().filter(|x| **x > v2).max().map_or("null".to_string(), |x| s(*x))));
  out.push(("plain", format!("{{w9: {}, w8: w9 + {}}}.w8", t0, t1), s(v0 + v1)));
  out.push(("plain", format!("max({}, {})", t0, t1), s(v0.max(v1))));
  out.push(("plain", format!("{} < {} and {} >= {}", t0, t1, t2, t3), fb(v0 < v1 && v2 >= v3)));
  out.push(("plain", format!("{} = {} or {} != {}", t0, t1, t2, t3), fb(v0 == v1 || v2 != v3)));
  out.push(("plain", format!("not({} > {})", t0, t1), fb(!(v0 > v1))));
  out.push(("plain", format!("[{}][1] + {}", t0, t1), s(v0 + v1)));
  out
}

/// The unary tests of the family (start symbol `unary tests`): (text, does the input value `x` satisfy them).
fn flagged_unary_tests(e: &[(String, i128)], m: &[(String, i128)], x: i128) -> Vec<(String, bool)> {
  let (t0, v0) = (&e[0].0, e[0].1);
  let (t1, v1) = (&e[1].0, e[1].1);
  let (m0, n0) = (&m[0].0, m[0].1);
  let (m1, n1) = (&m[1].0, m[1].1);
  vec![
    (format!("< {}", m0), x < n0),
    (format!("<={}", m0), x <= n0),
    (format!("> {}", m0), x > n0),
    (format!(">= {}", m0), x >= n0),
    (format!("{}, {}", t0, t1), x == v0 || x == v1),
    (format!("{}", t0), x == v0),
    (format!("[{}..{}]", m0, m1), n0 <= x && x <= n1),
    (format!("({}..{}]", m0, m1), n0 < x && x <= n1),
    (format!("]{}..{}[", m0, m1), n0 < x && x < n1),
    (format!("not({}, {})", t0, t1), !(x == v0 || x == v1)),
    (format!("not ({})", t0), x != v0),
    (format!(">= {}, < {}", m0, m1), x >= n0 || x < n1),
    (format!("not(< {})", m0), !(x < n0)),
    (format!("{}, [{}..{}], > {}", t0, m0, m1, m1), x == v0 || (n0 <= x && x <= n1) || x > n1),
  ]
}

/// `-0` standing alone as a number (not followed by a digit or a decimal point, not preceded by one) written `0`
fn unsigned_zeros(text: &str) -> String {
  let cs: Vec<char> = text.chars().collect();
  let mut out = String::new();
  let mut i = 0;
  while i < cs.len() {
    if cs[i] == '-' && i + 1 < cs.len() && cs[i + 1] == '0' {
      let before_ok = i == 0 || !(cs[i - 1].is_ascii_digit() || cs[i - 1] == '.');
      let after_ok = i + 2 >= cs.len() || !(cs[i + 2].is_ascii_digit() || cs[i + 2] == '.');
      if before_ok && after_ok {
        out.push('0');
        i += 2;
        continue;
      }
    }
    out.push(cs[i]);
    i += 1;
  }
  out
}

fn flagged_family(rep: &mut Report, model: &mut Model, rng: &mut Rng, thorough: bool) {
  use dmntk_feel::AstNode;
  let n_scopes = if thorough { 6000 } else { 120 };
  let mut reqs = vec![];
  let mut toks = vec![];
  for si in 0..n_scopes {
    // numeric bound names of 1..4 words and symbols, closed under prefixes and operator-joined combinations
    let mut bound: Vec<Bound> = gen_bound(rng, false).into_iter().filter(|b| !b.exotic).collect();
    // values of their own, far enough apart for the comparisons to go both ways
    for (i, b) in bound.iter_mut().enumerate() {
      let n = [40i128, 7, 100, 3, 12, 55, 9][i % 7];
      b.value = Value::Number(FeelNumber::from_i128(n));
      b.literal = n.to_string();
    }
    // a name that continues a bound name with an operator and a number, or with an operator and another bound name
    if si % 3 == 1 {
      let a = rng.pick(&bound).clone();
      let mut parts = a.parts.clone();
      parts.push(rng.pick(&["-", "+", "*", "/"]).to_string());
      if rng.chance(1, 2) {
        parts.push(rng.pick(&["1", "2", "10", "100"]).to_string());
      } else {
        parts.extend(rng.pick(&bound).parts.clone());
      }
      let name = name_of(&parts);
      if parts.len() <= 9 && !bound.iter().any(|b| b.name == name) {
        bound.push(Bound { parts, name, value: Value::Number(FeelNumber::from_i128(977)), literal: "977".into(), exotic: false });
      }
    }
    let numeric = bound.clone();
    // a context-valued bound name
    let ctx: Option<Bound> = if si % 2 == 0 {
      let parts = gen_parts(rng);
      let name = name_of(&parts);
      if bound.iter().any(|b| b.name == name) || parts.iter().any(|p| p == "fld") {
        None
      } else {
        let mut c = FeelContext::default();
        c.set_entry(&Name::from("fld"), Value::Number(FeelNumber::from_i128(2)));
        Some(Bound { parts, name, value: Value::Context(c), literal: "{fld: 2}".into(), exotic: false })
      }
    } else {
      None
    };
    if let Some(c) = &ctx {
      bound.push(c.clone());
    }
    let fbound: Vec<(Vec<String>, FVal)> = bound.iter().map(|b| (b.parts.clone(), if matches!(b.value, Value::Context(_)) { FVal::Ctx } else { FVal::Num(b.literal.parse().unwrap_or(0)) })).collect();
    let competing = bound.iter().any(|a| bound.iter().any(|b| a.parts.len() < b.parts.len() && b.parts[..a.parts.len()] == a.parts[..]));
    let bound_text = format!("{:?}", bound.iter().map(|b| (b.name.to_string(), b.literal.clone())).collect::<Vec<_>>());
    // the chains and bare names of this scope, each judged by the longest-match rule on its own
    let mut e: Vec<(String, i128)> = vec![];
    let mut hi: Option<(String, i128)> = None;
    let mut guard = 0;
    while e.len() < 6 && guard < 200 {
      guard += 1;
      let (t, a) = gen_chain(rng, &numeric, ctx.as_ref(), 0);
      match value_of_atoms(&a, &fbound) {
        Some(v) if v.abs() < 1_000_000 => {
          if e.is_empty() {
            let mut a2 = a.clone();
            a2.push(At::Sym("+".into()));
            a2.push(At::Num("2".into()));
            hi = value_of_atoms(&a2, &fbound).filter(|h| (0..=20).contains(&(h - v))).map(|h| (format!("{} + 2", t), h));
          }
          e.push((t, v))
        }
        _ => rep.hit("flagged:chain not judged (no integer value, or the longest match leaves no expression)"),
      }
    }
    let mut m: Vec<(String, i128)> = vec![];
    guard = 0;
    while m.len() < 3 && guard < 50 {
      guard += 1;
      let b = rng.pick(&numeric);
      if let Some(v) = value_of_atoms(&atoms_of_parts(&b.parts), &fbound) {
        m.push((render(rng, &b.parts), v));
      }
    }
    if e.len() < 6 || m.len() < 3 {
      rep.hit("flagged:scope skipped");
      continue;
    }
    // two local names of several parts that no bound name is a prefix of (finding F64 is about those)
    let l0 = rng.below(LOCALS.len() as u64) as usize;
    let l1 = (l0 + 1 + rng.below(LOCALS.len() as u64 - 1) as usize) % LOCALS.len();
    let mut l: [[String; 3]; 2] = Default::default();
    for (k, li) in [l0, l1].iter().enumerate() {
      let parts: Vec<String> = LOCALS[*li].iter().map(|s| s.to_string()).collect();
      l[k] = [render(rng, &parts), render(rng, &parts), render(rng, &parts)];
    }
    // an iteration variable that continues a bound name by a word
    let xb = rng.pick(&numeric).clone();
    let mut xparts = xb.parts.clone();
    xparts.push("x9".into());
    let xvar = canonical_text(&xparts);
    let scope_keys = sorted_keys(&scope_of(&bound));
    for (class, text, want) in flagged_constructs(&e, &hi, &m, &l, &xvar, rng) {
      rep.case(&format!("flagged|{}|{}", bound_text, text), true);
      rep.hit(&format!("flagged:{}", class));
      if competing {
        rep.hit("flagged:scope with competing names");
      }
      let got = eval_text(&scope_of(&bound), &text);
      // the expectation is computed in exact integer arithmetic, which has one zero; a product of a negative number
      // and zero is the decimal zero with a minus sign (`-0`), the same number (C02 / C07 speak about its sign and text)
      if unsigned_zeros(&got) != want {
        rep.disagree(Kind::ImplVsSpec, "flagged", &format!("{}: {}", SIG_FLAGGED, class), &format!("bound={} expression={:?}", bound_text, text), &got, &want);
      }
      if si % 4 == 0 {
        let scope = scope_of(&bound);
        let imp = impl_tokens(&scope, &text, (false, false, false, false), 400);
        reqs.push(tokenize_request(&scope_keys, &text, (false, false, false, false), 400));
        toks.push((scope_keys.clone(), text.clone(), imp));
      }
      if rep.samples.len() < 16 && class != "plain" {
        rep.sample(json!({"family": "flagged", "class": class, "bound": bound_text, "expression": text, "implementation": got, "expected": want}));
      }
    }
    // the start symbol `unary tests`: `input value in <tests>`, as a decision table asks
    let x = *rng.pick(&[e[0].1, e[1].1, m[0].1, m[0].1 + 1, m[1].1 - 1, m[1].1]);
    let x = x.abs();
    for (text, want) in flagged_unary_tests(&e, &m, x) {
      rep.case(&format!("flagged|ut|{}|{}|{}", bound_text, x, text), true);
      rep.hit("flagged:unary-tests");
      crate::util::note_case(&text);
      let scope = scope_of(&bound);
      let got = match guarded(|| match dmntk_feel_parser::parse_unary_tests(&scope, &text, false) {
        Ok(node) => {
          let node = AstNode::In(Box::new(AstNode::Numeric(x.to_string(), "".to_string())), Box::new(node));
          match dmntk_feel_evaluator::evaluate(&scope, &node) {
            Ok(v) => canon(&v),
            Err(err) => format!("evaluate-error: {}", err),
          }
        }
        Err(err) => format!("parse-error: {}", err),
      }) {
        Ok(s) => s,
        Err(p) => format!("panic: {}", p),
      };
      if got != fb(want) {
        rep.disagree(
          Kind::ImplVsSpec,
          "flagged",
          &format!("{}: unary-tests", SIG_FLAGGED),
          &format!("bound={} unary tests={:?} input value={}", bound_text, text, x),
          &got,
          &fb(want),
        );
      }
    }
  }
  // the lexer alone on a quarter of the texts: impl = model
  let answers = model.ask_batch(&reqs);
  for ((keys, text, imp), a) in toks.iter().zip(answers.iter()) {
    rep.case(&format!("tokens|{:?}|flagged|{}", keys, text), true);
    rep.hit("tokens:flagged");
    if let Err((what, imp, exp)) = compare_streams(imp, a) {
      rep.disagree(Kind::ImplVsModel, "tokens", &format!("lexer token stream: {}", what), &format!("keys={:?} flags=(false, false, false, false) input={:?}", keys, text), &imp, &exp);
    }
  }
}

// ------------------------------------------------------------------------------------------
// lexfix: name forms outside the generated scopes (reviewers' items L4-L8)
// ------------------------------------------------------------------------------------------

const SIG_ITEM_PREFIX: &str = "bound name whose first word is `item` does not evaluate to its bound value";
const SIG_KEYWORD_NAME: &str = "bound name `list`, `range` or `context` followed by `<` does not evaluate to its bound value";
const SIG_BINDING_SITE: &str = "a name cannot be introduced (context key, function parameter, named argument) when a prefix of it is bound";
const SIG_NESTED_KEY: &str = "a key of a nested context hides the operator reading although no bound name matches";
const SIG_UNBOUND_ENTRY: &str = "entry name of a context that is not bound in the scope is not resolved after a path or in a filter";

/// A scope from `(parts, value)` pairs; a value is a number, a context `{parts: number, …}` or the function
/// obtained by evaluating a FEEL text in the empty scope.
enum LfValue {
  Num(i128),
  Ctx(Vec<(Vec<&'static str>, i128)>),
  Fun(&'static str),
}

fn lf_scope(entries: &[(Vec<&'static str>, LfValue)]) -> Option<Scope> {
  let scope = Scope::default();
  for (parts, v) in entries {
    let value = match v {
      LfValue::Num(n) => Value::Number(FeelNumber::from_i128(*n)),
      LfValue::Ctx(es) => {
        let mut ctx = FeelContext::default();
        for (p, n) in es {
          ctx.set_entry(&Name::new(p), Value::Number(FeelNumber::from_i128(*n)));
        }
        Value::Context(ctx)
      }
      LfValue::Fun(text) => {
        let empty = Scope::default();
        let node = guarded(|| dmntk_feel_parser::parse_expression(&empty, text, false)).ok()?.ok()?;
        dmntk_feel_evaluator::evaluate(&empty, &node).ok()?
      }
    };
    scope.set_entry(&Name::new(parts), value);
  }
  Some(scope)
}

/// Families `item-prefix` (L4), `keyword-name` (L5), `binding-site` (L6), `nested-key` (L7), `unbound-entry` (L8):
/// written-out expectations (the value the expression denotes when every name resolves as the property says),
/// plus the token streams of the same inputs against the lexer model.
fn lexfix_families(rep: &mut Report, model: &mut Model) {
  use LfValue::{Ctx, Fun, Num};
  let cases: Vec<(&'static str, &'static str, Vec<(Vec<&'static str>, LfValue)>, &'static str, &'static str)> = vec![
    // L4: a bound name that begins with the word `item`; `item` alone stays the filter variable
    ("item-prefix", SIG_ITEM_PREFIX, vec![(vec!["item", "count"], Num(2))], "item count + 1", "3"),
    ("item-prefix", SIG_ITEM_PREFIX, vec![(vec!["item", "count"], Num(2))], "[item count, 1]", "[2, 1]"),
    ("item-prefix", SIG_ITEM_PREFIX, vec![(vec!["item", "count"], Num(2)), (vec!["item"], Num(5))], "item count + item", "7"),
    ("item-prefix", SIG_ITEM_PREFIX, vec![(vec!["item", "-", "no"], Num(2))], "item-no * 2", "4"),
    ("item-prefix", SIG_ITEM_PREFIX, vec![(vec!["item", "count"], Num(2))], "[1, 2, 3][item > 1]", "[2, 3]"),
    ("item-prefix", SIG_ITEM_PREFIX, vec![(vec!["item", "count"], Num(2))], "[1, 2, 3][item >= item count]", "[2, 3]"),
    ("item-prefix", SIG_ITEM_PREFIX, vec![(vec!["a"], Num(1))], "count([{x: 1}, {x: 2}, {x: 3}][item.x > a])", "2"),
    ("item-prefix", SIG_ITEM_PREFIX, vec![(vec!["a"], Num(1))], "sum(for item count in [1, 2] return item count * 2)", "6"),
    // L5
    ("keyword-name", SIG_KEYWORD_NAME, vec![(vec!["list"], Num(2))], "list < 3", "true"),
    ("keyword-name", SIG_KEYWORD_NAME, vec![(vec!["range"], Num(2))], "range <3", "true"),
    ("keyword-name", SIG_KEYWORD_NAME, vec![(vec!["context"], Num(2))], "if context < 3 then 1 else 0", "1"),
    // L6
    ("binding-site", SIG_BINDING_SITE, vec![(vec!["a"], Num(1))], "{a c: 2, r: a c + a}.r", "3"),
    ("binding-site", SIG_BINDING_SITE, vec![(vec!["a"], Num(1))], "(function(a c) a c + a)(4)", "5"),
    ("binding-site", SIG_BINDING_SITE, vec![(vec!["x"], Num(1)), (vec!["f"], Fun("function(x y) x y + 1"))], "f(x y: 1)", "2"),
    // L7
    ("nested-key", SIG_NESTED_KEY, vec![(vec!["order"], Ctx(vec![(vec!["a", "+", "b"], 5)])), (vec!["a"], Num(1)), (vec!["b"], Num(2))], "a+b", "3"),
    ("nested-key", SIG_NESTED_KEY, vec![(vec!["order"], Ctx(vec![(vec!["a", "-", "b"], 5)])), (vec!["a"], Num(3)), (vec!["b"], Num(2))], "a - b", "1"),
    // L8
    ("unbound-entry", SIG_UNBOUND_ENTRY, vec![(vec!["zz"], Num(1))], "{m n: {k l: 2}, r: m n.k l + zz}.r", "3"),
    ("unbound-entry", SIG_UNBOUND_ENTRY, vec![(vec!["zz"], Num(1))], "{k l: 2}.k l + zz", "3"),
    ("unbound-entry", SIG_UNBOUND_ENTRY, vec![(vec!["zz"], Num(1))], "count([{p q: 1}, {p q: 2}, {p q: 3}][p q + zz > 2])", "2"),
  ];
  let mut reqs = vec![];
  let mut toks = vec![];
  for (family, sig, entries, text, expected) in &cases {
    let scope = match lf_scope(entries) {
      Some(s) => s,
      None => {
        rep.disagree(Kind::ImplVsSpec, family, sig, text, "the scope could not be built", expected);
        continue;
      }
    };
    rep.case(&format!("{}|{}|{}", family, sorted_keys(&scope).join(","), text), true);
    rep.hit(&format!("name-forms:{}", family));
    let got = eval_text(&lf_scope(entries).unwrap(), text);
    if got != *expected {
      rep.disagree(Kind::ImplVsSpec, family, sig, &format!("keys={:?} expression={:?}", sorted_keys(&scope), text), &got, expected);
    }
    // the lexer alone on the same input: impl = model
    let keys = sorted_keys(&scope);
    let imp = impl_tokens(&scope, text, (false, false, false, false), 200);
    reqs.push(tokenize_request(&keys, text, (false, false, false, false), 200));
    toks.push((keys, text, imp));
  }
  let answers = model.ask_batch(&reqs);
  for ((keys, text, imp), a) in toks.iter().zip(answers.iter()) {
    rep.case(&format!("tokens|{:?}|name-forms|{}", keys, text), true);
    rep.hit("tokens:name-forms");
    if let Err((what, imp, exp)) = compare_streams(imp, a) {
      rep.disagree(Kind::ImplVsModel, "tokens", &format!("lexer token stream: {}", what), &format!("keys={:?} flags=(false, false, false, false) input={:?}", keys, text), &imp, &exp);
    }
  }
}

// ------------------------------------------------------------------------------------------
// keyword-word: bound names around every keyword arm of read_next_token (the words come from the regenerated table)
// ------------------------------------------------------------------------------------------

const SIG_KEYWORD_WORD: &str = "a bound name whose first word only begins with a keyword, that has a keyword as a later word, or whose first word is a keyword without the follower the keyword needs, does not evaluate to its bound value";

/// For every arm of `read_next_token` whose pattern begins with a letter (`(c10 keywords)`: the table regenerated from
/// lexer.rs): (A) names whose first word is the keyword continued by a name character, (B) names that have the keyword
/// as a second / middle word, (C) for the keywords recognised through `is_next_character` (function, list, range,
/// context) the keyword itself as a bound name where that character does not follow — the cases
/// `bound_name_is_next_token` covers (finding F63 is the complement of C).  The expectation is written out (the bound
/// number, plus one, in a list, compared); every text also goes token by token against the lexer model.
fn keyword_family(rep: &mut Report, model: &mut Model) {
  let table: Vec<(String, String)> = Sexp::parse(&model.ask("(c10 keywords)"))
    .and_then(|x| x.as_list().map(|l| l.iter().filter_map(|e| { let p = e.as_list()?; Some((cps_to_string(p.first()?)?, cps_to_string(p.get(1)?)?)) }).collect()))
    .unwrap_or_default();
  if table.len() < 10 {
    rep.disagree(Kind::ImplVsModel, "keyword-word", "the table of keyword arms is unreadable", "(c10 keywords)", &format!("{:?}", table), "the arms of read_next_token that begin with a letter");
    return;
  }
  let mut seen: Vec<String> = vec![];
  let mut cases: Vec<(&'static str, Vec<String>, i128, String, String)> = vec![];
  for (i, (w, next)) in table.iter().enumerate() {
    if seen.contains(w) {
      continue;
    }
    seen.push(w.clone());
    let n = 3 + i as i128;
    let mut name_cases = |class: &'static str, parts: Vec<String>| {
      let name = parts.join(" ");
      cases.push((class, parts.clone(), n, format!("{} + 1", name), format!("{}", n + 1)));
      cases.push((class, parts.clone(), n, format!("[{}]", name), format!("[{}]", n)));
      cases.push((class, parts.clone(), n, name.clone(), format!("{}", n)));
      cases.push((class, parts.clone(), n, format!("{}+1", name), format!("{}", n + 1)));
      cases.push((class, parts.clone(), n, format!("1000 - {}", name), format!("{}", 1000 - n)));
      cases.push((class, parts.clone(), n, format!("if {} = {} then 1 else 0", name, n), "1".to_string()));
    };
    for suffix in ["x", "1", "_", "é"] {
      name_cases("longer-first-word", vec![format!("{}{}", w, suffix)]);
    }
    name_cases("later-word", vec!["k".to_string(), w.clone()]);
    name_cases("later-word", vec!["k".to_string(), w.clone(), "z".to_string()]);
    if !next.is_empty() {
      name_cases("keyword-without-follower", vec![w.clone()]);
      name_cases("keyword-without-follower", vec![w.clone(), "z".to_string()]);
    }
    // the character the keyword waits for, right after a longer word: still the name
    if next.contains('<') {
      cases.push(("longer-first-word", vec![format!("{}x", w)], n, format!("{}x<1000", w), "true".to_string()));
      cases.push(("longer-first-word", vec![format!("{}x", w)], n, format!("{}x < 1000", w), "true".to_string()));
    }
  }
  let mut reqs = vec![];
  let mut toks = vec![];
  for (class, parts, n, text, expected) in &cases {
    let scope = Scope::default();
    scope.set_entry(&Name::new(&parts.iter().map(|s| s.as_str()).collect::<Vec<&str>>()), Value::Number(FeelNumber::from_i128(*n)));
    scope.set_entry(&Name::new(&["k"]), Value::Number(FeelNumber::from_i128(-7)));
    let keys = sorted_keys(&scope);
    rep.case(&format!("keyword-word|{}|{}|{}", class, keys.join(","), text), true);
    rep.hit(&format!("keyword-word:{}", class));
    let got = eval_text(&scope, text);
    if got != *expected {
      rep.disagree(Kind::ImplVsSpec, "keyword-word", SIG_KEYWORD_WORD, &format!("class={} keys={:?} expression={:?}", class, keys, text), &got, expected);
    }
    let imp = impl_tokens(&scope, text, (false, false, false, false), 200);
    reqs.push(tokenize_request(&keys, text, (false, false, false, false), 200));
    toks.push((keys, text, imp));
  }
  let answers = model.ask_batch(&reqs);
  for ((keys, text, imp), a) in toks.iter().zip(answers.iter()) {
    rep.case(&format!("tokens|{:?}|keyword-word|{}", keys, text), true);
    rep.hit("tokens:keyword-word");
    if let Err((what, imp, exp)) = compare_streams(imp, a) {
      rep.disagree(Kind::ImplVsModel, "tokens", &format!("lexer token stream: {}", what), &format!("keys={:?} flags=(false, false, false, false) input={:?}", keys, text), &imp, &exp);
    }
  }
}

// ------------------------------------------------------------------------------------------
// name-char-ranges: the first, last, just-before and just-after code point of every range of name characters
// ------------------------------------------------------------------------------------------

const SIG_NAME_CHAR_LEXER: &str = "a name does not start, continue or end where the name character ranges of the grammar (rules 28, 29) say";
const SIG_NAME_CHAR_VALUE: &str = "a bound name written with a character at the edge of a range of name characters does not evaluate to its bound value";

fn num(n: i128) -> Value {
  Value::Number(FeelNumber::from_i128(n))
}

/// Family `name-char-ranges`. The code points are the edges (first, last, the one before, the one after) of every range
/// of the tables regenerated from lexer.rs AND of the grammar's tables written out in `Dmn.NameGrammar`, plus random
/// code points inside and outside; the expected classification is the grammar's (rules 28, 29, 61 of the DMN
/// specification, as written out in Lean from the specification text), the expected values are known outright.
fn namechar_family(rep: &mut Report, model: &mut Model, rng: &mut Rng, thorough: bool) {
  let answer = model.ask("(c10 namechars)");
  let parsed = Sexp::parse(&answer);
  let lists = parsed.as_ref().and_then(|s| s.as_list());
  let nums = |x: &Sexp| -> Vec<u32> { x.as_list().map(|l| l[1..].iter().filter_map(|a| a.as_atom().and_then(|a| a.parse().ok())).collect()).unwrap_or_default() };
  let pairs = |x: &Sexp| -> Vec<(u32, u32)> {
    x.as_list()
      .map(|l| l[1..].iter().filter_map(|p| p.as_list().and_then(|p| Some((p.first()?.as_atom()?.parse().ok()?, p.get(1)?.as_atom()?.parse().ok()?)))).collect())
      .unwrap_or_default()
  };
  let (mut cps, part_ranges) = match lists {
    Some(l) if l.len() == 3 => (nums(&l[0]), pairs(&l[2])),
    _ => {
      rep.disagree(Kind::ImplVsModel, "name-char-ranges", "the tables of name characters are unreadable", "(c10 namechars)", &answer, "bounds, start ranges, part ranges");
      return;
    }
  };
  if cps.len() < 60 || part_ranges.len() < 16 {
    rep.disagree(Kind::ImplVsModel, "name-char-ranges", "the tables of name characters are unreadable", "(c10 namechars)", &answer, "at least 60 edges of 16 ranges");
    return;
  }
  // inside every range and in the gaps between them
  let per_range = if thorough { 40 } else { 3 };
  let mut prev_hi = 0u32;
  for (lo, hi) in &part_ranges {
    for _ in 0..per_range {
      cps.push(lo + rng.below((hi - lo + 1) as u64) as u32);
      if *lo > prev_hi + 1 {
        cps.push(prev_hi + 1 + rng.below((lo - prev_hi - 1) as u64) as u32);
      }
    }
    prev_hi = prev_hi.max(*hi);
  }
  for _ in 0..(if thorough { 2000 } else { 60 }) {
    cps.push(rng.below(0x110000) as u32);
  }
  cps.retain(|c| char::from_u32(*c).is_some());
  cps.sort();
  cps.dedup();
  let req = format!("(c10 classify {})", cps.iter().map(|c| c.to_string()).collect::<Vec<_>>().join(" "));
  let ans = model.ask(&req);
  let rows: Vec<(u32, Vec<bool>)> = Sexp::parse(&ans)
    .and_then(|s| {
      s.as_list().map(|l| l.iter().filter_map(|r| r.as_list().and_then(|r| Some((r.first()?.as_atom()?.parse().ok()?, r[1..].iter().map(|b| b.as_atom() == Some("true")).collect::<Vec<bool>>())))).collect())
    })
    .unwrap_or_default();
  if rows.len() != cps.len() {
    rep.disagree(Kind::ImplVsModel, "name-char-ranges", "driver-error", &req[..req.len().min(200)], &ans[..ans.len().min(200)], "one row per code point");
    return;
  }
  let no_flags = (false, false, false, false);
  for (c, cls) in rows {
    let ch = char::from_u32(c).unwrap();
    let (start, part, symbol, white) = (cls[0], cls[1], cls[2], cls[3]);
    let class = match (start, part, symbol, white) {
      (_, true, _, true) => "name character and white space",
      (true, _, _, _) => "name start character",
      (false, true, _, _) => "name part character",
      (_, _, true, _) => "additional name symbol",
      (_, _, _, true) => "white space",
      _ => "other",
    };
    rep.hit(&format!("name-char-ranges:{}", class));
    // ---- the lexer alone: `x<c>y + 1` with `x`, `y`, `x y` bound, and `x<c>y` bound when the grammar makes it a name
    if class != "name character and white space" && class != "additional name symbol" && ch != '"' {
      let text = format!("x{}y + 1", ch);
      let scope = Scope::default();
      scope.set_entry(&Name::from("x"), num(2));
      scope.set_entry(&Name::from("y"), num(3));
      scope.set_entry(&Name::new(&["x", "y"]), num(5));
      let whole = format!("x{}y", ch);
      let (want_name, want_pos) = match class {
        "name start character" | "name part character" => {
          scope.set_entry(&Name::from(whole.as_str()), num(7));
          (whole.clone(), 3usize)
        }
        "white space" => ("x y".to_string(), 3),
        _ => ("x".to_string(), 1),
      };
      rep.case(&format!("name-char-ranges|lexer|{:04X}", c), true);
      let toks = impl_tokens(&scope, &text, no_flags, 3);
      let got = match &toks {
        Ok(ts) if ts.len() >= 2 => format!("{:?}", (ts[1].0 == TT::Name as i32, ts[1].1.clone(), ts[1].2)),
        other => format!("{:?}", other),
      };
      let want = format!("{:?}", (true, format!("Name(Name({:?}))", want_name), want_pos));
      if got != want {
        rep.disagree(Kind::ImplVsSpec, "name-char-ranges", SIG_NAME_CHAR_LEXER, &format!("U+{:04X} ({}) in {:?}, bound: {:?}", c, class, text, sorted_keys(&scope)), &got, &want);
      }
    }
    // ---- at the start of a name
    if class == "name start character" || class == "name part character" || class == "other" {
      let text = format!("{}x + 1", ch);
      let scope = Scope::default();
      scope.set_entry(&Name::from("x"), num(2));
      let whole = format!("{}x", ch);
      scope.set_entry(&Name::from(whole.as_str()), num(7));
      rep.case(&format!("name-char-ranges|lexer-start|{:04X}", c), true);
      let toks = impl_tokens(&scope, &text, no_flags, 3);
      let first_is_whole = matches!(&toks, Ok(ts) if ts.len() >= 2 && ts[1].0 == TT::Name as i32 && ts[1].1 == format!("Name(Name({:?}))", whole) && ts[1].2 == 2);
      let want = class == "name start character";
      // digits, quotes, brackets and operators start tokens of their own; what matters is whether a NAME starts here
      if first_is_whole != want {
        rep.disagree(
          Kind::ImplVsSpec,
          "name-char-ranges",
          SIG_NAME_CHAR_LEXER,
          &format!("U+{:04X} ({}) at the start of {:?}, bound: {:?}", c, class, text, sorted_keys(&scope)),
          &format!("{:?}", toks),
          if want { "the bound name that starts with the character" } else { "no name that starts with the character" },
        );
      }
    }
    // ---- end to end: bound names, names introduced by the text
    if class == "name start character" || class == "name part character" {
      // the filler letters of the templates are `x` and `y` — other ones when the character itself is one of them
      let (fx, fy) = (if ch == 'x' || ch == 'y' { "q" } else { "x" }, if ch == 'x' || ch == 'y' { "r" } else { "y" });
      let w = |s: &str| s.replace('x', fx).replace('y', fy).replace('C', &ch.to_string());
      let starts = class == "name start character";
      // (name parts, value)
      let mut bound: Vec<(Vec<String>, i128)> = vec![(vec![w("xC")], 7), (vec![w("xCx")], 11), (vec![w("x"), w("xC")], 13), (vec![w("xC"), "-".into(), w("xCx")], 17), (vec![w("x")], 100)];
      let mut cases: Vec<(String, String)> = vec![
        (w("xC"), "7".into()),
        (w("xC + 1"), "8".into()),
        (w("xC*xCx"), "77".into()),
        (w("x xC - xC"), "6".into()),
        (w("xC-xCx + 1"), "18".into()),
        (w("xC - xCx+1"), "18".into()),
        (w("[x, xC, xCx][2]"), "7".into()),
        (w("if xC > 1 then xCx else 0"), "11".into()),
        (w("{k: xCx}.k"), "11".into()),
        (w("{xCy: 1, r: xCy + xC}.r"), "8".into()),
        (w("for xCy in [1, 2] return xCy + xC"), "[8, 9]".into()),
        (w("(function (xCy) xCy + xCx)(1)"), "12".into()),
        (w("some xCy in [xC] satisfies xCy = 7"), "true".into()),
      ];
      if starts {
        bound.push((vec![w("C")], 3));
        bound.push((vec![w("Cx")], 5));
        bound.push((vec![w("C"), w("x"), w("C")], 19));
        bound.push((vec![w("C"), "/".into(), w("C")], 23));
        cases.extend(vec![
          (w("C"), "3".into()),
          (w("C + Cx"), "8".into()),
          (w("C*C"), "9".into()),
          (w("C x C - C"), "16".into()),
          (w("C/C + C / C"), "46".into()),
          (w("[C][1]"), "3".into()),
          (w("{Cy: 1, r: Cy + C}.r"), "4".into()),
          (w("for Cy in [C] return Cy * 2"), "[6]".into()),
          (w("(function (Cy) Cy + C)(1)"), "4".into()),
        ]);
      }
      let scope = Scope::default();
      for (parts, v) in &bound {
        scope.set_entry(&name_of(parts), num(*v));
      }
      for (text, want) in cases {
        rep.case(&format!("name-char-ranges|{}", text), true);
        let got = eval_text(&scope, &text);
        if got != want {
          rep.disagree(Kind::ImplVsSpec, "name-char-ranges", SIG_NAME_CHAR_VALUE, &format!("U+{:04X} ({}): keys={:?} expression={:?}", c, class, sorted_keys(&scope), text), &got, &want);
        }
      }
    }
    // ---- the model's classes are the lexer's (the tie of the character tables)
    let (mstart, mpart, mwhite) = (cls[4], cls[5], cls[6]);
    if (mstart, mpart, mwhite) != (start, part, white) {
      rep.disagree(
        Kind::ImplVsModel,
        "name-char-ranges",
        "the lexer model's character classes differ from the grammar's",
        &format!("U+{:04X}", c),
        &format!("model: start={} part={} white={}", mstart, mpart, mwhite),
        &format!("grammar: start={} part={} white={}", start, part, white),
      );
    }
  }
}

// ------------------------------------------------------------------------------------------
// declared: every way a name gets into the scope
// ------------------------------------------------------------------------------------------

const SIG_DECLARED_NAME: &str = "the name made from a declaration (parse_longest_name) is not the name the lexer reads in an expression";
const SIG_DECLARED_VALUE: &str = "a name declared outside of the expression does not evaluate to its bound value";

/// The normal form of a name (words separated by one space, no space around an additional symbol), written out from
/// the parts — what both the declaration and every reference denote.
fn canonical_text(parts: &[String]) -> String {
  let mut s = String::new();
  for (i, p) in parts.iter().enumerate() {
    if i > 0 && !is_symbol(p) && !is_symbol(&parts[i - 1]) {
      s.push(' ');
    }
    s.push_str(p);
  }
  s
}

/// Spellings of a name: every gap between two parts filled with one of `fills` (gaps between two words never with the
/// empty text), optionally blanks in front and behind; at most `cap` of them, the canonical and the extreme ones first.
fn spellings(rng: &mut Rng, parts: &[String], cap: usize, outer: bool) -> Vec<String> {
  let gaps = parts.len().saturating_sub(1);
  let word_gap = |i: usize| !is_symbol(&parts[i]) && !is_symbol(&parts[i + 1]);
  let build = |fill: &dyn Fn(usize) -> &'static str, pre: &str, post: &str| {
    let mut s = String::from(pre);
    for (i, p) in parts.iter().enumerate() {
      s.push_str(p);
      if i < gaps {
        s.push_str(fill(i));
      }
    }
    s.push_str(post);
    s
  };
  let mut out: Vec<String> = vec![];
  let mut push = |s: String| {
    if !out.contains(&s) {
      out.push(s);
    }
  };
  // canonical; blanks everywhere; blank only before every symbol; blank only after every symbol
  push(build(&|i| if word_gap(i) { " " } else { "" }, "", ""));
  push(build(&|_| " ", "", ""));
  push(build(&|i| if word_gap(i) || is_symbol(&parts[i + 1]) { " " } else { "" }, "", ""));
  push(build(&|i| if word_gap(i) || is_symbol(&parts[i]) { " " } else { "" }, "", ""));
  push(build(&|i| if word_gap(i) { "   " } else { "\t" }, "", ""));
  if outer {
    push(build(&|i| if word_gap(i) { " " } else { "" }, " ", "  "));
    push(build(&|_| "  ", "\t", " "));
  }
  let fills = ["", " ", "  ", "\t", "\u{00A0}"];
  let mut guard = 0;
  while out.len() < cap && guard < 4 * cap {
    guard += 1;
    let choice: Vec<&'static str> = (0..gaps).map(|i| if word_gap(i) { fills[1 + rng.below(4) as usize] } else { fills[rng.below(5) as usize] }).collect();
    let s = build(&|i| choice[i], "", "");
    if !out.contains(&s) {
      out.push(s);
    }
  }
  out.truncate(cap);
  out
}

fn xml_text(s: &str) -> String {
  s.replace('&', "&amp;").replace('<', "&lt;").replace('>', "&gt;").replace('"', "&quot;").replace('\t', "&#9;").replace('\u{00A0}', "&#160;")
}

const DMN_HEAD: &str = r#"<?xml version="1.0" encoding="UTF-8"?><definitions namespace="ns" name="m" id="_m" xmlns="https://www.omg.org/spec/DMN/20191111/MODEL/">"#;

/// Family `declared`. A name reaches the scope through `Name::new` (the other families), through
/// `parse_longest_name` (declared names of the model layer and the keys of the server's input), through the key of a
/// context text (`evaluate_context`, context literals) and through the `name` attributes of a DMN model (input data,
/// decisions, item components). Whatever the spelling of the declaration (blanks around the additional symbols,
/// several blanks, tabs, blanks in front and behind), every spelling of a reference denotes the declared value.
fn declared_family(rep: &mut Report, rng: &mut Rng, thorough: bool) {
  use dmntk_model_evaluator::ModelEvaluator;
  let s = |xs: &[&str]| xs.iter().map(|x| x.to_string()).collect::<Vec<String>>();
  let mut names: Vec<Vec<String>> = vec![
    s(&["Profit", "/", "Loss"]),
    s(&["Tax", "-", "free", "amount"]),
    s(&["a", "+", "b"]),
    s(&["Applicant", "'", "s", "age"]),
    s(&["first", ".", "second"]),
    s(&["n", "*", "m", "2"]),
    s(&["Full", "House"]),
    s(&["é", "-", "ü", "Öl"]),
    s(&["x1", "/", "x2", "-", "x3"]),
    s(&["Monthly", "Salary", "+", "Bonus"]),
  ];
  let mut guard = 0;
  let extra = if thorough { 60 } else { 6 };
  while names.len() < 10 + extra && guard < 1000 {
    guard += 1;
    let p = gen_parts(rng);
    // the words `date`, `time`, `duration` are names of literals for the lexer when nothing is bound
    if p.len() >= 2 && !p.iter().any(|w| ["date", "time", "duration"].contains(&w.as_str())) && !names.contains(&p) {
      names.push(p);
    }
  }
  let (n_decl, n_ref) = if thorough { (24, 8) } else { (9, 4) };
  for parts in &names {
    let canonical = canonical_text(parts);
    let first_word = parts[0].clone();
    let decls = spellings(rng, parts, n_decl, true);
    let refs = spellings(rng, parts, n_ref, false);
    for decl in &decls {
      // ---------------- (a) parse_longest_name
      rep.case(&format!("declared|longest-name|{:?}", decl), true);
      rep.hit("declared:parse_longest_name");
      crate::util::note_case(decl);
      let made = guarded(|| dmntk_feel_parser::parse_longest_name(decl).map(|n| n.to_string()).map_err(|e| e.to_string()));
      if made != Ok(Ok(canonical.clone())) {
        rep.disagree(Kind::ImplVsSpec, "declared", SIG_DECLARED_NAME, &format!("parse_longest_name({:?})", decl), &format!("{:?}", made), &format!("the name {:?}", canonical));
      }
      let scope_a = || {
        let scope = Scope::default();
        if let Ok(n) = dmntk_feel_parser::parse_longest_name(decl) {
          scope.set_entry(&n, num(41));
        }
        // a competing shorter name: the first word alone
        if let Ok(n) = dmntk_feel_parser::parse_longest_name(&first_word) {
          scope.set_entry(&n, num(1000));
        }
        scope
      };
      // ---------------- (c) the key of a context text
      let ctx_text = format!("{{{}: 41, {}: 1000}}", decl.trim(), first_word);
      let scope_c = || match guarded(|| dmntk_feel_evaluator::evaluate_context(&Scope::default(), &ctx_text)) {
        Ok(Ok(ctx)) => Some(Scope::from(ctx)),
        _ => None,
      };
      for r in &refs {
        for (tail, want) in [(" + 1", "42"), ("", "41")] {
          let text = format!("{}{}", r, tail);
          rep.case(&format!("declared|a|{:?}|{:?}", decl, text), true);
          let got = eval_text(&scope_a(), &text);
          if got != want {
            rep.disagree(Kind::ImplVsSpec, "declared", SIG_DECLARED_VALUE, &format!("bound through parse_longest_name({:?}) = 41, parse_longest_name({:?}) = 1000; expression={:?}", decl, first_word, text), &got, want);
          }
          rep.hit("declared:evaluate_context");
          rep.case(&format!("declared|c|{:?}|{:?}", decl, text), true);
          let got = match scope_c() {
            Some(scope) => eval_text(&scope, &text),
            None => "the context text is refused".to_string(),
          };
          if got != want {
            rep.disagree(Kind::ImplVsSpec, "declared", SIG_DECLARED_VALUE, &format!("scope made by evaluate_context({:?}); expression={:?}", ctx_text, text), &got, want);
          }
        }
        // ---------------- (d) the key of a context literal inside the expression
        let text = format!("{{{}: 41, r: {} + 1}}.r", decl.trim(), r);
        rep.hit("declared:context literal");
        rep.case(&format!("declared|d|{:?}", text), true);
        let got = eval_text(&Scope::default(), &text);
        if got != "42" {
          rep.disagree(Kind::ImplVsSpec, "declared", SIG_DECLARED_VALUE, &format!("key of a context literal; expression={:?}", text), &got, "42");
        }
      }
    }
    // ---------------- (e) the model layer: input data, a required decision and an item component named by a declaration
    let n_model = if thorough { decls.len() } else { 4 };
    for decl in decls.iter().take(n_model) {
      let r = rng.pick(&refs).clone();
      let d = xml_text(decl);
      let xml = format!(
        concat!(
          "{head}",
          "<itemDefinition name=\"tRec\"><itemComponent name=\"{d}\"><typeRef>number</typeRef></itemComponent></itemDefinition>",
          "<inputData name=\"{d}\" id=\"_i\"><variable name=\"{d}\" typeRef=\"number\"/></inputData>",
          "<inputData name=\"Rec\" id=\"_rec\"><variable name=\"Rec\" typeRef=\"tRec\"/></inputData>",
          "<decision name=\"FromInput\" id=\"_d1\"><variable name=\"FromInput\" typeRef=\"number\"/>",
          "<informationRequirement id=\"_r1\"><requiredInput href=\"#_i\"/></informationRequirement>",
          "<literalExpression><text>{r} + 1</text></literalExpression></decision>",
          "<decision name=\"Q {d}\" id=\"_d2\"><variable name=\"Q {d}\" typeRef=\"number\"/>",
          "<informationRequirement id=\"_r2\"><requiredInput href=\"#_i\"/></informationRequirement>",
          "<literalExpression><text>{r} * 2</text></literalExpression></decision>",
          "<decision name=\"FromDecision\" id=\"_d3\"><variable name=\"FromDecision\" typeRef=\"number\"/>",
          "<informationRequirement id=\"_r3\"><requiredDecision href=\"#_d2\"/></informationRequirement>",
          "<literalExpression><text>Q {r} + 1</text></literalExpression></decision>",
          "<decision name=\"FromComponent\" id=\"_d4\"><variable name=\"FromComponent\"/>",
          "<informationRequirement id=\"_r4\"><requiredInput href=\"#_rec\"/></informationRequirement>",
          "<literalExpression><text>Rec</text></literalExpression></decision>",
          "</definitions>"
        ),
        head = DMN_HEAD,
        d = d,
        r = xml_text(&r)
      );
      let built = guarded(|| dmntk_model::parse(&xml).map_err(|e| e.to_string()).and_then(|defs| ModelEvaluator::new(&defs).map_err(|e| e.to_string())));
      let me = match built {
        Ok(Ok(me)) => me,
        other => {
          rep.disagree(Kind::ImplVsSpec, "declared", SIG_DECLARED_VALUE, &format!("model with input data, decision and item component named {:?}", decl), &format!("{:?}", other.map(|r| r.map(|_| ()))), "a model evaluator");
          continue;
        }
      };
      // the caller binds the values under the names themselves (`Name::new` of the parts)
      let mut input = FeelContext::default();
      input.set_entry(&name_of(parts), num(41));
      let mut rec = FeelContext::default();
      rec.set_entry(&name_of(parts), num(5));
      input.set_entry(&Name::from("Rec"), Value::Context(rec));
      for (invocable, want) in [("FromInput", "42".to_string()), ("FromDecision", "83".to_string()), ("FromComponent", format!("{{{}: 5}}", canonical))] {
        rep.hit(&format!("declared:model {}", invocable));
        rep.case(&format!("declared|e|{:?}|{:?}|{}", decl, r, invocable), true);
        let got = match guarded(|| me.evaluate_invocable(invocable, &input)) {
          Ok(v) => canon(&v),
          Err(p) => format!("panic: {}", p),
        };
        if got != want {
          rep.disagree(
            Kind::ImplVsSpec,
            "declared",
            SIG_DECLARED_VALUE,
            &format!("DMN model: input data / decision `Q …` / item component declared as {:?}, referred to as {:?}, input bound under Name::new({:?}); invocable {}", decl, r, parts, invocable),
            &got,
            &want,
          );
        }
      }
    }
  }
}

// ------------------------------------------------------------------------------------------
// positions (added by builder r01, who owns C01 / C13, for the seeded change C10-19; the generator lives in
// harness/src/c01/positions.rs): "wherever a name may appear in an expression ... names introduced by context
// entries, function parameters and iteration variables resolve the same way".  A name of every class (one word,
// several words, words joined by symbols, a name containing the words `partial` / `item`) introduced in every way a
// name can be introduced — for variable (first, second), some / every variable, the implicit `partial` of a for,
// the `item` of a filter, a key of a filtered item, formal parameter (argument by position / by name), earlier
// context entry, variable of the scope — and bound to a list and to a number, occurring in every syntactic position
// of the sub-expression in which it is visible: all well-typed compositions, depth <= 2 completely, of one wrapper
// per child slot of every node kind of the syntax tree (context entry values, named arguments, function bodies
// defined and invoked in place and from a later entry, filters, nested quantifiers, if branches, paths, interval end
// points and unary-test operands as qualified names ...).  The expectation is computed by an evaluator of its own
// over a value type of its own (no parser, no evaluator of the implementation); every case is evaluated by the
// Lean model of the evaluator too.  After the run the node kinds lying between the root and the occurrence of the
// name are compared with `enum AstNode` of feel/src/ast.rs (a kind that can hold an expression and was never on
// such a path is reported).
// ------------------------------------------------------------------------------------------

fn positions_family(cfg: &Cfg, rep: &mut Report, model: &mut Model) {
  use crate::c01::positions::{binder_label, run_positions, Binder, PosCase};
  let binders = [
    Binder::Partial,
    Binder::ForVariable,
    Binder::ForVariableSecond,
    Binder::SomeVariable,
    Binder::EveryVariable,
    Binder::FilterItem,
    Binder::FilterItemKey,
    Binder::FormalParameter,
    Binder::FormalParameterByName,
    Binder::EarlierContextEntry,
    Binder::ScopeVariable,
  ];
  let names = ["v9", "row no", "t-u", "ü/w", "j 2", "partial sum", "item count"];
  let sig = |pc: &PosCase| {
    let outer = pc.position.split(" > ").next().unwrap_or("").to_string();
    format!("a name introduced as {} does not resolve to its bound value when it occurs inside: {}", binder_label(pc.binder), outer)
  };
  run_positions(cfg, rep, model, "positions", &binders, &names, &sig);
}
