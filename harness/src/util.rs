//! Helpers shared by the per-property harness modules.

use std::panic::{catch_unwind, AssertUnwindSafe};

// ------------------------------------------------------------------------------------------
// heartbeat: a call of the implementation that never returns must not look like a tool error
// ------------------------------------------------------------------------------------------
static BEAT_MS: std::sync::atomic::AtomicU64 = std::sync::atomic::AtomicU64::new(0);
static LAST_CASE: std::sync::Mutex<String> = std::sync::Mutex::new(String::new());
static LAST_PANIC: std::sync::Mutex<String> = std::sync::Mutex::new(String::new());

fn now_ms() -> u64 {
  use std::time::{SystemTime, UNIX_EPOCH};
  SystemTime::now().duration_since(UNIX_EPOCH).map(|d| d.as_millis() as u64).unwrap_or(0)
}

/// The harness is alive (called around every guarded call of the implementation, every case counted and every
/// answer read from the model).
pub fn beat() {
  BEAT_MS.store(now_ms(), std::sync::atomic::Ordering::Relaxed);
}

/// Remembers the input the implementation is about to be given (shown when the run hangs).
pub fn note_case(text: &str) {
  beat();
  if let Ok(mut g) = LAST_CASE.lock() {
    g.clear();
    g.extend(text.chars().take(2000));
  }
}

pub fn note_panic(text: String) {
  if let Ok(mut g) = LAST_PANIC.lock() {
    *g = text;
  }
}

pub fn last_panic() -> String {
  LAST_PANIC.lock().map(|g| g.clone()).unwrap_or_default()
}

/// Ends the process with exit code 97 and a `HARNESS-HANG` line when nothing has moved for `limit_s` seconds.
pub fn start_watchdog(limit_s: u64) {
  beat();
  std::thread::spawn(move || loop {
    std::thread::sleep(std::time::Duration::from_secs(2));
    let idle = now_ms().saturating_sub(BEAT_MS.load(std::sync::atomic::Ordering::Relaxed)) / 1000;
    if idle > limit_s {
      let last = LAST_CASE.lock().map(|g| g.clone()).unwrap_or_default();
      eprintln!("HARNESS-HANG no progress for {} s; last input given to the implementation: {}", idle, last);
      std::process::exit(97);
    }
  });
}

/// Runs `f`, turning a panic of the implementation into `Err(message)`.
pub fn guarded<T>(f: impl FnOnce() -> T) -> Result<T, String> {
  beat();
  match catch_unwind(AssertUnwindSafe(f)) {
    Ok(v) => Ok(v),
    Err(e) => {
      let msg = if let Some(s) = e.downcast_ref::<&str>() {
        s.to_string()
      } else if let Some(s) = e.downcast_ref::<String>() {
        s.clone()
      } else {
        "panic".to_string()
      };
      Err(msg)
    }
  }
}

/// Runs this very executable as a child process (`vharness child <args…>`) with a wall-clock
/// limit, for cases that can abort the process (stack overflow, abort, OOM).
/// Returns (exit description, stdout).
pub fn child(args: &[&str], stdin_data: &str, timeout_ms: u64) -> (String, String) {
  use std::io::{Read, Write};
  use std::process::{Command, Stdio};
  let exe = std::env::current_exe().expect("current_exe");
  // a busy machine can refuse a new process for a moment (EAGAIN): that is no observation about the implementation
  let mut tries = 0;
  let mut ch = loop {
    match Command::new(&exe).arg("child").args(args).stdin(Stdio::piped()).stdout(Stdio::piped()).stderr(Stdio::null()).spawn() {
      Ok(c) => break c,
      Err(e) => {
        tries += 1;
        if tries > 150 {
          panic!("spawn child: {}", e);
        }
        std::thread::sleep(std::time::Duration::from_millis(200));
      }
    }
  };
  {
    let mut si = ch.stdin.take().unwrap();
    let _ = si.write_all(stdin_data.as_bytes());
  }
  // the output is read while the child runs: a child that writes more than the pipe holds would otherwise wait for
  // a reader for ever (and be taken for a run into the time limit)
  // (a small stack; when the system refuses one more thread the output is read after the child has ended, as before)
  let so = std::sync::Arc::new(std::sync::Mutex::new(ch.stdout.take()));
  let so2 = so.clone();
  let spawned = std::thread::Builder::new().stack_size(128 * 1024).spawn(move || {
    let mut out = Vec::new();
    if let Some(mut pipe) = so2.lock().ok().and_then(|mut g| g.take()) {
      let _ = pipe.read_to_end(&mut out);
    }
    String::from_utf8_lossy(&out).to_string()
  });
  let collect = move |spawned: std::io::Result<std::thread::JoinHandle<String>>| -> String {
    match spawned {
      Ok(h) => h.join().unwrap_or_default(),
      Err(_) => {
        let mut out = String::new();
        if let Some(mut pipe) = so.lock().ok().and_then(|mut g| g.take()) {
          let _ = pipe.read_to_string(&mut out);
        }
        out
      }
    }
  };
  let mut spawned = Some(spawned);
  let start = std::time::Instant::now();
  loop {
    match ch.try_wait() {
      Ok(Some(status)) => {
        let out = collect(spawned.take().unwrap());
        let desc = if status.success() {
          "ok".to_string()
        } else {
          #[cfg(unix)]
          {
            use std::os::unix::process::ExitStatusExt;
            if let Some(sig) = status.signal() {
              format!("signal:{}", sig)
            } else {
              format!("exit:{}", status.code().unwrap_or(-1))
            }
          }
          #[cfg(not(unix))]
          {
            format!("exit:{}", status.code().unwrap_or(-1))
          }
        };
        return (desc, out);
      }
      Ok(None) => {
        if start.elapsed().as_millis() as u64 > timeout_ms {
          let _ = ch.kill();
          let _ = ch.wait();
          // what the child wrote before it was stopped (callers that ignore it lose nothing)
          let out = collect(spawned.take().unwrap());
          return ("timeout".to_string(), out);
        }
        std::thread::sleep(std::time::Duration::from_millis(2));
      }
      Err(_) => return ("wait-error".to_string(), String::new()),
    }
  }
}
