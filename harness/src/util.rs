//! Helpers shared by the per-property harness modules.

use std::panic::{catch_unwind, AssertUnwindSafe};

/// Runs `f`, turning a panic of the implementation into `Err(message)`.
pub fn guarded<T>(f: impl FnOnce() -> T) -> Result<T, String> {
  match catch_unwind(AssertUnwindSafe(f)) {
    Ok(v) => Ok(v),
    Err(e) => {
      let msg = if let Some(s) = e.downcast_ref::<&str>() {
        s.to_string()
      } else if let Some(s) = e.downcast_ref::<String>() {
        s.clone()
      } else {
        "panic".to_string()
      };
      Err(msg)
    }
  }
}

/// Runs this very executable as a child process (`vharness child <args…>`) with a wall-clock
/// limit, for cases that can abort the process (stack overflow, abort, OOM).
/// Returns (exit description, stdout).
pub fn child(args: &[&str], stdin_data: &str, timeout_ms: u64) -> (String, String) {
  use std::io::{Read, Write};
  use std::process::{Command, Stdio};
  let exe = std::env::current_exe().expect("current_exe");
  let mut ch = Command::new(exe)
    .arg("child")
    .args(args)
    .stdin(Stdio::piped())
    .stdout(Stdio::piped())
    .stderr(Stdio::null())
    .spawn()
    .expect("spawn child");
  {
    let mut si = ch.stdin.take().unwrap();
    let _ = si.write_all(stdin_data.as_bytes());
  }
  let start = std::time::Instant::now();
  loop {
    match ch.try_wait() {
      Ok(Some(status)) => {
        let mut out = String::new();
        let _ = ch.stdout.take().unwrap().read_to_string(&mut out);
        let desc = if status.success() {
          "ok".to_string()
        } else {
          #[cfg(unix)]
          {
            use std::os::unix::process::ExitStatusExt;
            if let Some(sig) = status.signal() {
              format!("signal:{}", sig)
            } else {
              format!("exit:{}", status.code().unwrap_or(-1))
            }
          }
          #[cfg(not(unix))]
          {
            format!("exit:{}", status.code().unwrap_or(-1))
          }
        };
        return (desc, out);
      }
      Ok(None) => {
        if start.elapsed().as_millis() as u64 > timeout_ms {
          let _ = ch.kill();
          let _ = ch.wait();
          return ("timeout".to_string(), String::new());
        }
        std::thread::sleep(std::time::Duration::from_millis(2));
      }
      Err(_) => return ("wait-error".to_string(), String::new()),
    }
  }
}
