//! What a harness run reports to `check`: counts, samples, distribution, disagreements.

use serde_json::{json, Map, Value as J};
use std::collections::{BTreeMap, HashSet};
use std::hash::{Hash, Hasher};

/// impl ⊭ spec (the property itself fails on the implementation) versus impl ≠ model
/// (the tie between the Lean model and the code is broken).
#[derive(Clone, Copy, PartialEq, Eq, Debug)]
pub enum Kind {
  ImplVsSpec,
  ImplVsModel,
}

pub struct Disagreement {
  pub kind: Kind,
  /// correspondence family / law name, e.g. `equiv_symm` or `coerced`
  pub family: String,
  /// specific, stable description of the failing site; matched against known_findings.json
  pub signature: String,
  /// the concrete input (request line or expression text)
  pub input: String,
  pub implementation: String,
  pub expected: String,
}

pub struct Report {
  pub property: String,
  pub evaluations: u64,
  distinct: HashSet<u64>,
  pub rule: String,
  pub samples: Vec<J>,
  pub distribution: BTreeMap<String, u64>,
  pub disagreements: Vec<Disagreement>,
  pub model_requests: u64,
  pub exhaustive: bool,
  pub notes: Vec<String>,
  pub extra: Map<String, J>,
}

impl Report {
  pub fn new(property: &str, rule: &str) -> Report {
    Report {
      property: property.to_string(),
      evaluations: 0,
      distinct: HashSet::new(),
      rule: rule.to_string(),
      samples: vec![],
      distribution: BTreeMap::new(),
      disagreements: vec![],
      model_requests: 0,
      exhaustive: false,
      notes: vec![],
      extra: Map::new(),
    }
  }
  /// Counts one explored case; `nontrivial` by the property's stated rule; `key` identifies
  /// the case (distinct cases are counted through a hash set).
  pub fn case(&mut self, key: &str, nontrivial: bool) {
    crate::util::beat();
    self.evaluations += 1;
    if nontrivial {
      let mut h = std::collections::hash_map::DefaultHasher::new();
      key.hash(&mut h);
      self.distinct.insert(h.finish());
    }
  }
  pub fn hit(&mut self, bucket: &str) {
    *self.distribution.entry(bucket.to_string()).or_insert(0) += 1;
  }
  pub fn sample(&mut self, s: J) {
    if self.samples.len() < 12 {
      self.samples.push(s);
    }
  }
  pub fn disagree(&mut self, kind: Kind, family: &str, signature: &str, input: &str, implementation: &str, expected: &str) {
    // keep the report bounded: at most 50 per signature
    let n = self.disagreements.iter().filter(|d| d.signature == signature).count();
    self.hit(&format!("disagreement:{}", signature));
    if n < 50 {
      self.disagreements.push(Disagreement {
        kind,
        family: family.to_string(),
        signature: signature.to_string(),
        input: input.to_string(),
        implementation: implementation.to_string(),
        expected: expected.to_string(),
      });
    }
  }
  pub fn to_json(&self) -> J {
    let ds: Vec<J> = self
      .disagreements
      .iter()
      .map(|d| {
        json!({
          "kind": match d.kind { Kind::ImplVsSpec => "impl_vs_spec", Kind::ImplVsModel => "impl_vs_model" },
          "family": d.family, "signature": d.signature, "input": d.input,
          "implementation": d.implementation, "expected": d.expected,
        })
      })
      .collect();
    let mut m = Map::new();
    m.insert("property".into(), json!(self.property));
    m.insert("evaluations".into(), json!(self.evaluations));
    m.insert("distinct_nontrivial".into(), json!(self.distinct.len()));
    m.insert("rule".into(), json!(self.rule));
    m.insert("samples".into(), json!(self.samples));
    m.insert("distribution".into(), json!(self.distribution));
    m.insert("disagreements".into(), json!(ds));
    m.insert("model_requests".into(), json!(self.model_requests));
    m.insert("exhaustive".into(), json!(self.exhaustive));
    m.insert("notes".into(), json!(self.notes));
    for (k, v) in &self.extra {
      m.insert(k.clone(), v.clone());
    }
    J::Object(m)
  }
}
